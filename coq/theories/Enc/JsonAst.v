(* Reference (tree-level) semantics of the encoders: what JSON tree an entry
   denotes.  Independent of the byte-level mechanics of json_encoder.go: there is
   no "last byte" test and no openNamespaces counter here; namespaces are a zipper
   of open frames.  It follows the documented reading of Field.AddTo / encodeError
   (which members a field contributes, '<key>Error' on failure, early return of
   zap's own array wrappers).  JsonRefine.v proves the byte-level encoder prints
   exactly this tree. *)
From Coq Require Import List ZArith NArith Bool.
From Coq.Strings Require Import Byte.
Import ListNotations.
From Zap Require Import Base.Wire Enc.Bytes Enc.Decimal Enc.Base64 Enc.Fields Enc.JsonEnc.

Inductive atom :=
| ANum (txt : bytes)     (* a number token *)
| AStr (s : bytes)       (* a string with content s, printed escaped *)
| AQ (body : bytes)      (* a string printed verbatim between quotes (NaN, +Inf, complex numbers) *)
| ATrue | AFalse
| ARaw (txt : bytes).    (* JSON text produced by encoding/json *)
Inductive jt := TA (a : atom) | TArr (l : list jt) | TObj (l : list (bytes * jt)).
Definition member := (bytes * jt)%type.

Section Print.
Variable sp : bool.
Definition sepb : bytes := COMMA :: (if sp then [SPACE] else []).
Definition colb : bytes := COLON :: (if sp then [SPACE] else []).
Definition atxt (a : atom) : bytes :=
  match a with
  | ANum t | ARaw t => t
  | AStr s => quoted s
  | AQ b => [QUOTE] ++ b ++ [QUOTE]
  | ATrue => s_true | AFalse => s_false
  end.
Fixpoint join (sep : bytes) (l : list bytes) : bytes :=
  match l with [] => [] | [x] => x | x :: r => x ++ sep ++ join sep r end.
Fixpoint pv (v : jt) : bytes :=
  match v with
  | TA a => atxt a
  | TArr l => [LBRACK] ++ join sepb ((fix go (l : list jt) := match l with [] => [] | x :: r => pv x :: go r end) l) ++ [RBRACK]
  | TObj l => [LBRACE] ++ join sepb ((fix go (l : list member) := match l with [] => [] | (k, x) :: r => (quoted k ++ colb ++ pv x) :: go r end) l) ++ [RBRACE]
  end.
Definition pm (m : member) : bytes := quoted (fst m) ++ colb ++ pv (snd m).
Definition popen (ms : list member) : bytes := join sepb (map pm ms).
Definition pelems (vs : list jt) : bytes := join sepb (map pv vs).
End Print.

(* namespace zipper: members before each still-open namespace key, innermost members *)
Definition frame := (list member * bytes)%type.
Record octx := { frames : list frame; cur : list member }.
Definition octx0 : octx := {| frames := []; cur := [] |}.
Definition push (o : octx) (m : member) : octx := {| frames := frames o; cur := cur o ++ [m] |}.
Definition open_ns (o : octx) (k : bytes) : octx := {| frames := frames o ++ [(cur o, k)]; cur := [] |}.
Fixpoint close_frames (fs : list frame) (inner : list member) : list member :=
  match fs with
  | [] => inner
  | (ms, k) :: r => ms ++ [(k, TObj (close_frames r inner))]
  end.
Definition close (o : octx) : list member := close_frames (frames o) (cur o).
Definition str_m (k v : bytes) : member := (k, TA (AStr v)).
Definition err_m (k : bytes) (e : option bytes) (o : octx) : octx :=
  match e with None => o | Some msg => push o (str_m (k ++ s_Error) msg) end.

Definition float_atom (f : fv) : atom :=
  match fcls f with
  | FNaN => AQ [x4e; x61; x4e] | FPInf => AQ [x2b; x49; x6e; x66] | FNInf => AQ [x2d; x49; x6e; x66]
  | FFin => ANum (ftxt f)
  end.
Definition cplx_atom (re im : fv) (ge0 : bool) : atom :=
  AQ (ftxt re ++ (if ge0 then [x2b] else []) ++ ftxt im ++ [x69]).
Definition bool_atom (b : bool) : atom := if b then ATrue else AFalse.
Definition refl_atom (r : rv) : sum atom bytes :=
  match r with RNil => inl (ARaw s_null) | ROk t => inl (ARaw t) | RErr m => inr m end.

Section Ev.
Variable c : cfg.
Definition rend_atom (r : rend) : atom :=
  match r with
  | RFloat f => float_atom f
  | RInt z => ANum (print_Z z)
  | RStr s => AStr s
  | RLayout s => if q_layout_escaped c then AStr s else AQ s
  end.
Definition time_atom (t : tv) : atom :=
  match e_time c with SActive => rend_atom (t_rend t) | _ => ANum (print_Z (t_nanos t)) end.
Definition dur_atom (d : dv) : atom :=
  match e_duration c with SActive => rend_atom (d_rend d) | _ => ANum (print_Z (d_nanos d)) end.

(* an error value: members it contributes under key k, and the failure it reports *)
Fixpoint ev_err (k : bytes) (e : errv) (o : octx) {struct e} : octx * option bytes :=
  match e with
  | ErrV msg verbose group =>
      match msg with
      | ONilPtr => (push o (str_m k s_nilptr), None)
      | OPanic m => (o, Some (panic_err m))
      | OOk basic =>
          let o1 := push o (str_m k basic) in
          match group with
          | Some causes =>
              let '(vs, err) :=
                (fix go (l : list (option errv)) {struct l} : list jt * option bytes :=
                   match l with
                   | [] => ([], None)
                   | None :: r => go r
                   | Some ce :: r =>
                       let '(oc, e1) := ev_err s_error ce octx0 in
                       let v := TObj (close oc) in
                       match e1 with
                       | Some m => ([v], Some m)
                       | None => let '(vs, e2) := go r in (v :: vs, e2)
                       end
                   end) causes in
              (push o1 (k ++ s_Causes, TArr vs), err)
          | None =>
              match verbose with
              | Some v => if bytes_eqb v basic then (o1, None) else (push o1 (str_m (k ++ s_Verbose) v), None)
              | None => (o1, None)
              end
          end
      end
  end.

Fixpoint ev_fld (f : fld) (o : octx) {struct f} : octx :=
  match f with
  | FBool k v => push o (k, TA (bool_atom v))
  | FInt k z | FUint k z => push o (k, TA (ANum (print_Z z)))
  | FFloat k v => push o (k, TA (float_atom v))
  | FString k v | FByteString k v => push o (str_m k v)
  | FBinary k v => push o (str_m k (encode64 v))
  | FComplex k re im ge0 => push o (k, TA (cplx_atom re im ge0))
  | FDuration k d => push o (k, TA (dur_atom d))
  | FTime k t => push o (k, TA (time_atom t))
  | FReflect k r =>
      match refl_atom r with
      | inl a => push o (k, TA a)
      | inr msg => err_m k (Some msg) o
      end
  | FNamespace k => open_ns o k
  | FSkip => o
  | FStringer k out =>
      match out with
      | OOk v => push o (str_m k v)
      | ONilPtr => push o (str_m k s_nilptr)
      | OPanic m => err_m k (Some (panic_err m)) o
      end
  | FError k e => let '(o1, err) := ev_err k e o in err_m k err o1
  | FObject k m => let '(v, err) := ev_obj m in err_m k err (push o (k, v))
  | FInline m =>
      match m with
      | Obj calls ret =>
          err_m [] ret ((fix go (l : list fld) (o : octx) {struct l} : octx :=
                           match l with [] => o | f :: r => go r (ev_fld f o) end) calls o)
      end
  | FArray k a => let '(v, err) := ev_arr a in err_m k err (push o (k, v))
  end
with ev_obj (m : objm) {struct m} : jt * option bytes :=
  match m with
  | Obj calls ret =>
      (TObj (close ((fix go (l : list fld) (o : octx) {struct l} : octx :=
                       match l with [] => o | f :: r => go r (ev_fld f o) end) calls octx0)), ret)
  end
with ev_arr (a : arrm) {struct a} : jt * option bytes :=
  match a with
  | Arr elems ret stop =>
      let '(vs, early) :=
        (fix go (l : list elem) {struct l} : list jt * option bytes :=
           match l with
           | [] => ([], None)
           | e :: r =>
               let '(v, err) := ev_elem e in
               match err with
               | Some m => if stop then (match v with Some x => [x] | None => [] end, Some m)
                           else let '(vs, e2) := go r in ((match v with Some x => x :: vs | None => vs end), e2)
               | None => let '(vs, e2) := go r in ((match v with Some x => x :: vs | None => vs end), e2)
               end
           end) elems in
      (TArr vs, match early with Some m => Some m | None => ret end)
  end
with ev_elem (e : elem) {struct e} : option jt * option bytes :=   (* the element (if any bytes are written) and the error *)
  match e with
  | EBool v => (Some (TA (bool_atom v)), None)
  | EInt z | EUint z => (Some (TA (ANum (print_Z z))), None)
  | EFloat v => (Some (TA (float_atom v)), None)
  | EStr v | EBStr v => (Some (TA (AStr v)), None)
  | ECplx re im ge0 => (Some (TA (cplx_atom re im ge0)), None)
  | EDur d => (Some (TA (dur_atom d)), None)
  | ETime t => (Some (TA (time_atom t)), None)
  | ERefl r => match refl_atom r with inl a => (Some (TA a), None) | inr msg => (None, Some msg) end
  | EObj m => let '(v, err) := ev_obj m in (Some v, err)
  | EArr a => let '(v, err) := ev_arr a in (Some v, err)
  | EFail msg => (None, Some msg)
  end.

Definition ev_flds (fs : list fld) (o : octx) : octx := fold_left (fun o f => ev_fld f o) fs o.
Definition ev_with_chain (ctxs : list (list fld)) : octx := fold_left (fun o fs => ev_flds fs o) ctxs octx0.

(* the members of one entry: metadata in the fixed order with the omission rules,
   then the context, then the call-site fields (namespaces nest what follows),
   then - at top level, after every namespace is closed - the stack trace *)
Definition meta_members (ent : entry) : list member :=
  (if negb (is_nil (k_level c)) && negb (match e_level c with SNil => true | _ => false end)
   then [str_m (k_level c) (match e_level c with SActive => lvl_text ent | _ => lvl_string ent end)] else []) ++
  (if negb (is_nil (k_time c)) && negb (time_zero ent) then [(k_time c, TA (time_atom (time_val ent)))] else []) ++
  (if negb (is_nil (name ent)) && negb (is_nil (k_name c)) then [str_m (k_name c) (name ent)] else []) ++
  (if caller_defined ent then
     (if negb (is_nil (k_caller c)) then
        match e_caller c with
        | SNil => []
        | SNoop => [str_m (k_caller c) (caller_string ent)]
        | SActive => [str_m (k_caller c) (caller_text ent)]
        end else []) ++
     (if negb (is_nil (k_function c)) then [str_m (k_function c) (func ent)] else [])
   else []) ++
  (if negb (is_nil (k_message c)) then [str_m (k_message c) (message ent)] else []).
Definition stack_members (ent : entry) : list member :=
  if negb (is_nil (stack ent)) && negb (is_nil (k_stack c)) then [str_m (k_stack c) (stack ent)] else [].

Definition entry_members (ctxs : list (list fld)) (ent : entry) (fs : list fld) : list member :=
  meta_members ent ++ close (ev_flds fs (ev_with_chain ctxs)) ++ stack_members ent.
End Ev.

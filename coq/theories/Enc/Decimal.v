(* strconv.AppendInt(_, i, 10) / AppendUint: decimal printing, modelled (not an oracle). *)
From Coq Require Import List ZArith NArith Bool Lia.
From Coq.Strings Require Import Byte.
Import ListNotations.
From Zap Require Import Base.Wire Enc.Bytes.

Definition digit (n : N) : byte := hexdigit n.   (* n < 10 *)

(* digits of a positive number, most significant first; fuel = number of binary digits + 1 suffices *)
Fixpoint digits_fuel (fuel : nat) (n : N) (acc : bytes) : bytes :=
  match fuel with
  | O => acc
  | S f => if (n <? 10)%N then digit n :: acc
           else digits_fuel f (n / 10)%N (digit (n mod 10)%N :: acc)
  end.
Definition print_N (n : N) : bytes := digits_fuel (S (N.to_nat (N.size n))) n [].
Definition print_Z (z : Z) : bytes :=
  match z with
  | Z0 => [x30]
  | Zpos p => print_N (Npos p)
  | Zneg p => x2d :: print_N (Npos p)
  end.

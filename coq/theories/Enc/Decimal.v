(* strconv.AppendInt(_, i, 10) / AppendUint: decimal printing, modelled (not an
   oracle) through the standard library's binary-to-decimal conversion N.to_uint,
   whose round trip and normalisation (no leading zero) are proved in
   Coq.Numbers.DecimalN / DecimalFacts. *)
From Coq Require Import List ZArith NArith Bool Lia Decimal.
From Coq.Strings Require Import Byte.
Import ListNotations.
From Zap Require Import Base.Wire Enc.Bytes.

Fixpoint uint_bytes (d : Decimal.uint) : bytes :=
  match d with
  | Nil => []
  | D0 r => x30 :: uint_bytes r | D1 r => x31 :: uint_bytes r | D2 r => x32 :: uint_bytes r
  | D3 r => x33 :: uint_bytes r | D4 r => x34 :: uint_bytes r | D5 r => x35 :: uint_bytes r
  | D6 r => x36 :: uint_bytes r | D7 r => x37 :: uint_bytes r | D8 r => x38 :: uint_bytes r
  | D9 r => x39 :: uint_bytes r
  end.
Definition print_N (n : N) : bytes := uint_bytes (N.to_uint n).
Definition print_Z (z : Z) : bytes :=
  match z with
  | Z0 => [x30]
  | Zpos p => print_N (Npos p)
  | Zneg p => x2d :: print_N (Npos p)
  end.

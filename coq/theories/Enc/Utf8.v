(* utf8.DecodeRune / DecodeRuneInString as far as safeAppendStringLike uses it:
   for a first byte >= 0x80, is the prefix a well-formed sequence (Unicode table
   3-7; Go's first/acceptRanges tables), and how long is it.  An ill-formed or
   truncated sequence decodes as (RuneError, 1). *)
From Coq Require Import List ZArith NArith Bool Lia.
From Coq.Strings Require Import Byte.
Import ListNotations.
From Zap Require Import Base.Wire Enc.Bytes.
Local Open Scope N_scope.

Definition in_rng (lo hi : N) (b : byte) : bool := (lo <=? bN b) && (bN b <=? hi).
Definition cont (b : byte) : bool := in_rng 0x80 0xBF b.

(* size of the well-formed sequence at the head of [s] (whose first byte is >= 0x80), or None *)
Definition decode_multi (s : bytes) : option nat :=
  match s with
  | b0 :: r =>
      if in_rng 0xC2 0xDF b0 then
        match r with b1 :: _ => if cont b1 then Some 2%nat else None | _ => None end
      else if in_rng 0xE0 0xEF b0 then
        match r with
        | b1 :: b2 :: _ =>
            let lo := if bN b0 =? 0xE0 then 0xA0 else 0x80 in
            let hi := if bN b0 =? 0xED then 0x9F else 0xBF in
            if in_rng lo hi b1 && cont b2 then Some 3%nat else None
        | _ => None
        end
      else if in_rng 0xF0 0xF4 b0 then
        match r with
        | b1 :: b2 :: b3 :: _ =>
            let lo := if bN b0 =? 0xF0 then 0x90 else 0x80 in
            let hi := if bN b0 =? 0xF4 then 0x8F else 0xBF in
            if in_rng lo hi b1 && cont b2 && cont b3 then Some 4%nat else None
        | _ => None
        end
      else None
  | [] => None
  end.

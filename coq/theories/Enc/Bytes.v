(* Byte-string helpers and ASCII constants shared by the encoder models. *)
From Coq Require Import List ZArith NArith Bool Lia.
From Coq.Strings Require Import Byte.
Import ListNotations.
From Zap Require Import Base.Wire.

Definition LBRACE : byte := x7b.  Definition RBRACE : byte := x7d.
Definition LBRACK : byte := x5b.  Definition RBRACK : byte := x5d.
Definition COMMA : byte := x2c.   Definition COLON : byte := x3a.
Definition QUOTE : byte := x22.   Definition SPACE : byte := x20.
Definition BSLASH : byte := x5c.  Definition NL : byte := x0a.
Definition CR : byte := x0d.      Definition TAB : byte := x09.

Definition bN (b : byte) : N := Byte.to_N b.
Definition ascii (l : list N) : bytes := map (fun n => match Byte.of_N n with Some b => b | None => x00 end) l.

Definition lastb (b : bytes) : option byte := match rev b with [] => None | x :: _ => Some x end.
Definition is_nil {A} (l : list A) : bool := match l with [] => true | _ => false end.

(* string literals used by the encoder *)
Definition s_true : bytes := [x74; x72; x75; x65].
Definition s_false : bytes := [x66; x61; x6c; x73; x65].
Definition s_null : bytes := [x6e; x75; x6c; x6c].
Definition s_NaN_q : bytes := [x22; x4e; x61; x4e; x22].          (* "NaN" with quotes *)
Definition s_PInf_q : bytes := [x22; x2b; x49; x6e; x66; x22].    (* "+Inf" *)
Definition s_NInf_q : bytes := [x22; x2d; x49; x6e; x66; x22].    (* "-Inf" *)
Definition s_ufffd : bytes := [x5c; x75; x66; x66; x66; x64].     (* � *)
Definition s_u00 : bytes := [x5c; x75; x30; x30].                 (* \u00 *)
Definition s_Error : bytes := [x45; x72; x72; x6f; x72].          (* Error *)
Definition s_error : bytes := [x65; x72; x72; x6f; x72].          (* error *)
Definition s_Verbose : bytes := [x56; x65; x72; x62; x6f; x73; x65].
Definition s_Causes : bytes := [x43; x61; x75; x73; x65; x73].
Definition s_nilptr : bytes := [x3c; x6e; x69; x6c; x3e].         (* <nil> *)
Definition s_PANIC : bytes := [x50; x41; x4e; x49; x43; x3d].     (* PANIC= *)

Definition hexdigit (n : N) : byte :=
  match n with
  | 0%N => x30 | 1%N => x31 | 2%N => x32 | 3%N => x33 | 4%N => x34 | 5%N => x35 | 6%N => x36 | 7%N => x37
  | 8%N => x38 | 9%N => x39 | 10%N => x61 | 11%N => x62 | 12%N => x63 | 13%N => x64 | 14%N => x65 | _ => x66
  end.

(* Model of zapcore's consoleEncoder (zapcore/console_encoder.go) on top of the JSON
   encoder model in spaced mode, and the documented shape of a console line. *)
From Coq Require Import List ZArith NArith Bool.
From Coq.Strings Require Import Byte.
Import ListNotations.
From Zap Require Import Base.Wire Enc.Bytes Enc.Fields Enc.JsonEnc Enc.JsonAst.

Section C.
Variable c : cfg.

(* NewConsoleEncoder: an empty separator means a tab *)
Definition csep : bytes := if is_nil (console_sep c) then [TAB] else console_sep c.

(* ---- the code: columns are collected in a slice encoder, printed with the separator
   between consecutive elements; then message, context, stack, line ending ---- *)
Definition col_elems (ent : entry) : list bytes :=
  (if negb (is_nil (k_time c)) && negb (match e_time c with SNil => true | _ => false end) && negb (time_zero ent)
   then match e_time c with SActive => [time_col ent] | _ => [] end else []) ++
  (if negb (is_nil (k_level c)) && negb (match e_level c with SNil => true | _ => false end)
   then match e_level c with SActive => [lvl_text ent] | _ => [] end else []) ++
  (if negb (is_nil (name ent)) && negb (is_nil (k_name c))
   then match e_name c with SNoop => [] | _ => [name ent] end else []) ++
  (if caller_defined ent then
     (if negb (is_nil (k_caller c)) && negb (match e_caller c with SNil => true | _ => false end)
      then match e_caller c with SActive => [caller_text ent] | _ => [] end else []) ++
     (if negb (is_nil (k_function c)) then [func ent] else [])
   else []).
Fixpoint print_elems (l : list bytes) (first : bool) : bytes :=
  match l with
  | [] => []
  | x :: r => (if first then [] else csep) ++ x ++ print_elems r false
  end.
Definition sep_if_nonempty (line : bytes) : bytes := if is_nil line then line else line ++ csep.

Definition console_encode (ctx : st) (ent : entry) (fs : list fld) : bytes :=
  let l1 := print_elems (col_elems ent) true in
  let l2 := if negb (is_nil (k_message c)) then sep_if_nonempty l1 ++ message ent else l1 in
  (* writeContext *)
  let cb := buf (close_ns (enc_flds c true fs ctx)) in
  let l3 := if is_nil cb then l2 else sep_if_nonempty l2 ++ [LBRACE] ++ cb ++ [RBRACE] in
  let l4 := if negb (is_nil (stack ent)) && negb (is_nil (k_stack c)) then l3 ++ [NL] ++ stack ent else l3 in
  l4 ++ resolved_le c.

(* ---- the documented shape ---- *)
Fixpoint joinb (sep : bytes) (l : list bytes) : bytes :=
  match l with [] => [] | [x] => x | x :: r => x ++ sep ++ joinb sep r end.
(* glue two parts with the separator unless the left one is empty *)
Definition glue (a b : bytes) : bytes := if is_nil a then b else a ++ csep ++ b.
Definition console_spec (ctxs : list (list fld)) (ent : entry) (fs : list fld) : bytes :=
  let cols := joinb csep (col_elems ent) in
  let head := if negb (is_nil (k_message c)) then glue cols (message ent) else cols in
  let members := close (ev_flds c fs (ev_with_chain c ctxs)) in
  let body := match members with [] => head | _ => glue head (pv true (TObj members)) end in
  let body := if negb (is_nil (stack ent)) && negb (is_nil (k_stack c)) then body ++ [NL] ++ stack ent else body in
  body ++ resolved_le c.
End C.

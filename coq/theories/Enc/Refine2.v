(* Atoms: every scalar the encoder writes is one token that ends in a value byte. *)
From Coq Require Import List ZArith NArith Bool Lia DecimalPos.
From Coq.Strings Require Import Byte.
Import ListNotations.
From Zap Require Import Base.Wire Enc.Bytes Enc.Decimal Enc.Fields Enc.JsonEnc Enc.JsonParse Enc.JsonAst Enc.Wf Enc.Refine1.

Lemma hexdigit_nosep m : nosep (hexdigit m) = false.
Proof.
  destruct m as [|p]; [reflexivity|].
  destruct p as [[[[p|p|]|[p|p|]|]|[[p|p|]|[p|p|]|]|]|[[[p|p|]|[p|p|]|]|[[p|p|]|[p|p|]|]|]|]; reflexivity.
Qed.

Definition isdig (b : byte) : Prop := exists m, b = hexdigit m.
Lemma uint_bytes_digs d : Forall isdig (uint_bytes d).
Proof.
  induction d; cbn [uint_bytes]; constructor; auto;
    [exists 0%N|exists 1%N|exists 2%N|exists 3%N|exists 4%N|exists 5%N|exists 6%N|exists 7%N|exists 8%N|exists 9%N]; reflexivity.
Qed.
Lemma uint_bytes_nonnil d : d <> Decimal.Nil -> uint_bytes d <> [].
Proof. destruct d; cbn; congruence. Qed.
Lemma print_N_shape n : print_N n <> [] /\ Forall isdig (print_N n).
Proof.
  unfold print_N. split; [|apply uint_bytes_digs]. apply uint_bytes_nonnil.
  destruct n as [|p]; [discriminate|]. cbn [N.to_uint]. apply DecimalPos.Unsigned.to_uint_nonnil.
Qed.
Lemma digs_tail l : l <> [] -> Forall isdig l -> forall a, tail_ok (a ++ l).
Proof.
  intros Hn Hd a. destruct (exists_last Hn) as [l' [x ->]]. apply Forall_app in Hd as [_ Hd].
  inversion Hd as [|? ? [m ->] _]; subst. rewrite app_assoc. apply tail_ok_snoc. apply hexdigit_nosep.
Qed.
Lemma print_Z_tail z : tail_ok (print_Z z).
Proof.
  destruct z as [|p|p]; cbn [print_Z].
  - apply (tail_ok_snoc [] x30). reflexivity.
  - destruct (print_N_shape (Npos p)) as [H1 H2]. exact (digs_tail _ H1 H2 []).
  - destruct (print_N_shape (Npos p)) as [H1 H2]. exact (digs_tail _ H1 H2 [x2d]).
Qed.

Section S.
Variable c : cfg.
Variable sp : bool.

Lemma float_atom_txt f : atxt (float_atom f) = float_txt f.
Proof. unfold float_atom, float_txt. destruct (fcls f); reflexivity. Qed.
Lemma float_tail f : wf_fv f = true -> tail_ok (float_txt f).
Proof.
  unfold wf_fv, float_txt. intros H. apply andb_true_iff in H as [_ H]. destruct (fcls f).
  - apply (tail_ok_snoc [x22; x4e; x61; x4e] x22). reflexivity.
  - apply (tail_ok_snoc [x22; x2b; x49; x6e; x66] x22). reflexivity.
  - apply (tail_ok_snoc [x22; x2d; x49; x6e; x66] x22). reflexivity.
  - apply andb_true_iff in H as [H _]. apply andb_true_iff in H as [H _]. now apply tok_okb_tail.
Qed.
Lemma bool_tail b : tail_ok (atxt (bool_atom b)).
Proof. destruct b; cbn; [apply (tail_ok_snoc [x74; x72; x75] x65)|apply (tail_ok_snoc [x66; x61; x6c; x73] x65)]; reflexivity. Qed.
Lemma aq_tail b : tail_ok (atxt (AQ b)).
Proof. cbn [atxt]. rewrite app_assoc. apply tail_ok_snoc. reflexivity. Qed.

Lemma rend_tail r : wf_rend r = true -> tail_ok (atxt (rend_atom c r)).
Proof.
  destruct r as [f|z|s|s]; cbn [rend_atom wf_rend]; intros H.
  - rewrite float_atom_txt. now apply float_tail.
  - apply print_Z_tail.
  - apply quoted_tail.
  - destruct (q_layout_escaped c); [apply quoted_tail|apply aq_tail].
Qed.
Lemma ap_rend_eq r b : ap_rend c sp r b = add_sep sp b ++ atxt (rend_atom c r).
Proof.
  destruct r as [f|z|s|s]; cbn [ap_rend rend_atom].
  - unfold ap_float, ap_raw. now rewrite float_atom_txt.
  - reflexivity.
  - reflexivity.
  - unfold ap_layout, ap_raw. destruct (q_layout_escaped c); reflexivity.
Qed.
Lemma grew_app b t : t <> [] -> grew b (add_sep sp b ++ t) = true.
Proof.
  intros H. unfold grew. apply negb_true_iff, Nat.eqb_neq. rewrite app_length.
  pose proof (add_sep_len sp b). destruct t; [congruence|cbn; lia].
Qed.
Lemma grew_same b : grew b b = false.
Proof. unfold grew. now rewrite Nat.eqb_refl. Qed.

Lemma ap_time_eq t b : wf_tv t = true -> ap_time c sp t b = add_sep sp b ++ atxt (time_atom c t).
Proof.
  intros H. unfold ap_time, time_atom. destruct (e_time c).
  - now rewrite grew_same.
  - now rewrite grew_same.
  - rewrite ap_rend_eq, grew_app; [reflexivity|]. apply tail_ok_nonnil. now apply rend_tail.
Qed.
Lemma time_tail t : wf_tv t = true -> tail_ok (atxt (time_atom c t)).
Proof. intros H. unfold time_atom. destruct (e_time c); try apply print_Z_tail. now apply rend_tail. Qed.
Lemma ap_dur_eq d b : wf_dv d = true -> ap_dur c sp d b = add_sep sp b ++ atxt (dur_atom c d).
Proof.
  intros H. unfold ap_dur, dur_atom. destruct (e_duration c).
  - now rewrite grew_same.
  - now rewrite grew_same.
  - rewrite ap_rend_eq, grew_app; [reflexivity|]. apply tail_ok_nonnil. now apply rend_tail.
Qed.
Lemma dur_tail d : wf_dv d = true -> tail_ok (atxt (dur_atom c d)).
Proof. intros H. unfold dur_atom. destruct (e_duration c); try apply print_Z_tail. now apply rend_tail. Qed.
Lemma cplx_eq re im ge0 b : ap_complex sp re im ge0 b = add_sep sp b ++ atxt (cplx_atom re im ge0).
Proof. unfold ap_complex, ap_raw, cplx_atom. cbn [atxt]. now rewrite <- !app_assoc. Qed.

Lemma raw_tail t : raw_okb t = true -> tail_ok t.
Proof. unfold raw_okb. intros H. apply andb_true_iff in H as [H _]. apply andb_true_iff in H as [H _]. apply andb_true_iff in H as [H _]. now apply tok_okb_tail. Qed.
Lemma null_tail : tail_ok s_null.
Proof. apply (tail_ok_snoc [x6e; x75; x6c] x6c). reflexivity. Qed.
End S.

(* Basic facts for the refinement proof: last-byte reasoning, printing of open
   contexts, closing of namespace frames. *)
From Coq Require Import List ZArith NArith Bool Lia.
From Coq.Strings Require Import Byte.
Import ListNotations.
From Zap Require Import Base.Wire Enc.Bytes Enc.Decimal Enc.Fields Enc.JsonEnc Enc.JsonParse Enc.JsonAst Enc.Wf.

Lemma lastb_snoc b x : lastb (b ++ [x]) = Some x.
Proof. unfold lastb. now rewrite rev_app_distr. Qed.
Lemma lastb_app a b : b <> [] -> lastb (a ++ b) = lastb b.
Proof.
  intros H. unfold lastb. rewrite rev_app_distr. destruct (rev b) eqn:E; [|reflexivity].
  apply (f_equal (@rev _)) in E. rewrite rev_involutive in E. now subst.
Qed.
Lemma lastb_nil_iff (b : bytes) : lastb b = None <-> b = [].
Proof.
  unfold lastb. split.
  - destruct (rev b) eqn:E; [|discriminate]. intros _. apply (f_equal (@rev _)) in E. now rewrite rev_involutive in E.
  - intros ->. reflexivity.
Qed.

Section S.
Variable sp : bool.

Definition sep_ok (b : bytes) : Prop := match lastb b with None => False | Some x => nosep x = false end.
Definition tail_ok (t : bytes) : Prop := forall a, sep_ok (a ++ t).
Definition pre_ok (p : bytes) : Prop := p = [] \/ exists x, lastb p = Some x /\ nosep x = true.

Lemma tail_ok_intro t x : lastb t = Some x -> nosep x = false -> tail_ok t.
Proof.
  intros H1 H2 a. unfold sep_ok. rewrite lastb_app; [now rewrite H1|]. intros ->. discriminate.
Qed.
Lemma tail_ok_snoc t x : nosep x = false -> tail_ok (t ++ [x]).
Proof. intros H. eapply tail_ok_intro; [apply lastb_snoc|exact H]. Qed.
Lemma tail_ok_app a t : tail_ok t -> tail_ok (a ++ t).
Proof. intros H b. rewrite app_assoc. apply H. Qed.
Lemma tok_okb_tail t : tok_okb t = true -> tail_ok t.
Proof.
  unfold tok_okb. destruct (lastb t) eqn:E; [|discriminate]. intros H.
  apply negb_true_iff in H. eapply tail_ok_intro; eauto.
Qed.
Lemma tail_ok_nonnil t : tail_ok t -> t <> [].
Proof. intros H ->. specialize (H []). unfold sep_ok in H. cbn in H. exact H. Qed.

Lemma add_sep_value b : sep_ok b -> add_sep sp b = b ++ sepb sp.
Proof. unfold sep_ok, add_sep, sepb. destruct (lastb b); [|tauto]. now intros ->. Qed.
Lemma add_sep_fresh b x : lastb b = Some x -> nosep x = true -> add_sep sp b = b.
Proof. unfold add_sep. now intros -> ->. Qed.
Lemma add_sep_nil : add_sep sp [] = [].
Proof. reflexivity. Qed.
Lemma add_sep_pre p : pre_ok p -> add_sep sp p = p.
Proof. intros [->|[x [H1 H2]]]; [reflexivity|eapply add_sep_fresh; eauto]. Qed.
Lemma pre_ok_snoc a x : nosep x = true -> pre_ok (a ++ [x]).
Proof. intros H. right. exists x. split; [apply lastb_snoc|exact H]. Qed.
Lemma add_sep_len b : length b <= length (add_sep sp b).
Proof. unfold add_sep. destruct (lastb b) as [l|]; [destruct (nosep l)|]; rewrite ?app_length; lia. Qed.

(* the key prefix ends in ':' or ' ': nothing is inserted after it *)
Lemma add_key_pre k b : pre_ok (add_key sp k b).
Proof.
  unfold add_key. destruct sp.
  - replace (add_sep true b ++ quoted k ++ [COLON] ++ [SPACE]) with ((add_sep true b ++ quoted k ++ [COLON]) ++ [SPACE])
      by (now rewrite <- !app_assoc). apply pre_ok_snoc. reflexivity.
  - rewrite app_nil_r. rewrite !app_assoc. apply pre_ok_snoc. reflexivity.
Qed.
Lemma ap_raw_key t k b : ap_raw sp t (add_key sp k b) = add_key sp k b ++ t.
Proof. unfold ap_raw. now rewrite (add_sep_pre _ (add_key_pre k b)). Qed.

Lemma quoted_tail s : tail_ok (quoted s).
Proof. unfold quoted. rewrite app_assoc. apply tail_ok_snoc. reflexivity. Qed.

(* ---- join / popen / pelems ---- *)
Lemma join_snoc sep l x : l <> [] -> join sep (l ++ [x]) = join sep l ++ sep ++ x.
Proof.
  induction l as [|a [|b r] IH]; intros H; [congruence|reflexivity|].
  change (join sep ((a :: b :: r) ++ [x])) with (a ++ sep ++ join sep ((b :: r) ++ [x])).
  rewrite IH by discriminate. change (join sep (a :: b :: r)) with (a ++ sep ++ join sep (b :: r)).
  now rewrite <- !app_assoc.
Qed.
Definition sepif {A} (ms : list A) : bytes := match ms with [] => [] | _ => sepb sp end.
Lemma popen_snoc ms m : popen sp (ms ++ [m]) = popen sp ms ++ sepif ms ++ pm sp m.
Proof.
  unfold popen. rewrite map_app. destruct ms as [|a r]; [reflexivity|].
  change (map (pm sp) [m]) with [pm sp m]. rewrite join_snoc by discriminate. reflexivity.
Qed.
Lemma pelems_snoc vs v : pelems sp (vs ++ [v]) = pelems sp vs ++ sepif vs ++ pv sp v.
Proof.
  unfold pelems. rewrite map_app. destruct vs as [|a r]; [reflexivity|].
  change (map (pv sp) [v]) with [pv sp v]. rewrite join_snoc by discriminate. reflexivity.
Qed.
Lemma go_obj ms : (fix go (l : list member) := match l with [] => [] | (k, x) :: r => (quoted k ++ colb sp ++ pv sp x) :: go r end) ms = map (pm sp) ms.
Proof. induction ms as [|[k x] r IH]; [reflexivity|]. rewrite IH. reflexivity. Qed.
Lemma go_arr vs : (fix go (l : list jt) := match l with [] => [] | x :: r => pv sp x :: go r end) vs = map (pv sp) vs.
Proof. induction vs as [|x r IH]; [reflexivity|]. now rewrite IH. Qed.
Lemma pv_obj ms : pv sp (TObj ms) = [LBRACE] ++ popen sp ms ++ [RBRACE].
Proof. cbn [pv]. rewrite go_obj. reflexivity. Qed.
Lemma pv_arr vs : pv sp (TArr vs) = [LBRACK] ++ pelems sp vs ++ [RBRACK].
Proof. cbn [pv]. rewrite go_arr. reflexivity. Qed.
Lemma pv_obj_tail ms : tail_ok (pv sp (TObj ms)).
Proof. rewrite pv_obj, !app_assoc. apply tail_ok_snoc. reflexivity. Qed.
Lemma pv_arr_tail vs : tail_ok (pv sp (TArr vs)).
Proof. rewrite pv_arr, !app_assoc. apply tail_ok_snoc. reflexivity. Qed.

(* ---- printing an open context ---- *)
Definition pframe (fr : frame) : bytes := popen sp (fst fr) ++ sepif (fst fr) ++ quoted (snd fr) ++ colb sp ++ [LBRACE].
Definition pctx (o : octx) : bytes := concat (map pframe (frames o)) ++ popen sp (cur o).

(* every member's value ends in a value byte *)
Definition mem_ok (m : member) : Prop := tail_ok (pv sp (snd m)).
Definition ctx_ok (o : octx) : Prop := Forall mem_ok (cur o).

Lemma popen_tail ms : ms <> [] -> Forall mem_ok ms -> tail_ok (popen sp ms).
Proof.
  intros H F. destruct (exists_last H) as [l [m ->]]. rewrite popen_snoc. unfold pm.
  apply Forall_app in F as [_ F]. inversion F as [|? ? Hm _]; subst.
  rewrite !app_assoc. apply tail_ok_app. exact Hm.
Qed.

Lemma colb_pre a : pre_ok (a ++ colb sp).
Proof.
  unfold colb. destruct sp.
  - replace (a ++ [COLON; SPACE]) with ((a ++ [COLON]) ++ [SPACE]) by (now rewrite <- app_assoc). now apply pre_ok_snoc.
  - now apply pre_ok_snoc.
Qed.

(* the buffer "looks fresh" (no separator needed) exactly when cur is empty *)
Lemma fresh_or_value p o : pre_ok p -> ctx_ok o ->
  match cur o with
  | [] => pre_ok (p ++ pctx o)
  | _ => sep_ok (p ++ pctx o)
  end.
Proof.
  intros Hp Hc. unfold pctx. destruct (cur o) as [|m ms] eqn:E.
  - cbn [popen map join]. rewrite app_nil_r.
    destruct (frames o) as [|f fs] using rev_ind.
    + cbn. now rewrite app_nil_r.
    + rewrite map_app, concat_app. cbn [map concat]. rewrite app_nil_r. unfold pframe at 2.
      rewrite !app_assoc. apply pre_ok_snoc. reflexivity.
  - rewrite app_assoc. apply popen_tail; [discriminate|]. unfold ctx_ok in Hc. now rewrite E in Hc.
Qed.

Lemma add_key_step p o k : pre_ok p -> ctx_ok o ->
  add_key sp k (p ++ pctx o) = p ++ pctx o ++ sepif (cur o) ++ quoted k ++ colb sp.
Proof.
  intros Hp Hc. pose proof (fresh_or_value p o Hp Hc) as H. unfold add_key.
  change ([COLON] ++ (if sp then [SPACE] else [])) with (colb sp).
  destruct (cur o) eqn:E; cbn [sepif].
  - rewrite (add_sep_pre _ H). now rewrite <- !app_assoc.
  - rewrite (add_sep_value _ H). now rewrite <- !app_assoc.
Qed.
Lemma add_sep_step p o : pre_ok p -> ctx_ok o ->
  add_sep sp (p ++ pctx o) = p ++ pctx o ++ sepif (cur o).
Proof.
  intros Hp Hc. pose proof (fresh_or_value p o Hp Hc) as H.
  destruct (cur o) eqn:E; cbn [sepif].
  - rewrite (add_sep_pre _ H). now rewrite app_nil_r.
  - rewrite (add_sep_value _ H). now rewrite <- !app_assoc.
Qed.

Lemma pctx_push o m : pctx (push o m) = pctx o ++ sepif (cur o) ++ pm sp m.
Proof. unfold pctx, push; cbn [frames cur]. rewrite popen_snoc. now rewrite <- !app_assoc. Qed.
Lemma pctx_open o k : pctx (open_ns o k) = pctx o ++ sepif (cur o) ++ quoted k ++ colb sp ++ [LBRACE].
Proof.
  unfold pctx, open_ns; cbn [frames cur]. rewrite map_app, concat_app. cbn [map concat popen join].
  unfold pframe at 2; cbn [fst snd]. rewrite !app_nil_r. now rewrite <- !app_assoc.
Qed.

Lemma repeat_cons_snoc {A} (x : A) n : x :: repeat x n = repeat x n ++ [x].
Proof. induction n; cbn; [reflexivity|]. now rewrite <- IHn. Qed.
Lemma popen_close fs inner :
  popen sp (close_frames fs inner) = concat (map pframe fs) ++ popen sp inner ++ repeat RBRACE (length fs).
Proof.
  induction fs as [|[ms k] r IH]; cbn [close_frames map concat repeat length].
  - now rewrite app_nil_r.
  - rewrite popen_snoc. unfold pm; cbn [fst snd]. rewrite pv_obj, IH. unfold pframe; cbn [fst snd].
    rewrite repeat_cons_snoc. rewrite <- !app_assoc. cbn [app]. reflexivity.
Qed.
Lemma close_frames_ok fs inner : Forall mem_ok inner -> Forall (fun fr => Forall mem_ok (fst fr)) fs ->
  Forall mem_ok (close_frames fs inner).
Proof.
  intros Hi. induction 1 as [|[ms k] r Hms _ IH]; cbn [close_frames]; [exact Hi|].
  apply Forall_app. split; [exact Hms|]. constructor; [|constructor]. unfold mem_ok; cbn [snd]. apply pv_obj_tail.
Qed.
End S.

(* Every atom the encoder can write parses in context, hence every entry is one
   valid JSON object that decodes to the tree-level semantics (C01, C02). *)
From Coq Require Import List ZArith NArith Bool Lia.
From Coq.Strings Require Import Byte.
Import ListNotations.
From Zap Require Import Base.Wire Enc.Bytes Enc.Utf8 Enc.Decimal Enc.Base64 Enc.Fields Enc.JsonEnc Enc.JsonParse Enc.JsonAst Enc.Wf
  Enc.Refine1 Enc.Refine2 Enc.Refine3 Enc.Refine4 Enc.Refine5 Enc.Parse1 Enc.Parse2 Enc.Parse3 Enc.Parse5.

(* ---- what is assumed of the oracle texts, in context (Prop; the executable
   monitors wf_* check the stand-alone versions on every case) ---- *)
Definition fv_pre (f : fv) : Prop :=
  plain_okb (ftxt f) = true /\ match fcls f with FFin => atom_pre (ANum (ftxt f)) | _ => True end.
Definition rend_pre (r : rend) : Prop := match r with RFloat f => fv_pre f | _ => True end.
Definition rv_pre (r : rv) : Prop := match r with ROk t => atom_pre (ARaw t) | _ => True end.

Fixpoint owf_fld (f : fld) {struct f} : Prop :=
  match f with
  | FFloat _ v => fv_pre v
  | FComplex _ re im _ => fv_pre re /\ fv_pre im
  | FDuration _ d => rend_pre (d_rend d)
  | FTime _ t => rend_pre (t_rend t)
  | FReflect _ r => rv_pre r
  | FObject _ m | FInline m => owf_objm m
  | FArray _ a => owf_arrm a
  | _ => True
  end
with owf_objm (m : objm) {struct m} : Prop :=
  match m with Obj calls _ => (fix go (l : list fld) : Prop := match l with [] => True | f :: r => owf_fld f /\ go r end) calls end
with owf_arrm (a : arrm) {struct a} : Prop :=
  match a with Arr elems _ _ => (fix go (l : list elem) : Prop := match l with [] => True | e :: r => owf_elem e /\ go r end) elems end
with owf_elem (e : elem) {struct e} : Prop :=
  match e with
  | EFloat v => fv_pre v
  | ECplx re im _ => fv_pre re /\ fv_pre im
  | EDur d => rend_pre (d_rend d)
  | ETime t => rend_pre (t_rend t)
  | ERefl r => rv_pre r
  | EObj m => owf_objm m
  | EArr a => owf_arrm a
  | _ => True
  end.
Definition owf_flds := fix go (l : list fld) : Prop := match l with [] => True | f :: r => owf_fld f /\ go r end.
Definition owf_elems := fix go (l : list elem) : Prop := match l with [] => True | e :: r => owf_elem e /\ go r end.
Definition owf_ctxs := fix go (l : list (list fld)) : Prop := match l with [] => True | fs :: r => owf_flds fs /\ go r end.

(* ---- atoms ---- *)
Lemma plain_no_ctl b : plain_okb b = true -> no_ctl b = true.
Proof.
  unfold plain_okb, no_ctl. induction b as [|x r IH]; [reflexivity|]. cbn [forallb]. intros H.
  apply andb_true_iff in H as [H1 H2]. rewrite (IH H2), andb_true_r.
  repeat (apply andb_true_iff in H1 as [H1 _]). apply negb_true_iff, N.ltb_ge. apply N.leb_le in H1. exact H1.
Qed.
Lemma plain_is_plainb b : plain_okb b = true -> forallb plainb b = true.
Proof. unfold plain_okb. intros H. exact H. Qed.
Lemma str_pre s : atom_pre (AStr s).
Proof. split; [apply quoted_parses|split; [apply quoted_starts|apply quoted_no_ctl]]. Qed.
Lemma aq_pre b : plain_okb b = true -> atom_pre (AQ b).
Proof.
  intros H. split; [now apply aq_parses|split; [split; reflexivity|]].
  cbn [atxt]. rewrite !no_ctl_app, (plain_no_ctl b H). reflexivity.
Qed.
Lemma bool_pre b : atom_pre (bool_atom b).
Proof. destruct b; (split; [first [apply true_parses|apply false_parses]|split; [split; reflexivity|reflexivity]]). Qed.
Lemma digits_no_ctl l : forallb is_digit l = true -> no_ctl l = true.
Proof.
  unfold no_ctl. induction l as [|x r IH]; [reflexivity|]. cbn [forallb]. intros H. apply andb_true_iff in H as [H1 H2].
  rewrite (IH H2), andb_true_r. destruct x; try discriminate; reflexivity.
Qed.
Lemma print_Z_no_ctl z : no_ctl (print_Z z) = true.
Proof.
  destruct z as [|p|p]; cbn [print_Z]; [reflexivity| |]; unfold print_N.
  - apply digits_no_ctl, uint_bytes_digits.
  - change (x2d :: uint_bytes (N.to_uint (N.pos p))) with ([x2d] ++ uint_bytes (N.to_uint (N.pos p))).
    rewrite no_ctl_app. now rewrite (digits_no_ctl _ (uint_bytes_digits _)).
Qed.
Lemma int_pre z : atom_pre (ANum (print_Z z)).
Proof. split; [apply int_parses|split; [apply int_starts|apply print_Z_no_ctl]]. Qed.
Lemma float_pre f : fv_pre f -> atom_pre (float_atom f).
Proof. intros [Hp Hf]. unfold float_atom. destruct (fcls f); try (apply aq_pre; reflexivity). exact Hf. Qed.
Lemma plain_app a b : plain_okb a = true -> plain_okb b = true -> plain_okb (a ++ b) = true.
Proof. unfold plain_okb. intros. rewrite forallb_app. now rewrite H, H0. Qed.
Lemma cplx_pre re im g : fv_pre re -> fv_pre im -> atom_pre (cplx_atom re im g).
Proof.
  intros [H1 _] [H2 _]. apply aq_pre. unfold cplx_atom. repeat apply plain_app; auto; destruct g; reflexivity.
Qed.
Lemma null_pre : atom_pre (ARaw s_null).
Proof. split; [intros rest f _ Hf; destruct f; [cbn in Hf; lia|reflexivity]|split; [split; reflexivity|reflexivity]]. Qed.

Section S.
Variable c : cfg.
Hypothesis Hlayout : q_layout_escaped c = true.

Lemma rend_atom_pre r : rend_pre r -> atom_pre (rend_atom c r).
Proof.
  destruct r as [f|z|s|s]; cbn [rend_pre rend_atom]; intros H.
  - now apply float_pre.
  - apply int_pre.
  - apply str_pre.
  - rewrite Hlayout. apply str_pre.
Qed.
Lemma time_pre t : rend_pre (t_rend t) -> atom_pre (time_atom c t).
Proof. intros H. unfold time_atom. destruct (e_time c); try apply int_pre. now apply rend_atom_pre. Qed.
Lemma dur_pre d : rend_pre (d_rend d) -> atom_pre (dur_atom c d).
Proof. intros H. unfold dur_atom. destruct (e_duration c); try apply int_pre. now apply rend_atom_pre. Qed.

(* ---- contexts whose members are all good ---- *)
Lemma tpre_mem_app a b : tpre_mem (a ++ b) <-> tpre_mem a /\ tpre_mem b.
Proof. induction a as [|[k v] r IH]; cbn [app tpre_mem]; [tauto|]. rewrite IH. tauto. Qed.
Definition opre (o : octx) : Prop := Forall (fun fr => tpre_mem (fst fr)) (frames o) /\ tpre_mem (cur o).
Lemma opre0 : opre octx0.
Proof. split; [constructor|exact I]. Qed.
Lemma opre_push o k v : opre o -> tpre v -> opre (push o (k, v)).
Proof. intros [H1 H2] Hv. split; [exact H1|]. unfold push; cbn [cur]. apply tpre_mem_app. cbn [tpre_mem]. tauto. Qed.
Lemma opre_str o k v : opre o -> opre (push o (str_m k v)).
Proof. intros H. apply opre_push; [exact H|]. apply str_pre. Qed.
Lemma opre_open o k : opre o -> opre (open_ns o k).
Proof. intros [H1 H2]. split; [|exact I]. unfold open_ns; cbn [frames]. apply Forall_app. split; [exact H1|]. now constructor. Qed.
Lemma opre_err o k e : opre o -> opre (err_m k e o).
Proof. intros H. destruct e; [now apply opre_str|exact H]. Qed.
Lemma tpre_close_frames fs inner : Forall (fun fr => tpre_mem (fst fr)) fs -> tpre_mem inner -> tpre_mem (close_frames fs inner).
Proof.
  induction 1 as [|[ms k] r Hms _ IH]; intros Hi; cbn [close_frames]; [exact Hi|].
  apply tpre_mem_app. split; [exact Hms|]. cbn [tpre_mem tpre]. split; [|exact I].
  fold (tpre_mem (close_frames r inner)). now apply IH.
Qed.
Lemma tpre_close o : opre o -> tpre (TObj (close o)).
Proof. intros [H1 H2]. cbn [tpre]. fold (tpre_mem (close o)). unfold close. now apply tpre_close_frames. Qed.

Lemma ev_causes_pre causes : Forall (opt_all (fun e => forall k o, opre o -> opre (fst (ev_err k e o)))) causes ->
  tpre_list (fst (ev_causes causes)).
Proof.
  induction 1 as [|oe r Hoe _ IH]; [exact I|]. destruct oe as [ce|]; cbn [ev_causes]; [|exact IH].
  cbn [opt_all] in Hoe. specialize (Hoe s_error octx0 opre0).
  destruct (ev_err s_error ce octx0) as [oc e1]. cbn [fst] in Hoe.
  destruct e1 as [m|]; cbn [fst tpre_list]; [split; [now apply tpre_close|exact I]|].
  destruct (ev_causes r) as [vs e2]. cbn [fst tpre_list] in *. split; [now apply tpre_close|exact IH].
Qed.
Lemma ev_err_pre : forall e k o, opre o -> opre (fst (ev_err k e o)).
Proof.
  apply (errv_ind' (fun e => forall k o, opre o -> opre (fst (ev_err k e o)))).
  intros msg verbose group IHg k o Ho. rewrite ev_err_eq. destruct msg as [basic|m|]; cbn [fst].
  - destruct group as [causes|].
    + cbn zeta. pose proof (ev_causes_pre causes IHg) as Hc. destruct (ev_causes causes) as [vs err]. cbn [fst] in *.
      apply opre_push; [now apply opre_str|]. cbn [tpre]. exact Hc.
    + destruct verbose as [v|]; [destruct (bytes_eqb v basic)|]; cbn [fst]; repeat apply opre_str; exact Ho.
  - exact Ho.
  - now apply opre_str.
Qed.

Definition Qf (f : fld) : Prop := owf_fld f -> forall o, opre o -> opre (ev_fld c f o).
Definition Qo (m : objm) : Prop := owf_objm m ->
  tpre (fst (ev_obj c m)) /\ match m with Obj calls _ => forall o, opre o -> opre (ev_flds' c calls o) end.
Definition Qa (a : arrm) : Prop := owf_arrm a -> tpre (fst (ev_arr c a)).
Definition Qe (e : elem) : Prop := owf_elem e -> match fst (ev_elem c e) with Some v => tpre v | None => True end.

Lemma fold_pre calls : Forall Qf calls -> owf_flds calls -> forall o, opre o -> opre (ev_flds' c calls o).
Proof.
  induction 1 as [|f r Hf _ IH]; intros Hw o Ho; [exact Ho|]. cbn [owf_flds] in Hw. destruct Hw as [H1 H2].
  cbn [ev_flds']. apply IH; [exact H2|]. now apply Hf.
Qed.
Lemma elems_pre stop es : Forall Qe es -> owf_elems es -> tpre_list (fst (ev_elems' c stop es)).
Proof.
  induction 1 as [|e r He _ IH]; intros Hw; [exact I|]. cbn [owf_elems] in Hw. destruct Hw as [H1 H2].
  specialize (He H1). specialize (IH H2). cbn [ev_elems'].
  destruct (ev_elem c e) as [v err]. cbn [fst] in He.
  assert (G : forall vs, tpre_list vs -> tpre_list (consopt v vs)).
  { intros vs Hvs. destruct v; cbn [consopt tpre_list]; auto. }
  destruct err as [m|]; [destruct stop|]; cbn [fst].
  - apply G. exact I.
  - destruct (ev_elems' c false r) as [vs e2]. cbn [fst] in *. now apply G.
  - destruct (ev_elems' c stop r) as [vs e2]. cbn [fst] in *. now apply G.
Qed.

Theorem ev_fld_pre : forall f, Qf f.
Proof.
  apply (fld_ind' Qf Qo Qa Qe); unfold Qf, Qo, Qa, Qe.
  - intros k b _ o Ho. cbn [ev_fld]. apply opre_push; [exact Ho|apply bool_pre].
  - intros k z _ o Ho. cbn [ev_fld]. apply opre_push; [exact Ho|apply int_pre].
  - intros k z _ o Ho. cbn [ev_fld]. apply opre_push; [exact Ho|apply int_pre].
  - intros k f Hw o Ho. cbn [ev_fld owf_fld] in *. apply opre_push; [exact Ho|now apply float_pre].
  - intros k s _ o Ho. now apply opre_str.
  - intros k s _ o Ho. now apply opre_str.
  - intros k s _ o Ho. now apply opre_str.
  - intros k re im g [H1 H2] o Ho. cbn [ev_fld]. apply opre_push; [exact Ho|now apply cplx_pre].
  - intros k d Hw o Ho. cbn [ev_fld owf_fld] in *. apply opre_push; [exact Ho|now apply dur_pre].
  - intros k t Hw o Ho. cbn [ev_fld owf_fld] in *. apply opre_push; [exact Ho|now apply time_pre].
  - intros k r Hw o Ho. cbn [ev_fld owf_fld] in *. destruct r as [|t|m]; cbn [refl_atom].
    + apply opre_push; [exact Ho|apply null_pre].
    + apply opre_push; [exact Ho|exact Hw].
    + now apply opre_err.
  - intros k _ o Ho. now apply opre_open.
  - intros _ o Ho. exact Ho.
  - intros k out _ o Ho. cbn [ev_fld]. destruct out; [now apply opre_str|now apply opre_err|now apply opre_str].
  - intros k e _ o Ho. cbn [ev_fld]. pose proof (ev_err_pre e k o Ho) as H. destruct (ev_err k e o) as [o1 err]. now apply opre_err.
  - intros k m Hm Hw o Ho. rewrite ev_fld_obj. cbn [owf_fld] in Hw. destruct (Hm Hw) as [Hv _].
    destruct (ev_obj c m) as [v err]. apply opre_err. now apply opre_push.
  - intros [calls ret] Hm Hw o Ho. rewrite ev_fld_inl. cbn [owf_fld] in Hw. destruct (Hm Hw) as [_ Hi]. apply opre_err. now apply Hi.
  - intros k a Ha Hw o Ho. rewrite ev_fld_arr. cbn [owf_fld] in Hw. specialize (Ha Hw).
    destruct (ev_arr c a) as [v err]. apply opre_err. now apply opre_push.
  - intros cs r Hcs Hw. cbn [owf_objm] in Hw. fold (owf_flds cs) in Hw. split.
    + rewrite ev_obj_eq. cbn [fst]. apply tpre_close. apply (fold_pre cs Hcs Hw). apply opre0.
    + intros o Ho. now apply (fold_pre cs Hcs Hw).
  - intros es r stop Hes Hw. cbn [owf_arrm] in Hw. fold (owf_elems es) in Hw. rewrite ev_arr_eq.
    pose proof (elems_pre stop es Hes Hw) as H. destruct (ev_elems' c stop es) as [vs early]. cbn [fst tpre] in *. exact H.
  - intros b _. apply bool_pre.
  - intros z _. apply int_pre.
  - intros z _. apply int_pre.
  - intros f Hw. cbn [ev_elem fst owf_elem] in *. now apply float_pre.
  - intros s _. apply str_pre.
  - intros s _. apply str_pre.
  - intros re im g [H1 H2]. cbn [ev_elem fst]. now apply cplx_pre.
  - intros d Hw. cbn [ev_elem fst owf_elem] in *. now apply dur_pre.
  - intros t Hw. cbn [ev_elem fst owf_elem] in *. now apply time_pre.
  - intros r Hw. cbn [ev_elem owf_elem] in *. destruct r as [|t|m]; cbn [refl_atom fst]; [apply null_pre|exact Hw|exact I].
  - intros m Hm Hw. rewrite ev_elem_obj. cbn [owf_elem] in Hw. destruct (Hm Hw) as [Hv _]. destruct (ev_obj c m). exact Hv.
  - intros a Ha Hw. rewrite ev_elem_arr. cbn [owf_elem] in Hw. specialize (Ha Hw). destruct (ev_arr c a). exact Ha.
  - intros msg _. exact I.
Qed.

Lemma ev_flds_pre fs : owf_flds fs -> forall o, opre o -> opre (ev_flds c fs o).
Proof.
  intros Hw o Ho. rewrite ev_flds_eq. apply fold_pre; [|exact Hw|exact Ho].
  apply Forall_forall. intros f _. apply ev_fld_pre.
Qed.
Lemma with_chain_pre ctxs : owf_ctxs ctxs -> opre (ev_with_chain c ctxs).
Proof.
  unfold ev_with_chain. generalize opre0. generalize octx0. induction ctxs as [|fs r IH]; intros o Ho Hw; [exact Ho|].
  cbn [owf_ctxs] in Hw. destruct Hw as [H1 H2]. cbn [fold_left]. apply IH; [|exact H2]. now apply ev_flds_pre.
Qed.

Lemma tpre_mem_if (b : bool) m : tpre (snd m) -> tpre_mem (if b then [m] else []).
Proof. intros H. destruct b, m; cbn [tpre_mem snd] in *; auto. Qed.
Lemma tpre_mem_one m : tpre (snd m) -> tpre_mem [m].
Proof. intros H. destruct m; cbn [tpre_mem snd] in *; auto. Qed.
Lemma meta_pre ent : rend_pre (t_rend (time_val ent)) -> tpre_mem (meta_members c ent).
Proof.
  intros Ht. unfold meta_members.
  apply tpre_mem_app; split; [apply tpre_mem_if; apply str_pre|].
  apply tpre_mem_app; split; [apply tpre_mem_if; cbn [snd tpre]; now apply time_pre|].
  apply tpre_mem_app; split; [apply tpre_mem_if; apply str_pre|].
  apply tpre_mem_app; split; [|apply tpre_mem_if; apply str_pre].
  destruct (caller_defined ent); [|exact I].
  apply tpre_mem_app; split; [|apply tpre_mem_if; apply str_pre].
  destruct (negb (is_nil (k_caller c))); [|exact I].
  destruct (e_caller c); [exact I|apply tpre_mem_one; apply str_pre|apply tpre_mem_one; apply str_pre].
Qed.

Theorem entry_tree_pre ctxs ent fs : owf_ctxs ctxs -> owf_flds fs -> rend_pre (t_rend (time_val ent)) ->
  tpre (TObj (entry_members c ctxs ent fs)).
Proof.
  intros Hc Hf Ht. cbn [tpre]. fold (tpre_mem (entry_members c ctxs ent fs)). unfold entry_members.
  apply tpre_mem_app. split; [now apply meta_pre|]. apply tpre_mem_app. split.
  - pose proof (tpre_close _ (ev_flds_pre fs Hf _ (with_chain_pre ctxs Hc))) as H. exact H.
  - unfold stack_members. destruct (_ && _); cbn [tpre_mem str_m tpre]; [split; [apply str_pre|exact I]|exact I].
Qed.
End S.

(* ---- the executable monitors imply the in-context facts (Parse5: the parser is stable under
   more fuel and under a delimited suffix) ---- *)
Lemma start_okb_starts t : start_okb t = true -> starts_ok t.
Proof.
  unfold start_okb, starts_ok. destruct t as [|b r]; [discriminate|]. intros H. apply andb_true_iff in H as [H1 H2].
  apply negb_true_iff in H1, H2. auto.
Qed.
Lemma wf_fv_pre f : wf_fv f = true -> fv_pre f.
Proof.
  unfold wf_fv, fv_pre. intros H. apply andb_true_iff in H as [Hp H]. split; [exact Hp|].
  destruct (fcls f); try exact I. apply andb_true_iff in H as [H Hh]. apply andb_true_iff in H as [Ht Hn].
  assert (Hhead : match ftxt f with b :: _ => is_digit b = true \/ b = x2d | [] => False end).
  { unfold num_head_okb in Hh. destruct (ftxt f) as [|b r]; [discriminate|]. apply orb_true_iff in Hh as [Hh|Hh]; [now left|right; now apply byte_eqb_eq]. }
  split; [exact (num_parses (ftxt f) Hn Hhead)|]. split.
  - unfold starts_ok. destruct (ftxt f) as [|b r]; [exact Hhead|]. destruct Hhead as [Hd| ->]; [destruct b; try discriminate; split; reflexivity|split; reflexivity].
  - cbn [atxt]. now apply plain_no_ctl.
Qed.
Lemma wf_rv_pre r : wf_rv r = true -> rv_pre r.
Proof.
  destruct r as [|t|m]; cbn [wf_rv rv_pre]; try (intros; exact I). unfold raw_okb. intros H.
  apply andb_true_iff in H as [H Hp]. apply andb_true_iff in H as [H Hs]. apply andb_true_iff in H as [Ht Hc].
  destruct (p_value (length t) t) as [[j r]|] eqn:E; [|discriminate]. destruct r; [|discriminate].
  split; [|split; [now apply start_okb_starts|exact Hc]].
  cbn [asize atxt asem]. rewrite E. now apply raw_parses.
Qed.
Lemma wf_rend_pre r : wf_rend r = true -> rend_pre r.
Proof. destruct r; cbn [wf_rend rend_pre]; auto using wf_fv_pre. Qed.

Lemma wf_owf : forall f, wf_fld f = true -> owf_fld f.
Proof.
  apply (fld_ind' (fun f => wf_fld f = true -> owf_fld f) (fun m => wf_objm m = true -> owf_objm m)
                  (fun a => wf_arrm a = true -> owf_arrm a) (fun e => wf_elem e = true -> owf_elem e));
    try (intros; exact I).
  - intros k f H. now apply wf_fv_pre.
  - intros k re im g H. cbn [wf_fld] in H. apply andb_true_iff in H as [H1 H2]. split; now apply wf_fv_pre.
  - intros k d H. now apply wf_rend_pre.
  - intros k t H. now apply wf_rend_pre.
  - intros k r H. now apply wf_rv_pre.
  - intros k m Hm H. now apply Hm.
  - intros m Hm H. now apply Hm.
  - intros k a Ha H. now apply Ha.
  - intros cs r Hcs H. cbn [wf_objm owf_objm] in *. induction Hcs as [|f l Hf _ IH]; [exact I|].
    apply andb_true_iff in H as [H1 H2]. split; [now apply Hf|now apply IH].
  - intros es r st Hes H. cbn [wf_arrm owf_arrm] in *. induction Hes as [|e l He _ IH]; [exact I|].
    apply andb_true_iff in H as [H1 H2]. split; [now apply He|now apply IH].
  - intros f H. now apply wf_fv_pre.
  - intros re im g H. cbn [wf_elem] in H. apply andb_true_iff in H as [H1 H2]. split; now apply wf_fv_pre.
  - intros d H. now apply wf_rend_pre.
  - intros t H. now apply wf_rend_pre.
  - intros r H. now apply wf_rv_pre.
  - intros m Hm H. now apply Hm.
  - intros a Ha H. now apply Ha.
Qed.
Lemma wf_owf_flds fs : wf_flds fs = true -> owf_flds fs.
Proof.
  unfold wf_flds. induction fs as [|f r IH]; intros H; [exact I|]. cbn [forallb] in H. apply andb_true_iff in H as [H1 H2].
  split; [now apply wf_owf|now apply IH].
Qed.
Lemma wf_owf_ctxs ctxs : forallb wf_flds ctxs = true -> owf_ctxs ctxs.
Proof.
  induction ctxs as [|fs r IH]; intros H; [exact I|]. cbn [forallb] in H. apply andb_true_iff in H as [H1 H2].
  split; [now apply wf_owf_flds|now apply IH].
Qed.

(* ---- C01 + C02 for whole entries ---- *)
Lemma split_suffix_app X le : split_suffix (X ++ le) (length le) = (X, le).
Proof.
  unfold split_suffix. rewrite app_length, Nat.add_sub. rewrite firstn_app, Nat.sub_diag, firstn_all. cbn [firstn].
  rewrite app_nil_r. rewrite skipn_app, Nat.sub_diag, skipn_all. reflexivity.
Qed.
Lemma bytes_eqb_refl a : bytes_eqb a a = true.
Proof. now apply bytes_eqb_eq. Qed.

Theorem entry_valid c ctxs ent fs :
  q_nil_caller_guard c = true -> q_layout_escaped c = true ->
  forallb wf_flds ctxs = true -> wf_flds fs = true -> wf_entry ent = true ->
  owf_ctxs ctxs -> owf_flds fs -> rend_pre (t_rend (time_val ent)) ->
  exists out,
    encode_entry c false (with_chain c false ctxs) ent fs = Some out /\
    line_obj (resolved_le c) out = Some (jv_mem (entry_members c ctxs ent fs)).
Proof.
  intros Hq Hl Hwc Hwf Hwe Hoc Hof Hot. eexists. split; [apply (entry_bytes c false); assumption|].
  pose proof (entry_tree_pre c Hl ctxs ent fs Hoc Hof Hot) as Hp.
  unfold line_obj. rewrite split_suffix_app, bytes_eqb_refl, (tree_no_ctl false _ Hp). cbn [andb].
  rewrite (parse_printed false _ Hp). reflexivity.
Qed.

(* the same with the executable monitors as the only hypotheses *)
Theorem entry_valid_wf c ctxs ent fs :
  q_nil_caller_guard c = true -> q_layout_escaped c = true ->
  forallb wf_flds ctxs = true -> wf_flds fs = true -> wf_entry ent = true ->
  exists out,
    encode_entry c false (with_chain c false ctxs) ent fs = Some out /\
    line_obj (resolved_le c) out = Some (jv_mem (entry_members c ctxs ent fs)).
Proof.
  intros Hq Hl Hwc Hwf Hwe. apply entry_valid; auto using wf_owf_ctxs, wf_owf_flds.
  unfold wf_entry, wf_tv in Hwe. now apply wf_rend_pre.
Qed.

(* C02: the in-memory map encoder records exactly the last-write-wins view of the
   tree the JSON encoder emits (each typed leaf replaced by its documented JSON
   representation), for every field tree without a reflected value that
   encoding/json rejects (the map encoder stores such a value raw). *)
From Coq Require Import List ZArith NArith Bool Lia.
From Coq.Strings Require Import Byte.
Import ListNotations.
From Zap Require Import Base.Wire Enc.Bytes Enc.Decimal Enc.Base64 Enc.Fields Enc.JsonEnc Enc.JsonAst Enc.MapEnc
  Enc.Refine3 Enc.Refine4.

Definition amap {A B} (f : A -> B) (m : massoc A) : massoc B := map (fun kv => (fst kv, mmap f (snd kv))) m.
Lemma mmap_MO {A B} (f : A -> B) l : mmap f (MO l) = MO (amap f l).
Proof.
  change (mmap f (MO l)) with (MO ((fix go (l : list (bytes * mtree A)) := match l with [] => [] | (k, x) :: r => (k, mmap f x) :: go r end) l)).
  f_equal. induction l as [|[k x] r IH]; [reflexivity|]. cbn [amap map fst snd]. now f_equal.
Qed.
Lemma mmap_MA {A B} (f : A -> B) l : mmap f (MA l) = MA (map (mmap f) l).
Proof.
  change (mmap f (MA l)) with (MA ((fix go (l : list (mtree A)) := match l with [] => [] | x :: r => mmap f x :: go r end) l)).
  reflexivity.
Qed.
Lemma amap_mset {A B} (f : A -> B) m k v : amap f (mset m k v) = mset (amap f m) k (mmap f v).
Proof.
  induction m as [|[k' v'] r IH]; [reflexivity|]. cbn [mset amap map fst snd].
  destruct (bytes_eqb k' k); cbn [amap map fst snd]; [reflexivity|]. f_equal. exact IH.
Qed.

Definition view (ms : list member) : massoc atom := fold_left (fun acc kv => mset acc (fst kv) (viewT (snd kv))) ms [].
Lemma viewT_obj l : viewT (TObj l) = MO (view l).
Proof.
  change (viewT (TObj l)) with (MO ((fix go (l : list member) (acc : massoc atom) := match l with [] => acc | (k, x) :: r => go r (mset acc k (viewT x)) end) l [])).
  f_equal. unfold view. generalize (@nil (bytes * mtree atom)).
  induction l as [|[k x] r IH]; intros acc; [reflexivity|]. cbn [fold_left fst snd]. apply IH.
Qed.
Lemma viewT_arr l : viewT (TArr l) = MA (map viewT l).
Proof.
  change (viewT (TArr l)) with (MA ((fix go (l : list jt) := match l with [] => [] | x :: r => viewT x :: go r end) l)).
  f_equal.
Qed.
Lemma view_snoc ms k v : view (ms ++ [(k, v)]) = mset (view ms) k (viewT v).
Proof. unfold view. rewrite fold_left_app. reflexivity. Qed.

Definition Mv (o : octx) : mst atom :=
  {| mframes := map (fun fr => (view (fst fr), snd fr)) (frames o); mcur := view (cur o) |}.
Definition repr (c : cfg) (s : mst leaf) : mst atom :=
  {| mframes := map (fun fr => (amap (leaf_atom c) (fst fr), snd fr)) (mframes s); mcur := amap (leaf_atom c) (mcur s) |}.

Lemma Mv_push o k v : Mv (push o (k, v)) = madd (Mv o) k (viewT v).
Proof. unfold Mv, push, madd; cbn [frames cur mframes mcur]. now rewrite view_snoc. Qed.
Lemma Mv_open o k : Mv (open_ns o k) = mopen (Mv o) k.
Proof. unfold Mv, open_ns, mopen; cbn [frames cur mframes mcur]. now rewrite map_app. Qed.
Lemma Mv0 : Mv octx0 = mst0.
Proof. reflexivity. Qed.
Lemma view_close fs inner :
  view (close_frames fs inner) = mclose (map (fun fr => (view (fst fr), snd fr)) fs) (view inner).
Proof.
  induction fs as [|[ms k] r IH]; [reflexivity|]. cbn [close_frames map mclose fst snd].
  rewrite view_snoc, viewT_obj, IH. reflexivity.
Qed.
Lemma view_close_o o : viewT (TObj (close o)) = MO (mroot (Mv o)).
Proof. rewrite viewT_obj. unfold close, mroot, Mv; cbn [mframes mcur]. now rewrite view_close. Qed.

Section S.
Variable c : cfg.
Notation la := (leaf_atom c).
Notation repr := (repr c).

Lemma repr_add s k v : repr (madd s k v) = madd (repr s) k (mmap la v).
Proof. unfold repr, madd; cbn [mframes mcur]. now rewrite amap_mset. Qed.
Lemma repr_open s k : repr (mopen s k) = mopen (repr s) k.
Proof. unfold repr, mopen; cbn [mframes mcur]. rewrite map_app. reflexivity. Qed.
Lemma repr0 : repr mst0 = mst0.
Proof. reflexivity. Qed.
Lemma amap_mclose fs inner :
  amap la (mclose fs inner) = mclose (map (fun fr => (amap la (fst fr), snd fr)) fs) (amap la inner).
Proof.
  induction fs as [|[ms k] r IH]; [reflexivity|]. cbn [mclose map fst snd]. rewrite amap_mset, mmap_MO, IH. reflexivity.
Qed.
Lemma repr_root s : amap la (mroot s) = mroot (repr s).
Proof. unfold mroot, repr; cbn [mframes mcur]. apply amap_mclose. Qed.

(* a step that adds one member *)
Lemma step_add o s k v lv : repr s = Mv o -> mmap la lv = viewT v -> repr (madd s k lv) = Mv (push o (k, v)).
Proof. intros H Hv. now rewrite repr_add, Mv_push, H, Hv. Qed.
Lemma step_str o s k v : repr s = Mv o -> repr (mstr s k v) = Mv (push o (str_m k v)).
Proof. intros H. unfold mstr, str_m. now apply step_add. Qed.
Lemma step_merr o s k e : repr s = Mv o -> repr (merr k e s) = Mv (err_m k e o).
Proof. intros H. destruct e; cbn [merr err_m]; [now apply step_str|exact H]. Qed.
Lemma obj_root o s : repr s = Mv o -> mmap la (MO (mroot s)) = viewT (TObj (close o)).
Proof. intros H. rewrite mmap_MO, repr_root, H, view_close_o. reflexivity. Qed.

(* ---- errors ---- *)
Definition mm_causes :=
  fix go (l : list (option errv)) {struct l} : list (mtree leaf) * option bytes :=
    match l with
    | [] => ([], None)
    | None :: r => go r
    | Some ce :: r =>
        let '(sc, e1) := mm_err s_error ce mst0 in
        let v := MO (mroot sc) in
        match e1 with
        | Some m => ([v], Some m)
        | None => let '(vs, e2) := go r in (v :: vs, e2)
        end
    end.
Lemma mm_err_eq k msg verbose group s :
  mm_err k (ErrV msg verbose group) s =
  match msg with
  | ONilPtr => (mstr s k s_nilptr, None)
  | OPanic m => (s, Some (panic_err m))
  | OOk basic =>
      let s1 := mstr s k basic in
      match group with
      | Some causes => let '(vs, err) := mm_causes causes in (madd s1 (k ++ s_Causes) (MA vs), err)
      | None =>
          match verbose with
          | Some v => if bytes_eqb v basic then (s1, None) else (mstr s1 (k ++ s_Verbose) v, None)
          | None => (s1, None)
          end
      end
  end.
Proof. reflexivity. Qed.

Definition Merr (e : errv) : Prop := forall k o s, repr s = Mv o ->
  repr (fst (mm_err k e s)) = Mv (fst (ev_err k e o)) /\ snd (mm_err k e s) = snd (ev_err k e o).

Lemma causes_agree causes : Forall (opt_all Merr) causes ->
  map (mmap la) (fst (mm_causes causes)) = map viewT (fst (ev_causes causes)) /\
  snd (mm_causes causes) = snd (ev_causes causes).
Proof.
  induction 1 as [|oe r Hoe _ IH]; [split; reflexivity|]. destruct oe as [ce|]; cbn [mm_causes ev_causes]; [|exact IH].
  cbn [opt_all] in Hoe. destruct (Hoe s_error octx0 mst0 eq_refl) as [H1 H2].
  destruct (mm_err s_error ce mst0) as [sc e1]. destruct (ev_err s_error ce octx0) as [oc e1']. cbn [fst snd] in *. subst e1'.
  pose proof (obj_root oc sc H1) as Hv.
  destruct e1 as [m|]; cbn [fst snd map]; [split; [now rewrite Hv|reflexivity]|].
  destruct IH as [I1 I2]. destruct (mm_causes r) as [vs e2]. destruct (ev_causes r) as [ws e2']. cbn [fst snd map] in *.
  split; [now rewrite Hv, I1|exact I2].
Qed.
Lemma merr_all : forall e, Merr e.
Proof.
  apply errv_ind'. intros msg verbose group IHg k o s H. rewrite mm_err_eq, ev_err_eq.
  destruct msg as [basic|m|]; cbn [fst snd].
  - pose proof (step_str o s k basic H) as H1. destruct group as [causes|].
    + cbn zeta. destruct (causes_agree causes IHg) as [C1 C2].
      destruct (mm_causes causes) as [vs err]. destruct (ev_causes causes) as [ws err']. cbn [fst snd] in *. subst err'.
      split; [|reflexivity]. apply step_add; [exact H1|]. now rewrite mmap_MA, viewT_arr, C1.
    + destruct verbose as [v|]; [destruct (bytes_eqb v basic)|]; cbn [fst snd]; (split; [|reflexivity]); try exact H1.
      now apply step_str.
  - auto.
  - split; [|reflexivity]. now apply step_str.
Qed.

(* ---- fields ---- *)
(* no reflected value that encoding/json rejects *)
Fixpoint ok_fld (f : fld) {struct f} : Prop :=
  match f with
  | FReflect _ (RErr _) => False
  | FObject _ m | FInline m => ok_objm m
  | FArray _ a => ok_arrm a
  | _ => True
  end
with ok_objm (m : objm) {struct m} : Prop :=
  match m with Obj calls _ => (fix go (l : list fld) : Prop := match l with [] => True | f :: r => ok_fld f /\ go r end) calls end
with ok_arrm (a : arrm) {struct a} : Prop :=
  match a with Arr es _ _ => (fix go (l : list elem) : Prop := match l with [] => True | e :: r => ok_elem e /\ go r end) es end
with ok_elem (e : elem) {struct e} : Prop :=
  match e with ERefl (RErr _) => False | EObj m => ok_objm m | EArr a => ok_arrm a | _ => True end.
Definition ok_flds := fix go (l : list fld) : Prop := match l with [] => True | f :: r => ok_fld f /\ go r end.
Definition ok_elems := fix go (l : list elem) : Prop := match l with [] => True | e :: r => ok_elem e /\ go r end.

Definition mm_flds' := fix go (l : list fld) (s : mst leaf) {struct l} : mst leaf :=
  match l with [] => s | f :: r => go r (mm_fld f s) end.
Definition mm_elems' (stop : bool) := fix go (l : list elem) {struct l} : list (mtree leaf) * option bytes :=
  match l with
  | [] => ([], None)
  | e :: r => let '(v, err) := mm_elem e in
              match err with
              | Some m => if stop then (ocons v [], Some m) else let '(vs, e2) := go r in (ocons v vs, e2)
              | None => let '(vs, e2) := go r in (ocons v vs, e2)
              end
  end.
Lemma mm_obj_eq calls ret : mm_obj (Obj calls ret) = (MO (mroot (mm_flds' calls mst0)), ret).
Proof. reflexivity. Qed.
Lemma mm_arr_eq es ret stop : mm_arr (Arr es ret stop) =
  (let '(vs, early) := mm_elems' stop es in (MA vs, match early with Some m => Some m | None => ret end)).
Proof. reflexivity. Qed.
Lemma mm_fld_obj k m s : mm_fld (FObject k m) s = (let '(v, err) := mm_obj m in merr k err (madd s k v)).
Proof. reflexivity. Qed.
Lemma mm_fld_inl calls ret s : mm_fld (FInline (Obj calls ret)) s = merr [] ret (mm_flds' calls s).
Proof. reflexivity. Qed.
Lemma mm_fld_arr k a s : mm_fld (FArray k a) s = (let '(v, err) := mm_arr a in merr k err (madd s k v)).
Proof. reflexivity. Qed.
Lemma mm_elem_obj m : mm_elem (EObj m) = (let '(v, err) := mm_obj m in (Some v, err)).
Proof. reflexivity. Qed.
Lemma mm_elem_arr a : mm_elem (EArr a) = (let '(v, err) := mm_arr a in (Some v, err)).
Proof. reflexivity. Qed.
Lemma mm_flds_eq fs s : mm_flds fs s = mm_flds' fs s.
Proof. unfold mm_flds. revert s. induction fs as [|f r IH]; intros s; [reflexivity|]. cbn. apply IH. Qed.

Definition Af (f : fld) : Prop := ok_fld f -> forall o s, repr s = Mv o -> repr (mm_fld f s) = Mv (ev_fld c f o).
Definition Ao (m : objm) : Prop := ok_objm m ->
  (mmap la (fst (mm_obj m)) = viewT (fst (ev_obj c m)) /\ snd (mm_obj m) = snd (ev_obj c m)) /\
  match m with Obj calls _ => forall o s, repr s = Mv o -> repr (mm_flds' calls s) = Mv (ev_flds' c calls o) end.
Definition Aa (a : arrm) : Prop := ok_arrm a ->
  mmap la (fst (mm_arr a)) = viewT (fst (ev_arr c a)) /\ snd (mm_arr a) = snd (ev_arr c a).
Definition Ae (e : elem) : Prop := ok_elem e ->
  option_map (mmap la) (fst (mm_elem e)) = option_map viewT (fst (ev_elem c e)) /\ snd (mm_elem e) = snd (ev_elem c e).

Lemma fold_agree calls : Forall Af calls -> ok_flds calls ->
  forall o s, repr s = Mv o -> repr (mm_flds' calls s) = Mv (ev_flds' c calls o).
Proof.
  induction 1 as [|f r Hf _ IH]; intros Hw o s H; [exact H|]. cbn [ok_flds] in Hw. destruct Hw as [H1 H2].
  cbn [mm_flds' ev_flds']. apply IH; [exact H2|]. now apply Hf.
Qed.
Lemma ocons_map (v : option (mtree leaf)) (w : option jt) vs ws :
  option_map (mmap la) v = option_map viewT w -> map (mmap la) vs = map viewT ws ->
  map (mmap la) (ocons v vs) = map viewT (consopt w ws).
Proof. destruct v, w; cbn [option_map ocons consopt map]; intros H1 H2; try discriminate; [injection H1 as ->; now rewrite H2|exact H2]. Qed.
Lemma elems_agree stop es : Forall Ae es -> ok_elems es ->
  map (mmap la) (fst (mm_elems' stop es)) = map viewT (fst (ev_elems' c stop es)) /\
  snd (mm_elems' stop es) = snd (ev_elems' c stop es).
Proof.
  induction 1 as [|e r He _ IH]; intros Hw; [split; reflexivity|]. cbn [ok_elems] in Hw. destruct Hw as [H1 H2].
  destruct (He H1) as (Hv & Herr). specialize (IH H2). cbn [mm_elems' ev_elems'].
  destruct (mm_elem e) as [lv err]. destruct (ev_elem c e) as [ov err']. cbn [fst snd] in *. subst err'.
  destruct IH as [I1 I2].
  destruct err as [m|]; [destruct stop|]; cbn [fst snd].
  - split; [now apply ocons_map|reflexivity].
  - destruct (mm_elems' false r) as [vs e2]. destruct (ev_elems' c false r) as [ws e2']. cbn [fst snd] in *. split; [now apply ocons_map|exact I2].
  - destruct (mm_elems' stop r) as [vs e2]. destruct (ev_elems' c stop r) as [ws e2']. cbn [fst snd] in *. split; [now apply ocons_map|exact I2].
Qed.

Theorem map_step : forall f, Af f.
Proof.
  apply (fld_ind' Af Ao Aa Ae); unfold Af, Ao, Aa, Ae.
  - intros k b _ o s H. cbn [mm_fld ev_fld]. now apply step_add.
  - intros k z _ o s H. cbn [mm_fld ev_fld]. now apply step_add.
  - intros k z _ o s H. cbn [mm_fld ev_fld]. now apply step_add.
  - intros k f _ o s H. cbn [mm_fld ev_fld]. now apply step_add.
  - intros k v _ o s H. cbn [mm_fld ev_fld]. now apply step_str.
  - intros k v _ o s H. cbn [mm_fld ev_fld]. now apply step_str.
  - intros k v _ o s H. cbn [mm_fld ev_fld]. unfold str_m. now apply step_add.
  - intros k re im g _ o s H. cbn [mm_fld ev_fld]. now apply step_add.
  - intros k d _ o s H. cbn [mm_fld ev_fld]. now apply step_add.
  - intros k t _ o s H. cbn [mm_fld ev_fld]. now apply step_add.
  - intros k r Hok o s H. cbn [mm_fld ev_fld ok_fld] in *. destruct r as [|t|m]; cbn [refl_atom]; [now apply step_add|now apply step_add|contradiction].
  - intros k _ o s H. cbn [mm_fld ev_fld]. now rewrite repr_open, Mv_open, H.
  - intros _ o s H. exact H.
  - intros k out _ o s H. cbn [mm_fld ev_fld]. destruct out; [now apply step_str|now apply step_merr|now apply step_str].
  - intros k e _ o s H. cbn [mm_fld ev_fld]. destruct (merr_all e k o s H) as [H1 H2].
    destruct (mm_err k e s) as [s1 err]. destruct (ev_err k e o) as [o1 err']. cbn [fst snd] in *. subst err'. now apply step_merr.
  - intros k m Hm Hok o s H. rewrite mm_fld_obj, ev_fld_obj. cbn [ok_fld] in Hok. destruct (Hm Hok) as [[H1 H2] _].
    destruct (mm_obj m) as [lv err]. destruct (ev_obj c m) as [v err']. cbn [fst snd] in *. subst err'.
    apply step_merr. now apply step_add.
  - intros [calls ret] Hm Hok o s H. rewrite mm_fld_inl, ev_fld_inl. cbn [ok_fld] in Hok. destruct (Hm Hok) as [_ Hi].
    apply step_merr. now apply Hi.
  - intros k a Ha Hok o s H. rewrite mm_fld_arr, ev_fld_arr. cbn [ok_fld] in Hok. destruct (Ha Hok) as [H1 H2].
    destruct (mm_arr a) as [lv err]. destruct (ev_arr c a) as [v err']. cbn [fst snd] in *. subst err'.
    apply step_merr. now apply step_add.
  - intros cs r Hcs Hok. cbn [ok_objm] in Hok. fold (ok_flds cs) in Hok. split.
    + rewrite mm_obj_eq, ev_obj_eq. cbn [fst snd]. split; [|reflexivity].
      apply obj_root. apply (fold_agree cs Hcs Hok octx0 mst0). reflexivity.
    + intros o s H. now apply (fold_agree cs Hcs Hok).
  - intros es r stop Hes Hok. cbn [ok_arrm] in Hok. fold (ok_elems es) in Hok. rewrite mm_arr_eq, ev_arr_eq.
    destruct (elems_agree stop es Hes Hok) as [H1 H2].
    destruct (mm_elems' stop es) as [vs early]. destruct (ev_elems' c stop es) as [ws early']. cbn [fst snd] in *. subst early'.
    split; [|reflexivity]. now rewrite mmap_MA, viewT_arr, H1.
  - intros b _. split; reflexivity.
  - intros z _. split; reflexivity.
  - intros z _. split; reflexivity.
  - intros f _. split; reflexivity.
  - intros s _. split; reflexivity.
  - intros s _. split; reflexivity.
  - intros re im g _. split; reflexivity.
  - intros d _. split; reflexivity.
  - intros t _. split; reflexivity.
  - intros r Hok. cbn [ok_elem] in Hok. destruct r as [|t|m]; [split; reflexivity|split; reflexivity|contradiction].
  - intros m Hm Hok. cbn [ok_elem] in Hok. destruct (Hm Hok) as [[H1 H2] _]. rewrite mm_elem_obj, ev_elem_obj.
    destruct (mm_obj m) as [lv e1]. destruct (ev_obj c m) as [v err]. cbn [fst snd option_map] in *. split; [now rewrite H1|exact H2].
  - intros a Ha Hok. cbn [ok_elem] in Hok. destruct (Ha Hok) as [H1 H2]. rewrite mm_elem_arr, ev_elem_arr.
    destruct (mm_arr a) as [lv e1]. destruct (ev_arr c a) as [v err]. cbn [fst snd option_map] in *. split; [now rewrite H1|exact H2].
  - intros msg _. split; reflexivity.
Qed.

(* C02_map_agrees *)
Theorem map_agrees fs : ok_flds fs ->
  mmap la (MO (map_encode fs)) = viewT (TObj (close (ev_flds c fs octx0))).
Proof.
  intros Hok. unfold map_encode. rewrite mm_flds_eq, ev_flds_eq. apply obj_root.
  apply fold_agree; [|exact Hok|reflexivity]. apply Forall_forall. intros f _. apply map_step.
Qed.
End S.

(* Decoding of encoder cases from the wire format (shared by C01, C02, C10, C16). *)
From Coq Require Import List ZArith NArith Bool.
From Coq.Strings Require Import Byte.
Import ListNotations.
From Zap Require Import Base.Wire Enc.Bytes Enc.Fields.

Fixpoint sx_size (s : sx) : nat :=
  match s with
  | SZ _ | SB _ => 1
  | SL l => S ((fix go (l : list sx) : nat := match l with [] => 0 | x :: r => sx_size x + go r end) l)
  end.

Definition dec_fv (s : sx) : fv :=
  {| fcls := match sx_z (sx_nth s 0) with 0%Z => FNaN | 1%Z => FPInf | 2%Z => FNInf | _ => FFin end;
     ftxt := sx_b (sx_nth s 1) |}.
Definition dec_rend (s : sx) : rend :=
  match sx_z (sx_nth s 0) with
  | 0%Z => RFloat (dec_fv (sx_nth s 1))
  | 1%Z => RInt (sx_z (sx_nth s 1))
  | 2%Z => RStr (sx_b (sx_nth s 1))
  | _ => RLayout (sx_b (sx_nth s 1))
  end.
Definition dec_tv (s : sx) : tv := {| t_nanos := sx_z (sx_nth s 0); t_rend := dec_rend (sx_nth s 1) |}.
Definition dec_dv (s : sx) : dv := {| d_nanos := sx_z (sx_nth s 0); d_rend := dec_rend (sx_nth s 1) |}.
Definition dec_rv (s : sx) : rv :=
  match sx_z (sx_nth s 0) with 0%Z => RNil | 1%Z => ROk (sx_b (sx_nth s 1)) | _ => RErr (sx_b (sx_nth s 1)) end.
Definition dec_outcome (s : sx) : outcome :=
  match sx_z (sx_nth s 0) with 0%Z => OOk (sx_b (sx_nth s 1)) | 1%Z => OPanic (sx_b (sx_nth s 1)) | _ => ONilPtr end.
Definition dec_optb (s : sx) : option bytes := match sx_l s with [] => None | x :: _ => Some (sx_b x) end.

Fixpoint dec_errv (fuel : nat) (s : sx) : errv :=
  match fuel with
  | O => ErrV ONilPtr None None
  | S f =>
      ErrV (dec_outcome (sx_nth s 0)) (dec_optb (sx_nth s 1))
           (match sx_l (sx_nth s 2) with
            | [] => None
            | g :: _ => Some (map (fun c => match sx_l c with [] => None | e :: _ => Some (dec_errv f e) end) (sx_l g))
            end)
  end.

Fixpoint dec_fld (fuel : nat) (s : sx) {struct fuel} : fld :=
  match fuel with
  | O => FSkip
  | S f =>
      let k := sx_b (sx_nth s 1) in
      let a := sx_nth s 2 in
      match sx_z (sx_nth s 0) with
      | 0%Z => FBool k (sx_bool a)
      | 1%Z => FInt k (sx_z a)
      | 2%Z => FUint k (sx_z a)
      | 3%Z => FFloat k (dec_fv a)
      | 4%Z => FString k (sx_b a)
      | 5%Z => FByteString k (sx_b a)
      | 6%Z => FBinary k (sx_b a)
      | 7%Z => FComplex k (dec_fv a) (dec_fv (sx_nth s 3)) (sx_bool (sx_nth s 4))
      | 8%Z => FDuration k (dec_dv a)
      | 9%Z => FTime k (dec_tv a)
      | 10%Z => FReflect k (dec_rv a)
      | 11%Z => FNamespace k
      | 12%Z => FSkip
      | 13%Z => FStringer k (dec_outcome a)
      | 14%Z => FError k (dec_errv (sx_size a) a)
      | 15%Z => FObject k (dec_objm f a)
      | 16%Z => FInline (dec_objm f (sx_nth s 1))
      | _ => FArray k (dec_arrm f a)
      end
  end
with dec_objm (fuel : nat) (s : sx) {struct fuel} : objm :=
  match fuel with
  | O => Obj [] None
  | S f => Obj (map (dec_fld f) (sx_l (sx_nth s 0))) (dec_optb (sx_nth s 1))
  end
with dec_arrm (fuel : nat) (s : sx) {struct fuel} : arrm :=
  match fuel with
  | O => Arr [] None false
  | S f => Arr (map (dec_elem f) (sx_l (sx_nth s 0))) (dec_optb (sx_nth s 1)) (sx_bool (sx_nth s 2))
  end
with dec_elem (fuel : nat) (s : sx) {struct fuel} : elem :=
  match fuel with
  | O => EBool false
  | S f =>
      let a := sx_nth s 1 in
      match sx_z (sx_nth s 0) with
      | 0%Z => EBool (sx_bool a)
      | 1%Z => EInt (sx_z a)
      | 2%Z => EUint (sx_z a)
      | 3%Z => EFloat (dec_fv a)
      | 4%Z => EStr (sx_b a)
      | 5%Z => EBStr (sx_b a)
      | 6%Z => ECplx (dec_fv a) (dec_fv (sx_nth s 2)) (sx_bool (sx_nth s 3))
      | 7%Z => EDur (dec_dv a)
      | 8%Z => ETime (dec_tv a)
      | 9%Z => ERefl (dec_rv a)
      | 10%Z => EObj (dec_objm f a)
      | 11%Z => EArr (dec_arrm f a)
      | _ => EFail (sx_b a)
      end
  end.

Definition dec_fields (s : sx) : list fld := map (fun x => dec_fld (sx_size x) x) (sx_l s).
Definition dec_senc (s : sx) : senc := match sx_z s with 0%Z => SNil | 1%Z => SNoop | _ => SActive end.
Definition dec_cfg (s : sx) : cfg :=
  {| k_message := sx_b (sx_nth s 0); k_level := sx_b (sx_nth s 1); k_time := sx_b (sx_nth s 2);
     k_name := sx_b (sx_nth s 3); k_caller := sx_b (sx_nth s 4); k_function := sx_b (sx_nth s 5);
     k_stack := sx_b (sx_nth s 6); skip_line_ending := sx_bool (sx_nth s 7); line_ending := sx_b (sx_nth s 8);
     e_level := dec_senc (sx_nth s 9); e_time := dec_senc (sx_nth s 10); e_duration := dec_senc (sx_nth s 11);
     e_caller := dec_senc (sx_nth s 12); e_name := dec_senc (sx_nth s 13); console_sep := sx_b (sx_nth s 14);
     q_layout_escaped := true; q_nil_caller_guard := true |}.
Definition dec_entry (s : sx) : entry :=
  {| lvl_text := sx_b (sx_nth s 0); lvl_string := sx_b (sx_nth s 1); time_zero := sx_bool (sx_nth s 2);
     time_val := dec_tv (sx_nth s 3); time_col := sx_b (sx_nth s 4); name := sx_b (sx_nth s 5);
     caller_defined := sx_bool (sx_nth s 6); caller_text := sx_b (sx_nth s 7); caller_string := sx_b (sx_nth s 8);
     func := sx_b (sx_nth s 9); message := sx_b (sx_nth s 10); stack := sx_b (sx_nth s 11) |}.

(* a case: (cfg (ctx ...) entry fields) *)
Record ecase := { ec_cfg : cfg; ec_ctxs : list (list fld); ec_ent : entry; ec_fs : list fld }.
Definition dec_case (i : sx) : ecase :=
  {| ec_cfg := dec_cfg (sx_nth i 0); ec_ctxs := map dec_fields (sx_l (sx_nth i 1));
     ec_ent := dec_entry (sx_nth i 2); ec_fs := dec_fields (sx_nth i 3) |}.

(* Byte-level model of zapcore's jsonEncoder (zapcore/json_encoder.go), Field.AddTo
   (zapcore/field.go), encodeError/errArray (zapcore/error.go), ioCore.With
   (zapcore/core.go).  Written to follow the Go text: the state is exactly
   (buf, openNamespaces); the separator logic looks at the LAST BYTE of buf.
   No proofs in this file. *)
From Coq Require Import List ZArith NArith Bool.
From Coq.Strings Require Import Byte.
Import ListNotations.
From Zap Require Import Base.Wire Enc.Bytes Enc.Utf8 Enc.Decimal Enc.Base64 Enc.Fields.

Record st := { buf : bytes; ns : nat }.
Definition app_buf (s : st) (b : bytes) : st := {| buf := buf s ++ b; ns := ns s |}.

Section Enc.
Variable c : cfg.
Variable sp : bool.          (* spaced: the console encoder's context encoder *)

(* addElementSeparator *)
Definition nosep (b : byte) : bool :=
  Byte.eqb b LBRACE || Byte.eqb b LBRACK || Byte.eqb b COLON || Byte.eqb b COMMA || Byte.eqb b SPACE.
Definition add_sep (b : bytes) : bytes :=
  match lastb b with
  | None => b
  | Some l => if nosep l then b else b ++ [COMMA] ++ (if sp then [SPACE] else [])
  end.

(* safeAppendStringLike: the escaped form of s *)
Definition esc_byte (b : byte) : bytes :=
  if Byte.eqb b BSLASH || Byte.eqb b QUOTE then [BSLASH; b]
  else if Byte.eqb b NL then [BSLASH; x6e]
  else if Byte.eqb b CR then [BSLASH; x72]
  else if Byte.eqb b TAB then [BSLASH; x74]
  else s_u00 ++ [hexdigit (bN b / 16)%N; hexdigit (bN b mod 16)%N].
Fixpoint escape_fuel (fuel : nat) (s : bytes) : bytes :=
  match fuel with
  | O => []
  | S f =>
      match s with
      | [] => []
      | b :: r =>
          if (0x80 <=? bN b)%N then
            match decode_multi s with
            | Some n => firstn n s ++ escape_fuel f (skipn n s)
            | None => s_ufffd ++ escape_fuel f r
            end
          else if (0x20 <=? bN b)%N && negb (Byte.eqb b BSLASH) && negb (Byte.eqb b QUOTE)
          then b :: escape_fuel f r
          else esc_byte b ++ escape_fuel f r
      end
  end.
Definition escape (s : bytes) : bytes := escape_fuel (S (length s)) s.
Definition quoted (s : bytes) : bytes := [QUOTE] ++ escape s ++ [QUOTE].

(* addKey *)
Definition add_key (k : bytes) (b : bytes) : bytes :=
  add_sep b ++ quoted k ++ [COLON] ++ (if sp then [SPACE] else []).

(* Append* primitives on the buffer *)
Definition ap_raw (txt : bytes) (b : bytes) : bytes := add_sep b ++ txt.
Definition ap_string (s : bytes) (b : bytes) : bytes := ap_raw (quoted s) b.
Definition ap_bool (v : bool) (b : bytes) : bytes := ap_raw (if v then s_true else s_false) b.
Definition ap_int (z : Z) (b : bytes) : bytes := ap_raw (print_Z z) b.
Definition float_txt (f : fv) : bytes :=
  match fcls f with FNaN => s_NaN_q | FPInf => s_PInf_q | FNInf => s_NInf_q | FFin => ftxt f end.
Definition ap_float (f : fv) (b : bytes) : bytes := ap_raw (float_txt f) b.
Definition ap_complex (re im : fv) (ge0 : bool) (b : bytes) : bytes :=
  ap_raw ([QUOTE] ++ ftxt re ++ (if ge0 then [x2b] else []) ++ ftxt im ++ [x69; QUOTE]) b.
(* AppendTimeLayout: the formatted text between quotes *)
Definition ap_layout (txt : bytes) (b : bytes) : bytes :=
  ap_raw ([QUOTE] ++ (if q_layout_escaped c then escape txt else txt) ++ [QUOTE]) b.
Definition ap_rend (r : rend) (b : bytes) : bytes :=
  match r with
  | RFloat f => ap_float f b
  | RInt z => ap_int z b
  | RStr s => ap_string s b
  | RLayout s => ap_layout s b
  end.
(* AppendTime / AppendDuration: user encoder, then fall back to the integer if nothing was written *)
Definition grew (before after : bytes) : bool := negb (Nat.eqb (length before) (length after)).
Definition ap_time (t : tv) (b : bytes) : bytes :=
  let b1 := match e_time c with SActive => ap_rend (t_rend t) b | _ => b end in
  if grew b b1 then b1 else ap_int (t_nanos t) b.
Definition ap_dur (d : dv) (b : bytes) : bytes :=
  let b1 := match e_duration c with SActive => ap_rend (d_rend d) b | _ => b end in
  if grew b b1 then b1 else ap_int (d_nanos d) b.
(* AddReflected / AppendReflected: encode first; on failure nothing is written *)
Definition refl_txt (r : rv) : sum bytes bytes :=
  match r with RNil => inl s_null | ROk t => inl t | RErr m => inr m end.

Definition add_string (k v : bytes) (s : st) : st := {| buf := ap_string v (add_key k (buf s)); ns := ns s |}.
Definition err_field (k : bytes) (e : option bytes) (s : st) : st :=
  match e with None => s | Some msg => add_string (k ++ s_Error) msg s end.

(* closeOpenNamespaces *)
Definition close_ns (s : st) : st := {| buf := buf s ++ repeat RBRACE (ns s); ns := 0 |}.

(* encodeStringer / the recover logic shared with encodeError *)
Definition panic_err (msg : bytes) : bytes := s_PANIC ++ msg.

(* encodeError(key, err, enc); errArray.MarshalLogArray; errArrayElem.MarshalLogObject *)
Fixpoint enc_err (k : bytes) (e : errv) (s : st) {struct e} : st * option bytes :=
  match e with
  | ErrV msg verbose group =>
      match msg with
      | ONilPtr => (add_string k s_nilptr s, None)
      | OPanic m => (s, Some (panic_err m))
      | OOk basic =>
          let s1 := add_string k basic s in
          match group with
          | Some causes =>
              (* enc.AddArray(key+"Causes", errArray(causes)) *)
              let s2 := {| buf := add_sep (add_key (k ++ s_Causes) (buf s1)) ++ [LBRACK]; ns := ns s1 |} in
              let '(s3, err) :=
                (fix go (l : list (option errv)) (s : st) {struct l} : st * option bytes :=
                   match l with
                   | [] => (s, None)
                   | None :: r => go r s
                   | Some ce :: r =>
                       (* arr.AppendObject(errArrayElem) *)
                       let old := ns s in
                       let s' := {| buf := add_sep (buf s) ++ [LBRACE]; ns := 0 |} in
                       let '(s'', err) := enc_err s_error ce s' in
                       let s''' := {| buf := buf (close_ns (app_buf s'' [RBRACE])); ns := old |} in
                       match err with Some m => (s''', Some m) | None => go r s''' end
                   end) causes s2 in
              (app_buf s3 [RBRACK], err)
          | None =>
              match verbose with
              | Some v => if bytes_eqb v basic then (s1, None) else (add_string (k ++ s_Verbose) v s1, None)
              | None => (s1, None)
              end
          end
      end
  end.

Fixpoint enc_fld (f : fld) (s : st) {struct f} : st :=
  match f with
  | FBool k v => {| buf := ap_bool v (add_key k (buf s)); ns := ns s |}
  | FInt k z | FUint k z => {| buf := ap_int z (add_key k (buf s)); ns := ns s |}
  | FFloat k v => {| buf := ap_float v (add_key k (buf s)); ns := ns s |}
  | FString k v | FByteString k v => add_string k v s
  | FBinary k v => add_string k (encode64 v) s
  | FComplex k re im ge0 => {| buf := ap_complex re im ge0 (add_key k (buf s)); ns := ns s |}
  | FDuration k d => {| buf := ap_dur d (add_key k (buf s)); ns := ns s |}
  | FTime k t => {| buf := ap_time t (add_key k (buf s)); ns := ns s |}
  | FReflect k r =>
      match refl_txt r with
      | inl txt => {| buf := add_key k (buf s) ++ txt; ns := ns s |}
      | inr msg => err_field k (Some msg) s
      end
  | FNamespace k => {| buf := add_key k (buf s) ++ [LBRACE]; ns := S (ns s) |}
  | FSkip => s
  | FStringer k o =>
      match o with
      | OOk v => add_string k v s
      | ONilPtr => add_string k s_nilptr s
      | OPanic m => err_field k (Some (panic_err m)) s
      end
  | FError k e => let '(s1, err) := enc_err k e s in err_field k err s1
  | FObject k m =>
      let '(s1, err) := enc_obj m {| buf := add_key k (buf s); ns := ns s |} in err_field k err s1
  | FInline m => let '(s1, err) := enc_inl m s in err_field [] err s1
  | FArray k a =>
      let '(s1, err) := enc_arr a {| buf := add_key k (buf s); ns := ns s |} in err_field k err s1
  end
with enc_obj (m : objm) (s : st) {struct m} : st * option bytes :=   (* AppendObject *)
  match m with
  | Obj calls ret =>
      let old := ns s in
      let s1 := {| buf := add_sep (buf s) ++ [LBRACE]; ns := 0 |} in
      let s2 := (fix go (l : list fld) (s : st) {struct l} : st :=
                   match l with [] => s | f :: r => go r (enc_fld f s) end) calls s1 in
      ({| buf := buf (close_ns (app_buf s2 [RBRACE])); ns := old |}, ret)
  end
with enc_inl (m : objm) (s : st) {struct m} : st * option bytes :=   (* MarshalLogObject on the same encoder *)
  match m with
  | Obj calls ret =>
      ((fix go (l : list fld) (s : st) {struct l} : st :=
          match l with [] => s | f :: r => go r (enc_fld f s) end) calls s, ret)
  end
with enc_arr (a : arrm) (s : st) {struct a} : st * option bytes :=   (* AppendArray *)
  match a with
  | Arr elems ret stop =>
      let s1 := {| buf := add_sep (buf s) ++ [LBRACK]; ns := ns s |} in
      let '(s2, early) :=
        (fix go (l : list elem) (s : st) {struct l} : st * option bytes :=
           match l with
           | [] => (s, None)
           | e :: r =>
               let '(s', err) := enc_elem e s in
               match err with
               | Some m => if stop then (s', Some m) else go r s'
               | None => go r s'
               end
           end) elems s1 in
      (app_buf s2 [RBRACK], match early with Some m => Some m | None => ret end)
  end
with enc_elem (e : elem) (s : st) {struct e} : st * option bytes :=
  match e with
  | EBool v => ({| buf := ap_bool v (buf s); ns := ns s |}, None)
  | EInt z | EUint z => ({| buf := ap_int z (buf s); ns := ns s |}, None)
  | EFloat v => ({| buf := ap_float v (buf s); ns := ns s |}, None)
  | EStr v | EBStr v => ({| buf := ap_string v (buf s); ns := ns s |}, None)
  | ECplx re im ge0 => ({| buf := ap_complex re im ge0 (buf s); ns := ns s |}, None)
  | EDur d => ({| buf := ap_dur d (buf s); ns := ns s |}, None)
  | ETime t => ({| buf := ap_time t (buf s); ns := ns s |}, None)
  | ERefl r =>
      match refl_txt r with
      | inl txt => ({| buf := add_sep (buf s) ++ txt; ns := ns s |}, None)
      | inr msg => (s, Some msg)
      end
  | EObj m => enc_obj m s
  | EArr a => enc_arr a s
  | EFail msg => (s, Some msg)
  end.

Definition enc_flds (fs : list fld) (s : st) : st := fold_left (fun s f => enc_fld f s) fs s.

(* ioCore.With chain: each With clones the encoder (bytes + openNamespaces) and adds the fields *)
Definition empty : st := {| buf := []; ns := 0 |}.
Definition with_chain (ctxs : list (list fld)) : st := fold_left (fun s fs => enc_flds fs s) ctxs empty.

(* newJSONEncoder's line-ending resolution *)
Definition resolved_le : bytes :=
  if skip_line_ending c then [] else if is_nil (line_ending c) then [NL] else line_ending c.

(* jsonEncoder.EncodeEntry, stage by stage (each stage maps the bytes written so far) *)
Definition st_level (ent : entry) (b0 : bytes) : bytes :=
  if negb (is_nil (k_level c)) && negb (match e_level c with SNil => true | _ => false end) then
    let bk := add_key (k_level c) b0 in
    let be := match e_level c with SActive => ap_string (lvl_text ent) bk | _ => bk end in
    if grew bk be then be else ap_string (lvl_string ent) bk
  else b0.
Definition st_time (ent : entry) (b1 : bytes) : bytes :=
  if negb (is_nil (k_time c)) && negb (time_zero ent) then ap_time (time_val ent) (add_key (k_time c) b1) else b1.
Definition st_name (ent : entry) (b2 : bytes) : bytes :=
  if negb (is_nil (name ent)) && negb (is_nil (k_name c)) then
    let bk := add_key (k_name c) b2 in
    let be := match e_name c with SNoop => bk | _ => ap_string (name ent) bk end in   (* nil = FullNameEncoder *)
    if grew bk be then be else ap_string (name ent) bk
  else b2.
(* None = the call panics (only the unrepaired nil EncodeCaller) *)
Definition st_caller (ent : entry) (b3 : bytes) : option bytes :=
  if caller_defined ent then
    let bc :=
      if negb (is_nil (k_caller c)) then
        match e_caller c with
        | SNil => if q_nil_caller_guard c then Some b3 else None
        | SNoop => Some (ap_string (caller_string ent) (add_key (k_caller c) b3))
        | SActive => Some (ap_string (caller_text ent) (add_key (k_caller c) b3))
        end
      else Some b3 in
    match bc with
    | None => None
    | Some bc => Some (if negb (is_nil (k_function c)) then ap_string (func ent) (add_key (k_function c) bc) else bc)
    end
  else Some b3.
Definition st_message (ent : entry) (b4 : bytes) : bytes :=
  if negb (is_nil (k_message c)) then ap_string (message ent) (add_key (k_message c) b4) else b4.
Definition st_stack (ent : entry) (b7 : bytes) : bytes :=
  if negb (is_nil (stack ent)) && negb (is_nil (k_stack c)) then ap_string (stack ent) (add_key (k_stack c) b7) else b7.

Definition encode_entry (ctx : st) (ent : entry) (fs : list fld) : option bytes :=
  match st_caller ent (st_name ent (st_time ent (st_level ent [LBRACE]))) with
  | None => None
  | Some b4 =>
      let b5 := st_message ent b4 in
      (* accumulated context bytes *)
      let b6 := if negb (is_nil (buf ctx)) then add_sep b5 ++ buf ctx else b5 in
      let s7 := close_ns (enc_flds fs {| buf := b6; ns := ns ctx |}) in
      Some (st_stack ent (buf s7) ++ [RBRACE] ++ resolved_le)
  end.

End Enc.

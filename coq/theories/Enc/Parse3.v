(* Trees: the parser reads back exactly the tree the encoder printed (compact or
   spaced), given that each atom parses in a delimited context. *)
From Coq Require Import List ZArith NArith Bool Lia.
From Coq.Strings Require Import Byte.
Import ListNotations.
From Zap Require Import Base.Wire Enc.Bytes Enc.Utf8 Enc.Decimal Enc.Fields Enc.JsonEnc Enc.JsonParse Enc.JsonAst Enc.Wf Enc.Refine1 Enc.Parse1 Enc.Parse2.

(* the JSON value an atom denotes *)
Definition asem (a : atom) : jv :=
  match a with
  | ANum t => JNum t
  | AStr s => JStr (sanitize s)
  | AQ b => JStr b
  | ATrue => JBool true
  | AFalse => JBool false
  | ARaw t => match p_value (length t) t with Some (j, _) => j | None => JNull end
  end.
(* n = the fuel the token needs (1 for flat tokens; a reflected JSON text needs at most its length) *)
Definition parses_as (n : nat) (t : bytes) (j : jv) : Prop :=
  forall rest f, delim rest -> n <= f -> p_value f (t ++ rest) = Some (j, rest).
Definition asize (a : atom) : nat := match a with ARaw t => length t | _ => 1 end.
Definition starts_ok (t : bytes) : Prop :=
  match t with b :: _ => is_ws b = false /\ Byte.eqb b RBRACK = false | [] => False end.
Definition atom_pre (a : atom) : Prop := parses_as (asize a) (atxt a) (asem a) /\ starts_ok (atxt a) /\ no_ctl (atxt a) = true.

Fixpoint tpre (v : jt) : Prop :=
  match v with
  | TA a => atom_pre a
  | TArr l => (fix go (l : list jt) : Prop := match l with [] => True | x :: r => tpre x /\ go r end) l
  | TObj l => (fix go (l : list member) : Prop := match l with [] => True | (_, x) :: r => tpre x /\ go r end) l
  end.
Definition tpre_list := fix go (l : list jt) : Prop := match l with [] => True | x :: r => tpre x /\ go r end.
Definition tpre_mem := fix go (l : list member) : Prop := match l with [] => True | (_, x) :: r => tpre x /\ go r end.
Fixpoint jv_of (v : jt) : jv :=
  match v with
  | TA a => asem a
  | TArr l => JArr ((fix go (l : list jt) := match l with [] => [] | x :: r => jv_of x :: go r end) l)
  | TObj l => JObj ((fix go (l : list member) := match l with [] => [] | (k, x) :: r => (sanitize k, jv_of x) :: go r end) l)
  end.
Definition jv_list := fix go (l : list jt) := match l with [] => [] | x :: r => jv_of x :: go r end.
Definition jv_mem := fix go (l : list member) := match l with [] => [] | (k, x) :: r => (sanitize k, jv_of x) :: go r end.
Fixpoint size (v : jt) : nat :=
  match v with
  | TA a => asize a
  | TArr l => S ((fix go (l : list jt) := match l with [] => 0 | x :: r => S (size x + go r) end) l)
  | TObj l => S ((fix go (l : list member) := match l with [] => 0 | (_, x) :: r => S (size x + go r) end) l)
  end.
Definition esize := fix go (l : list jt) := match l with [] => 0 | x :: r => S (size x + go r) end.
Definition msize := fix go (l : list member) := match l with [] => 0 | (_, x) :: r => S (size x + go r) end.

Section JtInd.
  Variable P : jt -> Prop.
  Hypotheses (HA : forall a, P (TA a)) (HArr : forall l, Forall P l -> P (TArr l))
             (HObj : forall l, Forall (fun m => P (snd m)) l -> P (TObj l)).
  Fixpoint jt_ind' (v : jt) : P v :=
    match v with
    | TA a => HA a
    | TArr l => HArr l ((fix go (l : list jt) : Forall P l :=
                          match l with [] => Forall_nil _ | x :: r => Forall_cons _ (jt_ind' x) (go r) end) l)
    | TObj l => HObj l ((fix go (l : list member) : Forall (fun m => P (snd m)) l :=
                          match l with [] => Forall_nil _ | m :: r => Forall_cons (P := fun m => P (snd m)) m (jt_ind' (snd m)) (go r) end) l)
    end.
End JtInd.

(* ---- one-step rules of the parser on printed prefixes ---- *)
Lemma pv_space f X : p_value f (SPACE :: X) = p_value f X.
Proof. destruct f; reflexivity. Qed.
Lemma pm_space f X acc : p_members f (SPACE :: X) acc = p_members f X acc.
Proof. destruct f; reflexivity. Qed.
Lemma pe_space f X acc : p_elems f (SPACE :: X) acc = p_elems f X acc.
Proof. destruct f; [reflexivity|]. cbn [p_elems]. now rewrite pv_space. Qed.
Lemma pv_lbrace f r : p_value (S f) (LBRACE :: r) =
  match skip_ws r with
  | b' :: r' => if Byte.eqb b' RBRACE then Some (JObj [], r')
                else match p_members f r [] with Some (ms, r'') => Some (JObj ms, r'') | None => None end
  | [] => None
  end.
Proof. reflexivity. Qed.
Lemma pv_lbrack f r : p_value (S f) (LBRACK :: r) =
  match skip_ws r with
  | b' :: r' => if Byte.eqb b' RBRACK then Some (JArr [], r')
                else match p_elems f r [] with Some (vs, r'') => Some (JArr vs, r'') | None => None end
  | [] => None
  end.
Proof. reflexivity. Qed.
Lemma pv_quote f r : p_value (S f) (QUOTE :: r) =
  match p_string (S (length r)) r [] with Some (str, r') => Some (JStr str, r') | None => None end.
Proof. reflexivity. Qed.
Lemma pm_quote f r acc : p_members (S f) (QUOTE :: r) acc =
  match p_string (S (length r)) r [] with
  | Some (k, r1) =>
      match skip_ws r1 with
      | cb :: r2 =>
          if Byte.eqb cb COLON then
            match p_value f r2 with
            | Some (v, r3) =>
                match skip_ws r3 with
                | d :: r4 => if Byte.eqb d COMMA then p_members f r4 ((k, v) :: acc)
                             else if Byte.eqb d RBRACE then Some (rev ((k, v) :: acc), r4) else None
                | [] => None
                end
            | None => None
            end
          else None
      | [] => None
      end
  | None => None
  end.
Proof. reflexivity. Qed.
Lemma pe_step f s acc : p_elems (S f) s acc =
  match p_value f s with
  | Some (v, r3) =>
      match skip_ws r3 with
      | d :: r4 => if Byte.eqb d COMMA then p_elems f r4 (v :: acc)
                   else if Byte.eqb d RBRACK then Some (rev (v :: acc), r4) else None
      | [] => None
      end
  | None => None
  end.
Proof. reflexivity. Qed.

Lemma skip_nonws b X : is_ws b = false -> skip_ws (b :: X) = b :: X.
Proof. intros H. cbn [skip_ws]. now rewrite H. Qed.

(* ---- atoms that need no oracle ---- *)
Lemma quoted_parses s : parses_as 1 (quoted s) (JStr (sanitize s)).
Proof.
  intros rest f _ Hf. destruct f as [|f]; [lia|]. unfold quoted. rewrite <- !app_assoc. cbn [app]. rewrite pv_quote.
  rewrite string_roundtrip; [reflexivity|]. rewrite app_length. cbn. lia.
Qed.
Lemma quoted_starts s : starts_ok (quoted s).
Proof. split; reflexivity. Qed.

Definition plainb (b : byte) : bool :=
  (0x20 <=? bN b)%N && (bN b <? 0x80)%N && negb (Byte.eqb b QUOTE) && negb (Byte.eqb b BSLASH).
Lemma plain_parse body : forall X acc f, forallb plainb body = true -> length body < f ->
  p_string f (body ++ QUOTE :: X) acc = Some (rev acc ++ body, X).
Proof.
  induction body as [|b r IH]; intros X acc f Hp Hf.
  - destruct f; [cbn in Hf; lia|]. cbn [app]. rewrite ps_quote. now rewrite app_nil_r.
  - cbn [forallb] in Hp. apply andb_true_iff in Hp as [Hb Hr]. unfold plainb in Hb.
    apply andb_true_iff in Hb as [Hb H4]. apply andb_true_iff in Hb as [Hb H3]. apply andb_true_iff in Hb as [H1 H2].
    apply negb_true_iff in H3, H4.
    destruct f; [cbn in Hf; lia|]. cbn [app]. rewrite ps_plain; try assumption.
    + rewrite IH; [|exact Hr|cbn in Hf; lia]. cbn [rev]. now rewrite <- app_assoc.
    + apply N.leb_gt. apply N.ltb_lt in H2. exact H2.
Qed.
Lemma aq_parses b : plain_okb b = true -> parses_as 1 (atxt (AQ b)) (JStr b).
Proof.
  intros Hp rest f _ Hf. destruct f as [|f]; [lia|]. cbn [atxt]. rewrite <- !app_assoc. cbn [app]. rewrite pv_quote.
  rewrite plain_parse; [reflexivity|exact Hp|cbn; rewrite app_length; cbn; lia].
Qed.
Lemma true_parses : parses_as 1 s_true (JBool true).
Proof. intros rest f _ Hf. destruct f as [|f]; [lia|]. reflexivity. Qed.
Lemma false_parses : parses_as 1 s_false (JBool false).
Proof. intros rest f _ Hf. destruct f as [|f]; [lia|]. reflexivity. Qed.
Lemma int_parses z : parses_as 1 (print_Z z) (JNum (print_Z z)).
Proof. intros rest f Hr Hf. destruct f as [|f]; [lia|]. apply p_value_number; [apply print_Z_head|now apply print_Z_parses]. Qed.
Lemma int_starts z : starts_ok (print_Z z).
Proof.
  pose proof (print_Z_head z) as H. unfold starts_ok. destruct (print_Z z) as [|b r]; [exact H|].
  destruct H as [H| ->]; [destruct b; try discriminate; split; reflexivity|split; reflexivity].
Qed.

Section S.
Variable sp : bool.
Notation pv := (pv sp).
Notation popen := (popen sp).
Notation pelems := (pelems sp).

Lemma skip_sp X : skip_ws ((if sp then [SPACE] else []) ++ X) = skip_ws X.
Proof. destruct sp; reflexivity. Qed.
Lemma pv_sp f X : p_value f ((if sp then [SPACE] else []) ++ X) = p_value f X.
Proof. destruct sp; [apply pv_space|reflexivity]. Qed.
Lemma pm_sp f X acc : p_members f ((if sp then [SPACE] else []) ++ X) acc = p_members f X acc.
Proof. destruct sp; [apply pm_space|reflexivity]. Qed.
Lemma pe_sp f X acc : p_elems f ((if sp then [SPACE] else []) ++ X) acc = p_elems f X acc.
Proof. destruct sp; [apply pe_space|reflexivity]. Qed.

Definition Pt (v : jt) : Prop := tpre v ->
  (forall rest f, delim rest -> size v <= f -> p_value f (pv v ++ rest) = Some (jv_of v, rest)) /\ starts_ok (pv v).

Lemma skip_starts t X : starts_ok t -> exists b r, t ++ X = b :: r /\ skip_ws (t ++ X) = b :: r /\ Byte.eqb b RBRACK = false.
Proof.
  destruct t as [|b r]; [intros []|]. intros [H1 H2]. exists b, (r ++ X). repeat split; auto. cbn [app skip_ws]. now rewrite H1.
Qed.

Lemma members_parse ms : Forall (fun m => Pt (snd m)) ms -> tpre_mem ms -> ms <> [] ->
  forall rest acc f, msize ms <= f ->
    p_members f (popen ms ++ RBRACE :: rest) acc = Some (rev acc ++ jv_mem ms, rest).
Proof.
  induction 1 as [|[k v] r Hv _ IH]; intros Hp Hn rest acc f Hf; [congruence|].
  cbn [tpre_mem] in Hp. destruct Hp as [Hpv Hpr]. cbn [snd] in Hv. destruct (Hv Hpv) as [Hparse _].
  cbn [msize] in Hf. destruct f as [|f]; [lia|].
  assert (Hpop : popen ((k, v) :: r) ++ RBRACE :: rest =
                 QUOTE :: escape k ++ QUOTE :: COLON :: (if sp then [SPACE] else []) ++ pv v ++
                   match r with [] => RBRACE :: rest | _ => COMMA :: (if sp then [SPACE] else []) ++ popen r ++ RBRACE :: rest end).
  { unfold JsonAst.popen. destruct r as [|m r']; cbn [map join]; unfold pm, quoted, colb, sepb; cbn [fst snd];
      rewrite <- ?app_assoc; cbn [app]; rewrite <- ?app_assoc; reflexivity. }
  rewrite Hpop, pm_quote.
  rewrite string_roundtrip by (rewrite !app_length; cbn; lia).
  rewrite (skip_nonws COLON _ eq_refl). change (Byte.eqb COLON COLON) with true. cbv iota. rewrite pv_sp.
  destruct r as [|m r'].
  - rewrite (Hparse (RBRACE :: rest) f); [|right; left; reflexivity|lia].
    rewrite (skip_nonws RBRACE _ eq_refl). change (Byte.eqb RBRACE COMMA) with false. change (Byte.eqb RBRACE RBRACE) with true. cbv iota.
    cbn [rev jv_mem]. reflexivity.
  - rewrite (Hparse (COMMA :: (if sp then [SPACE] else []) ++ popen (m :: r') ++ RBRACE :: rest) f); [|left; reflexivity|lia].
    rewrite (skip_nonws COMMA _ eq_refl). change (Byte.eqb COMMA COMMA) with true. cbv iota. rewrite pm_sp.
    rewrite IH; [|exact Hpr|discriminate|lia]. cbn [rev jv_mem]. now rewrite <- app_assoc.
Qed.

Lemma elems_parse vs : Forall Pt vs -> tpre_list vs -> vs <> [] ->
  forall rest acc f, esize vs <= f ->
    p_elems f (pelems vs ++ RBRACK :: rest) acc = Some (rev acc ++ jv_list vs, rest).
Proof.
  induction 1 as [|v r Hv _ IH]; intros Hp Hn rest acc f Hf; [congruence|].
  cbn [tpre_list] in Hp. destruct Hp as [Hpv Hpr]. destruct (Hv Hpv) as [Hparse _].
  cbn [esize] in Hf. destruct f as [|f]; [lia|].
  assert (Hpop : pelems (v :: r) ++ RBRACK :: rest =
                 pv v ++ match r with [] => RBRACK :: rest | _ => COMMA :: (if sp then [SPACE] else []) ++ pelems r ++ RBRACK :: rest end).
  { unfold JsonAst.pelems. destruct r as [|m r']; cbn [map join]; unfold sepb; rewrite <- ?app_assoc; cbn [app]; rewrite <- ?app_assoc; reflexivity. }
  rewrite Hpop, pe_step.
  destruct r as [|m r'].
  - rewrite (Hparse (RBRACK :: rest) f); [|right; right; reflexivity|lia].
    rewrite (skip_nonws RBRACK _ eq_refl). change (Byte.eqb RBRACK COMMA) with false. change (Byte.eqb RBRACK RBRACK) with true. cbv iota.
    cbn [rev jv_list]. reflexivity.
  - rewrite (Hparse (COMMA :: (if sp then [SPACE] else []) ++ pelems (m :: r') ++ RBRACK :: rest) f); [|left; reflexivity|lia].
    rewrite (skip_nonws COMMA _ eq_refl). change (Byte.eqb COMMA COMMA) with true. cbv iota. rewrite pe_sp.
    rewrite IH; [|exact Hpr|discriminate|lia]. cbn [rev jv_list]. now rewrite <- app_assoc.
Qed.

Theorem tree_parses : forall v, Pt v.
Proof.
  apply jt_ind'.
  - (* atom *) intros a [Hp [Hs _]]. split; [|exact Hs]. intros rest f Hr Hf. cbn [size] in Hf. now apply Hp.
  - (* array *) intros l Hl Hp. split; [|split; reflexivity].
    intros rest f Hr Hf. rewrite pv_arr. cbn [size] in Hf. fold (esize l) in Hf. destruct f as [|f]; [lia|].
    rewrite <- !app_assoc. cbn [app]. rewrite pv_lbrack. destruct l as [|v r].
    + cbn. reflexivity.
    + assert (Hfirst : exists b x, skip_ws (pelems (v :: r) ++ RBRACK :: rest) = b :: x /\ Byte.eqb b RBRACK = false).
      { inversion Hl as [|? ? Hv Hrr]; subst. cbn [tpre] in Hp. destruct Hp as [Hpv _]. destruct (Hv Hpv) as [_ Hst].
        unfold JsonAst.pelems. cbn [map]. destruct (map (JsonAst.pv sp) r) as [|y ys] eqn:E; cbn [join].
        - destruct (skip_starts _ (RBRACK :: rest) Hst) as (b & x & _ & H2 & H3). eauto.
        - rewrite <- !app_assoc. destruct (skip_starts _ (sepb sp ++ join (sepb sp) (y :: ys) ++ RBRACK :: rest) Hst) as (b & x & _ & H2 & H3). eauto. }
      destruct Hfirst as (b & x & -> & ->).
      rewrite (elems_parse (v :: r) Hl Hp ltac:(discriminate) rest [] f ltac:(lia)). reflexivity.
  - (* object *) intros l Hl Hp. split; [|split; reflexivity].
    intros rest f Hr Hf. rewrite pv_obj. cbn [size] in Hf. fold (msize l) in Hf. destruct f as [|f]; [lia|].
    rewrite <- !app_assoc. cbn [app]. rewrite pv_lbrace. destruct l as [|[k v] r].
    + cbn. reflexivity.
    + assert (Hfirst : exists x, skip_ws (popen ((k, v) :: r) ++ RBRACE :: rest) = QUOTE :: x).
      { unfold JsonAst.popen. cbn [map]. destruct (map (pm sp) r) as [|y ys]; cbn [join]; unfold pm, quoted; cbn [fst];
          rewrite <- ?app_assoc; cbn [app skip_ws is_ws]; eexists; reflexivity. }
      destruct Hfirst as (x & ->). replace (Byte.eqb QUOTE RBRACE) with false by reflexivity.
      rewrite (members_parse ((k, v) :: r) Hl Hp ltac:(discriminate) rest [] f ltac:(lia)). reflexivity.
Qed.

(* no control character anywhere in the printed tree *)
Lemma no_ctl_app a b : no_ctl (a ++ b) = no_ctl a && no_ctl b.
Proof. unfold no_ctl. apply forallb_app. Qed.
Lemma no_ctl_join sep l : no_ctl sep = true -> Forall (fun x => no_ctl x = true) l -> no_ctl (join sep l) = true.
Proof.
  intros Hs. induction 1 as [|x r Hx _ IH]; [reflexivity|]. destruct r as [|y r']; [exact Hx|].
  change (join sep (x :: y :: r')) with (x ++ sep ++ join sep (y :: r')). now rewrite !no_ctl_app, Hx, Hs, IH.
Qed.
Lemma quoted_no_ctl k : no_ctl (quoted k) = true.
Proof. unfold quoted. rewrite !no_ctl_app. unfold escape. now rewrite escape_no_ctl. Qed.
Lemma sepb_no_ctl : no_ctl (sepb sp) = true.
Proof. destruct sp; reflexivity. Qed.
Lemma colb_no_ctl : no_ctl (colb sp) = true.
Proof. destruct sp; reflexivity. Qed.
Theorem tree_no_ctl : forall v, tpre v -> no_ctl (pv v) = true.
Proof.
  apply (jt_ind' (fun v => tpre v -> no_ctl (pv v) = true)).
  - intros a (_ & _ & H). exact H.
  - intros l Hl Hp. rewrite pv_arr, !no_ctl_app. change (no_ctl [LBRACK]) with true. change (no_ctl [RBRACK]) with true. rewrite andb_true_r. cbn [andb].
    unfold JsonAst.pelems. apply no_ctl_join; [apply sepb_no_ctl|]. apply Forall_map.
    revert Hp. induction Hl as [|x r Hx _ IH]; intros Hp; constructor; cbn [tpre] in Hp; destruct Hp as [H1 H2]; auto.
  - intros l Hl Hp. rewrite pv_obj, !no_ctl_app. change (no_ctl [LBRACE]) with true. change (no_ctl [RBRACE]) with true. rewrite andb_true_r. cbn [andb].
    unfold JsonAst.popen. apply no_ctl_join; [apply sepb_no_ctl|]. apply Forall_map.
    revert Hp. induction Hl as [|[k x] r Hx _ IH]; intros Hp; constructor; cbn [tpre] in Hp; destruct Hp as [H1 H2]; auto.
    unfold pm; cbn [fst snd]. rewrite !no_ctl_app, quoted_no_ctl, colb_no_ctl. cbn [andb]. now apply Hx.
Qed.

(* the fuel [parse] uses is enough: a printed tree is at least as long as its size *)
Lemma starts_len t : starts_ok t -> 1 <= length t.
Proof. destruct t; [intros []|cbn; lia]. Qed.
Lemma sepb_len : 1 <= length (sepb sp).
Proof. destruct sp; cbn; lia. Qed.
Theorem size_le : forall v, tpre v -> size v <= length (pv v).
Proof.
  apply (jt_ind' (fun v => tpre v -> size v <= length (pv v))).
  - intros a (_ & Hs & _). cbn [size JsonAst.pv]. destruct a; cbn [asize atxt] in *; try (now apply starts_len); lia.
  - intros l Hl Hp. rewrite pv_arr, !app_length. cbn [size length]. fold (esize l).
    assert (G : esize l <= length (pelems l) + 1).
    { revert Hp. induction Hl as [|x r Hx _ IH]; intros Hp; [cbn; lia|]. cbn [tpre] in Hp. destruct Hp as [H1 H2].
      specialize (Hx H1). specialize (IH H2). cbn [esize]. unfold JsonAst.pelems in *. cbn [map].
      destruct r as [|y r']; [cbn [map join esize]; lia|].
      change (join (sepb sp) (JsonAst.pv sp x :: map (JsonAst.pv sp) (y :: r'))) with (JsonAst.pv sp x ++ sepb sp ++ join (sepb sp) (map (JsonAst.pv sp) (y :: r'))).
      rewrite !app_length. pose proof sepb_len. lia. }
    lia.
  - intros l Hl Hp. rewrite pv_obj, !app_length. cbn [size length]. fold (msize l).
    assert (G : msize l <= length (popen l)).
    { revert Hp. induction Hl as [|[k x] r Hx _ IH]; intros Hp; [cbn; lia|]. cbn [tpre] in Hp. destruct Hp as [H1 H2].
      cbn [snd] in Hx. specialize (Hx H1). specialize (IH H2). cbn [msize]. unfold JsonAst.popen in *. cbn [map].
      assert (Hpm : S (size x) <= length (pm sp (k, x))).
      { unfold pm, quoted, colb; cbn [fst snd]. rewrite !app_length. cbn [length]. lia. }
      destruct r as [|y r']; [cbn [map join msize]; lia|].
      change (join (sepb sp) (pm sp (k, x) :: map (pm sp) (y :: r'))) with (pm sp (k, x) ++ sepb sp ++ join (sepb sp) (map (pm sp) (y :: r'))).
      rewrite !app_length. lia. }
    lia.
Qed.

Theorem parse_printed v : tpre v -> parse (pv v) = Some (jv_of v).
Proof.
  intros Hp. unfold parse. destruct (tree_parses v Hp) as [H _].
  specialize (H [] (S (length (pv v))) I). rewrite app_nil_r in H. rewrite H; [reflexivity|].
  pose proof (size_le v Hp). lia.
Qed.
End S.

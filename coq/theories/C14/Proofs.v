(* C14 — proofs.  First half: generic in the value type V, the field type F, the type
   assertions and the field constructors (so every theorem holds for whatever zap.Any,
   zap.NamedError and the dynamic types of the arguments are).  Second half: the wire
   instance (V = F = sx) and the link spec/model. *)
From Coq Require Import List ZArith Bool Lia Sorted.
From Coq.Strings Require Import Byte.
Import ListNotations.
From Zap Require Import Base.Wire C14.Model.

Section Generic.
  Variables V F : Type.
  Variable as_field : V -> option F.
  Variable is_error : V -> bool.
  Variable as_string : V -> option bytes.
  Variable any_fld : bytes -> V -> F.
  Variable named_error : bytes -> V -> F.
  Variable array_invalid : list (nat * V * V) -> F.

  Local Notation sweep' := (sweep V F as_field is_error as_string any_fld named_error).
  Local Notation sweeten' := (sweeten V F as_field is_error as_string any_fld named_error array_invalid).
  Local Notation items' := (items V F as_field is_error as_string).
  Local Notation error_fld' := (error_fld V F named_error).
  Local Notation out_field' := (out_field V F any_fld named_error).
  Local Notation fields_of' := (fields_of V F any_fld named_error).
  Local Notation diag_calls_of' := (diag_calls_of V F any_fld named_error array_invalid).
  Local Notation spec_sweeten' := (spec_sweeten V F as_field is_error as_string any_fld named_error array_invalid).
  Local Notation check_write' := (check_write V F as_field is_error as_string any_fld named_error array_invalid).
  Local Notation slog' := (slog V F as_field is_error as_string any_fld named_error array_invalid).
  Local Notation slogln' := (slogln V F as_field is_error as_string any_fld named_error array_invalid).
  Local Notation swith' := (swith V F as_field is_error as_string any_fld named_error array_invalid).
  Local Notation do_call' := (do_call V F as_field is_error as_string any_fld named_error array_invalid).
  Local Notation run' := (run V F as_field is_error as_string any_fld named_error array_invalid).
  Local Notation spec_withs' := (spec_withs V F as_field is_error as_string any_fld named_error array_invalid).
  Local Notation get_message' := (get_message V as_string).
  Local Notation item' := (item V F).
  Local Notation sw' := (sw V F).

  (* ------------------------------------------------------------------ *)
  (* the effect of one item on the sweep state *)
  Definition apply_item (s : sw') (it : item') : sw' :=
    match it with
    | IField _ f => push_field V F f s
    | IFirstErr _ e => push_field V F (error_fld' e) (set_seen V F s)
    | IExtraErr _ e => push_call V F (multipleErrMsg, [error_fld' e]) s
    | IPair _ k v => push_field V F (any_fld k v) s
    | IBadPair p k v => push_invalid V F (p, k, v) s
    | IDangling _ k => push_call V F (oddNumberErrMsg, [any_fld key_ignored k]) s
    end.
  Definition apply_items (its : list item') (s : sw') : sw' := fold_left apply_item its s.

  (* the s.base.Error call an item causes during the sweep *)
  Definition call_of (it : item') : option (bcall F) :=
    match it with
    | IExtraErr _ e => Some (multipleErrMsg, [error_fld' e])
    | IDangling _ k => Some (oddNumberErrMsg, [any_fld key_ignored k])
    | _ => None
    end.
  Definition calls_in_order (its : list item') : list (bcall F) := filter_map call_of its.

  Lemma nth_error_mid : forall (pre : list V) a r, nth_error (pre ++ a :: r) (length pre) = Some a.
  Proof. intros pre a r. rewrite nth_error_app2 by lia. rewrite Nat.sub_diag. reflexivity. Qed.

  Lemma app_cons_assoc : forall (pre : list V) a r, pre ++ a :: r = (pre ++ [a]) ++ r.
  Proof. intros. rewrite <- app_assoc. reflexivity. Qed.

  (* The index-based sweep, started at position |pre| of pre ++ l with enough fuel,
     finishes and has exactly the effect of the structural parse of l. *)
  Lemma sweep_items : forall n l, length l <= n ->
    forall pre s fuel, length l < fuel ->
    sweep' fuel (pre ++ l) (length pre) s = Done (apply_items (items' (length pre) (sw_seen s) l) s).
  Proof.
    induction n as [|n IH]; intros l Hn pre s fuel Hf.
    - destruct l as [|a r]; [|cbn in Hn; lia].
      destruct fuel as [|fuel]; [cbn in Hf; lia|].
      cbn [sweep]. rewrite app_nil_r.
      replace (length pre <? length pre) with false by (symmetry; apply Nat.ltb_ge; lia).
      reflexivity.
    - destruct l as [|a r].
      + destruct fuel as [|fuel]; [cbn in Hf; lia|].
        cbn [sweep]. rewrite app_nil_r.
        replace (length pre <? length pre) with false by (symmetry; apply Nat.ltb_ge; lia).
        reflexivity.
      + destruct fuel as [|fuel]; [cbn in Hf; lia|].
        cbn [length] in Hn, Hf.
        cbn [sweep].
        replace (length pre <? length (pre ++ a :: r)) with true
          by (symmetry; apply Nat.ltb_lt; rewrite app_length; cbn [length]; lia).
        cbn [negb]. rewrite nth_error_mid.
        cbn [items].
        destruct (as_field a) as [f|] eqn:Ef.
        * (* typed field *)
          rewrite (app_cons_assoc pre a r).
          replace (length pre + 1) with (length (pre ++ [a])) by (rewrite app_length; reflexivity).
          rewrite (IH r) by lia.
          replace (length (pre ++ [a])) with (S (length pre)) by (rewrite app_length; cbn; lia).
          reflexivity.
        * destruct (is_error a) eqn:Ee.
          -- (* bare error *)
             destruct (sw_seen s) eqn:Es; cbn [negb].
             ++ rewrite (app_cons_assoc pre a r).
                replace (length pre + 1) with (length (pre ++ [a])) by (rewrite app_length; reflexivity).
                rewrite (IH r) by lia.
                replace (length (pre ++ [a])) with (S (length pre)) by (rewrite app_length; cbn; lia).
                cbn [push_call sw_seen]. rewrite Es. reflexivity.
             ++ rewrite (app_cons_assoc pre a r).
                replace (length pre + 1) with (length (pre ++ [a])) by (rewrite app_length; reflexivity).
                rewrite (IH r) by lia.
                replace (length (pre ++ [a])) with (S (length pre)) by (rewrite app_length; cbn; lia).
                reflexivity.
          -- destruct r as [|b r'].
             ++ (* dangling key *)
                replace (length pre =? length (pre ++ [a]) - 1) with true
                  by (symmetry; apply Nat.eqb_eq; rewrite app_length; cbn [length]; lia).
                reflexivity.
             ++ replace (length pre =? length (pre ++ a :: b :: r') - 1) with false
                  by (symmetry; apply Nat.eqb_neq; rewrite app_length; cbn [length]; lia).
                assert (Hb : nth_error (pre ++ a :: b :: r') (length pre + 1) = Some b).
                { replace (pre ++ a :: b :: r') with ((pre ++ [a]) ++ b :: r') by (rewrite <- app_assoc; reflexivity).
                  replace (length pre + 1) with (length (pre ++ [a])) by (rewrite app_length; reflexivity).
                  apply nth_error_mid. }
                rewrite Hb.
                replace (pre ++ a :: b :: r') with ((pre ++ [a; b]) ++ r')
                  by (rewrite <- app_assoc; reflexivity).
                replace (length pre + 2) with (length (pre ++ [a; b])) by (rewrite app_length; reflexivity).
                cbn [length] in Hn, Hf.
                destruct (as_string a) as [k|] eqn:Ek.
                ** rewrite (IH r') by lia.
                   replace (length (pre ++ [a; b])) with (S (S (length pre))) by (rewrite app_length; cbn; lia).
                   reflexivity.
                ** rewrite (IH r') by lia.
                   replace (length (pre ++ [a; b])) with (S (S (length pre))) by (rewrite app_length; cbn; lia).
                   reflexivity.
  Qed.

  (* what the accumulated state is, in terms of the items *)
  Lemma apply_items_fields : forall its s,
    sw_fields (apply_items its s) = sw_fields s ++ fields_of' its.
  Proof.
    induction its as [|it its IH]; intros s; cbn [apply_items fold_left fields_of filter_map].
    - rewrite app_nil_r. reflexivity.
    - fold (apply_items its (apply_item s it)). rewrite IH.
      destruct it; cbn [apply_item out_field push_field push_call push_invalid set_seen sw_fields];
        fold (fields_of' its); try rewrite <- app_assoc; reflexivity.
  Qed.
  Lemma apply_items_invalid : forall its s,
    sw_invalid (apply_items its s) = sw_invalid s ++ bad_pairs V F its.
  Proof.
    induction its as [|it its IH]; intros s; cbn [apply_items fold_left bad_pairs filter_map].
    - rewrite app_nil_r. reflexivity.
    - fold (apply_items its (apply_item s it)). rewrite IH.
      destruct it; cbn [apply_item push_field push_call push_invalid set_seen sw_invalid];
        fold (bad_pairs V F its); try rewrite <- app_assoc; reflexivity.
  Qed.
  Lemma apply_items_calls : forall its s,
    sw_calls (apply_items its s) = sw_calls s ++ calls_in_order its.
  Proof.
    induction its as [|it its IH]; intros s; cbn [apply_items fold_left calls_in_order filter_map].
    - rewrite app_nil_r. reflexivity.
    - fold (apply_items its (apply_item s it)). rewrite IH.
      destruct it; cbn [apply_item call_of push_field push_call push_invalid set_seen sw_calls];
        fold (calls_in_order its); try rewrite <- app_assoc; reflexivity.
  Qed.

  (* two-step induction on argument lists *)
  Lemma list_ind2 : forall (P : list V -> Prop),
    P [] -> (forall a, P [a]) -> (forall a r, P r -> P (a :: r)) -> forall l, P l.
  Proof. intros P H0 _ Hc l. induction l; auto. Qed.

  (* a dangling key can only be the last item, so the calls made during the sweep are
     the further errors followed by the dangling key *)
  Lemma calls_in_order_split : forall n l, length l <= n -> forall p seen,
    calls_in_order (items' p seen l) =
    map (fun e => (multipleErrMsg, [error_fld' e])) (extra_errs V F (items' p seen l))
    ++ map (fun k => (oddNumberErrMsg, [any_fld key_ignored k])) (danglings V F (items' p seen l)).
  Proof.
    induction n as [|n IH]; intros l Hn p seen.
    - destruct l; [reflexivity|cbn in Hn; lia].
    - destruct l as [|a r]; [reflexivity|]. cbn [length] in Hn.
      cbn [items]. destruct (as_field a) eqn:Ef.
      + cbn [calls_in_order extra_errs danglings filter_map call_of].
        apply (IH r); lia.
      + destruct (is_error a) eqn:Ee.
        * destruct seen; cbn [calls_in_order extra_errs danglings filter_map call_of map app].
          -- f_equal. apply (IH r); lia.
          -- apply (IH r); lia.
        * destruct r as [|b r'].
          -- reflexivity.
          -- cbn [length] in Hn.
             destruct (as_string a); cbn [calls_in_order extra_errs danglings filter_map call_of];
               apply (IH r'); lia.
  Qed.

  (* ---- the sweep refines the structural specification; it is total ---- *)
  Theorem sweeten_spec : forall args, sweeten' args = Done (spec_sweeten' args).
  Proof.
    intros args. unfold sweeten, spec_sweeten.
    destruct args as [|a r] eqn:Ea; [reflexivity|]. rewrite <- Ea.
    replace (length args =? 0) with false by (symmetry; apply Nat.eqb_neq; subst args; cbn; lia).
    pose proof (sweep_items (length args) args (le_n _) [] (sw_init) (S (length args)) (Nat.lt_succ_diag_r _)) as H.
    cbn [app length sw_seen sw_init] in H. rewrite H.
    unfold finish. rewrite apply_items_fields, apply_items_invalid, apply_items_calls.
    cbn [sw_fields sw_invalid sw_calls sw_init app].
    f_equal. f_equal. unfold diag_calls_of.
    rewrite (calls_in_order_split (length args) args (le_n _)). rewrite <- app_assoc. f_equal. f_equal.
    destruct (bad_pairs V F (items' 0 false args)); reflexivity.
  Qed.

  Theorem sweep_total : forall args, exists s, sweep' (S (length args)) args 0 sw_init = Done s.
  Proof.
    intros args.
    pose proof (sweep_items (length args) args (le_n _) [] (sw_init) (S (length args)) (Nat.lt_succ_diag_r _)) as H.
    cbn [app length] in H. eexists. exact H.
  Qed.

  (* ---- accounting: the items tile the positions 0..n-1 ---- *)
  Lemma spans_tile : forall n l, length l <= n -> forall p seen,
    concat (map span (items' p seen l)) = seq p (length l).
  Proof.
    induction n as [|n IH]; intros l Hn p seen.
    - destruct l; [reflexivity|cbn in Hn; lia].
    - destruct l as [|a r]; [reflexivity|]. cbn [length] in Hn.
      cbn [items]. destruct (as_field a).
      + cbn [map concat span app length seq]. f_equal. apply IH; lia.
      + destruct (is_error a).
        * destruct seen; cbn [map concat span app length seq]; f_equal; apply IH; lia.
        * destruct r as [|b r']; [reflexivity|]. cbn [length] in Hn.
          destruct (as_string a); cbn [map concat span app length seq]; do 2 f_equal; apply IH; lia.
  Qed.

  (* each item says what really sits at its position(s) *)
  Definition item_at (args : list V) (it : item') : Prop :=
    match it with
    | IField p f => exists a, nth_error args p = Some a /\ as_field a = Some f
    | IFirstErr p e | IExtraErr p e => nth_error args p = Some e /\ as_field e = None /\ is_error e = true
    | IPair p k v => exists a, nth_error args p = Some a /\ as_field a = None /\ is_error a = false /\
                               as_string a = Some k /\ nth_error args (S p) = Some v
    | IBadPair p k v => nth_error args p = Some k /\ as_field k = None /\ is_error k = false /\
                        as_string k = None /\ nth_error args (S p) = Some v
    | IDangling p k => nth_error args p = Some k /\ as_field k = None /\ is_error k = false /\ S p = length args
    end.

  Lemma items_at : forall n l, length l <= n -> forall pre seen,
    Forall (item_at (pre ++ l)) (items' (length pre) seen l).
  Proof.
    induction n as [|n IH]; intros l Hn pre seen.
    - destruct l; [constructor|cbn in Hn; lia].
    - destruct l as [|a r]; [constructor|]. cbn [length] in Hn.
      assert (Hstep : forall seen', Forall (item_at (pre ++ a :: r)) (items' (S (length pre)) seen' r)).
      { intros seen'. rewrite (app_cons_assoc pre a r).
        replace (S (length pre)) with (length (pre ++ [a])) by (rewrite app_length; cbn; lia).
        apply IH; lia. }
      cbn [items]. destruct (as_field a) as [f|] eqn:Ef.
      + constructor; [|apply Hstep]. cbn [item_at]. exists a. split; [apply nth_error_mid|exact Ef].
      + destruct (is_error a) eqn:Ee.
        * constructor; [|apply Hstep].
          destruct seen; cbn [item_at]; (split; [apply nth_error_mid|split; assumption]).
        * destruct r as [|b r'].
          -- constructor; [|constructor]. cbn [item_at].
             split; [apply nth_error_mid|]. split; [exact Ef|]. split; [exact Ee|].
             rewrite app_length. cbn. lia.
          -- cbn [length] in Hn.
             assert (Hb : nth_error (pre ++ a :: b :: r') (S (length pre)) = Some b).
             { replace (pre ++ a :: b :: r') with ((pre ++ [a]) ++ b :: r') by (rewrite <- app_assoc; reflexivity).
               replace (S (length pre)) with (length (pre ++ [a])) by (rewrite app_length; cbn; lia).
               apply nth_error_mid. }
             assert (Hrest : Forall (item_at (pre ++ a :: b :: r')) (items' (S (S (length pre))) seen r')).
             { replace (pre ++ a :: b :: r') with ((pre ++ [a; b]) ++ r') by (rewrite <- app_assoc; reflexivity).
               replace (S (S (length pre))) with (length (pre ++ [a; b])) by (rewrite app_length; cbn; lia).
               apply IH; lia. }
             destruct (as_string a) as [k|] eqn:Ek; (constructor; [|exact Hrest]); cbn [item_at].
             ++ exists a. repeat split; try assumption. apply nth_error_mid.
             ++ repeat split; try assumption. apply nth_error_mid.
  Qed.

  Lemma consumed_xor_reported : forall it : item', out_field' it = None <-> reported it = true.
  Proof. intros it. destruct it; cbn; split; intros H; try reflexivity; discriminate. Qed.

  Lemma in_filter_map : forall A B (f : A -> option B) l a b, In a l -> f a = Some b -> In b (filter_map f l).
  Proof.
    intros A B f l a b. induction l as [|x l IH]; intros Hin Hf; [contradiction|].
    cbn [filter_map]. destruct Hin as [->|Hin].
    - rewrite Hf. left. reflexivity.
    - destruct (f x); [right|]; auto.
  Qed.
  Lemma filter_map_in : forall A B (f : A -> option B) l b, In b (filter_map f l) -> exists a, In a l /\ f a = Some b.
  Proof.
    intros A B f l b. induction l as [|x l IH]; intros Hin; [contradiction|].
    cbn [filter_map] in Hin. destruct (f x) as [y|] eqn:Efx.
    - destruct Hin as [<-|Hin]; [exists x; split; [left; reflexivity|exact Efx]|].
      destruct (IH Hin) as [a [Ha Hfa]]. exists a. split; [right|]; assumption.
    - destruct (IH Hin) as [a [Ha Hfa]]. exists a. split; [right|]; assumption.
  Qed.

  (* nothing vanishes: a consumed item's field is in the output ... *)
  Lemma consumed_logged : forall its it f, In it its -> out_field' it = Some f -> In f (fields_of' its).
  Proof. intros its it f Hin Hf. unfold fields_of. eapply in_filter_map; eassumption. Qed.
  (* ... every output field comes from a consumed item ... *)
  Lemma logged_consumed : forall its f, In f (fields_of' its) -> exists it, In it its /\ out_field' it = Some f.
  Proof. intros its f H. apply filter_map_in in H. exact H. Qed.
  (* ... and a reported item is identified by a diagnostic *)
  Definition identified (its : list item') (it : item') : Prop :=
    match it with
    | IExtraErr _ e => In (multipleErrMsg, [error_fld' e]) (diag_calls_of' its)
    | IDangling _ k => In (oddNumberErrMsg, [any_fld key_ignored k]) (diag_calls_of' its)
    | IBadPair p k v => exists ps, In (p, k, v) ps /\ In (nonStringKeyErrMsg, [array_invalid ps]) (diag_calls_of' its)
    | _ => True
    end.
  Lemma reported_identified : forall its it, In it its -> identified its it.
  Proof.
    intros its it Hin. destruct it as [p f|p e|p e|p k v|p k v|p k]; cbn [identified]; try exact I; unfold diag_calls_of.
    - apply in_or_app. left. apply in_map_iff. exists e. split; [reflexivity|].
      unfold extra_errs. eapply in_filter_map; [exact Hin|reflexivity].
    - assert (Hb : In (p, k, v) (bad_pairs V F its)).
      { unfold bad_pairs. eapply in_filter_map; [exact Hin|reflexivity]. }
      exists (bad_pairs V F its). split; [exact Hb|].
      apply in_or_app. right. apply in_or_app. right.
      destruct (bad_pairs V F its); [contradiction|left; reflexivity].
    - apply in_or_app. right. apply in_or_app. left. apply in_map_iff. exists k. split; [reflexivity|].
      unfold danglings. eapply in_filter_map; [exact Hin|reflexivity].
  Qed.

  (* C14_account *)
  Theorem account_thm : forall args,
    let its := items' 0 false args in
    sweeten' args = Done (fields_of' its, diag_calls_of' its) /\
    concat (map span its) = seq 0 (length args) /\
    Forall (item_at args) its /\
    (forall it, In it its -> (out_field' it = None <-> reported it = true)) /\
    (forall it f, In it its -> out_field' it = Some f -> In f (fields_of' its)) /\
    (forall f, In f (fields_of' its) -> exists it, In it its /\ out_field' it = Some f) /\
    (forall it, In it its -> identified its it).
  Proof.
    intros args its. split; [apply sweeten_spec|].
    split; [apply (spans_tile (length args)); lia|].
    split; [apply (items_at (length args) args (le_n _) [] false)|].
    split; [intros it _; apply consumed_xor_reported|].
    split; [intros it f; apply consumed_logged|].
    split; [apply logged_consumed|apply reported_identified].
  Qed.

  (* ---- order ---- *)
  Lemma starts_sorted : forall n l, length l <= n -> forall p seen,
    Forall (fun it => p <= start it) (items' p seen l) /\ StronglySorted lt (map start (items' p seen l)).
  Proof.
    induction n as [|n IH]; intros l Hn p seen.
    - destruct l; [split; constructor|cbn in Hn; lia].
    - destruct l as [|a r]; [split; constructor|]. cbn [length] in Hn.
      assert (H1 : forall seen' it0, start it0 = p ->
                Forall (fun it => p <= start it) (it0 :: items' (S p) seen' r) /\
                StronglySorted lt (map start (it0 :: items' (S p) seen' r))).
      { intros seen' it0 Hs. destruct (IH r ltac:(lia) (S p) seen') as [Hf Hsrt]. split.
        - constructor; [lia|]. eapply Forall_impl; [|exact Hf]. cbn. intros; lia.
        - cbn [map]. constructor; [exact Hsrt|]. rewrite Forall_map, Hs.
          eapply Forall_impl; [|exact Hf]. cbn. intros; lia. }
      cbn [items]. destruct (as_field a).
      + apply H1. reflexivity.
      + destruct (is_error a).
        * destruct seen; apply H1; reflexivity.
        * destruct r as [|b r'].
          -- split; [constructor; [cbn; lia|constructor]|cbn; constructor; constructor].
          -- cbn [length] in Hn. destruct (IH r' ltac:(lia) (S (S p)) seen) as [Hf Hsrt].
             assert (H2 : forall it0, start it0 = p ->
                Forall (fun it => p <= start it) (it0 :: items' (S (S p)) seen r') /\
                StronglySorted lt (map start (it0 :: items' (S (S p)) seen r'))).
             { intros it0 Hs. split.
               - constructor; [lia|]. eapply Forall_impl; [|exact Hf]. cbn. intros; lia.
               - cbn [map]. constructor; [exact Hsrt|]. rewrite Forall_map, Hs.
                 eapply Forall_impl; [|exact Hf]. cbn. intros; lia. }
             destruct (as_string a); apply H2; reflexivity.
  Qed.

  Theorem order_thm : forall args,
    StronglySorted lt (map start (items' 0 false args)) /\
    NoDup (concat (map span (items' 0 false args))).
  Proof.
    intros args. split.
    - apply (starts_sorted (length args) args (le_n _) 0 false).
    - rewrite (spans_tile (length args)) by lia. apply seq_NoDup.
  Qed.

  (* ---- typed fields ---- *)
  Theorem typed_unchanged_thm : forall args p f,
    In (IField p f) (items' 0 false args) ->
    (exists a, nth_error args p = Some a /\ as_field a = Some f) /\
    exists fs calls, sweeten' args = Done (fs, calls) /\ In f fs.
  Proof.
    intros args p f Hin. split.
    - pose proof (items_at (length args) args (le_n _) [] false) as H. cbn [app length] in H.
      rewrite Forall_forall in H. exact (H _ Hin).
    - eexists. eexists. split; [apply sweeten_spec|]. cbn [spec_sweeten].
      eapply consumed_logged; [exact Hin|reflexivity].
  Qed.

  Lemma items_all_fields : forall fs args p seen, map as_field args = map Some fs ->
    items' p seen args = map (fun pf => IField (fst pf) (snd pf)) (combine (seq p (length fs)) fs).
  Proof.
    induction fs as [|f fs IH]; intros args p seen H.
    - destruct args; [reflexivity|discriminate].
    - destruct args as [|a r]; [discriminate|]. cbn [map] in H. injection H as Ha Hr.
      cbn [items]. rewrite Ha. cbn [length seq combine map fst snd]. f_equal. apply IH. exact Hr.
  Qed.
  Lemma fields_of_all_fields : forall fs ps, length ps = length fs ->
    fields_of' (map (fun pf => IField (fst pf) (snd pf)) (combine ps fs)) = fs /\
    diag_calls_of' (map (fun pf => IField (fst pf) (snd pf)) (combine ps fs)) = [].
  Proof.
    induction fs as [|f fs IH]; intros ps Hl.
    - destruct ps; split; reflexivity.
    - destruct ps as [|p ps]; [discriminate|]. cbn [length] in Hl. injection Hl as Hl.
      destruct (IH ps Hl) as [H1 H2]. split.
      + cbn [combine map fields_of filter_map out_field fst snd]. f_equal. exact H1.
      + unfold diag_calls_of in *. cbn [combine map extra_errs danglings bad_pairs filter_map fst snd]. exact H2.
  Qed.
  Theorem all_typed_thm : forall fs args, map as_field args = map Some fs -> sweeten' args = Done (fs, []).
  Proof.
    intros fs args H. rewrite sweeten_spec. unfold spec_sweeten.
    rewrite (items_all_fields fs args 0 false H).
    destruct (fields_of_all_fields fs (seq 0 (length fs)) (seq_length _ _)) as [H1 H2].
    rewrite H1, H2. reflexivity.
  Qed.

  (* ---- string-keyed pairs ---- *)
  Definition flat_pairs (kvs : list (V * bytes * V)) : list V :=
    concat (map (fun t => [fst (fst t); snd t]) kvs).
  Definition good_key (t : V * bytes * V) : Prop :=
    as_field (fst (fst t)) = None /\ is_error (fst (fst t)) = false /\ as_string (fst (fst t)) = Some (snd (fst t)).
  Lemma items_all_pairs : forall kvs p seen, Forall good_key kvs ->
    fields_of' (items' p seen (flat_pairs kvs)) = map (fun t => any_fld (snd (fst t)) (snd t)) kvs /\
    diag_calls_of' (items' p seen (flat_pairs kvs)) = [].
  Proof.
    induction kvs as [|[[a k] v] kvs IH]; intros p seen H.
    - split; reflexivity.
    - inversion H as [|x l [Hf [He Hs]] Hrest]; subst. cbn [fst snd] in Hf, He, Hs.
      destruct (IH (S (S p)) seen Hrest) as [H1 H2].
      unfold flat_pairs in *. cbn [map concat app fst snd items]. rewrite Hf, He, Hs. split.
      + cbn [fields_of filter_map out_field map fst snd]. f_equal. exact H1.
      + unfold diag_calls_of in *. cbn [extra_errs danglings bad_pairs filter_map]. exact H2.
  Qed.
  Theorem pairs_any_thm : forall kvs, Forall good_key kvs ->
    sweeten' (flat_pairs kvs) = Done (map (fun t => any_fld (snd (fst t)) (snd t)) kvs, []).
  Proof.
    intros kvs H. rewrite sweeten_spec. unfold spec_sweeten.
    destruct (items_all_pairs kvs 0 false H) as [H1 H2]. rewrite H1, H2. reflexivity.
  Qed.

  Theorem pair_at_thm : forall args p k v,
    In (IPair p k v) (items' 0 false args) ->
    (exists a, nth_error args p = Some a /\ as_string a = Some k /\ nth_error args (S p) = Some v) /\
    exists fs calls, sweeten' args = Done (fs, calls) /\ In (any_fld k v) fs.
  Proof.
    intros args p k v Hin. split.
    - pose proof (items_at (length args) args (le_n _) [] false) as H. cbn [app length] in H.
      rewrite Forall_forall in H. destruct (H _ Hin) as [a [H1 [_ [_ [H2 H3]]]]].
      exists a. auto.
    - eexists. eexists. split; [apply sweeten_spec|]. cbn [spec_sweeten].
      eapply consumed_logged; [exact Hin|reflexivity].
  Qed.

  (* ---- bare errors: the first under key "error", every further one reported ---- *)
  Definition is_err_item (it : item') : bool :=
    match it with IFirstErr _ _ | IExtraErr _ _ => true | _ => false end.
  Definition is_extra (it : item') : Prop := exists p e, it = IExtraErr p e.
  Definition is_first (it : item') : Prop := exists p e, it = IFirstErr p e.

  Lemma err_items_seen : forall n l, length l <= n -> forall p,
    Forall is_extra (filter is_err_item (items' p true l)).
  Proof.
    induction n as [|n IH]; intros l Hn p.
    - destruct l; [constructor|cbn in Hn; lia].
    - destruct l as [|a r]; [constructor|]. cbn [length] in Hn.
      cbn [items]. destruct (as_field a).
      + cbn [filter is_err_item]. apply IH; lia.
      + destruct (is_error a).
        * cbn [filter is_err_item]. constructor; [exists p, a; reflexivity|apply IH; lia].
        * destruct r as [|b r']; [constructor|]. cbn [length] in Hn.
          destruct (as_string a); cbn [filter is_err_item]; apply IH; lia.
  Qed.
  Lemma err_items_unseen : forall n l, length l <= n -> forall p,
    match filter is_err_item (items' p false l) with
    | [] => True
    | first :: rest => is_first first /\ Forall is_extra rest
    end.
  Proof.
    induction n as [|n IH]; intros l Hn p.
    - destruct l; [exact I|cbn in Hn; lia].
    - destruct l as [|a r]; [exact I|]. cbn [length] in Hn.
      cbn [items]. destruct (as_field a).
      + cbn [filter is_err_item]. apply IH; lia.
      + destruct (is_error a).
        * cbn [filter is_err_item]. split; [exists p, a; reflexivity|].
          apply (err_items_seen n); lia.
        * destruct r as [|b r']; [exact I|]. cbn [length] in Hn.
          destruct (as_string a); cbn [filter is_err_item]; apply IH; lia.
  Qed.

  Theorem first_error_thm : forall args,
    let its := items' 0 false args in
    match filter is_err_item its with
    | [] => True
    | first :: rest =>
        (exists p e, first = IFirstErr p e /\ out_field' first = Some (named_error key_error e)) /\
        Forall (fun it => exists p e, it = IExtraErr p e /\
                  In (multipleErrMsg, [named_error key_error e]) (diag_calls_of' its)) rest
    end.
  Proof.
    intros args its.
    pose proof (err_items_unseen (length args) args (le_n _) 0) as H. fold its in H.
    destruct (filter is_err_item its) as [|first rest] eqn:Efil; [exact I|].
    destruct H as [[p [e ->]] Hrest]. split.
    - exists p, e. split; reflexivity.
    - rewrite Forall_forall in *. intros it Hit. destruct (Hrest it Hit) as [q [e' ->]].
      exists q, e'. split; [reflexivity|].
      assert (Hin : In (IExtraErr q e') its).
      { assert (Hx : In (IExtraErr q e') (filter is_err_item its)) by (rewrite Efil; right; exact Hit).
        apply filter_In in Hx. exact (proj1 Hx). }
      exact (reported_identified its _ Hin).
  Qed.

  (* ---- entries ---- *)
  Lemma diag_entries_spec : forall (lg : logger F) cs, diag_entries lg cs = spec_diag_entries lg cs.
  Proof.
    intros lg cs. unfold diag_entries, spec_diag_entries, base_error.
    replace (ErrorLevel <? DPanicLevel)%Z with true by reflexivity. cbn [andb].
    destruct (lg_en lg ErrorLevel) eqn:Een; cbn [negb].
    - induction cs as [|c cs IH]; [reflexivity|]. cbn [map concat app]. f_equal. exact IH.
    - induction cs as [|c cs IH]; [reflexivity|]. cbn [map concat app]. exact IH.
  Qed.

  Definition with_ctx (lg : logger F) (fs : list F) : logger F :=
    {| lg_ctx := lg_ctx lg ++ fs; lg_en := lg_en lg; lg_dev := lg_dev lg |}.

  (* C14_with: With/WithLazy never fail; the context grows by exactly the well-formed
     arguments; the diagnostics are error-level entries carrying the receiver's context *)
  Theorem with_thm : forall lg args,
    let its := items' 0 false args in
    swith' lg args = Done (with_ctx lg (fields_of' its), spec_diag_entries lg (diag_calls_of' its)).
  Proof.
    intros lg args its. unfold swith. rewrite sweeten_spec. unfold spec_sweeten. fold its.
    rewrite diag_entries_spec. reflexivity.
  Qed.

  (* C14_diags: when the error level is enabled, each diagnostic call is one entry *)
  Theorem diags_thm : forall lg args, lg_en lg ErrorLevel = true ->
    let its := items' 0 false args in
    exists lg', swith' lg args = Done (lg',
      map (fun e => Build_entry ErrorLevel multipleErrMsg (lg_ctx lg ++ [named_error key_error e])) (extra_errs V F its)
      ++ map (fun k => Build_entry ErrorLevel oddNumberErrMsg (lg_ctx lg ++ [any_fld key_ignored k])) (danglings V F its)
      ++ match bad_pairs V F its with
         | [] => []
         | ps => [Build_entry ErrorLevel nonStringKeyErrMsg (lg_ctx lg ++ [array_invalid ps])]
         end).
  Proof.
    intros lg args Hen its. eexists. rewrite with_thm. fold its. f_equal. f_equal.
    unfold spec_diag_entries. rewrite Hen. unfold diag_calls_of.
    rewrite !map_app, !map_map. cbn [fst snd]. f_equal. f_equal.
    destruct (bad_pairs V F its); reflexivity.
  Qed.

  (* the flip side, stated so that it is not overlooked: on a logger whose core does not
     enable ErrorLevel the malformed arguments are reported nowhere *)
  Theorem diags_need_error_level : forall lg args, lg_en lg ErrorLevel = false ->
    exists lg', swith' lg args = Done (lg', []).
  Proof.
    intros lg args Hen. eexists. rewrite with_thm. unfold spec_diag_entries. rewrite Hen. reflexivity.
  Qed.

  (* a logging call whose level is enabled: diagnostics, then exactly one entry at the
     call's level with context ++ well-formed arguments; never an index panic *)
  Theorem check_write_enabled : forall lg lvl msg context, lg_en lg lvl = true ->
    let its := items' 0 false context in
    check_write' lg lvl msg context =
      (spec_diag_entries lg (diag_calls_of' its) ++ [Build_entry lvl msg (lg_ctx lg ++ fields_of' its)],
       terminal lg lvl).
  Proof.
    intros lg lvl msg context Hen its. unfold check_write. rewrite Hen.
    cbn [negb andb orb]. rewrite andb_false_r. rewrite sweeten_spec. unfold spec_sweeten. fold its.
    rewrite diag_entries_spec. reflexivity.
  Qed.
  Theorem check_write_disabled : forall lg lvl msg context, lg_en lg lvl = false ->
    let its := items' 0 false context in
    check_write' lg lvl msg context = ([], TNone) \/
    check_write' lg lvl msg context = (spec_diag_entries lg (diag_calls_of' its), terminal lg lvl).
  Proof.
    intros lg lvl msg context Hen its. unfold check_write. rewrite Hen. cbn [negb].
    destruct (lvl <? DPanicLevel)%Z; cbn [andb orb]; [left; reflexivity|].
    destruct (term_is_none (terminal lg lvl)); cbn [negb]; [left; reflexivity|right].
    rewrite sweeten_spec. unfold spec_sweeten. fold its. rewrite diag_entries_spec, app_nil_r. reflexivity.
  Qed.

  Lemma terminal_not_crash : forall (lg : logger F) lvl, terminal lg lvl <> TCrash.
  Proof.
    intros lg lvl. unfold terminal.
    destruct (lvl =? PanicLevel)%Z; [discriminate|].
    destruct (lvl =? FatalLevel)%Z; [discriminate|].
    destruct (lvl =? DPanicLevel)%Z; [destruct (lg_dev lg)|]; discriminate.
  Qed.

  (* ---- messages ---- *)
  Theorem message_print : forall args sprintf sprint,
    (args = [] -> sprint = []) ->
    (forall a s, args = [a] -> as_string a = Some s -> sprint = s) ->
    get_message' [] args sprintf sprint = sprint.
  Proof.
    intros args sprintf sprint H0 H1. unfold get_message.
    destruct args as [|a r]; [cbn; symmetry; auto|].
    cbn [length Nat.eqb is_nil negb].
    destruct r; [|reflexivity]. destruct (as_string a) eqn:Ea; [|reflexivity].
    symmetry. eapply H1; [reflexivity|exact Ea].
  Qed.
  Theorem message_f_partial : forall template args sprintf sprint,
    template <> [] \/ args = [] ->
    get_message' template args sprintf sprint = if is_nil args then template else sprintf.
  Proof.
    intros template args sprintf sprint H. unfold get_message.
    destruct args as [|a r]; [reflexivity|]. cbn [length Nat.eqb is_nil].
    destruct H as [H|H]; [|discriminate].
    destruct template; [contradiction|reflexivity].
  Qed.
  Theorem message_w : forall msg sprintf sprint, get_message' msg [] sprintf sprint = msg.
  Proof. reflexivity. Qed.
  Theorem message_ln : forall m, get_messageln (m ++ [x0a]) = Some m.
  Proof.
    intros m. unfold get_messageln. rewrite removelast_last. destruct m; reflexivity.
  Qed.

  (* hypotheses about fmt used by getMessage's shortcuts, and the known deviation *)
  Definition fmt_facts (c : call V) : Prop :=
    match c_fam c with
    | FamPrint => (c_args c = [] -> c_sprint c = []) /\
                  (forall a s, c_args c = [a] -> as_string a = Some s -> c_sprint c = s)
    | FamLn => exists m, c_sprintln c = m ++ [x0a]
    | _ => True
    end.
  Definition not_empty_template (c : call V) : Prop :=
    match c_fam c with FamF => c_text c <> [] \/ c_args c = [] | _ => True end.

  Lemma bytes_eqb_refl : forall b, bytes_eqb b b = true.
  Proof. intros b. apply bytes_eqb_eq. reflexivity. Qed.

  (* one logging call, level enabled *)
  Theorem call_enabled : forall lg c, lg_en lg (c_lvl c) = true -> fmt_facts c -> not_empty_template c ->
    let its := items' 0 false (call_context c) in
    exists msg, msg_ok V c msg = true /\
      do_call' lg c =
        (spec_diag_entries lg (diag_calls_of' its) ++ [Build_entry (c_lvl c) msg (lg_ctx lg ++ fields_of' its)],
         terminal lg (c_lvl c)).
  Proof.
    intros lg c Hen Hfmt Hkf its. unfold do_call, msg_ok, call_context in *.
    unfold fmt_facts, not_empty_template in *.
    destruct (c_fam c) eqn:Efam.
    - exists (c_text c). split; [apply bytes_eqb_refl|].
      unfold slog. rewrite Hen. cbn [negb]. rewrite andb_false_r. rewrite message_w.
      apply check_write_enabled. exact Hen.
    - exists (c_sprint c). split; [apply bytes_eqb_refl|].
      unfold slog. rewrite Hen. cbn [negb]. rewrite andb_false_r.
      destruct Hfmt as [H0 H1]. rewrite (message_print _ _ _ H0 H1).
      apply (check_write_enabled lg (c_lvl c) (c_sprint c) [] Hen).
    - exists (if is_nil (c_args c) then c_text c else c_sprintf c). split.
      + destruct (is_nil (c_args c)); apply bytes_eqb_refl.
      + unfold slog. rewrite Hen. cbn [negb]. rewrite andb_false_r.
        rewrite (message_f_partial _ _ _ _ Hkf).
        apply (check_write_enabled lg (c_lvl c) _ [] Hen).
    - destruct Hfmt as [m Hm]. exists m. split.
      + rewrite Hm. apply bytes_eqb_refl.
      + unfold slogln. rewrite Hen. cbn [negb]. rewrite andb_false_r.
        rewrite Hm, message_ln.
        apply (check_write_enabled lg (c_lvl c) m [] Hen).
  Qed.

  (* one logging call, level disabled: nothing at that level; possibly its diagnostics *)
  Theorem call_disabled : forall lg c, lg_en lg (c_lvl c) = false -> fmt_facts c ->
    let its := items' 0 false (call_context c) in
    (do_call' lg c = ([], TNone)) \/
    (do_call' lg c = (spec_diag_entries lg (diag_calls_of' its), terminal lg (c_lvl c))).
  Proof.
    intros lg c Hen Hfmt its. unfold do_call, call_context, fmt_facts in *.
    destruct (c_fam c) eqn:Efam; unfold slog, slogln; rewrite Hen; cbn [negb]; rewrite andb_true_r;
      (destruct (c_lvl c <? DPanicLevel)%Z; [left; reflexivity|]).
    - apply check_write_disabled. exact Hen.
    - apply (check_write_disabled lg (c_lvl c) _ [] Hen).
    - apply (check_write_disabled lg (c_lvl c) _ [] Hen).
    - destruct Hfmt as [m Hm]. rewrite Hm, message_ln.
      apply (check_write_disabled lg (c_lvl c) _ [] Hen).
  Qed.

  (* whole programs: With chain (with enabler changes) then a call *)
  Lemma run_spec : forall steps lg c,
    run' lg steps c =
    (snd (spec_withs' lg steps) ++ fst (do_call' (fst (spec_withs' lg steps)) c),
     snd (do_call' (fst (spec_withs' lg steps)) c)).
  Proof.
    induction steps as [|[lz a|en|w] r IH]; intros lg c.
    - cbn [run spec_withs fst snd app]. destruct (do_call' lg c). reflexivity.
    - cbn [run spec_withs]. rewrite with_thm. unfold spec_sweeten.
      specialize (IH (with_ctx lg (fields_of' (items' 0 false a))) c).
      unfold with_ctx in *.
      destruct (run' _ r c) as [es' t] eqn:Erun.
      destruct (spec_withs' _ r) as [lg' es] eqn:Ew.
      cbn [fst snd] in *. injection IH as -> ->. rewrite app_assoc. reflexivity.
    - cbn [run spec_withs]. unfold set_en. apply IH.
    - cbn [run spec_withs]. apply IH.
  Qed.

  (* the enabler seen by the call is the last one installed; Development() never changes *)
  Lemma spec_withs_en : forall steps lg,
    lg_en (fst (spec_withs' lg steps)) = final_en V (lg_en lg) steps /\
    lg_dev (fst (spec_withs' lg steps)) = lg_dev lg.
  Proof.
    induction steps as [|[lz a|en|w] r IH]; intros lg; [split; reflexivity| | |].
    - cbn [spec_withs final_en]. destruct (spec_sweeten' a) as [fs cs].
      specialize (IH {| lg_ctx := lg_ctx lg ++ fs; lg_en := lg_en lg; lg_dev := lg_dev lg |}).
      destruct (spec_withs' _ r) as [lg' es]. cbn [fst] in *. exact IH.
    - cbn [spec_withs final_en].
      exact (IH {| lg_ctx := lg_ctx lg; lg_en := en; lg_dev := lg_dev lg |}).
    - cbn [spec_withs final_en]. exact (IH lg).
  Qed.

  (* ---- the core composition under the logger ---- *)
  Local Notation ksteps_of' := (ksteps_of V F as_field is_error as_string any_fld named_error).

  (* the flat logger's context after a history = the With fields of the core's history, in order *)
  Lemma spec_withs_ctx : forall steps lg,
    lg_ctx (fst (spec_withs' lg steps)) = lg_ctx lg ++ ks_fields F (ksteps_of' steps).
  Proof.
    induction steps as [|[lz a|en|w] r IH]; intros lg.
    - cbn [spec_withs fst ksteps_of ks_fields]. rewrite app_nil_r. reflexivity.
    - cbn [spec_withs ksteps_of ks_fields]. unfold spec_sweeten.
      specialize (IH {| lg_ctx := lg_ctx lg ++ fields_of' (items' 0 false a); lg_en := lg_en lg; lg_dev := lg_dev lg |}).
      destruct (spec_withs' _ r) as [lg' es]. cbn [fst lg_ctx] in *. rewrite IH, app_assoc. reflexivity.
    - cbn [spec_withs ksteps_of].
      exact (IH {| lg_ctx := lg_ctx lg; lg_en := en; lg_dev := lg_dev lg |}).
    - cbn [spec_withs ksteps_of ks_fields]. exact (IH lg).
  Qed.

  (* removing every WrapCore step from a history changes nothing the logger delivers *)
  Fixpoint erase_wraps (steps : list (step V)) : list (step V) :=
    match steps with
    | [] => []
    | SWrap _ :: r => erase_wraps r
    | s :: r => s :: erase_wraps r
    end.
  Lemma run_erase_wraps : forall steps lg c, run' lg steps c = run' lg (erase_wraps steps) c.
  Proof.
    induction steps as [|[lz a|en|w] r IH]; intros lg c; [reflexivity| | |].
    - cbn [run erase_wraps]. destruct (swith' lg a) as [[lg' es]|[lg' es]|]; [|reflexivity|reflexivity].
      rewrite IH. reflexivity.
    - cbn [run erase_wraps]. apply IH.
    - cbn [run erase_wraps]. apply IH.
  Qed.

  (* ---- the gate: an arbitrary enabler predicate ---- *)
  (* SugaredLogger.log / logln return early exactly when [sugar_gate] is false ... *)
  Lemma slog_gate : forall lg lvl template fmt_args sprintf sprint context,
    slog' lg lvl template fmt_args sprintf sprint context =
    if sugar_gate lg lvl then check_write' lg lvl (get_message' template fmt_args sprintf sprint) context
    else ([], TNone).
  Proof.
    intros. unfold slog, sugar_gate. destruct ((lvl <? DPanicLevel)%Z && negb (lg_en lg lvl)); reflexivity.
  Qed.
  Lemma slogln_gate : forall lg lvl sprintln context,
    slogln' lg lvl sprintln context =
    if sugar_gate lg lvl then
      match get_messageln sprintln with None => ([], TCrash) | Some msg => check_write' lg lvl msg context end
    else ([], TNone).
  Proof.
    intros. unfold slogln, sugar_gate. destruct ((lvl <? DPanicLevel)%Z && negb (lg_en lg lvl)); reflexivity.
  Qed.
  (* ... and [sugar_gate] is: the core's enabler accepts the level, or the level is DPanic or above *)
  Theorem gate_iff : forall (lg : logger F) lvl,
    sugar_gate lg lvl = true <-> lg_en lg lvl = true \/ (DPanicLevel <= lvl)%Z.
  Proof.
    intros lg lvl. unfold sugar_gate. rewrite negb_true_iff, andb_false_iff, negb_false_iff, Z.ltb_ge. tauto.
  Qed.
  (* every family goes through that gate and nothing else before Logger.Check *)
  Theorem call_gate : forall lg c, sugar_gate lg (c_lvl c) = false -> do_call' lg c = ([], TNone).
  Proof.
    intros lg c H. unfold do_call. destruct (c_fam c); rewrite ?slog_gate, ?slogln_gate, H; reflexivity.
  Qed.

  Theorem gate_thm : forall lg c,
    (sugar_gate lg (c_lvl c) = true <-> lg_en lg (c_lvl c) = true \/ (DPanicLevel <= c_lvl c)%Z) /\
    (sugar_gate lg (c_lvl c) = false -> do_call' lg c = ([], TNone)).
  Proof. intros lg c. split; [apply gate_iff|apply call_gate]. Qed.

  (* one logging call, level enabled: the shape of the result for ANY message (no guard on the template) *)
  Lemma call_enabled_shape : forall lg c, lg_en lg (c_lvl c) = true -> fmt_facts c ->
    let its := items' 0 false (call_context c) in
    exists msg,
      do_call' lg c =
        (spec_diag_entries lg (diag_calls_of' its) ++ [Build_entry (c_lvl c) msg (lg_ctx lg ++ fields_of' its)],
         terminal lg (c_lvl c)).
  Proof.
    intros lg c Hen Hfmt its. unfold do_call, call_context, fmt_facts in *.
    destruct (c_fam c) eqn:Efam; unfold slog, slogln; rewrite Hen; cbn [negb]; rewrite andb_false_r.
    - eexists. apply check_write_enabled. exact Hen.
    - eexists. apply (check_write_enabled lg (c_lvl c) _ [] Hen).
    - eexists. apply (check_write_enabled lg (c_lvl c) _ [] Hen).
    - destruct Hfmt as [m Hm]. rewrite Hm, message_ln. eexists.
      apply (check_write_enabled lg (c_lvl c) _ [] Hen).
  Qed.

  Lemma spec_diag_entries_level : forall (lg : logger F) cs e,
    In e (spec_diag_entries lg cs) -> en_lvl e = ErrorLevel /\ lg_en lg ErrorLevel = true.
  Proof.
    intros lg cs e H. unfold spec_diag_entries in H. destruct (lg_en lg ErrorLevel); [|contradiction].
    apply in_map_iff in H. destruct H as [x [<- _]]. split; reflexivity.
  Qed.

  (* an entry of the call: at the call's level, carrying context ++ well-formed arguments *)
  Definition delivered (lg : logger F) (c : call V) (es : list (entry F)) : Prop :=
    exists e, In e es /\ en_lvl e = c_lvl c /\
              en_fields e = lg_ctx lg ++ fields_of' (items' 0 false (call_context c)).

  (* C14_gate: for an ARBITRARY enabler predicate, any level (named or not) and every family, the
     call's entry is delivered exactly when the core's enabler accepts the level *)
  Theorem delivers_iff_enabled : forall lg c, fmt_facts c ->
    (delivered lg c (fst (do_call' lg c)) <-> lg_en lg (c_lvl c) = true).
  Proof.
    intros lg c Hfmt. split.
    - intros [e [Hin [Hlvl _]]]. destruct (lg_en lg (c_lvl c)) eqn:Een; [reflexivity|exfalso].
      destruct (call_disabled lg c Een Hfmt) as [H|H]; rewrite H in Hin; cbn [fst] in Hin; [contradiction|].
      apply spec_diag_entries_level in Hin. destruct Hin as [He Hon].
      rewrite Hlvl in He. rewrite He in Een. rewrite Een in Hon. discriminate.
    - intros Hen. destruct (call_enabled_shape lg c Hen Hfmt) as [msg H]. rewrite H. cbn [fst].
      eexists. split; [apply in_or_app; right; left; reflexivity|]. split; reflexivity.
  Qed.

  (* the same over a whole history in which the enabler moves: what counts is the predicate in
     force when the call is made *)
  Theorem history_delivers_iff : forall lg steps c, fmt_facts c ->
    let lg' := fst (spec_withs' lg steps) in
    exists call_es, fst (run' lg steps c) = snd (spec_withs' lg steps) ++ call_es /\
      (delivered lg' c call_es <-> final_en V (lg_en lg) steps (c_lvl c) = true).
  Proof.
    intros lg steps c Hfmt lg'. exists (fst (do_call' lg' c)). split.
    - rewrite run_spec. reflexivity.
    - rewrite <- (proj1 (spec_withs_en steps lg)). apply delivers_iff_enabled. exact Hfmt.
  Qed.

  (* C14_total at the level of programs: no index panic, for any logger, chain and call *)
  Theorem never_crash : forall lg withs c, fmt_facts c -> snd (run' lg withs c) <> TCrash.
  Proof.
    intros lg withs c Hfmt. rewrite run_spec. cbn [snd].
    set (lg' := fst (spec_withs' lg withs)).
    destruct (lg_en lg' (c_lvl c)) eqn:Een.
    - (* enabled: need not_empty_template only for the message, not for the terminal state *)
      unfold do_call. destruct (c_fam c) eqn:Efam; unfold slog, slogln; rewrite Een; cbn [negb]; rewrite andb_false_r.
      + rewrite check_write_enabled by exact Een. cbn [snd]. apply terminal_not_crash.
      + rewrite check_write_enabled by exact Een. cbn [snd]. apply terminal_not_crash.
      + rewrite check_write_enabled by exact Een. cbn [snd]. apply terminal_not_crash.
      + unfold fmt_facts in Hfmt. rewrite Efam in Hfmt. destruct Hfmt as [m Hm]. rewrite Hm, message_ln.
        rewrite check_write_enabled by exact Een. cbn [snd]. apply terminal_not_crash.
    - destruct (call_disabled lg' c Een Hfmt) as [H|H]; rewrite H; cbn [snd]; [discriminate|apply terminal_not_crash].
  Qed.

End Generic.


(* ====================================================================== *)
(* the core composition: Check-then-Write through any stack of lazy cores and wrappers *)
Section CoreStack.
  Variable F : Type.
  Local Notation core := (core F).

  Lemma flat_core_withs : forall (c : core) fss, flat F (core_withs F c fss) = flat F c ++ concat fss.
  Proof.
    induction c as [ctx|inner IH f0|w inner IH]; intros fss; cbn [core_withs flat].
    - reflexivity.
    - rewrite IH. cbn [concat]. rewrite app_assoc. reflexivity.
    - apply IH.
  Qed.
  Lemma hookfree_core_withs : forall (c : core) fss, hookfree F (core_withs F c fss) = hookfree F c.
  Proof.
    induction c as [ctx|inner IH f0|w inner IH]; intros fss; cbn [core_withs hookfree].
    - reflexivity.
    - apply IH.
    - rewrite IH. reflexivity.
  Qed.
  Lemma ok_core_withs : forall (c : core) fss, ok F (core_withs F c fss) = ok F c.
  Proof.
    induction c as [ctx|inner IH f0|w inner IH]; intros fss; cbn [core_withs ok].
    - reflexivity.
    - apply IH.
    - destruct w; try apply IH. apply hookfree_core_withs.
  Qed.

  (* Write on a stack without hooked cores reaches the observer with the whole context *)
  Lemma write_hookfree : forall (c : core) fss fs, hookfree F c = true ->
    write_w F c fss fs = [flat F c ++ concat fss ++ fs].
  Proof.
    induction c as [ctx|inner IH f0|w inner IH]; intros fss fs H; cbn [write_w flat hookfree] in *.
    - reflexivity.
    - rewrite (IH _ _ H). cbn [concat]. rewrite <- !app_assoc. reflexivity.
    - apply andb_true_iff in H. destruct H as [Hw Hin].
      destruct w; cbn [wrapper_is_hook negb] in Hw; try discriminate; apply IH; exact Hin.
  Qed.

  (* Check followed by Write of every registered core: exactly ONE record, with the whole context *)
  Lemma check_write_ok : forall (c : core) fss fs, ok F c = true ->
    concat (map (fun r => write_w F (fst r) (snd r) fs) (check_w F c fss)) = [flat F c ++ concat fss ++ fs].
  Proof.
    induction c as [ctx|inner IH f0|w inner IH]; intros fss fs H; cbn [check_w flat ok] in *.
    - cbn [map concat fst snd write_w app]. reflexivity.
    - rewrite (IH _ _ H). cbn [concat]. rewrite <- !app_assoc. reflexivity.
    - destruct w; try (apply IH; exact H).
      + cbn [map concat fst snd]. rewrite app_nil_r. cbn [write_w]. apply write_hookfree. exact H.
      + rewrite map_app, concat_app. rewrite (IH _ _ H). cbn [map concat fst snd write_w app]. reflexivity.
  Qed.

  Theorem deliver_flat : forall (c : core) fs, ok F c = true -> deliver F c fs = [flat F c ++ fs].
  Proof. intros c fs H. unfold deliver. rewrite (check_write_ok c [] fs H). reflexivity. Qed.

  Lemma flat_build : forall ks (c : core), flat F (build F c ks) = flat F c ++ ks_fields F ks.
  Proof.
    induction ks as [|[[|] fs|w] r IH]; intros c; cbn [build ks_fields].
    - rewrite app_nil_r. reflexivity.
    - rewrite IH. cbn [flat]. rewrite app_assoc. reflexivity.
    - rewrite IH, flat_core_withs. cbn [concat]. rewrite app_nil_r, app_assoc. reflexivity.
    - rewrite IH. reflexivity.
  Qed.

  Lemma ok_build : forall ks (c : core) h, ks_ok F h ks = true -> ok F c = true ->
    (h = false -> hookfree F c = true) -> ok F (build F c ks) = true.
  Proof.
    induction ks as [|[[|] fs|w] r IH]; intros c h Hks Hok Hh; cbn [build ks_ok] in *.
    - exact Hok.
    - apply (IH _ h Hks); [exact Hok|exact Hh].
    - apply (IH _ h Hks); [rewrite ok_core_withs; exact Hok|rewrite hookfree_core_withs; exact Hh].
    - apply andb_true_iff in Hks. destruct Hks as [Hw Hks].
      apply (IH _ _ Hks).
      + destruct w; cbn [ok]; try exact Hok. cbn [wrapper_is_fwd andb negb] in Hw.
        apply Hh. destruct h; [discriminate|reflexivity].
      + intros E. apply orb_false_iff in E. destruct E as [E1 E2]. cbn [hookfree].
        rewrite E2, (Hh E1). reflexivity.
  Qed.

  (* whatever the history of With / WithLazy / WrapCore (no forwarder above a hooked core), an entry
     written with fields fs reaches the observer exactly once, as context ++ With fields ++ fs *)
  Theorem build_deliver : forall ks ctx fs, ks_ok F false ks = true ->
    deliver F (build F (CObs ctx) ks) fs = [ctx ++ ks_fields F ks ++ fs].
  Proof.
    intros ks ctx fs H. rewrite deliver_flat.
    - rewrite flat_build. cbn [flat]. rewrite <- app_assoc. reflexivity.
    - apply (ok_build ks (CObs ctx) false H); reflexivity.
  Qed.

  (* lazy or eager makes no difference to what is delivered *)
  Fixpoint ks_eager (ks : list (cstep F)) : list (cstep F) :=
    match ks with
    | [] => []
    | KWith _ fs :: r => KWith false fs :: ks_eager r
    | KWrap w :: r => KWrap w :: ks_eager r
    end.
  Lemma ks_eager_facts : forall ks h, ks_ok F h (ks_eager ks) = ks_ok F h ks /\ ks_fields F (ks_eager ks) = ks_fields F ks.
  Proof.
    induction ks as [|[lz fs|w] r IH]; intros h; cbn [ks_eager ks_ok ks_fields].
    - split; reflexivity.
    - destruct (IH h) as [H1 H2]. rewrite H1, H2. split; reflexivity.
    - destruct (IH (h || wrapper_is_hook w)) as [H1 H2]. rewrite H1, H2. split; reflexivity.
  Qed.
  Theorem lazy_is_eager : forall ks ctx fs, ks_ok F false ks = true ->
    deliver F (build F (CObs ctx) ks) fs = deliver F (build F (CObs ctx) (ks_eager ks)) fs.
  Proof.
    intros ks ctx fs H. rewrite !build_deliver.
    - rewrite (proj2 (ks_eager_facts ks false)). reflexivity.
    - rewrite (proj1 (ks_eager_facts ks false)). exact H.
    - exact H.
  Qed.

  (* the limit, as zap documents it in hook.go: a forwarder above a hooked core loses the entry *)
  Lemma fwd_over_hook_loses : forall ctx fs, deliver F (CWrap WFwd (CWrap WHook (CObs ctx))) fs = [].
  Proof. reflexivity. Qed.
End CoreStack.

(* the logger of the sugar model over the core model: the stack built by the history delivers, for
   the fields fs of any Write (the call's entry, a diagnostic), the flat logger's context ++ fs *)
Section Transparent.
  Variables V F : Type.
  Variable as_field : V -> option F.
  Variable is_error : V -> bool.
  Variable as_string : V -> option bytes.
  Variable any_fld : bytes -> V -> F.
  Variable named_error : bytes -> V -> F.
  Variable array_invalid : list (nat * V * V) -> F.

  Theorem core_composition_transparent : forall (lg : logger F) (steps : list (step V)) (fs : list F),
    let ks := ksteps_of V F as_field is_error as_string any_fld named_error steps in
    ks_ok F false ks = true ->
    deliver F (build F (CObs (lg_ctx lg)) ks) fs =
    [lg_ctx (fst (spec_withs V F as_field is_error as_string any_fld named_error array_invalid lg steps)) ++ fs].
  Proof.
    intros lg steps fs ks H. rewrite (build_deliver F ks (lg_ctx lg) fs H).
    rewrite (spec_withs_ctx V F as_field is_error as_string any_fld named_error array_invalid steps lg).
    fold ks. rewrite <- app_assoc. reflexivity.
  Qed.
End Transparent.

(* ====================================================================== *)
(* wire instance *)

Lemma sx_eqb_refl : forall s, sx_eqb s s = true.
Proof.
  fix IH 1. intros [z|b|l]; cbn [sx_eqb].
  - apply Z.eqb_refl.
  - apply bytes_eqb_eq. reflexivity.
  - induction l as [|a l IHl]; [reflexivity|]. rewrite IH. cbn [andb]. exact IHl.
Qed.

Local Notation W f := (f sx sx w_as_field w_is_error w_as_string w_any w_named_error w_array_invalid).

Lemma fmt_wf_facts : forall i, fmt_wf i = true -> fmt_facts sx w_as_string (dec_call i).
Proof.
  intros i H. unfold fmt_wf, fmt_facts in *. destruct (c_fam (dec_call i)).
  - exact I.
  - destruct (c_args (dec_call i)) as [|a [|b r]].
    + split; [intros _|intros a s Hc; discriminate]. destruct (c_sprint (dec_call i)); [reflexivity|discriminate].
    + split; [intros Hc; discriminate|]. intros a' s Hc Hs. injection Hc as <-. rewrite Hs in H.
      apply bytes_eqb_eq in H. exact H.
    + split; [intros Hc; discriminate|intros a' s Hc; discriminate].
  - exact I.
  - exists (removelast (c_sprintln (dec_call i))). apply bytes_eqb_eq in H. symmetry. exact H.
Qed.

Lemma kf_not_empty : forall i, kf_empty_template i = false -> not_empty_template sx (dec_call i).
Proof.
  intros i H. unfold kf_empty_template, not_empty_template in *. destruct (c_fam (dec_call i)); try exact I.
  destruct (c_text (dec_call i)); [right|left; discriminate].
  cbn [is_nil andb] in H. destruct (c_args (dec_call i)); [reflexivity|discriminate].
Qed.

Lemma term_code_ok : forall t, t <> TCrash ->
  ((0 <=? sx_z (enc_term t)) && (sx_z (enc_term t) <=? 2))%Z = true.
Proof. intros [] H; try reflexivity. contradiction. Qed.

Lemma rev_snoc_match : forall (pre : list sx) (x : sx), rev (pre ++ [x]) = x :: rev pre.
Proof. intros. rewrite rev_app_distr. reflexivity. Qed.

Theorem spec_model : forall i, wf i = true -> spec i (model i) = true.
Proof.
  intros i Hwf. unfold wf in Hwf. apply andb_true_iff in Hwf. destruct Hwf as [Hfmt Hkf].
  apply negb_true_iff in Hkf.
  pose proof (fmt_wf_facts i Hfmt) as Hfacts. pose proof (kf_not_empty i Hkf) as Hne.
  unfold spec, model, w_run, w_spec_withs, w_spec_sweeten.
  rewrite run_spec.
  set (lg := dec_logger i) in *. set (c := dec_call i) in *.
  destruct (W spec_withs lg (dec_withs i)) as [lg' wes] eqn:Ew. cbn [fst snd].
  unfold spec_sweeten.
  set (its := items sx sx w_as_field w_is_error w_as_string 0 false (call_context c)).
  destruct (lg_en lg' (c_lvl c)) eqn:Een'.
  - destruct (call_enabled sx sx w_as_field w_is_error w_as_string w_any w_named_error w_array_invalid lg' c Een' Hfacts Hne)
      as [msg [Hmsg Hcall]].
    fold its in Hcall. rewrite Hcall. cbn [fst snd sx_nth sx_l nth].
    rewrite (term_code_ok _ (terminal_not_crash sx lg' (c_lvl c))). cbn [andb].
    unfold enc_entries. cbn [sx_l]. rewrite app_assoc, map_app. cbn [map]. rewrite rev_snoc_match, rev_involutive.
    rewrite sx_eqb_refl. cbn [andb enc_entry sx_nth sx_l nth sx_b en_lvl en_msg en_fields].
    rewrite Hmsg, !sx_eqb_refl. reflexivity.
  - destruct (call_disabled sx sx w_as_field w_is_error w_as_string w_any w_named_error w_array_invalid lg' c Een' Hfacts)
      as [Hcall|Hcall]; fold its in Hcall; rewrite Hcall; cbn [fst snd sx_nth sx_l nth enc_entries].
    + rewrite app_nil_r. rewrite (term_code_ok TNone) by discriminate. cbn [andb].
      rewrite sx_eqb_refl. reflexivity.
    + rewrite (term_code_ok _ (terminal_not_crash sx lg' (c_lvl c))). cbn [andb].
      rewrite sx_eqb_refl, orb_true_r. reflexivity.
Qed.

(* ---- the enabler on the wire: every finite set of levels and every threshold is expressible ---- *)
Lemma dec_en_set : forall ls l, dec_en (SL [SZ 0; SL (map SZ ls)]) l = true <-> In l ls.
Proof.
  intros ls l. unfold dec_en. cbn [sx_nth sx_l nth sx_z]. rewrite Z.eqb_refl, existsb_exists. split.
  - intros [x [Hin Heq]]. apply in_map_iff in Hin. destruct Hin as [y [<- Hy]]. cbn [sx_z] in Heq.
    apply Z.eqb_eq in Heq. subst. exact Hy.
  - intros Hin. exists (SZ l). split; [apply in_map; exact Hin|apply Z.eqb_refl].
Qed.
Lemma dec_en_threshold : forall k min l, k <> 0%Z -> dec_en (SL [SZ k; SZ min]) l = (min <=? l)%Z.
Proof.
  intros k min l Hk. unfold dec_en. cbn [sx_nth sx_l nth sx_z].
  destruct (k =? 0)%Z eqn:E; [apply Z.eqb_eq in E; contradiction|reflexivity].
Qed.
Theorem wire_enabler : 
  (forall ls l, dec_en (SL [SZ 0; SL (map SZ ls)]) l = true <-> In l ls) /\
  (forall k min l, k <> 0%Z -> dec_en (SL [SZ k; SZ min]) l = (min <=? l)%Z).
Proof. split; [exact dec_en_set|exact dec_en_threshold]. Qed.

(* a plain zapcore.Level(-3) as the enabler, Logw(Level(-2), "m", ex_args...) -- delivered;
   an AtomicLevel at Info moved to -3 after a With -- delivered; moved the other way -- not *)
Definition gate_case (en : sx) (steps : list sx) (lvl : Z) (args : list sx) : sx :=
  SL [ en; SZ 0; SL steps; SL [SZ 0; SZ lvl; SB [x6d]; SL args; SB []; SB []; SB [x0a]; SZ 1] ].

(* ---- the known deviation, on the faithful model: Infof("", 1, 2) ---- *)
Definition kf_witness : sx :=
  let one := SL [SZ 3] in
  SL [ SL [SZ 1; SZ (-1)]; SZ 0; SL [];
       SL [SZ 2; SZ 0; SB []; SL [one; one];
           SB [x31; x20; x32];                                              (* Sprint(1, 2) = "1 2" *)
           SB [x25; x21; x28; x45; x58; x54; x52; x41; x20; x69; x6e; x74; x3d; x31; x2c; x20;
               x69; x6e; x74; x3d; x32; x29];                              (* Sprintf("", 1, 2) = "%!(EXTRA int=1, int=2)" *)
           SB [x31; x20; x32; x0a]; SZ 0] ].

Lemma kf_witness_refuted : fmt_wf kf_witness = true /\ spec kf_witness (model kf_witness) = false.
Proof. split; vm_compute; reflexivity. Qed.

(* the full message statement for the f-family: false of the code *)
Definition messages_full : Prop :=
  forall template (args : list sx) sprintf sprint,
    get_message sx w_as_string template args sprintf sprint = if is_nil args then template else sprintf.
Lemma messages_full_refuted : ~ messages_full.
Proof.
  intros H. specialize (H [] [SL [SZ 3]; SL [SZ 3]] [x25] [x31]). vm_compute in H. discriminate.
Qed.

(* sanity: a mixed list  ("k", 1, err1, err2, 7, 8, field, "dangling") *)
Definition ex_str (k : bytes) : sx := SL [SZ 2; SL []; SB k; SL [SZ 15; SZ 0; SB k; SL []]; SL []; SL []; SL []].
Definition ex_int (n : Z) : sx := SL [SZ 3; SL []; SB []; SL [SZ 11; SZ n; SB []; SL []]; SL []; SL [SZ n]; SL [SZ n]].
Definition ex_err (n : Z) : sx := SL [SZ 1; SL []; SB []; SL [SZ 26; SZ 0; SB []; SL [SZ n]]; SL [SZ 26; SZ 0; SB []; SL [SZ n]]; SL []; SL []].
Definition ex_fld (k : bytes) : sx := SL [SZ 0; SL [SB k; SZ 4; SZ 1; SB []; SL []]; SB []; SL [SZ 23; SZ 0; SB []; SL []]; SL []; SL []; SL []].
Definition ex_args : list sx :=
  [ex_str [x6b]; ex_int 1; ex_err 1; ex_err 2; ex_int 7; ex_int 8; ex_fld [x66]; ex_str [x64]].
(* With(ex_args...) then Infow("m", ex_args...) on a logger with every level enabled *)
Definition ex_case : sx :=
  SL [ SL [SZ 1; SZ (-1)]; SZ 0; SL [SL [SZ 0; SZ 0; SL ex_args]];
       SL [SZ 0; SZ 0; SB [x6d]; SL ex_args; SB []; SB []; SB [x0a]; SZ 0] ].

(* WithLazy(ex_args...) then Infow("m", ex_args...), no wrapper *)
Definition ex_case_lazy_only : sx :=
  SL [ SL [SZ 1; SZ (-1)]; SZ 0; SL [SL [SZ 0; SZ 1; SL ex_args]];
       SL [SZ 0; SZ 0; SB [x6d]; SL ex_args; SB []; SB []; SB [x0a]; SZ 0] ].

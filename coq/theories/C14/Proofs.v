(* C14 — stub *)
From Zap Require Import Base.Wire C14.Model.

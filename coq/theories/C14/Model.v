(* C14 — model of the SugaredLogger front end (sugar.go), following the Go text:

     sweetenFields   the positional sweep over args (index i, args[i+1] behind the
                     dangling test), the three diagnostics (s.base.Error calls)
     getMessage / getMessageln
     log / logln     level pre-check, Logger.Check, ce.Write(sweetenFields(context)...)
     With / WithLazy s.base.With(s.sweetenFields(args)...)
     the core's LevelEnabler: an ARBITRARY predicate on levels (a plain zapcore.Level, a
                     LevelEnablerFunc, an AtomicLevel that moves between the calls); the
                     sugar's gate asks exactly this predicate (s.base.Core().Enabled(lvl))

   Go values are an abstract type [V]; zapcore.Field is an abstract type [F].  The
   type assertions of the sweep and the field constructors it calls are parameters
   of the section (as_field = args[i].(Field), is_error = args[i].(error),
   as_string = key.(string), any_fld = zap.Any, named_error = zap.NamedError,
   array_invalid = Array("invalid", invalidPairs)).  fmt.Sprint/Sprintf/Sprintln are
   oracles: their answers travel with the call.

   The specification (second half) is written independently of the sweep: a
   structural parse of the argument list into items, each covering one or two
   positions.  No proofs in this file. *)
From Coq.Strings Require Import String.
From Coq Require Import List ZArith Bool Lia.
From Coq.Strings Require Import Byte.
Import ListNotations.
From Zap Require Import Base.Wire.

Definition bs (s : String.string) : bytes := String.list_byte_of_string s.
Definition is_nil {A} (l : list A) : bool := match l with [] => true | _ => false end.

(* sugar.go constants *)
Definition oddNumberErrMsg : bytes := Eval vm_compute in bs "Ignored key without a value."%string.
Definition nonStringKeyErrMsg : bytes := Eval vm_compute in bs "Ignored key-value pairs with non-string keys."%string.
Definition multipleErrMsg : bytes := Eval vm_compute in bs "Multiple errors without a key."%string.
Definition key_error : bytes := Eval vm_compute in bs "error"%string.       (* error.go: Error(err) = NamedError("error", err) *)
Definition key_ignored : bytes := Eval vm_compute in bs "ignored"%string.

(* zapcore levels *)
Definition DebugLevel : Z := (-1)%Z.
Definition InfoLevel : Z := 0%Z.
Definition WarnLevel : Z := 1%Z.
Definition ErrorLevel : Z := 2%Z.
Definition DPanicLevel : Z := 3%Z.
Definition PanicLevel : Z := 4%Z.
Definition FatalLevel : Z := 5%Z.

(* result of a Go loop that indexes a slice: it finishes, or an index is out of
   range (a run-time panic), or the model's fuel ran out (never: C14_total) *)
Inductive outcome (A : Type) :=
| Done (a : A)
| OutOfRange (a : A)      (* state reached when the bad index was evaluated *)
| OutOfFuel.
Arguments Done {A} a.
Arguments OutOfRange {A} a.
Arguments OutOfFuel {A}.

Inductive term := TNone | TPanic | TFatal | TCrash.
Definition term_is_none (t : term) : bool := match t with TNone => true | _ => false end.


(* ================= the core composition under the logger =================
   The sugar hands its fields to whatever zapcore.Core the Logger holds.  That core is a stack
   built by the history: New(observer), With (eager: core.With(fields), pushed down through every
   wrapper to the observer), WithLazy (zapcore.NewLazyWith(core, fields): a lazyWithCore ON TOP of
   the current stack, its With deferred), WithOptions(WrapCore(f)) (a wrapper on top).  An entry
   reaches the observer by Logger.check -> core.Check (which registers cores with the CheckedEntry)
   followed by ce.Write -> Write of every registered core.

   wrappers (all leave Enabled alone):
     WFwd     the textbook user core "embed zapcore.Core; Check: if Enabled { ce.AddCore(ent, self) };
              Write: forward to the embedded core; With: wrap inner.With" (counting / auditing cores)
     WDeleg   an embedding wrapper whose Check is the embedded core's (the inner core registers itself)
     WTee     zapcore.NewTee(core, nop) / NewTee(nop, core): Check asks every member, Write writes to every member
     WHook    zapcore.RegisterHooks: Check lets the inner core register, then registers itself; its
              Write ONLY runs the hooks ("our downstream had a chance to register itself")
     WFilter  zapcore.NewIncreaseLevelCore(core, the core's own enabler): Check delegates, Write is the embedded one

   [write_w c fss fs] = c.With(fss_1)...With(fss_n).Write(ent, fs): the field lists that reach the observer;
   [check_w c fss]    = the cores c.With(fss_1)...With(fss_n).Check registers, each with its pending Withs.
   lazy_with.go: Check = { initOnce; d.core.Check }, Write = { initOnce; d.core.Write }, With = { initOnce;
   d.core.With } where d.core = originalCore.With(fields) -- the clauses for [CLazy] below. *)
Inductive wrapper := WFwd | WDeleg | WTee | WHook | WFilter.
Definition wrapper_is_hook (w : wrapper) : bool := match w with WHook => true | _ => false end.
Definition wrapper_is_fwd (w : wrapper) : bool := match w with WFwd => true | _ => false end.

Section Cores.
  Variable F : Type.

  Inductive core :=
  | CObs (ctx : list F)                       (* the observer, with the context given to it by With *)
  | CLazy (inner : core) (fs : list F)        (* zapcore.NewLazyWith(inner, fs) *)
  | CWrap (w : wrapper) (inner : core).

  (* c.With(fss_1)...With(fss_n), n >= 1 *)
  Fixpoint core_withs (c : core) (fss : list (list F)) : core :=
    match c with
    | CObs ctx => CObs (ctx ++ concat fss)
    | CLazy inner f0 => core_withs inner (f0 :: fss)          (* initOnce: d.core = inner.With(f0); d.core.With(..) *)
    | CWrap w inner => CWrap w (core_withs inner fss)
    end.

  Fixpoint write_w (c : core) (fss : list (list F)) (fs : list F) : list (list F) :=
    match c with
    | CObs ctx => [ctx ++ concat fss ++ fs]
    | CLazy inner f0 => write_w inner (f0 :: fss) fs          (* initOnce; d.core.Write(e, fields) *)
    | CWrap WHook _ => []                                       (* hooks only *)
    | CWrap _ inner => write_w inner fss fs                     (* forwarded / embedded / every member (nop writes nothing) *)
    end.

  Fixpoint check_w (c : core) (fss : list (list F)) : list (core * list (list F)) :=
    match c with
    | CObs ctx => [(CObs ctx, fss)]                             (* ce.AddCore(ent, observer) *)
    | CLazy inner f0 => check_w inner (f0 :: fss)               (* initOnce; d.core.Check(e, ce) *)
    | CWrap WFwd inner => [(CWrap WFwd inner, fss)]             (* registers ITSELF *)
    | CWrap WHook inner => check_w inner fss ++ [(CWrap WHook inner, fss)]
    | CWrap _ inner => check_w inner fss
    end.

  (* Logger.check + ce.Write(fs...) at an enabled level: what the observer records *)
  Definition deliver (c : core) (fs : list F) : list (list F) :=
    concat (map (fun r => write_w (fst r) (snd r) fs) (check_w c [])).

  (* the history of the core *)
  Inductive cstep :=
  | KWith (lazy : bool) (fs : list F)        (* Logger.With / Logger.WithLazy with already sweetened fields *)
  | KWrap (w : wrapper).                     (* WithOptions(WrapCore(w)) *)
  Fixpoint build (c : core) (ks : list cstep) : core :=
    match ks with
    | [] => c
    | KWith true fs :: r => build (CLazy c fs) r
    | KWith false fs :: r => build (core_withs c [fs]) r
    | KWrap w :: r => build (CWrap w c) r
    end.

  (* the flat reading used by the rest of the model: the context is the concatenation of the With fields *)
  Fixpoint flat (c : core) : list F :=
    match c with
    | CObs ctx => ctx
    | CLazy inner f0 => flat inner ++ f0
    | CWrap _ inner => flat inner
    end.
  Fixpoint ks_fields (ks : list cstep) : list F :=
    match ks with
    | [] => []
    | KWith _ fs :: r => fs ++ ks_fields r
    | KWrap _ :: r => ks_fields r
    end.

  (* the one composition zap itself does not support: a core whose Write is reached WITHOUT its Check
     (a self-registering forwarder) above a hooked core, whose Write relies on the downstream having
     registered itself.  [ok]: no forwarder has a hooked core anywhere below it. *)
  Fixpoint hookfree (c : core) : bool :=
    match c with
    | CObs _ => true
    | CLazy inner _ => hookfree inner
    | CWrap w inner => negb (wrapper_is_hook w) && hookfree inner
    end.
  Fixpoint ok (c : core) : bool :=
    match c with
    | CObs _ => true
    | CLazy inner _ => ok inner
    | CWrap WFwd inner => hookfree inner
    | CWrap _ inner => ok inner
    end.
  (* the same on the history: [h] = a hook has been installed already *)
  Fixpoint ks_ok (h : bool) (ks : list cstep) : bool :=
    match ks with
    | [] => true
    | KWith _ _ :: r => ks_ok h r
    | KWrap w :: r => negb (wrapper_is_fwd w && h) && ks_ok (h || wrapper_is_hook w) r
    end.
End Cores.
Arguments CObs {F}. Arguments CLazy {F}. Arguments CWrap {F}.
Arguments KWith {F}. Arguments KWrap {F}.

Section Sugar.
  Variables V F : Type.
  Variable as_field : V -> option F.            (* f, ok := args[i].(Field) *)
  Variable is_error : V -> bool.                (* err, ok := args[i].(error) *)
  Variable as_string : V -> option bytes.       (* keyStr, ok := key.(string) *)
  Variable any_fld : bytes -> V -> F.           (* Any(key, value) *)
  Variable named_error : bytes -> V -> F.       (* NamedError(key, err) *)
  Variable array_invalid : list (nat * V * V) -> F.   (* Array("invalid", invalidPairs{{position,key,value}...}) *)

  Definition error_fld (e : V) : F := named_error key_error e.   (* Error(err) *)

  (* ---------------- sweetenFields: the sweep ---------------- *)
  (* a call s.base.Error(msg, fields...) made by the sweep *)
  Definition bcall := (bytes * list F)%type.

  Record sw := {
    sw_fields : list F;                 (* fields  = make([]Field, 0, len(args)) *)
    sw_invalid : list (nat * V * V);    (* invalid invalidPairs *)
    sw_seen : bool;                     (* seenError *)
    sw_calls : list bcall               (* s.base.Error calls made so far, in order *)
  }.
  Definition sw_init : sw := {| sw_fields := []; sw_invalid := []; sw_seen := false; sw_calls := [] |}.
  Definition push_field (f : F) (s : sw) : sw :=
    {| sw_fields := sw_fields s ++ [f]; sw_invalid := sw_invalid s; sw_seen := sw_seen s; sw_calls := sw_calls s |}.
  Definition push_invalid (p : nat * V * V) (s : sw) : sw :=
    {| sw_fields := sw_fields s; sw_invalid := sw_invalid s ++ [p]; sw_seen := sw_seen s; sw_calls := sw_calls s |}.
  Definition set_seen (s : sw) : sw :=
    {| sw_fields := sw_fields s; sw_invalid := sw_invalid s; sw_seen := true; sw_calls := sw_calls s |}.
  Definition push_call (c : bcall) (s : sw) : sw :=
    {| sw_fields := sw_fields s; sw_invalid := sw_invalid s; sw_seen := sw_seen s; sw_calls := sw_calls s ++ [c] |}.

  (* for i := 0; i < len(args); { ... }   -- one unit of fuel per evaluation of the loop condition *)
  Fixpoint sweep (fuel : nat) (args : list V) (i : nat) (s : sw) : outcome sw :=
    match fuel with
    | 0 => OutOfFuel
    | S fuel' =>
        if negb (i <? length args) then Done s else
        match nth_error args i with
        | None => OutOfRange s
        | Some a =>
            match as_field a with
            | Some f => sweep fuel' args (i + 1) (push_field f s)          (* i++; continue *)
            | None =>
                if is_error a then
                  if negb (sw_seen s)
                  then sweep fuel' args (i + 1) (push_field (error_fld a) (set_seen s))
                  else sweep fuel' args (i + 1) (push_call (multipleErrMsg, [error_fld a]) s)
                else if i =? length args - 1 then                               (* dangling key: break *)
                  Done (push_call (oddNumberErrMsg, [any_fld key_ignored a]) s)
                else
                  match nth_error args (i + 1) with                             (* key, val := args[i], args[i+1] *)
                  | None => OutOfRange s
                  | Some val =>
                      match as_string a with
                      | None => sweep fuel' args (i + 2) (push_invalid (i, a, val) s)
                      | Some k => sweep fuel' args (i + 2) (push_field (any_fld k val) s)
                      end
                  end
            end
        end
    end.

  (* after the loop: if len(invalid) > 0 { s.base.Error(_nonStringKeyErrMsg, Array("invalid", invalid)) } *)
  Definition finish (s : sw) : list F * list bcall :=
    (sw_fields s,
     sw_calls s ++ (if 0 <? length (sw_invalid s) then [(nonStringKeyErrMsg, [array_invalid (sw_invalid s)])] else [])).

  (* sweetenFields(args) = (returned fields, s.base.Error calls in order) *)
  Definition sweeten (args : list V) : outcome (list F * list bcall) :=
    if length args =? 0 then Done ([], []) else
    match sweep (S (length args)) args 0 sw_init with
    | Done s => Done (finish s)
    | OutOfRange s => OutOfRange ([], sw_calls s)
    | OutOfFuel => OutOfFuel
    end.

  (* ---------------- the logger under the sugar ---------------- *)
  Record logger := {
    lg_ctx : list F;          (* fields accumulated in the core by With *)
    lg_en : Z -> bool;        (* core.Enabled *)
    lg_dev : bool             (* Development() *)
  }.
  Record entry := { en_lvl : Z; en_msg : bytes; en_fields : list F }.

  (* Logger.Error(msg, fields...): check(ErrorLevel) is nil when the level is disabled,
     otherwise the core adds itself and Write delivers context ++ fields *)
  Definition base_error (lg : logger) (c : bcall) : list entry :=
    if (ErrorLevel <? DPanicLevel)%Z && negb (lg_en lg ErrorLevel) then []
    else if lg_en lg ErrorLevel
         then [{| en_lvl := ErrorLevel; en_msg := fst c; en_fields := lg_ctx lg ++ snd c |}]
         else [].
  Definition diag_entries (lg : logger) (cs : list bcall) : list entry := concat (map (base_error lg) cs).

  (* Logger.check: the terminal action attached by the level switch *)
  Definition terminal (lg : logger) (lvl : Z) : term :=
    if (lvl =? PanicLevel)%Z then TPanic
    else if (lvl =? FatalLevel)%Z then TFatal
    else if (lvl =? DPanicLevel)%Z then (if lg_dev lg then TPanic else TNone)
    else TNone.

  (* if ce := s.base.Check(lvl, msg); ce != nil { ce.Write(s.sweetenFields(context)...) } *)
  Definition check_write (lg : logger) (lvl : Z) (msg : bytes) (context : list V) : list entry * term :=
    if (lvl <? DPanicLevel)%Z && negb (lg_en lg lvl) then ([], TNone) else
    let will_write := lg_en lg lvl in
    let tm := terminal lg lvl in
    if will_write || negb (term_is_none tm) then
      match sweeten context with
      | Done (fields, calls) =>
          (diag_entries lg calls ++
           (if will_write then [{| en_lvl := lvl; en_msg := msg; en_fields := lg_ctx lg ++ fields |}] else []),
           tm)
      | OutOfRange (_, calls) => (diag_entries lg calls, TCrash)
      | OutOfFuel => ([], TCrash)
      end
    else ([], TNone).

  (* getMessage(template, fmtArgs) over the oracle answers of fmt.Sprintf / fmt.Sprint *)
  Definition get_message (template : bytes) (fmt_args : list V) (sprintf sprint : bytes) : bytes :=
    if length fmt_args =? 0 then template
    else if negb (is_nil template) then sprintf
    else match fmt_args with
         | [a] => match as_string a with Some s => s | None => sprint end
         | _ => sprint
         end.
  (* getMessageln: msg := fmt.Sprintln(fmtArgs...); return msg[:len(msg)-1]  (panics on an empty msg) *)
  Definition get_messageln (sprintln : bytes) : option bytes :=
    if is_nil sprintln then None else Some (removelast sprintln).

  (* SugaredLogger.log *)
  Definition slog (lg : logger) (lvl : Z) (template : bytes) (fmt_args : list V)
             (sprintf sprint : bytes) (context : list V) : list entry * term :=
    if (lvl <? DPanicLevel)%Z && negb (lg_en lg lvl) then ([], TNone) else
    check_write lg lvl (get_message template fmt_args sprintf sprint) context.
  (* SugaredLogger.logln *)
  Definition slogln (lg : logger) (lvl : Z) (sprintln : bytes) (context : list V) : list entry * term :=
    if (lvl <? DPanicLevel)%Z && negb (lg_en lg lvl) then ([], TNone) else
    match get_messageln sprintln with
    | None => ([], TCrash)
    | Some msg => check_write lg lvl msg context
    end.

  (* With / WithLazy: &SugaredLogger{base: s.base.With(s.sweetenFields(args)...)}; the
     diagnostics are logged through the receiver (old context); the lazy variant adds the
     same fields to the core on first use, which the observer cannot tell apart *)
  Definition swith (lg : logger) (args : list V) : outcome (logger * list entry) :=
    match sweeten args with
    | Done (fields, calls) =>
        Done ({| lg_ctx := lg_ctx lg ++ fields; lg_en := lg_en lg; lg_dev := lg_dev lg |}, diag_entries lg calls)
    | OutOfRange (_, calls) => OutOfRange (lg, diag_entries lg calls)
    | OutOfFuel => OutOfFuel
    end.

  (* the four method families *)
  Inductive family := FamW | FamPrint | FamF | FamLn.
  Record call := {
    c_fam : family;
    c_lvl : Z;
    c_text : bytes;            (* msg (w) / template (f) / unused *)
    c_args : list V;           (* keysAndValues (w) / args (print, f, ln) *)
    c_sprint : bytes;          (* fmt.Sprint(args...) *)
    c_sprintf : bytes;         (* fmt.Sprintf(template, args...) *)
    c_sprintln : bytes         (* fmt.Sprintln(args...) *)
  }.
  Definition do_call (lg : logger) (c : call) : list entry * term :=
    match c_fam c with
    | FamW => slog lg (c_lvl c) (c_text c) [] (c_sprintf c) (c_sprint c) (c_args c)      (* s.log(lvl, msg, nil, keysAndValues) *)
    | FamPrint => slog lg (c_lvl c) [] (c_args c) (c_sprintf c) (c_sprint c) []          (* s.log(lvl, "", args, nil) *)
    | FamF => slog lg (c_lvl c) (c_text c) (c_args c) (c_sprintf c) (c_sprint c) []      (* s.log(lvl, template, args, nil) *)
    | FamLn => slogln lg (c_lvl c) (c_sprintln c) []                                     (* s.logln(lvl, args, nil) *)
    end.

  (* the gate of SugaredLogger.log / logln, as a predicate: the call goes on to format its
     message and to Logger.Check iff the core's enabler accepts the level or the level is
     DPanic or above ("lvl < DPanicLevel && !s.base.Core().Enabled(lvl)" returns early) *)
  Definition sugar_gate (lg : logger) (lvl : Z) : bool :=
    negb ((lvl <? DPanicLevel)%Z && negb (lg_en lg lvl)).

  (* the core's enabler changes (AtomicLevel.SetLevel, a LevelEnablerFunc over mutable state):
     every logger derived from the core sees the new predicate; context and options stay *)
  Definition set_en (lg : logger) (en : Z -> bool) : logger :=
    {| lg_ctx := lg_ctx lg; lg_en := en; lg_dev := lg_dev lg |}.

  (* a history before the logging call: With/WithLazy calls and changes of the core's enabler *)
  Inductive step :=
  | SWith (lazy : bool) (args : list V)    (* With (false) / WithLazy (true) *)
  | SSetEn (en : Z -> bool)
  | SWrap (w : wrapper).                   (* WithOptions(WrapCore(w)): the core composition changes, the logger does not *)

  (* a program: a chain of With/WithLazy calls interleaved with enabler changes, then one logging call *)
  Fixpoint run (lg : logger) (steps : list step) (c : call) : list entry * term :=
    match steps with
    | [] => do_call lg c
    | SWith _ a :: r =>
        match swith lg a with
        | Done (lg', es) => let '(es', t) := run lg' r c in (es ++ es', t)
        | OutOfRange (_, es) => (es, TCrash)
        | OutOfFuel => ([], TCrash)
        end
    | SSetEn en :: r => run (set_en lg en) r c
    | SWrap _ :: r => run lg r c            (* transparent: see C14_core_composition_transparent *)
    end.

  (* ================= specification (independent of the sweep) ================= *)
  (* structural parse of the argument list: what each position is used for *)
  Inductive item :=
  | IField (pos : nat) (f : F)               (* a typed field at pos *)
  | IFirstErr (pos : nat) (e : V)            (* the first bare error *)
  | IExtraErr (pos : nat) (e : V)            (* a further bare error *)
  | IPair (pos : nat) (k : bytes) (v : V)    (* string key at pos, value at pos+1 *)
  | IBadPair (pos : nat) (k v : V)           (* non-string key at pos, value at pos+1 *)
  | IDangling (pos : nat) (k : V).           (* last element, no value *)

  Fixpoint items (pos : nat) (seen : bool) (l : list V) : list item :=
    match l with
    | [] => []
    | a :: r =>
        match as_field a with
        | Some f => IField pos f :: items (S pos) seen r
        | None =>
            if is_error a then (if seen then IExtraErr pos a else IFirstErr pos a) :: items (S pos) true r
            else match r with
                 | [] => [IDangling pos a]
                 | b :: r' =>
                     (match as_string a with Some k => IPair pos k b | None => IBadPair pos a b end)
                     :: items (S (S pos)) seen r'
                 end
        end
    end.

  (* the positions an item accounts for *)
  Definition span (it : item) : list nat :=
    match it with
    | IField p _ | IFirstErr p _ | IExtraErr p _ | IDangling p _ => [p]
    | IPair p _ _ | IBadPair p _ _ => [p; S p]
    end.
  Definition start (it : item) : nat :=
    match it with
    | IField p _ | IFirstErr p _ | IExtraErr p _ | IDangling p _ | IPair p _ _ | IBadPair p _ _ => p
    end.
  (* consumed: the field an item contributes to the output *)
  Definition out_field (it : item) : option F :=
    match it with
    | IField _ f => Some f
    | IFirstErr _ e => Some (error_fld e)
    | IPair _ k v => Some (any_fld k v)
    | _ => None
    end.
  (* reported: the items that must show up in a diagnostic *)
  Definition reported (it : item) : bool :=
    match it with IExtraErr _ _ | IBadPair _ _ _ | IDangling _ _ => true | _ => false end.

  Fixpoint filter_map {A B} (f : A -> option B) (l : list A) : list B :=
    match l with
    | [] => []
    | a :: r => match f a with Some b => b :: filter_map f r | None => filter_map f r end
    end.

  Definition fields_of (its : list item) : list F := filter_map out_field its.
  Definition extra_errs (its : list item) : list V :=
    filter_map (fun it => match it with IExtraErr _ e => Some e | _ => None end) its.
  Definition danglings (its : list item) : list V :=
    filter_map (fun it => match it with IDangling _ k => Some k | _ => None end) its.
  Definition bad_pairs (its : list item) : list (nat * V * V) :=
    filter_map (fun it => match it with IBadPair p k v => Some (p, k, v) | _ => None end) its.

  (* the diagnostics the property asks for: one entry per further bare error, one for a
     dangling key (its value under "ignored"), one listing every non-string-keyed pair *)
  Definition diag_calls_of (its : list item) : list bcall :=
    map (fun e => (multipleErrMsg, [error_fld e])) (extra_errs its)
    ++ map (fun k => (oddNumberErrMsg, [any_fld key_ignored k])) (danglings its)
    ++ (match bad_pairs its with [] => [] | ps => [(nonStringKeyErrMsg, [array_invalid ps])] end).

  Definition spec_sweeten (args : list V) : list F * list bcall :=
    let its := items 0 false args in (fields_of its, diag_calls_of its).

  (* error-level entries carrying the logger's context *)
  Definition spec_diag_entries (lg : logger) (cs : list bcall) : list entry :=
    if lg_en lg ErrorLevel
    then map (fun c => {| en_lvl := ErrorLevel; en_msg := fst c; en_fields := lg_ctx lg ++ snd c |}) cs
    else [].

  (* With chain: context grows by the well-formed arguments, diagnostics carry the old context and
     are error-level entries under the enabler in force AT THAT With; an enabler change replaces
     the predicate for everything that follows *)
  Fixpoint spec_withs (lg : logger) (steps : list step) : logger * list entry :=
    match steps with
    | [] => (lg, [])
    | SWith _ a :: r =>
        let '(fs, cs) := spec_sweeten a in
        let '(lg', es) := spec_withs {| lg_ctx := lg_ctx lg ++ fs; lg_en := lg_en lg; lg_dev := lg_dev lg |} r in
        (lg', spec_diag_entries lg cs ++ es)
    | SSetEn en :: r =>
        spec_withs {| lg_ctx := lg_ctx lg; lg_en := en; lg_dev := lg_dev lg |} r
    | SWrap _ :: r => spec_withs lg r      (* the delivered context does not depend on the core composition *)
    end.

  (* the history of the CORE under the logger: the sweetened fields of every With/WithLazy, the wrappers *)
  Fixpoint ksteps_of (steps : list step) : list (cstep F) :=
    match steps with
    | [] => []
    | SWith lz a :: r => KWith lz (fields_of (items 0 false a)) :: ksteps_of r
    | SSetEn _ :: r => ksteps_of r
    | SWrap w :: r => KWrap w :: ksteps_of r
    end.

  (* the enabler in force when the logging call is made: the last change, if any *)
  Fixpoint final_en (en : Z -> bool) (steps : list step) : Z -> bool :=
    match steps with
    | [] => en
    | SWith _ _ :: r => final_en en r
    | SSetEn e :: r => final_en e r
    | SWrap _ :: r => final_en en r
    end.

  (* the message the property prescribes; [None] = no message satisfies it *)
  Definition msg_ok (c : call) (m : bytes) : bool :=
    match c_fam c with
    | FamW => bytes_eqb m (c_text c)
    | FamPrint => bytes_eqb m (c_sprint c)
    | FamF => if is_nil (c_args c) then bytes_eqb m (c_text c) else bytes_eqb m (c_sprintf c)
    | FamLn => bytes_eqb (m ++ [x0a]) (c_sprintln c)
    end.
  Definition call_context (c : call) : list V := match c_fam c with FamW => c_args c | _ => [] end.

End Sugar.

Arguments Done {A} a.
Arguments IField {V F}. Arguments IFirstErr {V F}. Arguments IExtraErr {V F}.
Arguments IPair {V F}. Arguments IBadPair {V F}. Arguments IDangling {V F}.
Arguments span {V F}. Arguments start {V F}. Arguments reported {V F}.
Arguments sw_fields {V F}. Arguments sw_invalid {V F}. Arguments sw_seen {V F}. Arguments sw_calls {V F}.
Arguments sw_init {V F}.
Arguments lg_ctx {F}. Arguments lg_en {F}. Arguments lg_dev {F}.
Arguments Build_logger {F}.
Arguments en_lvl {F}. Arguments en_msg {F}. Arguments en_fields {F}.
Arguments Build_entry {F}.
Arguments c_fam {V}. Arguments c_lvl {V}. Arguments c_text {V}. Arguments c_args {V}.
Arguments c_sprint {V}. Arguments c_sprintf {V}. Arguments c_sprintln {V}.
Arguments Build_call {V}.
Arguments SWith {V}. Arguments SSetEn {V}. Arguments SWrap {V}.
Arguments sugar_gate {F}. Arguments set_en {F}.
Arguments call_context {V}.
Arguments spec_diag_entries {F}.
Arguments base_error {F}. Arguments diag_entries {F}. Arguments terminal {F}.

(* ================= wire instance ================= *)
(* V = F = sx.
   value  v = (kind fdesc str anykl errkl enck encv typ rend)
     kind   0 zap.Field | 1 implements error | 2 string | 3 anything else (nil included); computed by the
            harness with the same type assertions, in the same order, as sweetenFields
     fdesc  kind 0: the Field itself (key type integer string iface)
     str    kind 2: the string
     anykl  zap.Any("", v) without its key: (type integer string iface)         [oracle: direct call]
     errkl  kind 1: zap.NamedError("", v) without its key                       [oracle: direct call]
     enck   the encoder calls made by zap.Any("key", v).AddTo(enc)              [oracle: direct call]
     encv   the encoder calls made by zap.Any("value", v).AddTo(enc)            [oracle: direct call]
     typ rend  %T and an address-free rendering (information for replays only)
   field  f = (key type integer string iface);  iface = (typ rend)
   enab   e = (0 (l ...))   the core enables exactly the listed levels (a zap.LevelEnablerFunc: any subset of
                            int8, levels below Debug and above Fatal included, not monotone in general)
            | (1 min)       a plain zapcore.Level used as the enabler: l >= min (min may be below Debug)
            | (2 min)       a zap.AtomicLevel currently at min: l >= min
   step   s = (0 lazy (v ...))   With / WithLazy
            | (2 w)              WithOptions(zap.WrapCore(w)): a wrapping core is put on top of the logger's core
                                 w = 0 self-registering forwarder (Check adds itself, Write forwards) | 1 embedding
                                 wrapper (Check delegated) | 2 NewTee(core, nop) | 3 RegisterHooks | 4 NewIncreaseLevelCore
                                 (core, the core's own enabler) | 5 NewTee(nop, core)
            | (1 e)              the core's enabler becomes e (AtomicLevel.SetLevel / the state read by the
                                 LevelEnablerFunc changes) -- seen by every logger derived so far
   case   i = (e dev (s ...) (fam lvl text (v ...) sprint sprintf sprintln generic))
   obs    o = (term ((lvl msg (f ...)) ...))     term 0 none | 1 panic | 2 fatal hook | 3 other run-time panic *)
Definition ArrayMarshalerType : Z := 1%Z.
Definition s_Int64 : bytes := Eval vm_compute in bs "Int64"%string.
Definition s_position : bytes := Eval vm_compute in bs "position"%string.
Definition s_invalid : bytes := Eval vm_compute in bs "invalid"%string.
Definition s_invalidPairs : bytes := Eval vm_compute in bs "zap.invalidPairs"%string.

Definition w_kind (v : sx) : Z := sx_z (sx_nth v 0).
Definition w_as_field (v : sx) : option sx := if (w_kind v =? 0)%Z then Some (sx_nth v 1) else None.
Definition w_is_error (v : sx) : bool := (w_kind v =? 1)%Z.
Definition w_as_string (v : sx) : option bytes := if (w_kind v =? 2)%Z then Some (sx_b (sx_nth v 2)) else None.
Definition with_key (k : bytes) (kl : sx) : sx := SL (SB k :: sx_l kl).
Definition w_any (k : bytes) (v : sx) : sx := with_key k (sx_nth v 3).
Definition w_named_error (k : bytes) (v : sx) : sx := with_key k (sx_nth v 4).
(* invalidPairs.MarshalLogArray: one AppendObject per pair; invalidPair.MarshalLogObject:
   enc.AddInt64("position", ...); Any("key", p.key).AddTo(enc); Any("value", p.value).AddTo(enc) *)
Definition w_pair_obj (p : nat * sx * sx) : sx :=
  let '(i, k, v) := p in
  SL (SL [SB s_Int64; SB s_position; of_nat i] :: sx_l (sx_nth k 5) ++ sx_l (sx_nth v 6)).
Definition w_array_invalid (ps : list (nat * sx * sx)) : sx :=
  SL [SB s_invalid; SZ ArrayMarshalerType; SZ 0; SB [];
      SL [SB s_invalidPairs; SL (map w_pair_obj ps)]].

Definition w_sweeten := sweeten sx sx w_as_field w_is_error w_as_string w_any w_named_error w_array_invalid.
Definition w_run := run sx sx w_as_field w_is_error w_as_string w_any w_named_error w_array_invalid.
Definition w_spec_sweeten := spec_sweeten sx sx w_as_field w_is_error w_as_string w_any w_named_error w_array_invalid.
Definition w_spec_withs := spec_withs sx sx w_as_field w_is_error w_as_string w_any w_named_error w_array_invalid.
Definition w_ksteps_of := ksteps_of sx sx w_as_field w_is_error w_as_string w_any w_named_error.

(* the enabler predicate: membership for a LevelEnablerFunc given by its extension,
   zapcore.Level.Enabled (l >= min) for a plain Level and for an AtomicLevel *)
Definition dec_en (s : sx) (l : Z) : bool :=
  if (sx_z (sx_nth s 0) =? 0)%Z
  then existsb (fun x => (sx_z x =? l)%Z) (sx_l (sx_nth s 1))
  else (sx_z (sx_nth s 1) <=? l)%Z.
Definition dec_logger (i : sx) : logger sx :=
  {| lg_ctx := []; lg_en := dec_en (sx_nth i 0); lg_dev := sx_bool (sx_nth i 1) |}.
Definition dec_wrapper (z : Z) : wrapper :=
  match z with 0%Z => WFwd | 1%Z => WDeleg | 3%Z => WHook | 4%Z => WFilter | _ => WTee end.
Definition dec_step (w : sx) : step sx :=
  if (sx_z (sx_nth w 0) =? 0)%Z then SWith (sx_bool (sx_nth w 1)) (sx_l (sx_nth w 2))
  else if (sx_z (sx_nth w 0) =? 1)%Z then SSetEn (dec_en (sx_nth w 1))
  else SWrap (dec_wrapper (sx_z (sx_nth w 1))).
Definition dec_withs (i : sx) : list (step sx) := map dec_step (sx_l (sx_nth i 2)).
Definition dec_fam (z : Z) : family :=
  match z with 0%Z => FamW | 1%Z => FamPrint | 2%Z => FamF | _ => FamLn end.
Definition dec_call (i : sx) : call sx :=
  let c := sx_nth i 3 in
  {| c_fam := dec_fam (sx_z (sx_nth c 0)); c_lvl := sx_z (sx_nth c 1); c_text := sx_b (sx_nth c 2);
     c_args := sx_l (sx_nth c 3); c_sprint := sx_b (sx_nth c 4); c_sprintf := sx_b (sx_nth c 5);
     c_sprintln := sx_b (sx_nth c 6) |}.

Definition enc_term (t : term) : sx :=
  SZ (match t with TNone => 0 | TPanic => 1 | TFatal => 2 | TCrash => 3 end)%Z.
Definition enc_entry (e : entry sx) : sx := SL [SZ (en_lvl e); SB (en_msg e); SL (en_fields e)].
Definition enc_entries (es : list (entry sx)) : sx := SL (map enc_entry es).

Definition model (i : sx) : sx :=
  let '(es, t) := w_run (dec_logger i) (dec_withs i) (dec_call i) in
  SL [enc_term t; enc_entries es].

(* ---- the property's oracle on an arbitrary observation ----
   no run-time panic; the entries are: the diagnostics of every With (error level, context
   of the receiver, under the enabler in force at that With), then -- when the core's enabler
   AT THE TIME OF THE CALL accepts the call's level, whatever that level is (named or not, below
   Debug or above Fatal) and whatever kind of enabler it is -- the diagnostics of the call
   followed by ONE entry at the call's level whose message satisfies [msg_ok] and whose fields
   are the context plus the well-formed arguments in order.  When the enabler rejects the level
   no entry at that level may appear (its diagnostics may or may not). *)
Definition spec (i o : sx) : bool :=
  let lg := dec_logger i in
  let c := dec_call i in
  let '(lg', wes) := w_spec_withs lg (dec_withs i) in
  let '(fs, cs) := w_spec_sweeten (call_context c) in
  let des := spec_diag_entries lg' cs in
  let t := sx_z (sx_nth o 0) in
  let obs := sx_l (sx_nth o 1) in
  let pre := map enc_entry (wes ++ des) in
  ((0 <=? t) && (t <=? 2))%Z &&
  (if lg_en lg' (c_lvl c) then
     match rev obs with
     | last :: rpre =>
         sx_eqb (SL (rev rpre)) (SL pre) &&
         sx_eqb (sx_nth last 0) (SZ (c_lvl c)) &&
         msg_ok sx c (sx_b (sx_nth last 1)) &&
         (match sx_nth last 1 with SB _ => true | _ => false end) &&
         sx_eqb (sx_nth last 2) (SL (lg_ctx lg' ++ fs)) &&
         (length (sx_l last) =? 3)
     | [] => false
     end
   else sx_eqb (SL obs) (SL (map enc_entry wes)) || sx_eqb (SL obs) (SL pre)) &&
  (match sx_nth o 1 with SL _ => true | _ => false end) &&
  (length (sx_l o) =? 2).

(* ---- hypotheses of the wire theorem ----
   fmt facts used by getMessage's shortcuts (assumption monitors in the harness):
     Sprint() = "", Sprint(s) = s for a single string, Sprintln(...) ends in "\n";
   and the one known deviation: the f-family with an empty template and arguments. *)
Definition fmt_wf (i : sx) : bool :=
  let c := dec_call i in
  match c_fam c with
  | FamPrint =>
      match c_args c with
      | [] => is_nil (c_sprint c)
      | [a] => match w_as_string a with Some s => bytes_eqb (c_sprint c) s | None => true end
      | _ => true
      end
  | FamLn => bytes_eqb (removelast (c_sprintln c) ++ [x0a]) (c_sprintln c)
  | _ => true
  end.
Definition kf_empty_template (i : sx) : bool :=
  let c := dec_call i in
  match c_fam c with FamF => is_nil (c_text c) && negb (is_nil (c_args c)) | _ => false end.
Definition wf (i : sx) : bool := fmt_wf i && negb (kf_empty_template i).

(* C15 — stub *)
From Zap Require Import Base.Wire C15.Model.

(* C15 — proofs.  Statements are re-exported, closed by [exact], in Props/C15.v. *)
From Coq Require Import List ZArith Bool Lia PeanoNat.
From Coq.Strings Require Import Byte.
Import ListNotations.
From Zap Require Import Base.Wire C15.Model.
Local Open Scope Z_scope.

(* ------------------------------------------------------------------ lists *)
Lemma format_stack_removelast : forall fs, format_stack fs = removelast fs.
Proof.
  induction fs as [|f r IH]; [reflexivity|].
  cbn [format_stack removelast]. destruct r as [|g r']; [reflexivity|].
  rewrite IH. reflexivity.
Qed.

Lemma skipn_app_exact : forall (A : Type) (pre us : list A), skipn (length pre) (pre ++ us) = us.
Proof. induction pre as [|a pre IH]; intros us; cbn; auto. Qed.

Lemma skipn_app_more : forall (A : Type) (pre us : list A) (k : nat),
  skipn (length pre + k) (pre ++ us) = skipn k us.
Proof. induction pre as [|a pre IH]; intros us k; cbn; auto. Qed.

Lemma firstn_all_le : forall (A : Type) (l : list A) (n : nat), (length l <= n)%nat -> firstn n l = l.
Proof. intros A l n H. apply firstn_all2. exact H. Qed.

(* ------------------------------------------------------------------ runtime.Callers *)
Lemma callers_length : forall skip len stk,
  length (callers skip len stk) = Nat.min len (length (skipn (Z.to_nat skip) stk)).
Proof. intros. unfold callers. apply firstn_length. Qed.

Lemma callers_whole : forall skip len stk,
  (length (skipn (Z.to_nat skip) stk) < len)%nat -> callers skip len stk = skipn (Z.to_nat skip) stk.
Proof. intros skip len stk H. unfold callers. apply firstn_all_le. lia. Qed.

(* ------------------------------------------------------------------ the doubling loop *)
Lemma grow_complete : forall fuel skip stk len,
  (1 <= len)%nat ->
  (length (skipn (Z.to_nat skip) stk) < len * 2 ^ fuel)%nat ->
  exists len', grow fuel skip stk len (callers skip len stk) = Some (skipn (Z.to_nat skip) stk, len')
               /\ (len <= len')%nat.
Proof.
  induction fuel as [|f IH]; intros skip stk len Hlen Hfit.
  - cbn [grow]. rewrite callers_length.
    cbn [Nat.pow] in Hfit. rewrite Nat.mul_1_r in Hfit.
    destruct (Nat.eqb (Nat.min len (length (skipn (Z.to_nat skip) stk))) len) eqn:E.
    + apply Nat.eqb_eq in E. lia.
    + exists len. split; [|lia]. rewrite callers_whole by exact Hfit. reflexivity.
  - cbn [grow]. rewrite callers_length.
    destruct (Nat.eqb (Nat.min len (length (skipn (Z.to_nat skip) stk))) len) eqn:E.
    + destruct (IH skip stk (2 * len)%nat) as [len' [Hg Hle]].
      * lia.
      * cbn [Nat.pow] in Hfit. lia.
      * exists len'. split; [exact Hg|lia].
    + apply Nat.eqb_neq in E. exists len. split; [|lia].
      rewrite callers_whole by lia. reflexivity.
Qed.

Lemma pow2_gt : forall n, (n < 2 ^ n)%nat.
Proof. intros n. apply Nat.pow_gt_lin_r. lia. Qed.

Lemma grow_fuel_enough : forall fuel skip stk len,
  (1 <= len)%nat -> (length stk <= fuel)%nat ->
  exists len', grow fuel skip stk len (callers skip len stk) = Some (skipn (Z.to_nat skip) stk, len')
               /\ (len <= len')%nat.
Proof.
  intros fuel skip stk len Hlen Hfuel. apply grow_complete; [exact Hlen|].
  assert (Hs : (length (skipn (Z.to_nat skip) stk) <= length stk)%nat) by (rewrite skipn_length; lia).
  assert (Hp : (fuel < 2 ^ fuel)%nat) by apply pow2_gt.
  assert (Hm : (1 * 2 ^ fuel <= len * 2 ^ fuel)%nat) by (apply Nat.mul_le_mono_r; exact Hlen).
  lia.
Qed.

(* Capture(skip, Full) returns the whole stack above the skipped frames, whatever its depth
   and whatever the size of the pooled storage it started from *)
Lemma capture_full_complete : forall fuel skip stk storage,
  (1 <= storage)%nat -> (length stk <= fuel)%nat ->
  exists s', capture fuel skip Full stk storage = Some (skipn (Z.to_nat (skip + captureSelfSkip)) stk, s')
             /\ (storage <= s')%nat.
Proof. intros. cbn [capture]. apply grow_fuel_enough; assumption. Qed.

Lemma capture_complete_thm : forall stk skip storage,
  (1 <= storage)%nat ->
  exists fuel, forall fuel', (fuel <= fuel')%nat ->
    exists s', capture fuel' skip Full stk storage = Some (skipn (Z.to_nat (skip + captureSelfSkip)) stk, s')
               /\ (storage <= s')%nat.
Proof.
  intros stk skip storage H. exists (length stk). intros fuel' Hf.
  apply capture_full_complete; [exact H|exact Hf].
Qed.

(* the result does not depend on the pooled storage the capture happened to get *)
Lemma capture_storage_indep : forall fuel skip stk s1 s2,
  (1 <= s1)%nat -> (1 <= s2)%nat -> (length stk <= fuel)%nat ->
  option_map fst (capture fuel skip Full stk s1) = option_map fst (capture fuel skip Full stk s2).
Proof.
  intros fuel skip stk s1 s2 H1 H2 Hf.
  destruct (capture_full_complete fuel skip stk s1 H1 Hf) as [a [-> _]].
  destruct (capture_full_complete fuel skip stk s2 H2 Hf) as [b [-> _]].
  reflexivity.
Qed.

Lemma capture_first : forall fuel skip stk storage,
  (1 <= storage)%nat ->
  capture fuel skip First stk storage = Some (firstn 1 (skipn (Z.to_nat (skip + captureSelfSkip)) stk), storage).
Proof.
  intros fuel skip stk storage H. cbn [capture]. unfold callers.
  replace (Nat.min 1 storage) with 1%nat by lia. reflexivity.
Qed.

(* the variants the code does not have *)
Definition deep_stack (n : nat) : list frame := map (fun i => FU (Z.of_nat i)) (seq 0 n).

Lemma capture_trunc_refuted :
  exists stk skip, capture_trunc skip stk initStorage <> skipn (Z.to_nat (skip + captureSelfSkip)) stk.
Proof. exists (deep_stack 70), 0. vm_compute. discriminate. Qed.

Lemma grow_nogrow_diverges : forall fuel skip stk len,
  (len <= length (skipn (Z.to_nat skip) stk))%nat ->
  grow_nogrow fuel skip stk len (callers skip len stk) = None.
Proof.
  induction fuel as [|f IH]; intros skip stk len H; cbn [grow_nogrow]; rewrite callers_length;
    replace (Nat.min len (length (skipn (Z.to_nat skip) stk))) with len by lia; rewrite Nat.eqb_refl.
  - reflexivity.
  - apply IH. exact H.
Qed.

(* ------------------------------------------------------------------ the pool *)
Definition pool_ok (p : pool) : Prop := Forall (fun s => (initStorage <= s)%nat) p.

Lemma pool_get_ok : forall ch p, pool_ok p ->
  (initStorage <= fst (pool_get ch p))%nat /\ pool_ok (snd (pool_get ch p)).
Proof.
  intros ch p Hp. unfold pool_get. destruct ch as [i|]; [|split; [cbn; lia|exact Hp]].
  destruct (nth_error p i) as [s|] eqn:E; [|split; [cbn; lia|exact Hp]].
  cbn [fst snd]. split.
  - unfold pool_ok in Hp. rewrite Forall_forall in Hp. apply Hp. eapply nth_error_In. exact E.
  - unfold pool_ok in *. apply Forall_app. split.
    + rewrite <- (firstn_skipn i p) in Hp. apply Forall_app in Hp. tauto.
    + rewrite <- (firstn_skipn (S i) p) in Hp. apply Forall_app in Hp. tauto.
Qed.

Record cap_op := mkCap { c_choice : option nat; c_skip : Z; c_depth : depth; c_stk : list frame }.

(* a history of captures against one pool: results, in order; None = some capture diverged *)
Fixpoint run_caps (ops : list cap_op) (p : pool) : option (list (list frame) * pool) :=
  match ops with
  | [] => Some ([], p)
  | o :: r =>
      match pool_capture (length (c_stk o)) (c_choice o) (c_skip o) (c_depth o) (c_stk o) p with
      | None => None
      | Some (fs, p1) =>
          match run_caps r p1 with
          | None => None
          | Some (res, p2) => Some (fs :: res, p2)
          end
      end
  end.
Definition cap_result (o : cap_op) : list frame :=
  let rest := skipn (Z.to_nat (c_skip o + captureSelfSkip)) (c_stk o) in
  match c_depth o with First => firstn 1 rest | Full => rest end.

Lemma pool_history : forall ops p, pool_ok p ->
  exists p', run_caps ops p = Some (map cap_result ops, p') /\ pool_ok p'.
Proof.
  induction ops as [|o r IH]; intros p Hp.
  - exists p. split; [reflexivity|exact Hp].
  - cbn [run_caps map]. unfold pool_capture.
    destruct (pool_get_ok (c_choice o) p Hp) as [Hs Hp1].
    destruct (pool_get (c_choice o) p) as [s p1]. cbn [fst snd] in Hs, Hp1.
    assert (Hs1 : (1 <= s)%nat) by (unfold initStorage in Hs; lia).
    unfold cap_result. destruct (c_depth o) eqn:Ed.
    + rewrite capture_first by exact Hs1.
      destruct (IH (pool_put s p1)) as [p' [Hr Hp']].
      { unfold pool_put, pool_ok. constructor; [exact Hs|exact Hp1]. }
      rewrite Hr. exists p'. split; [reflexivity|exact Hp'].
    + destruct (capture_full_complete (length (c_stk o)) (c_skip o) (c_stk o) s Hs1 (le_n _)) as [s' [Hc Hle]].
      rewrite Hc.
      destruct (IH (pool_put s' p1)) as [p' [Hr Hp']].
      { unfold pool_put, pool_ok. constructor; [lia|exact Hp1]. }
      rewrite Hr. exists p'. split; [reflexivity|exact Hp'].
Qed.

(* ------------------------------------------------------------------ Logger.check *)
Lemma expected_shift : forall w c st s (pre us : list frame),
  0 <= s ->
  expected w c st (s + Z.of_nat (length pre)) (pre ++ us) = expected w c st s us.
Proof.
  intros w c st s pre us Hs. unfold expected.
  replace (Z.to_nat (s + Z.of_nat (length pre))) with (length pre + Z.to_nat s)%nat by lia.
  rewrite skipn_app_more. reflexivity.
Qed.

(* what check does, for every logger state, level, stack and storage size: the frame it
   reports is the one [callerSkip + 1] frames above check's own caller *)
Lemma check_spec : forall fuel l lvl outer storage,
  (1 <= storage)%nat -> (length outer + 3 <= fuel)%nat -> -1 <= callerSkip l ->
  check fuel l lvl outer storage
  = expected (coreEn l lvl) (addCaller l) (addStack l lvl) (callerSkip l + 1) outer.
Proof.
  intros fuel l lvl outer storage Hst Hfuel Hskip. unfold check, expected.
  destruct (coreEn l lvl) eqn:Ecore; cbn [negb andb].
  2:{ rewrite andb_true_r. destruct (lvl <? DPanicLevel); reflexivity. }
  rewrite andb_false_r.
  destruct (addCaller l) eqn:Ecaller; destruct (addStack l lvl) eqn:Estack; cbn [negb andb]; try reflexivity.
  - (* caller + stack: Full *)
    destruct (capture_full_complete fuel (callerSkip l + callerSkipOffset)
                (FZ ZCallers :: FZ ZCapture :: FZ ZCheck :: outer) storage Hst) as [s' [Hc _]].
    { cbn [length]. lia. }
    rewrite Hc. unfold callerSkipOffset, captureSelfSkip.
    replace (Z.to_nat (callerSkip l + 2 + 2)) with (S (S (S (Z.to_nat (callerSkip l + 1))))) by lia.
    cbn [skipn].
    destruct (skipn (Z.to_nat (callerSkip l + 1)) outer) as [|f rest]; [reflexivity|].
    unfold drop_last. destruct rest as [|g rest']; [reflexivity|].
    rewrite format_stack_removelast. reflexivity.
  - (* caller only: First *)
    rewrite capture_first by exact Hst. unfold callerSkipOffset, captureSelfSkip.
    replace (Z.to_nat (callerSkip l + 2 + 2)) with (S (S (S (Z.to_nat (callerSkip l + 1))))) by lia.
    cbn [skipn].
    destruct (skipn (Z.to_nat (callerSkip l + 1)) outer) as [|f rest]; reflexivity.
  - (* stack only: Full *)
    destruct (capture_full_complete fuel (callerSkip l + callerSkipOffset)
                (FZ ZCallers :: FZ ZCapture :: FZ ZCheck :: outer) storage Hst) as [s' [Hc _]].
    { cbn [length]. lia. }
    rewrite Hc. unfold callerSkipOffset, captureSelfSkip.
    replace (Z.to_nat (callerSkip l + 2 + 2)) with (S (S (S (Z.to_nat (callerSkip l + 1))))) by lia.
    cbn [skipn].
    destruct (skipn (Z.to_nat (callerSkip l + 1)) outer) as [|f rest]; [reflexivity|].
    unfold drop_last. destruct rest as [|g rest']; [reflexivity|].
    rewrite format_stack_removelast. reflexivity.
Qed.

(* ------------------------------------------------------------------ options and conversions *)
Lemma cfg_caller_app : forall a b d, cfg_caller d (a ++ b) = cfg_caller (cfg_caller d a) b.
Proof. induction a as [|o a IH]; intros b d; [reflexivity|]. destruct o; cbn; apply IH. Qed.
Lemma cfg_stack_app : forall a b d, cfg_stack d (a ++ b) = cfg_stack (cfg_stack d a) b.
Proof. induction a as [|o a IH]; intros b d; [reflexivity|]. destruct o; cbn; apply IH. Qed.

Lemma with_options_state : forall os l,
  callerSkip (with_options l os) = callerSkip l + opts_skip os /\
  addCaller (with_options l os) = cfg_caller (addCaller l) os /\
  addStack (with_options l os) = cfg_stack (addStack l) os /\
  coreEn (with_options l os) = coreEn l.
Proof.
  unfold with_options. induction os as [|o os IH]; intros l.
  - cbn. repeat split; lia.
  - cbn [fold_left]. destruct (IH (apply_opt l o)) as [H1 [H2 [H3 H4]]].
    rewrite H1, H2, H3, H4. destruct o; cbn; repeat split; lia.
Qed.

Definition kind_delta (b : bool) : Z := if b then sugarSkip else 0.

Lemma apply_conv_kind : forall h c, is_sugared (apply_conv h c) = conv_kind (is_sugared h) c.
Proof. intros [l|l] [| |b|[|]|b|os| |]; reflexivity. Qed.

Lemma apply_chain_kind : forall cs h, is_sugared (apply_chain h cs) = fold_left conv_kind cs (is_sugared h).
Proof.
  unfold apply_chain. induction cs as [|c cs IH]; intros h; [reflexivity|].
  cbn [fold_left]. rewrite IH, apply_conv_kind. reflexivity.
Qed.

(* the state of the logger behind a handle after any chain of conversions *)
Lemma apply_chain_state : forall cs h,
  let h' := apply_chain h cs in
  callerSkip (base_of h') = callerSkip (base_of h) + total_skip cs
                            + kind_delta (is_sugared h') - kind_delta (is_sugared h) /\
  addCaller (base_of h') = cfg_caller (addCaller (base_of h)) (chain_opts cs) /\
  addStack (base_of h') = cfg_stack (addStack (base_of h)) (chain_opts cs) /\
  coreEn (base_of h') = coreEn (base_of h).
Proof.
  unfold apply_chain. induction cs as [|c cs IH]; intros h.
  - cbn. repeat split; lia.
  - cbn [fold_left]. destruct (IH (apply_conv h c)) as [H1 [H2 [H3 H4]]].
    cbn zeta. rewrite H1, H2, H3, H4. clear IH H1 H2 H3 H4.
    unfold chain_opts. cbn [map concat total_skip]. fold (chain_opts cs).
    rewrite cfg_caller_app, cfg_stack_app.
    set (K := kind_delta (is_sugared (fold_left apply_conv cs (apply_conv h c)))).
    destruct c as [| |b|b|b|os| |]; destruct h as [l|l];
      try (destruct b); cbn [apply_conv is_sugared base_of conv_kind conv_skip conv_opts cfg_caller cfg_stack
                             add_skip callerSkip addCaller addStack coreEn kind_delta];
      try (destruct (with_options_state os l) as [W1 [W2 [W3 W4]]]; rewrite W1, W2, W3, W4);
      try (destruct (with_options_state [OOther] l) as [W1 [W2 [W3 W4]]]; rewrite W1, W2, W3, W4; cbn [opts_skip cfg_caller cfg_stack]);
      unfold sugarSkip; repeat split; try reflexivity; try lia.
Qed.

(* ------------------------------------------------------------------ the std-log bridge *)
Lemma count_log_prefix_app : forall lf us,
  forallb is_log_frame lf = true -> hd_not_log us = true -> count_log_prefix (lf ++ us) = length lf.
Proof.
  induction lf as [|f lf IH]; intros us Hlf Hus.
  - cbn [app length]. destruct us as [|u r]; [reflexivity|]. cbn in Hus |- *.
    destruct (is_log_frame u); [discriminate|reflexivity].
  - cbn [forallb] in Hlf. apply andb_true_iff in Hlf. destruct Hlf as [Hf Hr].
    cbn [app count_log_prefix length]. rewrite Hf, IH by assumption. reflexivity.
Qed.

Lemma hd_not_log_firstn : forall k us, hd_not_log us = true -> hd_not_log (firstn (S k) us) = true.
Proof. intros k [|u r] H; [reflexivity|exact H]. Qed.

Lemma seen_log_frames : forall lf us,
  forallb is_log_frame lf = true -> (length lf < stdLogScan)%nat -> hd_not_log us = true ->
  count_log_prefix (callers 4 stdLogScan
     (FZ ZCallers :: FZ ZStdDepth :: FZ ZStdClosure :: FZ ZWriterWrite :: lf ++ us)) = length lf.
Proof.
  intros lf us Hlf Hlen Hus. unfold callers.
  replace (Z.to_nat 4) with 4%nat by reflexivity. cbn [skipn].
  rewrite firstn_app. rewrite (firstn_all_le _ lf) by lia.
  destruct (stdLogScan - length lf)%nat as [|k] eqn:E; [lia|].
  apply count_log_prefix_app; [exact Hlf|]. apply hd_not_log_firstn. exact Hus.
Qed.

(* for ANY chain of log-package frames above loggerWriter.Write (fewer than the 16 scanned) *)
Lemma log_std_spec : forall fuel l lv lf us storage,
  (1 <= storage)%nat -> (length lf + length us + 6 <= fuel)%nat ->
  forallb is_log_frame lf = true -> (length lf < stdLogScan)%nat -> hd_not_log us = true ->
  0 <= callerSkip l ->
  log_std fuel l lv lf us storage = expected (coreEn l lv) (addCaller l) (addStack l lv) (callerSkip l) us.
Proof.
  intros fuel l lv lf us storage Hst Hfuel Hlf Hlen Hus Hskip. unfold log_std.
  rewrite seen_log_frames by assumption.
  set (extra := Z.of_nat (length lf) - stdLogDefaultDepth).
  set (l1 := with_options l [OAddCallerSkip (stdLogDefaultDepth + loggerWriterDepth)]).
  set (l2 := if extra =? 0 then l1 else with_options l1 [OAddCallerSkip extra]).
  assert (Hl2 : callerSkip l2 = callerSkip l + 2 + Z.of_nat (length lf)
                /\ addCaller l2 = addCaller l /\ addStack l2 = addStack l /\ coreEn l2 = coreEn l).
  { unfold l2. destruct (extra =? 0) eqn:E.
    - apply Z.eqb_eq in E. unfold l1, extra, stdLogDefaultDepth, loggerWriterDepth in *. cbn. repeat split. lia.
    - unfold l1, extra, stdLogDefaultDepth, loggerWriterDepth. cbn. repeat split. lia. }
  destruct Hl2 as [S1 [S2 [S3 S4]]].
  rewrite check_spec.
  - rewrite S1, S2, S3, S4.
    replace ([FZ (ZLoggerM 7); FZ ZStdClosure; FZ ZWriterWrite] ++ lf ++ us)
      with (([FZ (ZLoggerM 7); FZ ZStdClosure; FZ ZWriterWrite] ++ lf) ++ us) by (rewrite <- app_assoc; reflexivity).
    replace (callerSkip l + 2 + Z.of_nat (length lf) + 1)
      with (callerSkip l + Z.of_nat (length ([FZ (ZLoggerM 7); FZ ZStdClosure; FZ ZWriterWrite] ++ lf))).
    + apply expected_shift. exact Hskip.
    + rewrite app_length. cbn [length]. lia.
  - exact Hst.
  - rewrite !app_length. cbn [length]. lia.
  - lia.
Qed.

Lemma std_frames_ok : forall c p,
  forallb is_log_frame (std_frames c p) = true /\ (length (std_frames c p) < stdLogScan)%nat
  /\ (length (std_frames c p) <= 3)%nat.
Proof.
  intros c p. unfold std_frames, stdLogScan.
  destruct p as [|[|[|[|p']]]]; try (cbn; repeat split; lia).
  destruct (c <? 2)%nat; cbn; repeat split; lia.
Qed.

(* ------------------------------------------------------------------ every front end, every chain *)
Lemma log_via_spec : forall fuel core cs f lvl us storage,
  fe_sugared f = chain_kind cs -> 0 <= total_skip cs -> (1 <= storage)%nat ->
  (length us + 12 <= fuel)%nat -> hd_not_log us = true ->
  log_via fuel f (apply_chain (HL (new_logger core)) cs) lvl us storage = expected_zap core cs f lvl us.
Proof.
  intros fuel core cs f lvl us storage Hkind Htot Hst Hfuel Hus.
  pose proof (apply_chain_kind cs (HL (new_logger core))) as Hk.
  destruct (apply_chain_state cs (HL (new_logger core))) as [H1 [H2 [H3 H4]]].
  cbn zeta in H1. cbn [is_sugared base_of new_logger callerSkip addCaller addStack coreEn] in Hk, H1, H2, H3, H4.
  fold (chain_kind cs) in Hk. rewrite Hk in H1. rewrite <- Hkind in Hk, H1.
  unfold expected_zap, log_via, log_via_gen.
  destruct (apply_chain (HL (new_logger core)) cs) as [l|l]; cbn [is_sugared base_of] in Hk, H1, H2, H3, H4;
    destruct f as [m|fam m|c p]; cbn [fe_sugared] in Hk, H1; try discriminate;
    cbn [kind_delta] in H1; unfold sugarSkip in H1.
  - (* *Logger method *)
    rewrite check_spec; [|exact Hst|rewrite app_length; cbn [fe_outer length]; lia|lia].
    rewrite H1, H2, H3, H4. cbn [fe_outer].
    replace (0 + total_skip cs + 0 - 0 + 1) with (total_skip cs + Z.of_nat (length [FZ (ZLoggerM m)])) by (cbn [length]; lia).
    apply expected_shift. exact Htot.
  - (* std-log bridge *)
    destruct (std_frames_ok c p) as [F1 [F2 F3]].
    rewrite log_std_spec; [|exact Hst|lia|exact F1|exact F2|exact Hus|lia].
    rewrite H1, H2, H3, H4. f_equal. lia.
  - (* *SugaredLogger method *)
    destruct ((fe_level (FeSugar fam m) lvl <? DPanicLevel) && negb (coreEn l (fe_level (FeSugar fam m) lvl))) eqn:G.
    + apply andb_true_iff in G. destruct G as [_ G]. apply negb_true_iff in G.
      rewrite H4 in G. unfold expected. rewrite G. reflexivity.
    + rewrite check_spec; [|exact Hst|rewrite app_length; cbn [fe_outer length]; lia|lia].
      rewrite H1, H2, H3, H4. cbn [fe_outer].
      replace (0 + total_skip cs + 2 - 0 + 1)
        with (total_skip cs + Z.of_nat (length [FZ (ZLoggerM 8); FZ (ZSugarLog (Nat.eqb fam 3)); FZ (ZSugarM fam m)]))
        by (cbn [length]; lia).
      apply expected_shift. exact Htot.
Qed.

(* ------------------------------------------------------------------ zapslog *)
Lemma hcfg_fold : forall os h,
  s_callerSkip (fold_left apply_hopt os h) = s_callerSkip h + hopts_skip os /\
  s_addCaller (fold_left apply_hopt os h) = hcfg_caller (s_addCaller h) os /\
  s_addStackAt (fold_left apply_hopt os h) = hcfg_stack (s_addStackAt h) os /\
  s_coreEn (fold_left apply_hopt os h) = s_coreEn h.
Proof.
  induction os as [|o os IH]; intros h.
  - cbn. repeat split; lia.
  - cbn [fold_left]. destruct (IH (apply_hopt h o)) as [H1 [H2 [H3 H4]]].
    rewrite H1, H2, H3, H4. destruct o; cbn; repeat split; lia.
Qed.

Lemma slog_spec : forall fuel core os m slvl us storage,
  0 <= hopts_skip os -> (1 <= storage)%nat -> (length us + 8 <= fuel)%nat ->
  slog_log slog_handle fuel (new_handler core os) m slvl us storage = expected_slog core os slvl us.
Proof.
  intros fuel core os m slvl us storage Hskip Hst Hfuel.
  unfold new_handler.
  destruct (hcfg_fold os {| s_addCaller := false; s_addStackAt := 8; s_callerSkip := 0; s_coreEn := core |})
    as [H1 [H2 [H3 H4]]].
  cbn [s_callerSkip s_addCaller s_addStackAt s_coreEn] in H1, H2, H3, H4.
  set (h := fold_left apply_hopt os _) in *.
  unfold slog_log, slog_handle, expected_slog. rewrite H4.
  destruct (core (convertSlogLevel slvl)); cbn [negb]; [|reflexivity].
  rewrite H1, H2, H3. replace (0 + hopts_skip os) with (hopts_skip os) by lia.
  set (k := hopts_skip os) in *.
  (* the stack trace *)
  assert (Htake : take fuel (slogHandleDepth + k) (FZ ZSlogHandle :: FZ ZSlogLog :: FZ (ZSlogM m) :: us) storage
                  = Some (drop_last (skipn (Z.to_nat k) us))).
  { unfold take.
    destruct (capture_full_complete fuel (slogHandleDepth + k + 1)
               (FZ ZCallers :: FZ ZCapture :: FZ ZTake :: FZ ZSlogHandle :: FZ ZSlogLog :: FZ (ZSlogM m) :: us)
               storage Hst) as [s' [Hc _]].
    { cbn [length]. lia. }
    rewrite Hc. unfold slogHandleDepth, captureSelfSkip.
    replace (Z.to_nat (3 + k + 1 + 2)) with (S (S (S (S (S (S (Z.to_nat k))))))) by lia.
    cbn [skipn]. rewrite format_stack_removelast. reflexivity. }
  rewrite Htake.
  (* the caller *)
  assert (Hcaller :
    match hd_error (callers 3 1 (FZ ZCallers :: FZ ZSlogLog :: FZ (ZSlogM m) :: us)) with
    | None => None
    | Some f =>
        if negb (hcfg_caller false os) then None
        else if k =? 0 then Some f
        else match capture fuel (slogHandleDepth + k) First
                     (FZ ZCallers :: FZ ZCapture :: FZ ZSlogHandle :: FZ ZSlogLog :: FZ (ZSlogM m) :: us) storage with
             | Some (f' :: _, _) => Some f'
             | _ => None
             end
    end = (if hcfg_caller false os then hd_error (skipn (Z.to_nat k) us) else None)).
  { unfold callers. replace (Z.to_nat 3) with 3%nat by reflexivity. cbn [skipn].
    destruct us as [|u r].
    - cbn [firstn hd_error]. rewrite skipn_nil. destruct (hcfg_caller false os); reflexivity.
    - cbn [firstn hd_error]. destruct (hcfg_caller false os); cbn [negb]; [|reflexivity].
      destruct (k =? 0) eqn:E.
      + apply Z.eqb_eq in E. rewrite E. reflexivity.
      + rewrite capture_first by exact Hst. unfold slogHandleDepth, captureSelfSkip.
        replace (Z.to_nat (3 + k + 2)) with (S (S (S (S (S (Z.to_nat k)))))) by lia.
        cbn [skipn]. destruct (skipn (Z.to_nat k) (u :: r)) as [|f' r']; reflexivity. }
  rewrite Hcaller.
  destruct (hcfg_stack 8 os <=? slvl); reflexivity.
Qed.

Lemma hd_skipn_nth : forall (A : Type) (k : nat) (l : list A), hd_error (skipn k l) = nth_error l k.
Proof. induction k as [|k IH]; intros [|a l]; cbn; auto. Qed.

(* ------------------------------------------------------------------ corollaries in the property's words *)
Definition caller_of (o : outcome) : option frame := match o with Entry e => e_caller e | _ => None end.
Definition stack_of (o : outcome) : list frame := match o with Entry e => e_stack e | _ => [] end.
Definition is_entry (o : outcome) : bool := match o with Entry _ => true | _ => false end.

Definition cfg_caller_on (cs : list conv) : bool := cfg_caller false (chain_opts cs).
Definition cfg_stack_on (cs : list conv) (lv : level) : bool := cfg_stack (en_level (FatalLevel + 1)) (chain_opts cs) lv.

Section Corollaries.
  Variables (fuel : nat) (core : enabler) (cs : list conv) (f : fe) (lvl : level) (us : list frame) (storage : nat).
  Hypothesis Hkind : fe_sugared f = chain_kind cs.
  Hypothesis Htot : 0 <= total_skip cs.
  Hypothesis Hst : (1 <= storage)%nat.
  Hypothesis Hfuel : (length us + 12 <= fuel)%nat.
  Hypothesis Hus : hd_not_log us = true.
  Let out := log_via fuel f (apply_chain (HL (new_logger core)) cs) lvl us storage.
  Let lv := fe_level f lvl.

  Lemma out_eq : out = expected_zap core cs f lvl us.
  Proof. apply log_via_spec; assumption. Qed.

  (* an entry is produced exactly when the core accepts the level *)
  Lemma written_iff : is_entry out = core lv.
  Proof.
    rewrite out_eq. unfold expected_zap, expected. fold lv.
    destruct (core lv); cbn [negb]; [|reflexivity].
    destruct (negb _ && negb _); [reflexivity|].
    destruct (skipn _ us); reflexivity.
  Qed.

  (* the reported frame is the user's frame moved outward by exactly the configured skip *)
  Lemma frame_thm : core lv = true -> cfg_caller_on cs = true ->
    caller_of out = nth_error us (Z.to_nat (total_skip cs)).
  Proof.
    intros Hc Hon. rewrite out_eq. unfold expected_zap, expected. fold lv.
    unfold cfg_caller_on in Hon. rewrite Hc, Hon. cbn [negb andb].
    rewrite <- hd_skipn_nth.
    destruct (skipn (Z.to_nat (total_skip cs)) us); reflexivity.
  Qed.

  (* no caller annotation unless enabled *)
  Lemma caller_off_thm : cfg_caller_on cs = false -> caller_of out = None.
  Proof.
    intros Hoff. rewrite out_eq. unfold expected_zap, expected. fold lv.
    unfold cfg_caller_on in Hoff. rewrite Hoff.
    destruct (core lv); cbn [negb andb]; [|reflexivity].
    destruct (negb _); [reflexivity|]. destruct (skipn _ us); reflexivity.
  Qed.

  (* the trace: present exactly for the levels configured; starts at the reported frame;
     runs to the end of the stack, minus the final (runtime) frame *)
  Lemma stack_levels_thm : core lv = true -> (Z.to_nat (total_skip cs) < length us)%nat ->
    (stack_of out <> [] <-> cfg_stack_on cs lv = true).
  Proof.
    intros Hc Hlen. rewrite out_eq. unfold expected_zap, expected. fold lv. unfold cfg_stack_on.
    rewrite Hc. cbn [negb].
    destruct (skipn (Z.to_nat (total_skip cs)) us) as [|u r] eqn:E.
    { apply (f_equal (@length frame)) in E. rewrite skipn_length in E. cbn in E. lia. }
    destruct (cfg_caller false (chain_opts cs)); destruct (cfg_stack _ _ lv); cbn [negb andb stack_of e_stack];
      split; intros H; try discriminate; try congruence.
  Qed.

  Lemma stack_complete_thm : core lv = true -> cfg_stack_on cs lv = true ->
    forall u r, skipn (Z.to_nat (total_skip cs)) us = u :: r ->
    stack_of out = u :: removelast r /\
    (r <> [] -> stack_of out ++ [last r u] = skipn (Z.to_nat (total_skip cs)) us).
  Proof.
    intros Hc Hon u r E. rewrite out_eq. unfold expected_zap, expected. fold lv.
    unfold cfg_stack_on in Hon. rewrite Hc, Hon, E. cbn [negb andb].
    rewrite andb_false_r. cbn [stack_of e_stack]. unfold drop_last. split; [reflexivity|].
    intros Hr. cbn [app]. f_equal. symmetry. apply app_removelast_last. exact Hr.
  Qed.

  Lemma stack_starts_at_caller_thm : core lv = true -> cfg_caller_on cs = true -> cfg_stack_on cs lv = true ->
    hd_error (stack_of out) = caller_of out.
  Proof.
    intros Hc Hon Hs. rewrite out_eq. unfold expected_zap, expected. fold lv.
    unfold cfg_caller_on in Hon. unfold cfg_stack_on in Hs. rewrite Hc, Hon, Hs. cbn [negb andb].
    destruct (skipn _ us); reflexivity.
  Qed.

  (* a skip that runs past the end of the stack: no caller, no trace, and the failure is reported *)
  Lemma past_the_end_thm : core lv = true -> cfg_caller_on cs = true ->
    (length us <= Z.to_nat (total_skip cs))%nat ->
    out = Entry {| e_caller := None; e_stack := []; e_err := true |}.
  Proof.
    intros Hc Hon Hlen. rewrite out_eq. unfold expected_zap, expected. fold lv.
    unfold cfg_caller_on in Hon. rewrite Hc, Hon. cbn [negb andb].
    rewrite skipn_all2 by exact Hlen. reflexivity.
  Qed.
End Corollaries.

(* wrapper functions of any depth with a matching AddCallerSkip *)
Lemma wrappers_thm : forall fuel core cs f lvl (ws : list frame) (u : frame) (rest : list frame) storage,
  fe_sugared f = chain_kind cs -> total_skip cs = Z.of_nat (length ws) -> (1 <= storage)%nat ->
  (length (ws ++ u :: rest) + 12 <= fuel)%nat -> hd_not_log (ws ++ u :: rest) = true ->
  core (fe_level f lvl) = true -> cfg_caller_on cs = true ->
  caller_of (log_via fuel f (apply_chain (HL (new_logger core)) cs) lvl (ws ++ u :: rest) storage) = Some u.
Proof.
  intros fuel core cs f lvl ws u rest storage Hk Ht Hst Hf Hus Hc Hon.
  rewrite frame_thm; try assumption; [|lia].
  rewrite Ht, Nat2Z.id. rewrite nth_error_app2 by lia. rewrite Nat.sub_diag. reflexivity.
Qed.

(* zapslog, in the property's words *)
Lemma slog_frame_thm : forall fuel core os m slvl us storage,
  0 <= hopts_skip os -> (1 <= storage)%nat -> (length us + 8 <= fuel)%nat ->
  core (convertSlogLevel slvl) = true -> hcfg_caller false os = true ->
  let out := slog_log slog_handle fuel (new_handler core os) m slvl us storage in
  caller_of out = nth_error us (Z.to_nat (hopts_skip os)) /\
  (stack_of out <> [] -> hcfg_stack 8 os <= slvl) /\
  (hcfg_stack 8 os <= slvl -> stack_of out = removelast (skipn (Z.to_nat (hopts_skip os)) us)).
Proof.
  intros fuel core os m slvl us storage Hs Hst Hf Hc Hon out. unfold out.
  rewrite slog_spec by assumption. unfold expected_slog. rewrite Hc, Hon. cbn [negb caller_of stack_of e_caller e_stack].
  split; [apply hd_skipn_nth|]. split.
  - destruct (hcfg_stack 8 os <=? slvl) eqn:E; [intros _; apply Z.leb_le; exact E|intros H; congruence].
  - intros H. apply Z.leb_le in H. rewrite H. reflexivity.
Qed.

(* the std-log bridge for ANY list of log-package frames between the writer and the user *)
Lemma std_any_depth_thm : forall fuel core cs lv (lf us : list frame) storage l,
  apply_chain (HL (new_logger core)) cs = HL l ->
  0 <= total_skip cs -> (1 <= storage)%nat -> (length lf + length us + 6 <= fuel)%nat ->
  forallb is_log_frame lf = true -> (length lf < stdLogScan)%nat -> hd_not_log us = true ->
  log_std fuel l lv lf us storage
  = expected (core lv) (cfg_caller_on cs) (cfg_stack_on cs lv) (total_skip cs) us.
Proof.
  intros fuel core cs lv lf us storage l Hl Htot Hst Hfuel Hlf Hlen Hus.
  pose proof (apply_chain_kind cs (HL (new_logger core))) as Hk.
  destruct (apply_chain_state cs (HL (new_logger core))) as [H1 [H2 [H3 H4]]].
  cbn zeta in H1. rewrite Hl in Hk, H1, H2, H3, H4.
  cbn [is_sugared base_of new_logger callerSkip addCaller addStack coreEn kind_delta] in Hk, H1, H2, H3, H4.
  rewrite log_std_spec; try assumption; [|lia].
  rewrite H1, H2, H3, H4. unfold cfg_caller_on, cfg_stack_on. f_equal. lia.
Qed.

(* ------------------------------------------------------------------ STACK-CONTEXT INDEPENDENCE
   The goroutine's stack is [near ++ ctx]: [near] = the call site and as many of its callers as the
   configured skip can reach; [ctx] = whatever else is on the stack further out -- ANY list of frames:
   log-package frames (the call is nested in a Stringer that log.Printf is formatting, in the
   io.Writer of an outer *log.Logger), zap frames (a hook, marshaler or sink of another logger),
   runtime.gopanic, fmt, hundreds of recursion frames, or nothing (a fresh goroutine). *)
Lemma hd_not_log_app : forall near ctx, near <> [] -> hd_not_log (near ++ ctx) = hd_not_log near.
Proof. intros [|u r] ctx H; [congruence|reflexivity]. Qed.

Lemma skipn_near : forall (k : nat) (near ctx : list frame),
  (k < length near)%nat -> exists u r, skipn k near = u :: r /\ skipn k (near ++ ctx) = u :: r ++ ctx.
Proof.
  intros k near ctx H. rewrite skipn_app. replace (k - length near)%nat with 0%nat by lia. cbn [skipn].
  destruct (skipn k near) as [|u r] eqn:E.
  - apply (f_equal (@length frame)) in E. rewrite skipn_length in E. cbn in E. lia.
  - exists u, r. split; reflexivity.
Qed.

(* what the property demands depends on the context only through the tail of the trace *)
Lemma expected_near : forall w c s skip near ctx u r,
  skipn (Z.to_nat skip) near = u :: r ->
  (Z.to_nat skip < length near)%nat ->
  expected w c s skip (near ++ ctx)
  = if negb w then NoEntry
    else if negb c && negb s then Entry {| e_caller := None; e_stack := []; e_err := false |}
    else Entry {| e_caller := if c then Some u else None;
                  e_stack := if s then u :: drop_last (r ++ ctx) else [];
                  e_err := false |}.
Proof.
  intros w c s skip near ctx u r E Hlt. unfold expected.
  destruct (skipn_near (Z.to_nat skip) near ctx Hlt) as [u' [r' [E1 E2]]].
  rewrite E in E1. injection E1 as <- <-. rewrite E2. reflexivity.
Qed.

Lemma nth_error_near : forall (k : nat) (near : list frame) u r,
  skipn k near = u :: r -> nth_error near k = Some u.
Proof. intros k near u r E. revert near E. induction k as [|k IH]; intros [|a near] E; cbn in *; try discriminate; [congruence|apply IH; exact E]. Qed.

(* the reported caller -- and whether there is an entry, and the frame the trace starts at -- is a
   function of the call site and the configured skip only: the same on any two stacks that share
   the call site [near], whatever lies further out, for every front end and every chain *)
Lemma context_independent_thm : forall fuel1 fuel2 core cs f lvl (near ctx1 ctx2 : list frame) storage1 storage2,
  fe_sugared f = chain_kind cs -> 0 <= total_skip cs -> (1 <= storage1)%nat -> (1 <= storage2)%nat ->
  (length (near ++ ctx1) + 12 <= fuel1)%nat -> (length (near ++ ctx2) + 12 <= fuel2)%nat ->
  hd_not_log near = true -> (Z.to_nat (total_skip cs) < length near)%nat ->
  let out1 := log_via fuel1 f (apply_chain (HL (new_logger core)) cs) lvl (near ++ ctx1) storage1 in
  let out2 := log_via fuel2 f (apply_chain (HL (new_logger core)) cs) lvl (near ++ ctx2) storage2 in
  caller_of out1 = caller_of out2 /\
  hd_error (stack_of out1) = hd_error (stack_of out2) /\
  is_entry out1 = is_entry out2 /\
  (core (fe_level f lvl) = true -> cfg_caller_on cs = true ->
   caller_of out1 = nth_error near (Z.to_nat (total_skip cs))).
Proof.
  intros fuel1 fuel2 core cs f lvl near ctx1 ctx2 storage1 storage2 Hk Ht Hs1 Hs2 Hf1 Hf2 Hus Hlt out1 out2.
  assert (Hne : near <> []) by (intros ->; cbn in Hlt; lia).
  unfold out1, out2.
  rewrite !log_via_spec; try assumption; try (rewrite hd_not_log_app; assumption).
  unfold expected_zap.
  destruct (skipn_near (Z.to_nat (total_skip cs)) near [] Hlt) as [u [r [E _]]].
  rewrite !(expected_near _ _ _ _ near _ u r E Hlt).
  unfold cfg_caller_on.
  destruct (core (fe_level f lvl)); cbn [negb].
  2:{ repeat split; try reflexivity. intros H; discriminate H. }
  destruct (cfg_caller false (chain_opts cs)); destruct (cfg_stack _ _ (fe_level f lvl));
    cbn [negb andb caller_of stack_of is_entry e_caller e_stack hd_error]; repeat split; try reflexivity;
    intros _ H; try discriminate H; symmetry; eapply nth_error_near; exact E.
Qed.

(* the trace: the call site's own chain from the reported frame on, then the context, whatever it
   is and however deep, minus the final (runtime) frame *)
Lemma stack_in_context_thm : forall fuel core cs f lvl (near ctx : list frame) storage,
  fe_sugared f = chain_kind cs -> 0 <= total_skip cs -> (1 <= storage)%nat ->
  (length (near ++ ctx) + 12 <= fuel)%nat ->
  hd_not_log near = true -> (Z.to_nat (total_skip cs) < length near)%nat ->
  core (fe_level f lvl) = true -> cfg_stack_on cs (fe_level f lvl) = true -> ctx <> [] ->
  stack_of (log_via fuel f (apply_chain (HL (new_logger core)) cs) lvl (near ++ ctx) storage)
  = skipn (Z.to_nat (total_skip cs)) near ++ removelast ctx.
Proof.
  intros fuel core cs f lvl near ctx storage Hk Ht Hst Hf Hus Hlt Hc Hs Hctx.
  assert (Hne : near <> []) by (intros ->; cbn in Hlt; lia).
  rewrite log_via_spec; try assumption; [|rewrite hd_not_log_app; assumption].
  unfold expected_zap.
  destruct (skipn_near (Z.to_nat (total_skip cs)) near [] Hlt) as [u [r [E _]]].
  rewrite (expected_near _ _ _ _ near ctx u r E Hlt).
  unfold cfg_stack_on in Hs. rewrite Hc, Hs, E. cbn [negb]. rewrite andb_false_r.
  cbn [stack_of e_stack]. unfold drop_last. rewrite removelast_app by exact Hctx. reflexivity.
Qed.

(* zapslog: the same *)
Lemma slog_context_independent_thm : forall fuel1 fuel2 core os m slvl (near ctx1 ctx2 : list frame) storage1 storage2,
  0 <= hopts_skip os -> (1 <= storage1)%nat -> (1 <= storage2)%nat ->
  (length (near ++ ctx1) + 8 <= fuel1)%nat -> (length (near ++ ctx2) + 8 <= fuel2)%nat ->
  (Z.to_nat (hopts_skip os) < length near)%nat ->
  let out1 := slog_log slog_handle fuel1 (new_handler core os) m slvl (near ++ ctx1) storage1 in
  let out2 := slog_log slog_handle fuel2 (new_handler core os) m slvl (near ++ ctx2) storage2 in
  caller_of out1 = caller_of out2 /\
  (core (convertSlogLevel slvl) = true -> hcfg_caller false os = true ->
   caller_of out1 = nth_error near (Z.to_nat (hopts_skip os))).
Proof.
  intros fuel1 fuel2 core os m slvl near ctx1 ctx2 storage1 storage2 Hs H1 H2 Hf1 Hf2 Hlt out1 out2.
  unfold out1, out2. rewrite !slog_spec by assumption. unfold expected_slog.
  destruct (skipn_near (Z.to_nat (hopts_skip os)) near ctx1 Hlt) as [u [r [E E1]]].
  destruct (skipn_near (Z.to_nat (hopts_skip os)) near ctx2 Hlt) as [u' [r' [E' E2]]].
  rewrite E in E'. injection E' as <- <-. rewrite E1, E2.
  destruct (core (convertSlogLevel slvl)); cbn [negb caller_of e_caller hd_error].
  - split; [reflexivity|]. intros _ Hon. rewrite Hon. symmetry. eapply nth_error_near. exact E.
  - split; [reflexivity|]. intros H; discriminate H.
Qed.

(* the std-log bridge above ANY chain of log-package frames, in ANY context -- the context may
   consist of log-package frames only *)
Lemma std_context_independent_thm : forall fuel core cs lv (lf near ctx : list frame) storage l,
  apply_chain (HL (new_logger core)) cs = HL l ->
  0 <= total_skip cs -> (1 <= storage)%nat -> (length lf + length (near ++ ctx) + 6 <= fuel)%nat ->
  forallb is_log_frame lf = true -> (length lf < stdLogScan)%nat ->
  hd_not_log near = true -> (Z.to_nat (total_skip cs) < length near)%nat ->
  core lv = true -> cfg_caller_on cs = true ->
  caller_of (log_std fuel l lv lf (near ++ ctx) storage) = nth_error near (Z.to_nat (total_skip cs)).
Proof.
  intros fuel core cs lv lf near ctx storage l Hl Ht Hst Hf Hlf Hlen Hus Hlt Hc Hon.
  assert (Hne : near <> []) by (intros ->; cbn in Hlt; lia).
  rewrite (std_any_depth_thm fuel core cs lv lf (near ++ ctx) storage l); try assumption;
    [|rewrite hd_not_log_app; assumption].
  destruct (skipn_near (Z.to_nat (total_skip cs)) near [] Hlt) as [u [r [E _]]].
  rewrite (expected_near _ _ _ _ near ctx u r E Hlt). rewrite Hc, Hon. cbn [negb andb caller_of e_caller].
  symmetry. eapply nth_error_near. exact E.
Qed.

(* the variant that counts every log frame it scans (no [break]): on a stack without log frames
   further out -- every call site reached from plain code -- it cannot be told from the code ... *)
Lemma count_all_none : forall fs,
  forallb (fun f => negb (is_log_frame f)) fs = true -> count_log_all fs = 0%nat.
Proof.
  induction fs as [|f r IH]; intros H; [reflexivity|].
  cbn [forallb] in H. apply andb_true_iff in H. destruct H as [Hf Hr].
  cbn [count_log_all]. apply negb_true_iff in Hf. rewrite Hf, IH by exact Hr. reflexivity.
Qed.

Lemma forallb_firstn : forall (A : Type) (p : A -> bool) n (l : list A),
  forallb p l = true -> forallb p (firstn n l) = true.
Proof.
  intros A p. induction n as [|n IH]; intros [|a l] H; cbn in *; try reflexivity.
  apply andb_true_iff in H. destruct H as [Ha Hl]. rewrite Ha, IH by exact Hl. reflexivity.
Qed.

Lemma count_all_prefix_plain : forall lf us n,
  forallb is_log_frame lf = true -> forallb (fun f => negb (is_log_frame f)) us = true ->
  count_log_all (firstn n (lf ++ us)) = count_log_prefix (firstn n (lf ++ us)).
Proof.
  induction lf as [|f lf IH]; intros us n Hlf Hus.
  - cbn [app]. rewrite count_all_none by (apply forallb_firstn; exact Hus).
    destruct n as [|n]; [reflexivity|]. destruct us as [|u r]; [reflexivity|].
    cbn [forallb] in Hus. apply andb_true_iff in Hus. destruct Hus as [Hu _]. apply negb_true_iff in Hu.
    cbn [firstn count_log_prefix]. rewrite Hu. reflexivity.
  - cbn [forallb] in Hlf. apply andb_true_iff in Hlf. destruct Hlf as [Hf Hr].
    destruct n as [|n]; [reflexivity|].
    cbn [app firstn count_log_all count_log_prefix]. rewrite Hf, IH by assumption. reflexivity.
Qed.

Lemma std_countall_plain_agrees : forall fuel l lv lf us storage,
  forallb is_log_frame lf = true -> forallb (fun f => negb (is_log_frame f)) us = true ->
  log_std_countall fuel l lv lf us storage = log_std fuel l lv lf us storage.
Proof.
  intros fuel l lv lf us storage Hlf Hus. unfold log_std_countall, log_std, callers.
  replace (Z.to_nat 4) with 4%nat by reflexivity. cbn [skipn].
  rewrite count_all_prefix_plain by assumption. reflexivity.
Qed.

(* ... and in a context it names a frame of fmt: a Print made from a String method that
   Printf of a log.Logger is formatting.  Stack: the call site 10 <- its caller 11 (String) <- 20, 21 (fmt)
   <- 30 31 32 (the Printf closure, Logger.output, Logger.Printf of package log) <- 40 <- 99 *)
Definition ctx_core : enabler := en_level DebugLevel.
Definition ctx_chain : list conv := [CWithOptions [OWithCaller true]].
Definition ctx_near : list frame := [FU 10; FU 11].
Definition ctx_stringer : list frame := [FU 20; FU 21; FL 30; FL 31; FL 32; FU 40; FU 99].
Lemma std_countall_refuted :
  hd_not_log ctx_near = true /\ (Z.to_nat (total_skip ctx_chain) < length ctx_near)%nat /\
  caller_of (log_std 100 (base_of (apply_chain (HL (new_logger ctx_core)) ctx_chain)) InfoLevel (std_frames 0 0)
                     (ctx_near ++ ctx_stringer) initStorage) = Some (FU 10) /\
  caller_of (log_std_countall 100 (base_of (apply_chain (HL (new_logger ctx_core)) ctx_chain)) InfoLevel (std_frames 0 0)
                              (ctx_near ++ ctx_stringer) initStorage) = Some (FU 21) /\
  caller_of (log_std_countall 100 (base_of (apply_chain (HL (new_logger ctx_core)) ctx_chain)) InfoLevel (std_frames 0 0)
                              (ctx_near ++ [FU 40; FU 99]) initStorage) = Some (FU 10).
Proof. vm_compute. repeat split; lia. Qed.

(* ------------------------------------------------------------------ the behaviour before the fixes *)
(* std-log bridge as found: log.Panic through NewStdLog names the log package as the caller *)
Lemma std_orig_refuted :
  exists f us, fe_sugared f = chain_kind [CWithOptions [OWithCaller true]] /\
    log_via_orig 100 f (apply_chain (HL (new_logger (en_level DebugLevel))) [CWithOptions [OWithCaller true]]) 0 us initStorage
    <> expected_zap (en_level DebugLevel) [CWithOptions [OWithCaller true]] f 0 us.
Proof.
  exists (FeStd 0 4), [FU 62; FU 2; FU 3]. split; [reflexivity|]. vm_compute. discriminate.
Qed.
(* ... while Print (the only case zap's tests pin) is right *)
Lemma std_orig_print_ok :
  log_via_orig 100 (FeStd 0 0) (apply_chain (HL (new_logger (en_level DebugLevel))) [CWithOptions [OWithCaller true]]) 0 [FU 62; FU 2; FU 3] initStorage
  = expected_zap (en_level DebugLevel) [CWithOptions [OWithCaller true]] (FeStd 0 0) 0 [FU 62; FU 2; FU 3].
Proof. vm_compute. reflexivity. Qed.

(* zapslog as found: WithCallerSkip moves the stack trace but not the caller *)
Lemma slog_orig_refuted :
  exists os us, 0 <= hopts_skip os /\
    slog_log slog_handle_orig 100 (new_handler (en_level DebugLevel) os) 2 4 us initStorage
    <> expected_slog (en_level DebugLevel) os 4 us.
Proof.
  exists [HWithCaller true; HWithCallerSkip 3], [FU 74; FU 2; FU 3; FU 4; FU 87; FU 11].
  split; [vm_compute; discriminate|]. vm_compute. discriminate.
Qed.

(* ------------------------------------------------------------------ TrimmedPath *)
Fixpoint has_byte (c : byte) (s : bytes) : bool :=
  match s with [] => false | x :: r => Byte.eqb x c || has_byte c r end.

Lemma byte_eqb_refl : forall b, Byte.eqb b b = true.
Proof. intros b. apply byte_eqb_eq. reflexivity. Qed.

Lemma split_on_nonempty : forall c s, split_on c s <> [].
Proof.
  intros c. induction s as [|x r IH]; cbn [split_on]; [discriminate|].
  destruct (Byte.eqb x c); [discriminate|]. destruct (split_on c r); discriminate.
Qed.

Lemma last_index_split : forall c s,
  match last_index_byte c s with
  | None => split_on c s = [s] /\ has_byte c s = false
  | Some i => exists a b, s = a ++ c :: b /\ i = length a /\ has_byte c b = false
                          /\ split_on c s = split_on c a ++ [b]
  end.
Proof.
  intros c. induction s as [|x r IH]; [cbn; auto|].
  cbn [last_index_byte]. destruct (last_index_byte c r) as [i|].
  - destruct IH as [a [b [Hs [Hi [Hb Hsp]]]]]. exists (x :: a), b. subst r. repeat split.
    + cbn [length]. lia.
    + exact Hb.
    + cbn [split_on app]. destruct (Byte.eqb x c) eqn:E.
      * rewrite Hsp. reflexivity.
      * rewrite Hsp. pose proof (split_on_nonempty c a) as Hne.
        destruct (split_on c a) as [|seg segs]; [congruence|reflexivity].
  - destruct IH as [Hsp Hb]. destruct (Byte.eqb x c) eqn:E.
    + apply byte_eqb_eq in E. subst x. exists [], r. repeat split; try assumption.
      cbn [split_on]. rewrite byte_eqb_refl. rewrite Hsp. reflexivity.
    + split.
      * cbn [split_on]. rewrite E, Hsp. reflexivity.
      * cbn [has_byte]. rewrite E, Hb. reflexivity.
Qed.

Lemma last_two_snoc2 : forall (xs : list bytes) a b, xs <> [] -> last_two (xs ++ [a; b]) = Some (a, b).
Proof.
  intros xs a b H. unfold last_two. rewrite rev_app_distr. cbn [rev app].
  destruct (rev xs) as [|y ys] eqn:E; [|reflexivity].
  apply (f_equal (@rev bytes)) in E. rewrite rev_involutive in E. cbn in E. congruence.
Qed.

Lemma trimmed_path_spec : forall d file lt, trimmed_path d file lt = trimmed_spec d file lt.
Proof.
  intros d file lt. unfold trimmed_path, trimmed_spec. destruct d; cbn [negb]; [|reflexivity].
  pose proof (last_index_split slash file) as H1.
  destruct (last_index_byte slash file) as [idx|].
  - destruct H1 as [a [b [Hs [Hi [Hb Hsp]]]]]. subst file idx.
    rewrite firstn_app, Nat.sub_diag, firstn_all. cbn [firstn]. rewrite app_nil_r.
    pose proof (last_index_split slash a) as H2.
    destruct (last_index_byte slash a) as [idx2|].
    + destruct H2 as [a' [b' [Hs' [Hi' [Hb' Hsp']]]]]. subst a idx2.
      rewrite Hsp, Hsp'.
      replace ((split_on slash a' ++ [b']) ++ [b]) with (split_on slash a' ++ [b'; b])
        by (rewrite <- app_assoc; reflexivity).
      rewrite last_two_snoc2 by apply split_on_nonempty.
      replace ((a' ++ slash :: b') ++ slash :: b) with ((a' ++ [slash]) ++ b' ++ slash :: b)
        by (rewrite <- !app_assoc; reflexivity).
      replace (S (length a')) with (length (a' ++ [slash])) by (rewrite app_length; cbn; lia).
      rewrite skipn_app_exact. rewrite <- app_assoc. reflexivity.
    + destruct H2 as [Hsp' _]. rewrite Hsp, Hsp'. reflexivity.
  - destruct H1 as [Hsp _]. rewrite Hsp. reflexivity.
Qed.

(* in words: with at least two separators the result is  <leaf dir>/<file>:<line> *)
Lemma trimmed_path_leaf : forall pre dir base lt,
  has_byte slash dir = false -> has_byte slash base = false ->
  trimmed_path true (pre ++ slash :: dir ++ slash :: base) lt = dir ++ slash :: base ++ colon :: lt.
Proof.
  intros pre dir base lt Hd Hb. unfold trimmed_path. cbn [negb].
  assert (L : forall s t, has_byte slash t = false -> last_index_byte slash (s ++ slash :: t) = Some (length s)).
  { induction s as [|x s IH]; intros t Ht.
    - cbn [app last_index_byte length]. 
      assert (N : last_index_byte slash t = None).
      { induction t as [|y t IHt]; [reflexivity|]. cbn in Ht. apply orb_false_iff in Ht. destruct Ht as [E Ht].
        cbn [last_index_byte]. rewrite (IHt Ht), E. reflexivity. }
      rewrite N, byte_eqb_refl. reflexivity.
    - cbn [app last_index_byte length]. rewrite (IH t Ht). reflexivity. }
  replace (pre ++ slash :: dir ++ slash :: base) with ((pre ++ slash :: dir) ++ slash :: base)
    by (rewrite <- app_assoc; reflexivity).
  rewrite (L (pre ++ slash :: dir) base Hb).
  rewrite firstn_app, Nat.sub_diag, firstn_all. cbn [firstn]. rewrite app_nil_r.
  rewrite (L pre dir Hd).
  rewrite <- app_assoc. cbn [app].
  replace (S (length pre)) with (length (pre ++ [slash])) by (rewrite app_length; cbn; lia).
  replace (pre ++ slash :: dir ++ slash :: base) with ((pre ++ [slash]) ++ dir ++ slash :: base)
    by (rewrite <- app_assoc; reflexivity).
  rewrite skipn_app_exact. rewrite <- app_assoc. reflexivity.
Qed.

(* ------------------------------------------------------------------ sessions *)
(* a call the session theorems speak about *)
Definition call_ok (cs : list conv) (os : list hopt) (cn : call * nat) : Prop :=
  match fst cn with
  | KZap extra f _ us => fe_sugared f = chain_kind (cs ++ extra) /\ 0 <= total_skip (cs ++ extra) /\ hd_not_log us = true
  | KSlog _ _ _ => 0 <= hopts_skip os
  | KOther _ => True
  end /\ (1 <= snd cn)%nat.

Lemma apply_chain_app : forall h a b, apply_chain (apply_chain h a) b = apply_chain h (a ++ b).
Proof. intros h a b. unfold apply_chain. symmetry. apply fold_left_app. Qed.

(* the closure on a freshly built bridge is the one-call model *)
Lemma bridge_call_fresh : forall fuel l lv lf us storage,
  fst (bridge_call fuel (new_bridge l) lv lf us storage) = log_std fuel l lv lf us storage.
Proof. reflexivity. Qed.
Lemma bridge_call_keeps : forall fuel b lv lf us storage,
  snd (bridge_call fuel b lv lf us storage) = b.
Proof. reflexivity. Qed.

Definition bridges_fresh (L : handle) (st : bridges) : Prop := forall c, st c = new_bridge (base_of L).

(* one step: the entry is the one the property demands, and nothing is left behind *)
Lemma sstep_spec : forall fuel core cs os st cn,
  (forall us, (length us + 12 <= fuel us)%nat) ->
  bridges_fresh (apply_chain (HL (new_logger core)) cs) st ->
  call_ok cs os cn ->
  fst (sstep bridge_call fuel (apply_chain (HL (new_logger core)) cs) (new_handler core os) st cn)
    = expected_call core cs os (fst cn)
  /\ bridges_fresh (apply_chain (HL (new_logger core)) cs)
       (snd (sstep bridge_call fuel (apply_chain (HL (new_logger core)) cs) (new_handler core os) st cn)).
Proof.
  intros fuel core cs os st [c storage] Hfuel Hinv [Hc Hst]. cbn [fst snd] in Hc, Hst.
  unfold sstep. cbn [fst snd].
  destruct c as [extra f lvl us|m slvl us|tag]; cbn [expected_call].
  - destruct Hc as [Hk [Ht Hus]].
    assert (G : log_via (fuel us) f (apply_chain (apply_chain (HL (new_logger core)) cs) extra) lvl us storage
                = expected_zap core (cs ++ extra) f lvl us).
    { rewrite apply_chain_app. apply log_via_spec; try assumption. apply Hfuel. }
    destruct extra as [|e extra']; [|split; [cbn [fst]; now rewrite G|exact Hinv]].
    destruct f as [m|fam m|c p]; try (split; [cbn [fst]; now rewrite G|exact Hinv]).
    destruct (apply_chain (HL (new_logger core)) cs) as [l|l] eqn:EL;
      [|split; [cbn [fst]; now rewrite G|exact Hinv]].
    (* the session's bridge for constructor c *)
    rewrite (Hinv c). cbn [base_of].
    destruct (bridge_call (fuel us) (new_bridge l) (fe_level (FeStd c p) lvl) (std_frames c p) us storage) as [o l'] eqn:EB.
    cbn [fst snd]. split.
    + f_equal. rewrite <- G. cbn [apply_chain fold_left].
      change o with (fst (o, l')). rewrite <- EB. reflexivity.
    + intros c'. change l' with (snd (o, l')). rewrite <- EB, bridge_call_keeps.
      unfold upd. destruct (Nat.eqb c' c); [reflexivity|apply Hinv].
  - split; [|exact Hinv]. cbn [fst]. f_equal. apply slog_spec; [exact Hc|exact Hst|].
    specialize (Hfuel us). lia.
  - split; [reflexivity|exact Hinv].
Qed.

(* every history: each call of a session gets exactly what the property demands of it,
   whatever was called before on the same values *)
Lemma session_from : forall fuel core cs os calls st,
  (forall us, (length us + 12 <= fuel us)%nat) ->
  bridges_fresh (apply_chain (HL (new_logger core)) cs) st ->
  Forall (call_ok cs os) calls ->
  run_calls (sstep bridge_call fuel (apply_chain (HL (new_logger core)) cs) (new_handler core os)) st calls
  = map (fun cn => expected_call core cs os (fst cn)) calls.
Proof.
  intros fuel core cs os calls. induction calls as [|cn r IH]; intros st Hfuel Hinv Hok; [reflexivity|].
  inversion Hok as [|x y Hc Hr]; subst.
  destruct (sstep_spec fuel core cs os st cn Hfuel Hinv Hc) as [S1 S2].
  cbn [run_calls map].
  destruct (sstep bridge_call fuel (apply_chain (HL (new_logger core)) cs) (new_handler core os) st cn) as [o st'].
  cbn [fst snd] in S1, S2. rewrite S1. f_equal. apply IH; assumption.
Qed.

Lemma session_thm : forall fuel core cs os calls,
  (forall us, (length us + 12 <= fuel us)%nat) ->
  Forall (call_ok cs os) calls ->
  run_calls (sstep bridge_call fuel (apply_chain (HL (new_logger core)) cs) (new_handler core os))
            (init_bridges (apply_chain (HL (new_logger core)) cs)) calls
  = map (fun cn => expected_call core cs os (fst cn)) calls.
Proof.
  intros fuel core cs os calls Hfuel Hok. apply session_from; [exact Hfuel| |exact Hok].
  intros c. reflexivity.
Qed.

(* the entry of a call is the same after any two histories *)
Lemma session_history_independent : forall fuel core cs os pre1 pre2 cn,
  (forall us, (length us + 12 <= fuel us)%nat) ->
  Forall (call_ok cs os) pre1 -> Forall (call_ok cs os) pre2 -> call_ok cs os cn ->
  let run calls := run_calls (sstep bridge_call fuel (apply_chain (HL (new_logger core)) cs) (new_handler core os))
                             (init_bridges (apply_chain (HL (new_logger core)) cs)) calls in
  last (run (pre1 ++ [cn])) None = last (run (pre2 ++ [cn])) None
  /\ last (run (pre1 ++ [cn])) None = expected_call core cs os (fst cn).
Proof.
  intros fuel core cs os pre1 pre2 cn Hfuel H1 H2 Hc run. unfold run.
  rewrite !session_thm; try assumption;
    try (apply Forall_app; split; [assumption|constructor; [assumption|constructor]]).
  rewrite !map_app. cbn [map]. rewrite !last_last. split; reflexivity.
Qed.

(* the caller of the n-th call of any session is the frame of ITS OWN stack at the configured skip *)
Lemma session_frame : forall fuel core cs os calls n extra f lvl us storage,
  (forall us, (length us + 12 <= fuel us)%nat) ->
  Forall (call_ok cs os) calls ->
  nth_error calls n = Some (KZap extra f lvl us, storage) ->
  core (fe_level f lvl) = true -> cfg_caller_on (cs ++ extra) = true ->
  exists o,
    nth_error (run_calls (sstep bridge_call fuel (apply_chain (HL (new_logger core)) cs) (new_handler core os))
                         (init_bridges (apply_chain (HL (new_logger core)) cs)) calls) n = Some (Some o)
    /\ caller_of o = nth_error us (Z.to_nat (total_skip (cs ++ extra))).
Proof.
  intros fuel core cs os calls n extra f lvl us storage Hfuel Hok Hn Hcore Hcal.
  rewrite session_thm by assumption.
  exists (expected_zap core (cs ++ extra) f lvl us). split.
  - rewrite nth_error_map, Hn. reflexivity.
  - assert (Hc : call_ok cs os (KZap extra f lvl us, storage)).
    { rewrite Forall_forall in Hok. apply Hok. eapply nth_error_In. exact Hn. }
    destruct Hc as [[Hk [Ht Hus]] Hst]. cbn [fst snd] in *.
    rewrite <- (log_via_spec (fuel us) core (cs ++ extra) f lvl us storage Hk Ht Hst (Hfuel us) Hus).
    apply frame_thm; try assumption. apply Hfuel.
Qed.

(* the model can express the failure: were the derived logger assigned to the captured
   variable, the entry after a recovered log.Panic would name the caller's caller *)
Definition leak_core : enabler := en_level DebugLevel.
Definition leak_chain : list conv := [CWithOptions [OWithCaller true]].
Definition leak_us : list frame := [FU 10; FU 11; FU 12; FU 99].
Definition leak_calls : list (call * nat) :=
  [(KZap [] (FeStd 0 4) 0 leak_us, initStorage); (KZap [] (FeStd 0 0) 0 leak_us, initStorage)].
Lemma bridge_leak_refuted :
  Forall (call_ok leak_chain []) leak_calls /\
  run_calls (sstep bridge_call_leak (fun us => (length us + 12)%nat) (apply_chain (HL (new_logger leak_core)) leak_chain)
                   (new_handler leak_core []))
            (init_bridges (apply_chain (HL (new_logger leak_core)) leak_chain)) leak_calls
  = [Some (Entry {| e_caller := Some (FU 10); e_stack := []; e_err := false |});
     Some (Entry {| e_caller := Some (FU 11); e_stack := []; e_err := false |})]
  /\ map (fun cn => expected_call leak_core leak_chain [] (fst cn)) leak_calls
  = [Some (Entry {| e_caller := Some (FU 10); e_stack := []; e_err := false |});
     Some (Entry {| e_caller := Some (FU 10); e_stack := []; e_err := false |})].
Proof.
  split; [|split; vm_compute; reflexivity].
  repeat constructor; vm_compute; try reflexivity; intros H; discriminate H.
Qed.

Lemma call_okb_ok : forall cs os cn, call_okb cs os cn = true -> call_ok cs os cn.
Proof.
  intros cs os [c storage] H. unfold call_okb in H. cbn [fst snd] in *.
  apply andb_true_iff in H. destruct H as [H Hst]. apply Nat.leb_le in Hst.
  split; [|exact Hst]. cbn [fst].
  destruct c as [extra f lvl us|m slvl us|tag].
  - apply andb_true_iff in H. destruct H as [H Hus].
    apply andb_true_iff in H. destruct H as [Hk Ht]. apply Bool.eqb_prop in Hk. apply Z.leb_le in Ht. auto.
  - apply Z.leb_le in H. exact H.
  - exact I.
Qed.

(* ------------------------------------------------------------------ wire *)
Lemma sx_eqb_refl s : sx_eqb s s = true.
Proof.
  revert s. fix IH 1. intros [z|b|l]; cbn.
  - apply Z.eqb_refl.
  - now apply bytes_eqb_eq.
  - induction l as [|a r IHr]; [reflexivity|]. now rewrite IH, IHr.
Qed.

Lemma wire_calls_ok : forall cs os s,
  forallb (call_okb cs os) (wire_calls s) = true -> Forall (call_ok cs os) (wire_calls s).
Proof.
  intros cs os s H. rewrite forallb_forall in H. apply Forall_forall. intros cn Hin.
  apply call_okb_ok. apply H. exact Hin.
Qed.

Theorem spec_model : forall i, wf i = true -> spec i (model i) = true.
Proof.
  intros i Hwf. unfold spec, model, wf in *.
  destruct (sx_z (sx_nth i 0)) as [|p|p].
  - apply andb_true_iff in Hwf. destruct Hwf as [Hwf Hus].
    apply andb_true_iff in Hwf. destruct Hwf as [Hk Ht].
    apply Bool.eqb_prop in Hk. apply Z.leb_le in Ht.
    rewrite log_via_spec.
    + apply sx_eqb_refl.
    + exact Hk.
    + exact Ht.
    + unfold initStorage. lia.
    + unfold fuel_for. lia.
    + exact Hus.
  - destruct p as [p|p|]; [destruct p as [p|p|]|..]; try (rewrite trimmed_path_spec; apply sx_eqb_refl).
    + (* 3: a session *)
      rewrite session_thm.
      * rewrite map_map. apply sx_eqb_refl.
      * intros us. unfold fuel_for. lia.
      * apply wire_calls_ok. exact Hwf.
    + (* 1: zapslog *)
      apply Z.leb_le in Hwf.
      rewrite slog_spec.
      * apply sx_eqb_refl.
      * exact Hwf.
      * unfold initStorage. lia.
      * unfold fuel_for. lia.
  - rewrite trimmed_path_spec. apply sx_eqb_refl.
Qed.

(* C20 -- level names and the level HTTP endpoint.

   Model of zapcore/level.go (String, CapitalString, MarshalText, unmarshalText,
   UnmarshalText, Set, ParseLevel), level.go (AtomicLevel.UnmarshalText,
   ParseAtomicLevel, SetLevel/Level) and http_handler.go (serveHTTP,
   decodePutRequest, decodePutURL, decodePutJSON), following the Go text.

   The name tables are NOT written here: they are regenerated from the source on
   every run (Gen/Levels.v, translator gen/levels.go) and enter the model as a
   record [levels]; every model function takes the tables as a parameter [d].
   The specification (second half of the file) is written by hand from the
   documentation and does not mention the generated tables or the model.

   Standard library behaviour enters as oracle values carried by each case
   (computed by the harness with net/http, encoding/json, yaml.v3 directly):
   the parsed form of a request, the sequence of texts encoding/json hands to
   UnmarshalText for the "level" key, the text a JSON/YAML document denotes.
   No proofs in this file. *)
From Coq Require Import List ZArith Bool Lia.
From Coq Require String.
Import String.StringSyntax.
From Coq.Strings Require Import Byte.
Import ListNotations.
From Zap Require Import Base.Wire.
From Zap Require Gen.Levels.
Open Scope Z_scope.

Definition lit (s : String.string) : bytes := String.list_byte_of_string s.
Arguments lit _%string_scope.

(* ------------------------------------------------------------------ *)
(* generated facts *)

Record levels := {
  t_bits : Z;                                  (* type Level int8 *)
  t_consts : list (bytes * Z);                 (* const block of zapcore/level.go *)
  t_min : Z; t_max : Z; t_invalid : Z;         (* _minLevel, _maxLevel, InvalidLevel *)
  t_string : list (Z * bytes); t_string_pre : bytes; t_string_post : bytes;
  t_capital : list (Z * bytes); t_capital_pre : bytes; t_capital_post : bytes;
  t_marshal_via : bytes;                       (* MarshalText = []byte(l.<via>()) *)
  t_unmarshal : list (bytes * Z);              (* unmarshalText's switch *)
  t_root : list (bytes * bytes)                (* package zap: X = zapcore.Y *)
}.

Definition G : levels := {|
  t_bits := Gen.Levels.level_bits;
  t_consts := Gen.Levels.level_consts;
  t_min := Gen.Levels.min_level; t_max := Gen.Levels.max_level; t_invalid := Gen.Levels.invalid_level;
  t_string := Gen.Levels.string_table;
  t_string_pre := Gen.Levels.string_default_pre; t_string_post := Gen.Levels.string_default_post;
  t_capital := Gen.Levels.capital_table;
  t_capital_pre := Gen.Levels.capital_default_pre; t_capital_post := Gen.Levels.capital_default_post;
  t_marshal_via := Gen.Levels.marshal_text_via;
  t_unmarshal := Gen.Levels.unmarshal_table;
  t_root := Gen.Levels.root_aliases
|}.

(* a Go `switch` over constants: the first (only) matching case *)
Fixpoint assoc_z (t : list (Z * bytes)) (l : Z) : option bytes :=
  match t with
  | [] => None
  | (k, v) :: r => if k =? l then Some v else assoc_z r l
  end.
Fixpoint assoc_b {A} (t : list (bytes * A)) (s : bytes) : option A :=
  match t with
  | [] => None
  | (k, v) :: r => if bytes_eqb k s then Some v else assoc_b r s
  end.

Definition is_nil {A} (l : list A) : bool := match l with [] => true | _ => false end.

(* fmt's %d of an int8 (|z| < 1000 is enough; the harness runs all 256 values) *)
Definition digit (n : Z) : byte := byte_of_Z (48 + n).
Definition fmt_d_nonneg (z : Z) : bytes :=
  if z <? 10 then [digit z]
  else if z <? 100 then [digit (z / 10); digit (z mod 10)]
  else [digit (z / 100); digit ((z / 10) mod 10); digit (z mod 10)].
Definition fmt_d (z : Z) : bytes := if z <? 0 then x2d :: fmt_d_nonneg (- z) else fmt_d_nonneg z.

(* ------------------------------------------------------------------ *)
(* zapcore/level.go *)

(* func (l Level) String() string *)
Definition level_string (d : levels) (l : Z) : bytes :=
  match assoc_z (t_string d) l with
  | Some s => s
  | None => t_string_pre d ++ fmt_d l ++ t_string_post d
  end.
(* func (l Level) CapitalString() string *)
Definition level_capital (d : levels) (l : Z) : bytes :=
  match assoc_z (t_capital d) l with
  | Some s => s
  | None => t_capital_pre d ++ fmt_d l ++ t_capital_post d
  end.
(* func (l Level) MarshalText() ([]byte, error) { return []byte(l.String()), nil }
   (the checker pins t_marshal_via = "String") *)
Definition level_marshal_text (d : levels) (l : Z) : bytes := level_string d l.

(* asciiToLower (after the fix; the original code called bytes.ToLower) *)
Definition lower_byte (b : byte) : byte :=
  let n := Z_of_byte b in if (65 <=? n) && (n <=? 90) then byte_of_Z (n + 32) else b.
Definition ascii_lower (s : bytes) : bytes := map lower_byte s.

(* func (l *Level) unmarshalText(text []byte) bool -- the pointer target is threaded:
   (new value of *l, result) *)
Definition unmarshal_step (d : levels) (tgt : Z) (text : bytes) : Z * bool :=
  match assoc_b (t_unmarshal d) text with
  | Some v => (v, true)
  | None => (tgt, false)
  end.

(* func (l *Level) UnmarshalText(text []byte) error, l non-nil:
     if !l.unmarshalText(text) && !l.unmarshalText(asciiToLower(text)) { return error }
   result: (new value of *l, err == nil) *)
Definition level_unmarshal_text (d : levels) (tgt : Z) (text : bytes) : Z * bool :=
  let '(t1, ok1) := unmarshal_step d tgt text in
  if ok1 then (t1, true) else unmarshal_step d t1 (ascii_lower text).

(* the code before the fix: the second attempt used bytes.ToLower(text), a
   Unicode-aware standard-library function; [lowered] is its answer (oracle) *)
Definition level_unmarshal_text_orig (d : levels) (tgt : Z) (text lowered : bytes) : Z * bool :=
  let '(t1, ok1) := unmarshal_step d tgt text in
  if ok1 then (t1, true) else unmarshal_step d t1 lowered.

(* func (l *Level) Set(s string) error { return l.UnmarshalText([]byte(s)) } *)
Definition level_set (d : levels) (tgt : Z) (s : bytes) : Z * bool := level_unmarshal_text d tgt s.
(* func ParseLevel(text string) (Level, error) { var level Level; err := level.UnmarshalText(..); return level, err } *)
Definition parse_level (d : levels) (text : bytes) : Z * bool := level_unmarshal_text d 0 text.
(* func (l Level) Enabled(lvl Level) bool { return lvl >= l } *)
Definition level_enabled (l lvl : Z) : bool := l <=? lvl.

(* ------------------------------------------------------------------ *)
(* level.go: AtomicLevel{l *atomic.Int32}; None = the zero AtomicLevel (nil pointer) *)

(* func (lvl *AtomicLevel) UnmarshalText(text []byte) error *)
Definition atomic_unmarshal_text (d : levels) (a : option Z) (text : bytes) : Z * bool :=
  let a1 := match a with Some v => v | None => 0 end in      (* lvl.l = &atomic.Int32{} *)
  let '(l, ok) := level_unmarshal_text d 0 text in           (* var l zapcore.Level *)
  if ok then (l, true) (* lvl.SetLevel(l) *) else (a1, false).
(* func ParseAtomicLevel(text string) (AtomicLevel, error): a := NewAtomicLevel() (info) *)
Definition parse_atomic_level (d : levels) (text : bytes) : Z * bool :=
  let '(l, ok) := parse_level d text in
  if ok then (l, true) else (0, false).

(* ------------------------------------------------------------------ *)
(* http_handler.go *)

(* What encoding/json does with the request body when decoding into
   struct{ Level *zapcore.Level `json:"level"` }, as reported by the oracle:
   JErr: Decode fails whatever the level texts are (syntax error, EOF, a non-string
   value for the key); otherwise the texts handed to UnmarshalText, in order, for
   every string-valued occurrence of the key, and whether the pointer is nil at the end
   (key absent, or its last occurrence is null). *)
Inductive jbody := JErr | JOk (texts : list bytes) (final_nil : bool).

Record request := {
  r_method : bytes;                (* r.Method *)
  r_ctype : bytes;                 (* r.Header.Get("Content-Type") *)
  r_form : list (bytes * bytes);   (* r.FormValue(k) for every key k of the parsed form (oracle) *)
  r_json : jbody
}.

Inductive decoded := DLevel (l : Z) | DBad.

Definition s_level : bytes := Eval compute in lit "level".
Definition s_get : bytes := Eval compute in lit "GET".
Definition s_put : bytes := Eval compute in lit "PUT".
Definition s_form_ctype : bytes := Eval compute in lit "application/x-www-form-urlencoded".
Definition s_body_pre : bytes := Eval compute in lit "{""level"":""".
Definition s_body_post : bytes := Eval compute in (lit """}" ++ [x0a]).

(* r.FormValue(key) *)
Definition form_value (f : list (bytes * bytes)) (k : bytes) : bytes :=
  match assoc_b f k with Some v => v | None => [] end.

(* func decodePutURL(r) *)
Definition decode_put_url (d : levels) (r : request) : decoded :=
  let lvl := form_value (r_form r) s_level in
  if is_nil lvl then DBad                                          (* must specify logging level *)
  else let '(l, ok) := level_unmarshal_text d 0 lvl in            (* var l zapcore.Level *)
       if ok then DLevel l else DBad.

(* encoding/json on pld.Level: for each string occurrence allocate the pointer if nil
   (zero Level) and call UnmarshalText on it; an error is saved, decoding continues,
   Decode returns the saved error at the end *)
Fixpoint json_texts (d : levels) (p : option Z) (err : bool) (texts : list bytes) : option Z * bool :=
  match texts with
  | [] => (p, err)
  | t :: r =>
      let tgt := match p with Some v => v | None => 0 end in
      let '(l, ok) := level_unmarshal_text d tgt t in
      json_texts d (Some l) (err || negb ok) r
  end.
(* func decodePutJSON(body) *)
Definition decode_put_json (d : levels) (j : jbody) : decoded :=
  match j with
  | JErr => DBad                                                   (* malformed request body *)
  | JOk texts final_nil =>
      let '(p, err) := json_texts d None false texts in
      if err then DBad                                             (* malformed request body: unrecognized level *)
      else if final_nil then DBad                                  (* must specify logging level *)
      else match p with Some l => DLevel l | None => DBad end
  end.
(* func decodePutRequest(contentType, r) *)
Definition decode_put_request (d : levels) (r : request) : decoded :=
  if bytes_eqb (r_ctype r) s_form_ctype then decode_put_url d r else decode_put_json d (r_json r).

(* bit i (i = 0..6) set iff level i-1 is enabled at threshold cur:
   what a logger built on the AtomicLevel lets through *)
Definition mask_levels : list (Z * Z) := [(-1, 1); (0, 2); (1, 4); (2, 8); (3, 16); (4, 32); (5, 64)].
Definition enabled_mask (cur : Z) : Z :=
  fold_right (fun '(l, bit) acc => if level_enabled cur l then bit + acc else acc) 0 mask_levels.

(* observation of one request: status, body kind (1 = {"level":..}, 2 = {"error":..}),
   raw body for kind 1, AtomicLevel.Level() after the request, live-logger mask after it *)
Record resp := { status : Z; kind : Z; payload : bytes; after : Z; mask : Z }.

Definition level_payload (d : levels) (l : Z) : bytes := s_body_pre ++ level_marshal_text d l ++ s_body_post.

(* func (lvl AtomicLevel) serveHTTP(w, r) *)
Definition serve (d : levels) (cur : Z) (r : request) : resp :=
  if bytes_eqb (r_method r) s_get then
    {| status := 200; kind := 1; payload := level_payload d cur; after := cur; mask := enabled_mask cur |}
  else if bytes_eqb (r_method r) s_put then
    match decode_put_request d r with
    | DBad => {| status := 400; kind := 2; payload := []; after := cur; mask := enabled_mask cur |}
    | DLevel l => (* lvl.SetLevel(requestedLvl); payload{Level: lvl.Level()} *)
        {| status := 200; kind := 1; payload := level_payload d l; after := l; mask := enabled_mask l |}
    end
  else {| status := 405; kind := 2; payload := []; after := cur; mask := enabled_mask cur |}.

Fixpoint run (d : levels) (cur : Z) (rs : list request) : list resp :=
  match rs with
  | [] => []
  | r :: rest => let o := serve d cur r in o :: run d (after o) rest
  end.
Definition final_level (d : levels) (cur : Z) (rs : list request) : Z :=
  fold_left (fun c r => after (serve d c r)) rs cur.

(* ------------------------------------------------------------------ *)
(* level.go: type AtomicLevel struct{ l *atomic.Int32 } is a HANDLE on a cell.  Copying an
   AtomicLevel -- into a core (zapcore.NewCore, observer.New, Config.Build), into an http mux
   (mux.Handle(path, lvl)), into Config.Level, into another variable -- copies the pointer, so all
   copies are the same threshold.  Level/SetLevel/ServeHTTP have value receivers and go through
   the pointer; UnmarshalText has a pointer receiver (it may allocate the cell of a zero
   AtomicLevel) and, for an allocated one, stores through the pointer as well.

   A world is a heap of cells and a list of holders; a holder is (kind, address of the cell its
   handle points to).  The kind only says how the holder is observed:
     0  a variable of type AtomicLevel          Level()
     1  a live logger built on a copy            what it lets through, and Logger.Level()
     2  an http mux the copy is registered with  the answer to GET
     3  a zap.Config whose Level field it is     cfg.Level.Level() *)
Record world := { w_cells : list Z; w_holders : list (Z * nat) }.

Inductive sop :=
| SCopy (h : nat) (k : Z)         (* a new holder of kind k initialised with a copy of holder h's handle *)
| SFresh (l : Z) (k : Z)          (* a new holder of kind k initialised with NewAtomicLevelAt(l) *)
| SText (h : nat) (t : bytes)     (* (&holder h).UnmarshalText(t): directly, through flag.TextVar, or through
                                     encoding/json / yaml.v3 decoding a document that denotes t into the
                                     variable or into the live Config *)
| SSet (h : nat) (l : Z)          (* holder h .SetLevel(l) *)
| SReq (h : nat) (r : request)    (* holder h .ServeHTTP(w, r) (for a mux: mux.ServeHTTP) *)
| SNop.

Definition cell_load (cs : list Z) (a : nat) : Z := nth a cs 0.
Fixpoint cell_store (cs : list Z) (a : nat) (v : Z) : list Z :=
  match cs, a with
  | [], _ => []
  | _ :: r, O => v :: r
  | c :: r, S a' => c :: cell_store r a' v
  end.

Definition handle_of (w : world) (h : nat) : option nat := option_map snd (nth_error (w_holders w) h).
Definition with_cells (w : world) (cs : list Z) : world := {| w_cells := cs; w_holders := w_holders w |}.
Definition add_holder (w : world) (k : Z) (a : nat) : world :=
  {| w_cells := w_cells w; w_holders := w_holders w ++ [(k, a)] |}.

Definition enc_reply (o : resp) : sx := SL [SZ (status o); SZ (kind o); SB (payload o)].

(* one operation: (world afterwards, what the operation itself returned) *)
Definition sh_step (d : levels) (w : world) (o : sop) : world * sx :=
  match o with
  | SCopy h k =>
      match handle_of w h with
      | Some a => (add_holder w k a, SL [])                        (* struct copy: the pointer *)
      | None => (w, SL [])
      end
  | SFresh l k =>                                                   (* new(atomic.Int32); Store(l) *)
      (add_holder (with_cells w (w_cells w ++ [l])) k (length (w_cells w)), SL [])
  | SText h t =>
      match handle_of w h with
      | Some a =>                                                   (* lvl.l != nil *)
          let '(l, ok) := level_unmarshal_text d 0 t in             (* var l zapcore.Level; l.UnmarshalText(text) *)
          if ok then (with_cells w (cell_store (w_cells w) a l), of_bool true)    (* lvl.SetLevel(l) = lvl.l.Store *)
          else (w, of_bool false)                                   (* return err *)
      | None => (w, SL [])
      end
  | SSet h l =>
      match handle_of w h with
      | Some a => (with_cells w (cell_store (w_cells w) a l), SL [])
      | None => (w, SL [])
      end
  | SReq h r =>
      match handle_of w h with
      | Some a => let o := serve d (cell_load (w_cells w) a) r in
                  (with_cells w (cell_store (w_cells w) a (after o)), enc_reply o)
      | None => (w, SL [])
      end
  | SNop => (w, SL [])
  end.

Definition get_request : request := {| r_method := s_get; r_ctype := []; r_form := []; r_json := JErr |}.

(* what a holder of kind k reports when the cell its handle points to holds v *)
Definition read_holder (d : levels) (k v : Z) : sx :=
  if k =? 1 then SL [SZ (enabled_mask v); SZ v]                     (* LevelEnabler of the core; Logger.Level() *)
  else if k =? 2 then (let o := serve d v get_request in SL [SZ (status o); SB (payload o)])
  else SZ v.                                                        (* Level() *)
Definition snapshot (d : levels) (w : world) : sx :=
  SL (map (fun '(k, a) => read_holder d k (cell_load (w_cells w) a)) (w_holders w)).

(* a history: after every operation, its result and what EVERY holder reports *)
Fixpoint sh_run (d : levels) (w : world) (ops : list sop) : list sx :=
  match ops with
  | [] => []
  | o :: rest => let '(w', res) := sh_step d w o in SL [res; snapshot d w'] :: sh_run d w' rest
  end.
Definition sh_final (d : levels) (w : world) (ops : list sop) : world :=
  fold_left (fun w o => fst (sh_step d w o)) ops w.

(* the same with the 'deduplicated' UnmarshalText that assigns a freshly parsed AtomicLevel to the
   receiver ("*lvl = parsed"): the receiver is re-pointed at a new cell.  Kept only to show that the
   sharing theorems are about something (Props/C20.v, C20_repoint_splits). *)
Definition sh_step_repoint (d : levels) (w : world) (o : sop) : world * sx :=
  match o with
  | SText h t =>
      match nth_error (w_holders w) h with
      | Some (k, _) =>
          let '(l, ok) := parse_atomic_level d t in
          if ok then ({| w_cells := w_cells w ++ [l];
                         w_holders := firstn h (w_holders w) ++ (k, length (w_cells w)) :: skipn (S h) (w_holders w) |},
                      of_bool true)
          else (w, of_bool false)
      | None => (w, SL [])
      end
  | _ => sh_step d w o
  end.

(* ================================================================== *)
(* Specification: written from the documentation, independent of the generated
   tables and of the model functions above. *)

Definition doc_names : list (Z * bytes) := Eval compute in
  [(-1, lit "debug"); (0, lit "info"); (1, lit "warn"); (2, lit "error");
   (3, lit "dpanic"); (4, lit "panic"); (5, lit "fatal")].
(* the documented extra spellings: "warning", and the empty string ("make the zero value useful") *)
Definition doc_aliases : list (bytes * Z) := Eval compute in [(lit "warning", 1); ([], 0)].
Definition accept_list : list (bytes * Z) :=
  Eval compute in (map (fun '(l, s) => (s, l)) doc_names ++ doc_aliases).

Definition valid_level (l : Z) : bool := (-1 <=? l) && (l <=? 5).
Definition valid_levels : list Z := [-1; 0; 1; 2; 3; 4; 5].

Definition upper_byte (b : byte) : byte :=
  let n := Z_of_byte b in if (97 <=? n) && (n <=? 122) then byte_of_Z (n - 32) else b.
Definition ascii_upper (s : bytes) : bytes := map upper_byte s.

(* the level a text names, if any: ASCII-case-insensitive match against the names and aliases *)
Definition spec_parse (t : bytes) : option Z := assoc_b accept_list (ascii_lower t).
(* outcome of reading text [t] into a target holding [tgt] *)
Definition spec_result (tgt : Z) (t : bytes) : Z * bool :=
  match spec_parse t with Some l => (l, true) | None => (tgt, false) end.

Definition s_Level_pre : bytes := Eval compute in lit "Level(".
Definition s_LEVEL_pre : bytes := Eval compute in lit "LEVEL(".
Definition spec_name (l : Z) : bytes :=
  match assoc_z doc_names l with Some s => s | None => s_Level_pre ++ fmt_d l ++ [x29] end.
Definition spec_capital (l : Z) : bytes :=
  match assoc_z doc_names l with Some s => ascii_upper s | None => s_LEVEL_pre ++ fmt_d l ++ [x29] end.

Definition is_some {A} (o : option A) : bool := match o with Some _ => true | None => false end.

(* "a PUT that names a valid level (JSON body or URL-encoded form)" *)
Definition spec_names_level (r : request) : option Z :=
  if bytes_eqb (r_method r) s_put then
    if bytes_eqb (r_ctype r) s_form_ctype then
      let v := form_value (r_form r) s_level in
      if is_nil v then None else spec_parse v
    else match r_json r with
         | JErr => None
         | JOk texts final_nil =>
             if final_nil then None
             else if forallb (fun t => is_some (spec_parse t)) texts then
               match rev texts with [] => None | t :: _ => spec_parse t end
             else None
         end
  else None.

Definition spec_payload (l : Z) : bytes := s_body_pre ++ spec_name l ++ s_body_post.

(* one request against level [cur]: GET reports; a PUT naming l sets exactly l and reports it;
   everything else is answered 4xx with an error body and changes nothing *)
Definition step_ok (cur : Z) (r : request) (o : resp) : bool :=
  (if bytes_eqb (r_method r) s_get then
     (status o =? 200) && (kind o =? 1) && bytes_eqb (payload o) (spec_payload cur) && (after o =? cur)
   else match spec_names_level r with
        | Some l => (status o =? 200) && (kind o =? 1) && bytes_eqb (payload o) (spec_payload l) && (after o =? l)
        | None => (400 <=? status o) && (status o <? 500) && (kind o =? 2) && (after o =? cur)
        end)
  && (mask o =? enabled_mask (after o)).

(* the level after a history: that of the last PUT naming a level, else the initial one *)
Definition spec_final (cur : Z) (rs : list request) : Z :=
  fold_left (fun c r => match spec_names_level r with Some l => l | None => c end) rs cur.

(* ------------------------------------------------------------------ *)
(* One level, many holders.  "sets exactly the requested level" is a statement about the LEVEL, not
   about the variable the text was decoded into: every holder of the same AtomicLevel -- however it
   got its copy, before or after -- must report the level last accepted through ANY of them, and
   holders of another AtomicLevel must be unaffected.  The oracle keeps, per AtomicLevel created
   (NewAtomicLevelAt), its current level, and per holder the AtomicLevel it was derived from. *)

(* the holder an operation addresses and the level it puts in force, if it does *)
Definition spec_update (o : sop) : option (nat * Z) :=
  match o with
  | SText h t => option_map (pair h) (spec_parse t)
  | SSet h l => Some (h, l)
  | SReq h r => option_map (pair h) (spec_names_level r)
  | _ => None
  end.

Definition spec_sh_step (w : world) (o : sop) : world :=
  match o with
  | SCopy h k => match handle_of w h with Some g => add_holder w k g | None => w end
  | SFresh l k => add_holder (with_cells w (w_cells w ++ [l])) k (length (w_cells w))
  | _ => match spec_update o with
         | Some (h, l) => match handle_of w h with
                          | Some g => with_cells w (cell_store (w_cells w) g l)
                          | None => w
                          end
         | None => w
         end
  end.

(* the answer to a request against a level standing at cur *)
Definition reply_ok (cur : Z) (r : request) (st kd : Z) (pl : bytes) : bool :=
  if bytes_eqb (r_method r) s_get then (st =? 200) && (kd =? 1) && bytes_eqb pl (spec_payload cur)
  else match spec_names_level r with
       | Some l => (st =? 200) && (kd =? 1) && bytes_eqb pl (spec_payload l)
       | None => (400 <=? st) && (st <? 500) && (kd =? 2)
       end.

(* what the operation itself must return, in the state w in which it is issued *)
Definition spec_res (w : world) (o : sop) (res : sx) : bool :=
  match o with
  | SText h t => match handle_of w h with
                 | Some _ => sx_eqb res (of_bool (is_some (spec_parse t)))
                 | None => sx_eqb res (SL [])
                 end
  | SReq h r => match handle_of w h with
                | Some g => reply_ok (cell_load (w_cells w) g) r (sx_z (sx_nth res 0)) (sx_z (sx_nth res 1)) (sx_b (sx_nth res 2))
                | None => sx_eqb res (SL [])
                end
  | _ => sx_eqb res (SL [])
  end.

Definition spec_read (k v : Z) : sx :=
  if k =? 1 then SL [SZ (enabled_mask v); SZ v]
  else if k =? 2 then SL [SZ 200; SB (spec_payload v)]
  else SZ v.
Definition spec_snapshot (w : world) : sx :=
  SL (map (fun '(k, g) => spec_read k (cell_load (w_cells w) g)) (w_holders w)).

Fixpoint spec_sh_hist (w : world) (ops : list sop) (obs : list sx) : bool :=
  match ops, obs with
  | [], [] => true
  | o :: ops', ob :: obs' =>
      let w' := spec_sh_step w o in
      spec_res w o (sx_nth ob 0) && sx_eqb (sx_nth ob 1) (spec_snapshot w') && spec_sh_hist w' ops' obs'
  | _, _ => false
  end.

(* the level a cell holds after a history: that of the last accepted update addressed to a holder
   of that cell, else what it held before *)
Fixpoint last_accepted (w : world) (ops : list sop) (a : nat) (cur : Z) : Z :=
  match ops with
  | [] => cur
  | o :: rest =>
      let cur' := match spec_update o with
                  | Some (h, l) => match handle_of w h with
                                   | Some a' => if Nat.eqb a' a then l else cur
                                   | None => cur
                                   end
                  | None => cur
                  end in
      last_accepted (spec_sh_step w o) rest a cur'
  end.

(* ------------------------------------------------------------------ *)
(* The decidable premise over the generated tables (Proofs.v proves it sound and
   closes it for G by vm_compute). *)

Definition opt_bytes_eqb (a b : option bytes) : bool :=
  match a, b with Some x, Some y => bytes_eqb x y | None, None => true | _, _ => false end.
Definition opt_z_eqb (a b : option Z) : bool :=
  match a, b with Some x, Some y => x =? y | None, None => true | _, _ => false end.

Definition doc_consts : list (bytes * Z) := Eval compute in
  [(lit "DebugLevel", -1); (lit "InfoLevel", 0); (lit "WarnLevel", 1); (lit "ErrorLevel", 2);
   (lit "DPanicLevel", 3); (lit "PanicLevel", 4); (lit "FatalLevel", 5);
   (lit "_minLevel", -1); (lit "_maxLevel", 5); (lit "InvalidLevel", 6)].
Definition s_String : bytes := Eval compute in lit "String".

Definition checker (d : levels) : bool :=
  (t_bits d =? 8) && (t_min d =? -1) && (t_max d =? 5) && (t_invalid d =? 6)
  (* the constants have the documented values, and package zap re-exports them under the same names *)
  && forallb (fun '(n, v) => opt_z_eqb (assoc_b (t_consts d) n) (Some v)) doc_consts
  && forallb (fun '(a, b) => bytes_eqb a b && is_some (assoc_b (t_consts d) b)) (t_root d)
  && forallb (fun '(n, _) => is_some (assoc_b (t_root d) n)) (firstn 7 doc_consts)
  (* String / CapitalString: the documented names on the valid levels, no case for any other value *)
  && forallb (fun l => opt_bytes_eqb (assoc_z (t_string d) l) (assoc_z doc_names l)) valid_levels
  && forallb (fun '(l, _) => valid_level l) (t_string d)
  && forallb (fun l => opt_bytes_eqb (assoc_z (t_capital d) l) (option_map ascii_upper (assoc_z doc_names l))) valid_levels
  && forallb (fun '(l, _) => valid_level l) (t_capital d)
  && bytes_eqb (t_string_pre d) s_Level_pre && bytes_eqb (t_string_post d) [x29]
  && bytes_eqb (t_capital_pre d) s_LEVEL_pre && bytes_eqb (t_capital_post d) [x29]
  && bytes_eqb (t_marshal_via d) s_String
  (* unmarshalText's switch accepts exactly the documented names and aliases *)
  && forallb (fun '(t, l) => opt_z_eqb (assoc_b accept_list t) (Some l)) (t_unmarshal d)
  && forallb (fun '(t, l) => opt_z_eqb (assoc_b (t_unmarshal d) t) (Some l)) accept_list.

(* ================================================================== *)
(* Wire.
   case (0 l tgt)                     one level value (all 256 are run), tgt = preset target of the round trips
        (1 tgt #text jt yt)           one text; jt / yt = () or (#t): the text a JSON / YAML document built
                                      from it denotes (oracle), absent when it cannot be represented
        (2 init (req ...))            a request history against one AtomicLevel
            req = (#method #ctype ((#k #v) ...) (jerr (#text ...) final_nil))
        (3 init k0 (op ...))          a history over AtomicLevel HANDLES: one AtomicLevel at init held by a
                                      holder of kind k0, then
            op = (0 h k)              copy holder h's handle into a new holder of kind k
                 (1 l k)              NewAtomicLevelAt(l) into a new holder of kind k
                 (2 h #text via)      UnmarshalText(text) on holder h (via: entry point used, not modelled)
                 (3 h l)              SetLevel(l) through holder h
                 (4 h req)            ServeHTTP(req) through holder h
   observation
        0: (#String #CapitalString #MarshalText #json.Marshal #AtomicLevel.String #AtomicLevel.MarshalText
            (rt ...))                 rt = (level ok): UnmarshalText(String), UnmarshalText(CapitalString),
                                      json round trip, yaml round trip, each into a target holding tgt
        1: (rt ...)                   the entry points in the order listed in harness/c20.go
        2: ((status kind #payload after mask) ...)
        3: ((res (reading ...)) ...)  per operation: its result (() | ok | (status kind #payload)) and the
                                      reading of EVERY holder afterwards: level | (mask level) | (status #body) *)

Definition enc_rt (p : Z * bool) : sx := SL [SZ (fst p); of_bool (snd p)].
Definition quote (s : bytes) : bytes := x22 :: s ++ [x22].

Definition dec_opt_b (s : sx) : option bytes := match sx_l s with [] => None | x :: _ => Some (sx_b x) end.

(* -- kind 0 -- *)
Definition model_level (d : levels) (l tgt : Z) : sx :=
  let s := level_string d l in
  let c := level_capital d l in
  let m := level_marshal_text d l in
  SL [SB s; SB c; SB m; SB (quote m); SB s; SB m;
      SL [enc_rt (level_unmarshal_text d tgt s); enc_rt (level_unmarshal_text d tgt c);
          enc_rt (level_unmarshal_text d tgt m); enc_rt (level_unmarshal_text d tgt m)]].
Definition expect_level (l tgt : Z) : sx :=
  let s := spec_name l in
  let c := spec_capital l in
  SL [SB s; SB c; SB s; SB (quote s); SB s; SB s;
      SL [enc_rt (spec_result tgt s); enc_rt (spec_result tgt c);
          enc_rt (spec_result tgt s); enc_rt (spec_result tgt s)]].

(* -- kind 1 -- *)
Definition opt_rt (f : bytes -> Z * bool) (o : option bytes) : sx :=
  match o with Some t => enc_rt (f t) | None => SL [] end.
Definition model_text (d : levels) (tgt : Z) (text : bytes) (jt yt : option bytes) : sx :=
  SL [enc_rt (level_unmarshal_text d tgt text);          (* Level ptr.UnmarshalText *)
      enc_rt (level_set d tgt text);                     (* Level ptr.Set *)
      enc_rt (parse_level d text);                       (* zapcore.ParseLevel *)
      enc_rt (level_set d tgt text);                     (* flag.FlagSet.Parse -> Set *)
      enc_rt (level_set d tgt text);                     (* zap.LevelFlag + flag.Set *)
      enc_rt (atomic_unmarshal_text d (Some tgt) text);  (* AtomicLevel ptr.UnmarshalText *)
      enc_rt (parse_atomic_level d text);                (* zap.ParseAtomicLevel *)
      enc_rt (atomic_unmarshal_text d None text);        (* zero AtomicLevel{}.UnmarshalText *)
      opt_rt (level_unmarshal_text d tgt) jt;            (* encoding/json -> UnmarshalText *)
      opt_rt (atomic_unmarshal_text d (Some tgt)) jt;    (* encoding/json into an AtomicLevel *)
      opt_rt (level_unmarshal_text d tgt) yt].           (* yaml.v3 -> UnmarshalText *)
Definition expect_text (tgt : Z) (text : bytes) (jt yt : option bytes) : sx :=
  SL [enc_rt (spec_result tgt text);
      enc_rt (spec_result tgt text);
      enc_rt (spec_result 0 text);
      enc_rt (spec_result tgt text);
      enc_rt (spec_result tgt text);
      enc_rt (spec_result tgt text);
      enc_rt (spec_result 0 text);
      enc_rt (spec_result 0 text);
      opt_rt (spec_result tgt) jt;
      opt_rt (spec_result tgt) jt;
      opt_rt (spec_result tgt) yt].

(* -- kind 2 -- *)
Definition dec_json (s : sx) : jbody :=
  if sx_bool (sx_nth s 0) then JErr
  else JOk (map sx_b (sx_l (sx_nth s 1))) (sx_bool (sx_nth s 2)).
Definition dec_req (s : sx) : request :=
  {| r_method := sx_b (sx_nth s 0);
     r_ctype := sx_b (sx_nth s 1);
     r_form := map (fun p => (sx_b (sx_nth p 0), sx_b (sx_nth p 1))) (sx_l (sx_nth s 2));
     r_json := dec_json (sx_nth s 3) |}.
Definition enc_resp (o : resp) : sx :=
  SL [SZ (status o); SZ (kind o); SB (payload o); SZ (after o); SZ (mask o)].
Definition dec_resp (s : sx) : resp :=
  {| status := sx_z (sx_nth s 0); kind := sx_z (sx_nth s 1); payload := sx_b (sx_nth s 2);
     after := sx_z (sx_nth s 3); mask := sx_z (sx_nth s 4) |}.

Fixpoint spec_hist (cur : Z) (rs : list request) (os : list sx) : bool :=
  match rs, os with
  | [], [] => true
  | r :: rs', o :: os' => let ob := dec_resp o in step_ok cur r ob && spec_hist (after ob) rs' os'
  | _, _ => false
  end.

(* -- kind 3 -- *)
Definition dec_sop (s : sx) : sop :=
  match sx_z (sx_nth s 0) with
  | 0 => SCopy (sx_n (sx_nth s 1)) (sx_z (sx_nth s 2))
  | 1 => SFresh (sx_z (sx_nth s 1)) (sx_z (sx_nth s 2))
  | 2 => SText (sx_n (sx_nth s 1)) (sx_b (sx_nth s 2))
  | 3 => SSet (sx_n (sx_nth s 1)) (sx_z (sx_nth s 2))
  | 4 => SReq (sx_n (sx_nth s 1)) (dec_req (sx_nth s 2))
  | _ => SNop
  end.
Definition init_world (init k0 : Z) : world := {| w_cells := [init]; w_holders := [(k0, O)] |}.

Definition wf (i : sx) : bool :=
  let k := sx_z (sx_nth i 0) in (0 <=? k) && (k <=? 3).

Definition model (i : sx) : sx :=
  match sx_z (sx_nth i 0) with
  | 0 => model_level G (sx_z (sx_nth i 1)) (sx_z (sx_nth i 2))
  | 1 => model_text G (sx_z (sx_nth i 1)) (sx_b (sx_nth i 2)) (dec_opt_b (sx_nth i 3)) (dec_opt_b (sx_nth i 4))
  | 2 => SL (map enc_resp (run G (sx_z (sx_nth i 1)) (map dec_req (sx_l (sx_nth i 2)))))
  | 3 => SL (sh_run G (init_world (sx_z (sx_nth i 1)) (sx_z (sx_nth i 2))) (map dec_sop (sx_l (sx_nth i 3))))
  | _ => SL []
  end.

Definition spec (i o : sx) : bool :=
  match sx_z (sx_nth i 0) with
  | 0 => sx_eqb o (expect_level (sx_z (sx_nth i 1)) (sx_z (sx_nth i 2)))
  | 1 => sx_eqb o (expect_text (sx_z (sx_nth i 1)) (sx_b (sx_nth i 2)) (dec_opt_b (sx_nth i 3)) (dec_opt_b (sx_nth i 4)))
  | 2 => spec_hist (sx_z (sx_nth i 1)) (map dec_req (sx_l (sx_nth i 2))) (sx_l o)
  | 3 => spec_sh_hist (init_world (sx_z (sx_nth i 1)) (sx_z (sx_nth i 2))) (map dec_sop (sx_l (sx_nth i 3))) (sx_l o)
  | _ => false
  end.

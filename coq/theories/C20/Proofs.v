(* C20 — stub *)
From Zap Require Import Base.Wire C20.Model.

(* C20 -- proofs.  Structure:
   1. association lists, byte case mapping
   2. facts about the specification alone (round trip, case-insensitivity, exact acceptance set)
   3. soundness of [checker]: any tables that pass it make the model of level.go equal to the spec
   4. the HTTP handler: one request, histories
   5. the generated tables pass the checker (vm_compute) -- the reflective step
   6. the code before the fix (bytes.ToLower) violates the property
   7. wire-level statement *)
From Coq Require Import List ZArith Bool Lia.
From Coq.Strings Require Import Byte.
Import ListNotations.
From Zap Require Import Base.Wire C20.Model.
Open Scope Z_scope.

(* ------------------------------------------------------------------ *)
(* 1. generic *)

Lemma sx_eqb_refl s : sx_eqb s s = true.
Proof.
  revert s. fix IH 1. intros [z|b|l]; cbn.
  - apply Z.eqb_refl.
  - now apply bytes_eqb_eq.
  - induction l as [|a r IHr]; [reflexivity|]. now rewrite IH, IHr.
Qed.

Lemma bytes_eqb_refl s : bytes_eqb s s = true.
Proof. now apply bytes_eqb_eq. Qed.

Lemma bytes_eqb_false_ne a b : bytes_eqb a b = false -> a <> b.
Proof. intros H E. subst b. rewrite bytes_eqb_refl in H. discriminate. Qed.

Lemma assoc_b_in {A} (t : list (bytes * A)) s v : assoc_b t s = Some v -> In (s, v) t.
Proof.
  induction t as [|[k w] r IH]; cbn [assoc_b]; [discriminate|].
  destruct (bytes_eqb k s) eqn:E.
  - intros [= ->]. apply bytes_eqb_eq in E. subst k. now left.
  - intros H. right. now apply IH.
Qed.

Lemma assoc_z_in t l v : assoc_z t l = Some v -> In (l, v) t.
Proof.
  induction t as [|[k w] r IH]; cbn [assoc_z]; [discriminate|].
  destruct (k =? l) eqn:E.
  - intros [= ->]. apply Z.eqb_eq in E. subst k. now left.
  - intros H. right. now apply IH.
Qed.

Lemma opt_z_eqb_eq a b : opt_z_eqb a b = true -> a = b.
Proof.
  destruct a as [x|], b as [y|]; cbn; try discriminate; try reflexivity.
  intros H. apply Z.eqb_eq in H. now subst.
Qed.
Lemma opt_bytes_eqb_eq a b : opt_bytes_eqb a b = true -> a = b.
Proof.
  destruct a as [x|], b as [y|]; cbn; try discriminate; try reflexivity.
  intros H. apply bytes_eqb_eq in H. now subst.
Qed.

(* two switch tables that contain each other denote the same function *)
Lemma assoc_b_ext (t1 t2 : list (bytes * Z)) :
  (forall k v, In (k, v) t1 -> assoc_b t2 k = Some v) ->
  (forall k v, In (k, v) t2 -> assoc_b t1 k = Some v) ->
  forall s, assoc_b t1 s = assoc_b t2 s.
Proof.
  intros H12 H21 s.
  destruct (assoc_b t1 s) as [v|] eqn:E1.
  - symmetry. apply H12. now apply assoc_b_in.
  - destruct (assoc_b t2 s) as [w|] eqn:E2; [|reflexivity].
    apply assoc_b_in in E2. apply H21 in E2. congruence.
Qed.

Lemma last_nonempty_default {A} (l : list A) : forall a d d', last (a :: l) d = last (a :: l) d'.
Proof.
  induction l as [|b l IH]; intros a d d'; [reflexivity|].
  change (last (b :: l) d = last (b :: l) d'). apply IH.
Qed.

Lemma lower_byte_idem b : lower_byte (lower_byte b) = lower_byte b.
Proof. destruct b; reflexivity. Qed.
Lemma lower_upper_byte b : lower_byte (upper_byte b) = lower_byte b.
Proof. destruct b; reflexivity. Qed.
Lemma ascii_lower_idem s : ascii_lower (ascii_lower s) = ascii_lower s.
Proof. unfold ascii_lower. rewrite map_map. apply map_ext. exact lower_byte_idem. Qed.
Lemma ascii_lower_upper s : ascii_lower (ascii_upper s) = ascii_lower s.
Proof. unfold ascii_lower, ascii_upper. rewrite map_map. apply map_ext. exact lower_upper_byte. Qed.

(* ------------------------------------------------------------------ *)
(* 2. the specification alone *)

Lemma valid_level_cases l : valid_level l = true -> In l valid_levels.
Proof.
  unfold valid_level. rewrite andb_true_iff, !Z.leb_le. intros [Hlo Hhi]. cbn.
  assert (Hc : -1 = l \/ 0 = l \/ 1 = l \/ 2 = l \/ 3 = l \/ 4 = l \/ 5 = l) by lia.
  tauto.
Qed.

Lemma doc_names_valid l s : In (l, s) doc_names -> valid_level l = true.
Proof.
  cbn. intros H.
  repeat (destruct H as [H|H]; [injection H as <- _; reflexivity|]). contradiction.
Qed.

Lemma doc_names_none l : valid_level l = false -> assoc_z doc_names l = None.
Proof.
  intros Hv. destruct (assoc_z doc_names l) as [s|] eqn:E; [|reflexivity].
  apply assoc_z_in, doc_names_valid in E. congruence.
Qed.

(* every accepted spelling is already lower case, and names a valid level *)
Lemma accept_list_lower k v : In (k, v) accept_list -> ascii_lower k = k /\ valid_level v = true.
Proof.
  cbn. intros H.
  repeat (destruct H as [H|H]; [injection H as <- <-; split; reflexivity|]). contradiction.
Qed.

(* keys of the accept list are distinct: membership determines the lookup *)
Lemma accept_list_lookup k v : In (k, v) accept_list -> assoc_b accept_list k = Some v.
Proof.
  cbn [accept_list In]. intros H.
  repeat (destruct H as [H|H]; [injection H as <- <-; reflexivity|]). contradiction.
Qed.

Theorem spec_parse_exact t l : spec_parse t = Some l <-> In (ascii_lower t, l) accept_list.
Proof.
  unfold spec_parse. split.
  - apply assoc_b_in.
  - apply accept_list_lookup.
Qed.

(* a byte with the high bit set is not an ASCII letter, whatever its low seven bits are:
   asciiToLower leaves it alone, no accepted text contains one, so a text containing one names no level *)
Definition high_bit (b : byte) : bool := 128 <=? Z_of_byte b.
Lemma lower_byte_high b : high_bit (lower_byte b) = high_bit b.
Proof. destruct b; reflexivity. Qed.
Lemma ascii_lower_high t : existsb high_bit (ascii_lower t) = existsb high_bit t.
Proof.
  unfold ascii_lower. induction t as [|b t IH]; [reflexivity|].
  cbn [map existsb]. rewrite lower_byte_high, IH. reflexivity.
Qed.
Lemma accept_list_ascii : forallb (fun '(k, _) => negb (existsb high_bit k)) accept_list = true.
Proof. vm_compute. reflexivity. Qed.
Theorem spec_parse_high_bit t : existsb high_bit t = true -> spec_parse t = None.
Proof.
  intros H. destruct (spec_parse t) as [l|] eqn:E; [|reflexivity].
  apply spec_parse_exact in E.
  pose proof accept_list_ascii as HA. rewrite forallb_forall in HA.
  specialize (HA _ E). cbn beta iota in HA. rewrite ascii_lower_high, H in HA. discriminate.
Qed.

Lemma spec_parse_valid t l : spec_parse t = Some l -> valid_level l = true.
Proof. intros H. apply spec_parse_exact, accept_list_lower in H. tauto. Qed.

Lemma spec_parse_case t t' : ascii_lower t = ascii_lower t' -> spec_parse t = spec_parse t'.
Proof. unfold spec_parse. now intros ->. Qed.

Lemma spec_parse_lower t : spec_parse (ascii_lower t) = spec_parse t.
Proof. apply spec_parse_case, ascii_lower_idem. Qed.
Lemma spec_parse_upper t : spec_parse (ascii_upper t) = spec_parse t.
Proof. apply spec_parse_case, ascii_lower_upper. Qed.

Lemma spec_roundtrip l : valid_level l = true ->
  spec_parse (spec_name l) = Some l /\ spec_parse (spec_capital l) = Some l.
Proof.
  intros Hv. apply valid_level_cases in Hv. cbn [valid_levels In] in Hv.
  repeat (destruct Hv as [Hv|Hv]; [subst l; split; vm_compute; reflexivity|]). contradiction.
Qed.

(* the text printed for a value outside the seven levels is not a level name:
   an out-of-range level cannot come back as a valid one *)
Lemma spec_invalid_not_named l : valid_level l = false ->
  spec_parse (spec_name l) = None /\ spec_parse (spec_capital l) = None.
Proof.
  intros Hv. unfold spec_name, spec_capital. rewrite (doc_names_none l Hv).
  split; reflexivity.
Qed.

Lemma spec_names_distinct l l' : valid_level l = true ->
  spec_parse (spec_name l') = Some l -> l' = l.
Proof.
  intros Hv H. destruct (valid_level l') eqn:Hv'.
  - destruct (spec_roundtrip l' Hv') as [H1 _]. congruence.
  - destruct (spec_invalid_not_named l' Hv') as [H1 _]. congruence.
Qed.

(* ------------------------------------------------------------------ *)
(* 2b. handles on cells: facts about the heap and about the oracle's state machine *)

(* cells and handles *)
Lemma cell_store_length cs : forall a v, length (cell_store cs a v) = length cs.
Proof. induction cs as [|c r IH]; intros [|a] v; cbn; auto. Qed.

Lemma cell_load_store_same cs : forall a v, (a < length cs)%nat -> cell_load (cell_store cs a v) a = v.
Proof.
  unfold cell_load. induction cs as [|c r IH]; intros [|a] v H; cbn in *; try lia; auto.
  apply IH. lia.
Qed.

Lemma cell_load_store_other cs : forall a b v, a <> b -> cell_load (cell_store cs a v) b = cell_load cs b.
Proof.
  unfold cell_load. induction cs as [|c r IH]; intros [|a] [|b] v H; cbn; auto; try congruence.
Qed.

Lemma cell_store_load_id cs : forall a, cell_store cs a (cell_load cs a) = cs.
Proof.
  unfold cell_load. induction cs as [|c r IH]; intros [|a]; cbn; auto. now rewrite IH.
Qed.

Lemma with_cells_id w : with_cells w (w_cells w) = w.
Proof. destruct w; reflexivity. Qed.

(* every handle points into the heap *)
Definition wf_world (w : world) : Prop :=
  forall k a, In (k, a) (w_holders w) -> (a < length (w_cells w))%nat.
(* the level holder h's handle gives access to *)
Definition level_seen (w : world) (h : nat) : option Z := option_map (cell_load (w_cells w)) (handle_of w h).
Definition spec_sh_final (w : world) (ops : list sop) : world := fold_left spec_sh_step ops w.

Lemma handle_of_in w h a : handle_of w h = Some a -> exists k, In (k, a) (w_holders w).
Proof.
  unfold handle_of. destruct (nth_error (w_holders w) h) as [[k a']|] eqn:E; cbn; [|discriminate].
  intros [= ->]. exists k. eapply nth_error_In, E.
Qed.

Lemma handle_of_app w h a ext cs :
  handle_of w h = Some a -> handle_of {| w_cells := cs; w_holders := w_holders w ++ ext |} h = Some a.
Proof.
  unfold handle_of. cbn. destruct (nth_error (w_holders w) h) as [x|] eqn:E; cbn; [|discriminate].
  intros H. rewrite nth_error_app1; [now rewrite E|]. apply nth_error_Some. congruence.
Qed.

(* no operation re-points, reorders or drops a holder: the list only grows at the end *)
Lemma spec_step_holders w o : exists ext, w_holders (spec_sh_step w o) = w_holders w ++ ext.
Proof.
  destruct o as [h k|l k|h t|h l|h r|]; cbn [spec_sh_step spec_update].
  - destruct (handle_of w h); [exists [(k, n)]; reflexivity|exists []; now rewrite app_nil_r].
  - eexists. reflexivity.
  - exists []. rewrite app_nil_r. destruct (spec_parse t); cbn [option_map]; [destruct (handle_of w h)|]; reflexivity.
  - exists []. rewrite app_nil_r. destruct (handle_of w h); reflexivity.
  - exists []. rewrite app_nil_r. destruct (spec_names_level r); cbn [option_map]; [destruct (handle_of w h)|]; reflexivity.
  - exists []. now rewrite app_nil_r.
Qed.

Lemma spec_step_nth w o h x : nth_error (w_holders w) h = Some x ->
  nth_error (w_holders (spec_sh_step w o)) h = Some x.
Proof.
  intros H. destruct (spec_step_holders w o) as [ext ->].
  rewrite nth_error_app1; [exact H|]. apply nth_error_Some. congruence.
Qed.

Lemma spec_step_handle w o h a : handle_of w h = Some a -> handle_of (spec_sh_step w o) h = Some a.
Proof.
  unfold handle_of. destruct (nth_error (w_holders w) h) as [x|] eqn:E; cbn; [|discriminate].
  intros H. now rewrite (spec_step_nth w o h x E).
Qed.

Definition cell_after (w : world) (o : sop) (a : nat) (cur : Z) : Z :=
  match spec_update o with
  | Some (h, l) => match handle_of w h with
                   | Some a' => if Nat.eqb a' a then l else cur
                   | None => cur
                   end
  | None => cur
  end.

Lemma store_at cs a' a l : (a < length cs)%nat ->
  cell_load (cell_store cs a' l) a = if Nat.eqb a' a then l else cell_load cs a.
Proof.
  intros H. destruct (Nat.eqb a' a) eqn:E.
  - apply Nat.eqb_eq in E. subst a'. now apply cell_load_store_same.
  - apply Nat.eqb_neq in E. now apply cell_load_store_other.
Qed.

(* one operation, seen from one cell: it holds the level of the update if the operation is an accepted
   update addressed to a holder of this cell, and what it held before in every other case *)
Lemma spec_step_cell w o a : (a < length (w_cells w))%nat ->
  cell_load (w_cells (spec_sh_step w o)) a = cell_after w o a (cell_load (w_cells w) a) /\
  (length (w_cells w) <= length (w_cells (spec_sh_step w o)))%nat.
Proof.
  intros Ha. unfold cell_after.
  destruct o as [h k|l k|h t|h l|h r|]; cbn [spec_sh_step spec_update].
  - destruct (handle_of w h); cbn; auto.
  - cbn. rewrite app_length. split; [|lia]. unfold cell_load. now rewrite app_nth1.
  - destruct (spec_parse t) as [l|]; cbn [option_map]; [|auto].
    destruct (handle_of w h) as [a'|]; [|auto]. cbn [with_cells w_cells].
    rewrite cell_store_length. split; [now apply store_at|lia].
  - destruct (handle_of w h) as [a'|]; [|auto]. cbn [with_cells w_cells].
    rewrite cell_store_length. split; [now apply store_at|lia].
  - destruct (spec_names_level r) as [l|]; cbn [option_map]; [|auto].
    destruct (handle_of w h) as [a'|]; [|auto]. cbn [with_cells w_cells].
    rewrite cell_store_length. split; [now apply store_at|lia].
  - auto.
Qed.

Lemma spec_step_wf w o : wf_world w -> wf_world (spec_sh_step w o).
Proof.
  intros Hw k a Hin.
  assert (Hmono : forall k a, In (k, a) (w_holders w) -> (a < length (w_cells (spec_sh_step w o)))%nat).
  { intros k' a' H'. specialize (Hw k' a' H'). destruct (spec_step_cell w o a' Hw) as [_ Hl]. lia. }
  destruct o as [h k'|l k'|h t|h l|h r|]; cbn [spec_sh_step spec_update] in *.
  - destruct (handle_of w h) as [g|] eqn:Eh; [|eauto]. cbn in Hin |- *.
    apply in_app_or in Hin. destruct Hin as [Hin|[[= <- <-]|[]]]; [eauto|].
    destruct (handle_of_in w h g Eh) as [k0 H0]. eauto.
  - cbn in Hin |- *. rewrite app_length. cbn.
    apply in_app_or in Hin. destruct Hin as [Hin|[[= <- <-]|[]]]; [|lia].
    specialize (Hw k a Hin). lia.
  - destruct (spec_parse t) as [l|]; cbn [option_map] in *; [|eauto].
    destruct (handle_of w h); eauto.
  - destruct (handle_of w h); eauto.
  - destruct (spec_names_level r) as [l|]; cbn [option_map] in *; [|eauto].
    destruct (handle_of w h); eauto.
  - eauto.
Qed.

Lemma spec_final_wf ops : forall w, wf_world w -> wf_world (spec_sh_final w ops).
Proof.
  unfold spec_sh_final. induction ops as [|o rest IH]; intros w Hw; [exact Hw|].
  cbn [fold_left]. apply IH, spec_step_wf, Hw.
Qed.

Lemma spec_final_nth ops : forall w h x, nth_error (w_holders w) h = Some x ->
  nth_error (w_holders (spec_sh_final w ops)) h = Some x.
Proof.
  unfold spec_sh_final. induction ops as [|o rest IH]; intros w h x H; [exact H|].
  cbn [fold_left]. apply IH, spec_step_nth, H.
Qed.

Lemma spec_final_cell ops : forall w a, (a < length (w_cells w))%nat ->
  cell_load (w_cells (spec_sh_final w ops)) a = last_accepted w ops a (cell_load (w_cells w) a).
Proof.
  unfold spec_sh_final. induction ops as [|o rest IH]; intros w a Ha; [reflexivity|].
  cbn [fold_left last_accepted]. destruct (spec_step_cell w o a Ha) as [Hc Hl].
  rewrite IH by lia. rewrite Hc. reflexivity.
Qed.

Lemma level_seen_of w h k a : nth_error (w_holders w) h = Some (k, a) ->
  level_seen w h = Some (cell_load (w_cells w) a).
Proof. unfold level_seen, handle_of. now intros ->. Qed.

(* ------------------------------------------------------------------ *)
(* 3. soundness of the checker *)

Section Checked.
Variable d : levels.
Hypothesis Hck : checker d = true.

Lemma ck_unmarshal :
  forallb (fun '(t, l) => opt_z_eqb (assoc_b accept_list t) (Some l)) (t_unmarshal d) = true /\
  forallb (fun '(t, l) => opt_z_eqb (assoc_b (t_unmarshal d) t) (Some l)) accept_list = true.
Proof. revert Hck. unfold checker. rewrite !andb_true_iff. tauto. Qed.

Lemma ck_string :
  forallb (fun l => opt_bytes_eqb (assoc_z (t_string d) l) (assoc_z doc_names l)) valid_levels = true /\
  forallb (fun '(l, _) => valid_level l) (t_string d) = true /\
  t_string_pre d = s_Level_pre /\ t_string_post d = [x29].
Proof. revert Hck. unfold checker. rewrite !andb_true_iff, !bytes_eqb_eq. tauto. Qed.

Lemma ck_capital :
  forallb (fun l => opt_bytes_eqb (assoc_z (t_capital d) l) (option_map ascii_upper (assoc_z doc_names l))) valid_levels = true /\
  forallb (fun '(l, _) => valid_level l) (t_capital d) = true /\
  t_capital_pre d = s_LEVEL_pre /\ t_capital_post d = [x29].
Proof. revert Hck. unfold checker. rewrite !andb_true_iff, !bytes_eqb_eq. tauto. Qed.

Lemma ck_range : t_bits d = 8 /\ t_min d = -1 /\ t_max d = 5 /\ t_invalid d = 6.
Proof. revert Hck. unfold checker. rewrite !andb_true_iff, !Z.eqb_eq. tauto. Qed.

(* unmarshalText's switch is the documented acceptance table *)
Lemma unmarshal_table_spec s : assoc_b (t_unmarshal d) s = assoc_b accept_list s.
Proof.
  destruct ck_unmarshal as [H1 H2]. rewrite forallb_forall in H1, H2.
  apply assoc_b_ext.
  - intros k v Hin. exact (opt_z_eqb_eq _ _ (H1 (k, v) Hin)).
  - intros k v Hin. exact (opt_z_eqb_eq _ _ (H2 (k, v) Hin)).
Qed.

Lemma table_outside (t : list (Z * bytes)) l :
  forallb (fun '(l, _) => valid_level l) t = true -> valid_level l = false -> assoc_z t l = None.
Proof.
  intros Hall Hv. destruct (assoc_z t l) as [s|] eqn:E; [|reflexivity].
  apply assoc_z_in in E. rewrite forallb_forall in Hall. specialize (Hall (l, s) E).
  cbn in Hall. congruence.
Qed.

Lemma string_table_spec l : assoc_z (t_string d) l = assoc_z doc_names l.
Proof.
  destruct ck_string as (H1 & H2 & _ & _). destruct (valid_level l) eqn:Hv.
  - rewrite forallb_forall in H1. apply opt_bytes_eqb_eq, H1, valid_level_cases, Hv.
  - rewrite (table_outside _ l H2 Hv), (doc_names_none l Hv). reflexivity.
Qed.
Lemma capital_table_spec l : assoc_z (t_capital d) l = option_map ascii_upper (assoc_z doc_names l).
Proof.
  destruct ck_capital as (H1 & H2 & _ & _). destruct (valid_level l) eqn:Hv.
  - rewrite forallb_forall in H1. apply opt_bytes_eqb_eq, H1, valid_level_cases, Hv.
  - rewrite (table_outside _ l H2 Hv), (doc_names_none l Hv). reflexivity.
Qed.

Theorem level_string_spec l : level_string d l = spec_name l.
Proof.
  destruct ck_string as (_ & _ & Hpre & Hpost).
  unfold level_string, spec_name. rewrite string_table_spec, Hpre, Hpost. reflexivity.
Qed.
Theorem level_capital_spec l : level_capital d l = spec_capital l.
Proof.
  destruct ck_capital as (_ & _ & Hpre & Hpost).
  unfold level_capital, spec_capital. rewrite capital_table_spec, Hpre, Hpost.
  destruct (assoc_z doc_names l); reflexivity.
Qed.
Lemma level_marshal_text_spec l : level_marshal_text d l = spec_name l.
Proof. apply level_string_spec. Qed.

(* UnmarshalText = the specification, for every text and every prior target value *)
Theorem unmarshal_text_spec tgt t : level_unmarshal_text d tgt t = spec_result tgt t.
Proof.
  unfold level_unmarshal_text, unmarshal_step, spec_result, spec_parse.
  rewrite !unmarshal_table_spec.
  destruct (assoc_b accept_list t) as [v|] eqn:E.
  - apply assoc_b_in in E. destruct (accept_list_lower _ _ E) as [Hl _].
    rewrite Hl. apply accept_list_lookup in E. rewrite E. reflexivity.
  - destruct (assoc_b accept_list (ascii_lower t)); reflexivity.
Qed.

Lemma level_set_spec tgt t : level_set d tgt t = spec_result tgt t.
Proof. apply unmarshal_text_spec. Qed.
Lemma parse_level_spec t : parse_level d t = spec_result 0 t.
Proof. apply unmarshal_text_spec. Qed.
Lemma atomic_unmarshal_text_spec a t :
  atomic_unmarshal_text d a t = spec_result (match a with Some v => v | None => 0 end) t.
Proof.
  unfold atomic_unmarshal_text. rewrite unmarshal_text_spec. unfold spec_result.
  destruct (spec_parse t); reflexivity.
Qed.
Lemma parse_atomic_level_spec t : parse_atomic_level d t = spec_result 0 t.
Proof.
  unfold parse_atomic_level. rewrite parse_level_spec. unfold spec_result.
  destruct (spec_parse t); reflexivity.
Qed.

(* every textual entry point is UnmarshalText on the appropriate target *)
Theorem entry_points_thm tgt t :
  level_set d tgt t = level_unmarshal_text d tgt t /\
  parse_level d t = level_unmarshal_text d 0 t /\
  atomic_unmarshal_text d (Some tgt) t = level_unmarshal_text d tgt t /\
  atomic_unmarshal_text d None t = level_unmarshal_text d 0 t /\
  parse_atomic_level d t = level_unmarshal_text d 0 t.
Proof.
  rewrite level_set_spec, parse_level_spec, !atomic_unmarshal_text_spec, parse_atomic_level_spec,
          !unmarshal_text_spec. auto.
Qed.

(* ---- the property's clauses about texts ---- *)

Theorem roundtrip_thm l tgt : valid_level l = true ->
  level_unmarshal_text d tgt (level_string d l) = (l, true) /\
  level_unmarshal_text d tgt (level_capital d l) = (l, true) /\
  level_unmarshal_text d tgt (level_marshal_text d l) = (l, true).
Proof.
  intros Hv. rewrite level_marshal_text_spec, level_string_spec, level_capital_spec, !unmarshal_text_spec.
  unfold spec_result. destruct (spec_roundtrip l Hv) as [-> ->]. auto.
Qed.

Theorem case_insensitive_thm tgt t t' : ascii_lower t = ascii_lower t' ->
  level_unmarshal_text d tgt t = level_unmarshal_text d tgt t'.
Proof.
  intros H. rewrite !unmarshal_text_spec. unfold spec_result. now rewrite (spec_parse_case t t' H).
Qed.

Theorem any_case_of_name_thm l tgt t : valid_level l = true ->
  ascii_lower t = level_string d l -> level_unmarshal_text d tgt t = (l, true).
Proof.
  intros Hv H. rewrite unmarshal_text_spec. unfold spec_result.
  rewrite <- spec_parse_lower, H, level_string_spec. now destruct (spec_roundtrip l Hv) as [-> _].
Qed.

Theorem accept_exact_thm tgt t :
  (forall l, level_unmarshal_text d tgt t = (l, true) <-> In (ascii_lower t, l) accept_list) /\
  ((forall l, ~ In (ascii_lower t, l) accept_list) -> level_unmarshal_text d tgt t = (tgt, false)).
Proof.
  rewrite unmarshal_text_spec. unfold spec_result. split.
  - intros l. rewrite <- spec_parse_exact. destruct (spec_parse t) as [v|].
    + split; [intros [= ->]; reflexivity|intros [= ->]; reflexivity].
    + split; discriminate.
  - intros Hno. destruct (spec_parse t) as [v|] eqn:E; [|reflexivity].
    apply spec_parse_exact in E. now apply Hno in E.
Qed.

Theorem reject_unchanged_thm tgt t l ok :
  level_unmarshal_text d tgt t = (l, ok) -> ok = false -> l = tgt /\ spec_parse t = None.
Proof.
  rewrite unmarshal_text_spec. unfold spec_result.
  destruct (spec_parse t); intros [= <- <-] Hok; [discriminate|auto].
Qed.

Theorem high_bit_rejected_thm tgt t : existsb high_bit t = true ->
  level_unmarshal_text d tgt t = (tgt, false).
Proof.
  intros H. rewrite unmarshal_text_spec. unfold spec_result.
  rewrite (spec_parse_high_bit _ H). reflexivity.
Qed.

Theorem empty_info_thm tgt : level_unmarshal_text d tgt [] = (0, true).
Proof. rewrite unmarshal_text_spec. reflexivity. Qed.

Theorem invalid_level_text_rejected_thm l tgt : valid_level l = false ->
  level_unmarshal_text d tgt (level_string d l) = (tgt, false) /\
  level_unmarshal_text d tgt (level_capital d l) = (tgt, false).
Proof.
  intros Hv. rewrite level_string_spec, level_capital_spec, !unmarshal_text_spec. unfold spec_result.
  destruct (spec_invalid_not_named l Hv) as [-> ->]. auto.
Qed.

(* ------------------------------------------------------------------ *)
(* 4. the HTTP handler *)

Definition all_named (texts : list bytes) : bool := forallb (fun t => is_some (spec_parse t)) texts.

Lemma json_texts_spec texts : forall p err,
  snd (json_texts d p err texts) = err || negb (all_named texts) /\
  (snd (json_texts d p err texts) = false ->
   fst (json_texts d p err texts) = match rev texts with [] => p | t :: _ => spec_parse t end).
Proof.
  induction texts as [|t r IH]; intros p err.
  - cbn. rewrite orb_false_r. auto.
  - cbn [json_texts]. rewrite unmarshal_text_spec. unfold spec_result.
    set (tgt := match p with Some v => v | None => 0 end).
    destruct (spec_parse t) as [v|] eqn:Et.
    + destruct (IH (Some v) (err || negb true)) as [IH1 IH2]. split.
      * rewrite IH1. cbn [all_named forallb]. fold (all_named r). rewrite Et. cbn. now rewrite orb_false_r.
      * intros Hs. rewrite (IH2 Hs). cbn [rev].
        destruct (rev r) as [|x xs] eqn:Er; cbn [app]; [now rewrite Et|reflexivity].
    + destruct (IH (Some tgt) (err || negb false)) as [IH1 IH2]. split.
      * rewrite IH1. cbn [all_named forallb]. rewrite Et. cbn. now rewrite !orb_true_r.
      * intros Hs. rewrite IH1 in Hs. cbn in Hs. rewrite orb_true_r in Hs. discriminate.
Qed.

Lemma decode_put_json_spec j :
  decode_put_json d j =
  match j with
  | JErr => DBad
  | JOk texts final_nil =>
      if final_nil then DBad
      else if all_named texts then
        match rev texts with
        | [] => DBad
        | t :: _ => match spec_parse t with Some l => DLevel l | None => DBad end
        end
      else DBad
  end.
Proof.
  destruct j as [|texts fin]; [reflexivity|]. unfold decode_put_json.
  destruct (json_texts_spec texts None false) as [H1 H2].
  destruct (json_texts d None false texts) as [p e]. cbn [fst snd] in H1, H2.
  cbn [orb] in H1. subst e.
  destruct (all_named texts) eqn:Ea; cbn [negb].
  - rewrite (H2 eq_refl). destruct fin; [reflexivity|].
    destruct (rev texts) as [|t ts]; [reflexivity|]. destruct (spec_parse t); reflexivity.
  - destruct fin; reflexivity.
Qed.

Definition of_named (o : option Z) : decoded := match o with Some l => DLevel l | None => DBad end.

(* the decoding of a PUT request succeeds exactly when the request names a valid level, with that level *)
Theorem decode_put_request_spec r : bytes_eqb (r_method r) s_put = true ->
  decode_put_request d r = of_named (spec_names_level r).
Proof.
  intros Hput. unfold decode_put_request, spec_names_level. rewrite Hput.
  destruct (bytes_eqb (r_ctype r) s_form_ctype).
  - unfold decode_put_url. destruct (is_nil (form_value (r_form r) s_level)); [reflexivity|].
    rewrite unmarshal_text_spec. unfold spec_result.
    destruct (spec_parse (form_value (r_form r) s_level)); reflexivity.
  - rewrite decode_put_json_spec. destruct (r_json r) as [|texts fin]; [reflexivity|].
    destruct fin; [reflexivity|]. fold (all_named texts).
    destruct (all_named texts); [|reflexivity].
    destruct (rev texts) as [|t ts]; [reflexivity|]. destruct (spec_parse t); reflexivity.
Qed.

Lemma get_is_not_put m : bytes_eqb m s_get = true -> bytes_eqb m s_put = false.
Proof. intros H. apply bytes_eqb_eq in H. subst m. reflexivity. Qed.

Lemma names_level_put r l : spec_names_level r = Some l -> bytes_eqb (r_method r) s_put = true.
Proof. unfold spec_names_level. destruct (bytes_eqb (r_method r) s_put); [reflexivity|discriminate]. Qed.

Lemma names_level_valid r l : spec_names_level r = Some l -> valid_level l = true.
Proof.
  unfold spec_names_level. destruct (bytes_eqb (r_method r) s_put); [|discriminate].
  destruct (bytes_eqb (r_ctype r) s_form_ctype).
  - destruct (is_nil (form_value (r_form r) s_level)); [discriminate|]. apply spec_parse_valid.
  - destruct (r_json r) as [|texts fin]; [discriminate|]. destruct fin; [discriminate|].
    destruct (forallb _ texts); [|discriminate].
    destruct (rev texts) as [|t ts]; [discriminate|]. apply spec_parse_valid.
Qed.

(* the complete description of one request *)
Theorem serve_spec cur r :
  serve d cur r =
  if bytes_eqb (r_method r) s_get then
    {| status := 200; kind := 1; payload := spec_payload cur; after := cur; mask := enabled_mask cur |}
  else match spec_names_level r with
       | Some l => {| status := 200; kind := 1; payload := spec_payload l; after := l; mask := enabled_mask l |}
       | None => {| status := if bytes_eqb (r_method r) s_put then 400 else 405;
                    kind := 2; payload := []; after := cur; mask := enabled_mask cur |}
       end.
Proof.
  unfold serve, level_payload, spec_payload. rewrite !level_marshal_text_spec.
  destruct (bytes_eqb (r_method r) s_get) eqn:Hg; [reflexivity|].
  destruct (bytes_eqb (r_method r) s_put) eqn:Hp.
  - rewrite (decode_put_request_spec r Hp).
    destruct (spec_names_level r) as [l|]; cbn [of_named]; rewrite ?level_marshal_text_spec; reflexivity.
  - unfold spec_names_level. rewrite Hp. reflexivity.
Qed.

Theorem step_ok_thm cur r : step_ok cur r (serve d cur r) = true.
Proof.
  rewrite serve_spec. unfold step_ok.
  destruct (bytes_eqb (r_method r) s_get) eqn:Hg; cbn [status kind payload after mask].
  - now rewrite bytes_eqb_refl, !Z.eqb_refl.
  - destruct (spec_names_level r) as [l|]; cbn [status kind payload after mask].
    + now rewrite bytes_eqb_refl, !Z.eqb_refl.
    + rewrite !Z.eqb_refl. destruct (bytes_eqb (r_method r) s_put); reflexivity.
Qed.

Lemma after_serve cur r :
  after (serve d cur r) = match spec_names_level r with Some l => l | None => cur end.
Proof.
  rewrite serve_spec. destruct (bytes_eqb (r_method r) s_get) eqn:Hg.
  - unfold spec_names_level. rewrite (get_is_not_put _ Hg). reflexivity.
  - destruct (spec_names_level r); reflexivity.
Qed.

(* the level changes only on a PUT that names a valid level, and then to exactly that level *)
Theorem http_step_thm cur r :
  let o := serve d cur r in
  (forall l, spec_names_level r = Some l ->
     status o = 200 /\ after o = l /\ payload o = spec_payload l /\ valid_level l = true) /\
  (spec_names_level r = None ->
     after o = cur /\
     (bytes_eqb (r_method r) s_get = true -> status o = 200 /\ payload o = spec_payload cur) /\
     (bytes_eqb (r_method r) s_get = false ->
        status o = (if bytes_eqb (r_method r) s_put then 400 else 405) /\ kind o = 2)) /\
  (after o <> cur -> bytes_eqb (r_method r) s_put = true /\ spec_names_level r = Some (after o)) /\
  mask o = enabled_mask (after o).
Proof.
  cbn zeta. rewrite serve_spec. repeat split.
  - destruct (bytes_eqb (r_method r) s_get) eqn:Hg.
    + apply names_level_put in H. rewrite (get_is_not_put _ Hg) in H. discriminate.
    + rewrite H. reflexivity.
  - destruct (bytes_eqb (r_method r) s_get) eqn:Hg.
    + apply names_level_put in H. rewrite (get_is_not_put _ Hg) in H. discriminate.
    + rewrite H. reflexivity.
  - destruct (bytes_eqb (r_method r) s_get) eqn:Hg.
    + apply names_level_put in H. rewrite (get_is_not_put _ Hg) in H. discriminate.
    + rewrite H. reflexivity.
  - exact (names_level_valid r l H).
  - destruct (bytes_eqb (r_method r) s_get); [reflexivity|]. rewrite H. reflexivity.
  - rewrite H0. reflexivity.
  - rewrite H0. reflexivity.
  - rewrite H0, H. reflexivity.
  - rewrite H0, H. reflexivity.
  - destruct (bytes_eqb (r_method r) s_get) eqn:Hg; cbn [after] in H; [congruence|].
    destruct (spec_names_level r) as [l|] eqn:En; cbn [after] in H; [|congruence].
    exact (names_level_put r l En).
  - destruct (bytes_eqb (r_method r) s_get) eqn:Hg; cbn [after] in H |- *; [congruence|].
    destruct (spec_names_level r) as [l|] eqn:En; cbn [after] in H |- *; [reflexivity|congruence].
  - destruct (bytes_eqb (r_method r) s_get); [reflexivity|].
    destruct (spec_names_level r); reflexivity.
Qed.

(* histories *)
Lemma final_level_spec rs : forall cur, final_level d cur rs = spec_final cur rs.
Proof.
  unfold final_level, spec_final. induction rs as [|r rest IH]; intros cur; [reflexivity|].
  cbn [fold_left]. rewrite after_serve. apply IH.
Qed.

Lemma run_length rs : forall cur, length (run d cur rs) = length rs.
Proof. induction rs as [|r rest IH]; intros cur; cbn [run length]; [reflexivity|]. now rewrite IH. Qed.

(* every response of a history is correct for the level in force when its request arrived *)
Fixpoint hist_ok (cur : Z) (rs : list request) (os : list resp) : Prop :=
  match rs, os with
  | [], [] => True
  | r :: rs', o :: os' => step_ok cur r o = true /\ hist_ok (after o) rs' os'
  | _, _ => False
  end.

Lemma run_hist_ok rs : forall cur, hist_ok cur rs (run d cur rs).
Proof.
  induction rs as [|r rest IH]; intros cur; cbn [run hist_ok]; [exact I|].
  split; [apply step_ok_thm|apply IH].
Qed.

Lemma last_after_run rs : forall cur,
  last (map after (run d cur rs)) cur = final_level d cur rs.
Proof.
  unfold final_level. induction rs as [|r rest IH]; intros cur; [reflexivity|].
  cbn [run map fold_left]. rewrite <- IH.
  destruct (run d (after (serve d cur r)) rest) as [|o os] eqn:E; [reflexivity|].
  cbn [map]. change (last (after o :: map after os) cur = last (after o :: map after os) (after (serve d cur r))).
  apply last_nonempty_default.
Qed.

Theorem http_history_thm init rs :
  hist_ok init rs (run d init rs) /\
  final_level d init rs = spec_final init rs /\
  last (map after (run d init rs)) init = spec_final init rs /\
  (spec_final init rs = init \/ valid_level (spec_final init rs) = true).
Proof.
  split; [apply run_hist_ok|]. split; [apply final_level_spec|].
  split; [rewrite last_after_run; apply final_level_spec|].
  unfold spec_final. revert init. induction rs as [|r rest IH]; intros init; [now left|].
  cbn [fold_left]. destruct (spec_names_level r) as [l|] eqn:En.
  - right. destruct (IH l) as [-> | Hv]; [exact (names_level_valid r l En)|exact Hv].
  - apply IH.
Qed.

(* a history in which no PUT names a level leaves the level alone *)
Lemma history_unchanged_thm init rs :
  (forall r, In r rs -> spec_names_level r = None) -> final_level d init rs = init.
Proof.
  rewrite final_level_spec. unfold spec_final. revert init.
  induction rs as [|r rest IH]; intros init Hall; [reflexivity|].
  cbn [fold_left]. rewrite (Hall r (or_introl eq_refl)). apply IH.
  intros r' Hin. apply Hall. now right.
Qed.

(* ---- one level, many holders ---- *)

(* the model of level.go / http_handler.go over the heap IS the oracle's state machine *)
Lemma sh_step_spec w o :
  fst (sh_step d w o) = spec_sh_step w o /\ spec_res w o (snd (sh_step d w o)) = true.
Proof.
  destruct o as [h k|l k|h t|h l|h r|]; cbn [sh_step spec_sh_step spec_update spec_res].
  - destruct (handle_of w h); cbn; auto.
  - cbn. auto.
  - rewrite unmarshal_text_spec. unfold spec_result.
    destruct (spec_parse t) as [l|]; cbn [option_map is_some];
      destruct (handle_of w h) as [a|]; cbn; auto.
  - destruct (handle_of w h) as [a|]; cbn; auto.
  - destruct (handle_of w h) as [a|] eqn:Eh.
    + cbn [fst snd]. rewrite after_serve. split.
      * destruct (spec_names_level r) as [l|]; cbn [option_map]; [now rewrite Eh|].
        now rewrite cell_store_load_id, with_cells_id.
      * unfold enc_reply, reply_ok. cbn [sx_nth sx_l nth sx_z sx_b]. rewrite serve_spec.
        destruct (bytes_eqb (r_method r) s_get) eqn:Hg; cbn [status kind payload].
        -- now rewrite bytes_eqb_refl, !Z.eqb_refl.
        -- destruct (spec_names_level r) as [l|]; cbn [status kind payload].
           ++ now rewrite bytes_eqb_refl, !Z.eqb_refl.
           ++ rewrite Z.eqb_refl. destruct (bytes_eqb (r_method r) s_put); reflexivity.
    + cbn [fst snd]. split; [|reflexivity].
      destruct (spec_names_level r); cbn [option_map]; [now rewrite Eh|reflexivity].
  - cbn. auto.
Qed.

Lemma read_holder_spec k v : read_holder d k v = spec_read k v.
Proof.
  unfold read_holder, spec_read. rewrite serve_spec.
  destruct (k =? 1); [reflexivity|]. destruct (k =? 2); reflexivity.
Qed.

(* what every holder reports is the level of the cell its handle points to, in its own form *)
Lemma snapshot_spec w : snapshot d w = spec_snapshot w.
Proof.
  unfold snapshot, spec_snapshot. f_equal. apply map_ext. intros [k a]. apply read_holder_spec.
Qed.

Lemma sh_final_spec ops : forall w, sh_final d w ops = spec_sh_final w ops.
Proof.
  unfold sh_final, spec_sh_final. induction ops as [|o rest IH]; intros w; [reflexivity|].
  cbn [fold_left]. destruct (sh_step_spec w o) as [-> _]. apply IH.
Qed.

Lemma spec_sh_hist_run ops : forall w, spec_sh_hist w ops (sh_run d w ops) = true.
Proof.
  induction ops as [|o rest IH]; intros w; [reflexivity|].
  cbn [sh_run]. destruct (sh_step_spec w o) as [H1 H2].
  destruct (sh_step d w o) as [w' res]. cbn [fst snd] in H1, H2. subst w'.
  cbn [spec_sh_hist sx_nth sx_l nth]. rewrite H2, snapshot_spec, sx_eqb_refl. cbn [andb]. apply IH.
Qed.

(* no operation -- in particular no text decoded into a variable -- re-points, replaces or drops a
   holder's handle: copies taken earlier stay copies of the same level for ever *)
Theorem shared_handles_kept_thm w ops h x : nth_error (w_holders w) h = Some x ->
  nth_error (w_holders (sh_final d w ops)) h = Some x.
Proof. rewrite sh_final_spec. apply spec_final_nth. Qed.

(* an accepted update through holder h (valid level text, SetLevel, PUT naming a valid level) is in force
   for EVERY holder of the same cell and for no other holder *)
Theorem shared_update_thm w o h l a : wf_world w ->
  spec_update o = Some (h, l) -> handle_of w h = Some a ->
  forall j aj, handle_of w j = Some aj ->
    level_seen (fst (sh_step d w o)) j = Some (if Nat.eqb aj a then l else cell_load (w_cells w) aj).
Proof.
  intros Hw Hu Hh j aj Hj. destruct (sh_step_spec w o) as [-> _].
  unfold level_seen. rewrite (spec_step_handle w o j aj Hj). cbn [option_map]. f_equal.
  destruct (handle_of_in w j aj Hj) as [k Hin].
  destruct (spec_step_cell w o aj (Hw k aj Hin)) as [-> _].
  unfold cell_after. rewrite Hu, Hh. rewrite Nat.eqb_sym. reflexivity.
Qed.

(* anything else -- rejected text, a request that does not name a valid level, a copy, an unrelated
   new AtomicLevel -- changes the level seen through no holder; rejected text returns an error and
   leaves the whole world as it was *)
Theorem shared_rejected_thm w o : wf_world w -> spec_update o = None ->
  (forall j aj, handle_of w j = Some aj ->
     level_seen (fst (sh_step d w o)) j = Some (cell_load (w_cells w) aj)) /\
  (forall h t, o = SText h t -> handle_of w h <> None -> sh_step d w o = (w, of_bool false)).
Proof.
  intros Hw Hu. split.
  - intros j aj Hj. destruct (sh_step_spec w o) as [-> _].
    unfold level_seen. rewrite (spec_step_handle w o j aj Hj). cbn [option_map]. f_equal.
    destruct (handle_of_in w j aj Hj) as [k Hin].
    destruct (spec_step_cell w o aj (Hw k aj Hin)) as [-> _].
    unfold cell_after. now rewrite Hu.
  - intros h t -> Hh. cbn [spec_update] in Hu. cbn [sh_step].
    destruct (handle_of w h) as [a|]; [|congruence].
    rewrite unmarshal_text_spec. unfold spec_result.
    destruct (spec_parse t); [discriminate|reflexivity].
Qed.

(* histories: through every holder one sees the level of the last accepted update addressed to ANY
   holder of the same cell, else the level the cell held at the start *)
Theorem shared_history_thm w ops j k a : wf_world w -> nth_error (w_holders w) j = Some (k, a) ->
  nth_error (w_holders (sh_final d w ops)) j = Some (k, a) /\
  level_seen (sh_final d w ops) j = Some (last_accepted w ops a (cell_load (w_cells w) a)).
Proof.
  intros Hw Hj. rewrite sh_final_spec.
  pose proof (spec_final_nth ops w j (k, a) Hj) as Hn. split; [exact Hn|].
  rewrite (level_seen_of _ j k a Hn). f_equal. apply spec_final_cell.
  apply (Hw k a). eapply nth_error_In, Hj.
Qed.

(* ... so that all holders of one level agree after every history, whatever the holder each update
   went through *)
Theorem shared_agree_thm w ops i j a : wf_world w ->
  handle_of w i = Some a -> handle_of w j = Some a ->
  level_seen (sh_final d w ops) i = level_seen (sh_final d w ops) j /\
  handle_of (sh_final d w ops) i = handle_of (sh_final d w ops) j.
Proof.
  intros Hw Hi Hj. unfold handle_of in Hi, Hj.
  destruct (nth_error (w_holders w) i) as [[ki ai]|] eqn:Ei; cbn in Hi; [|discriminate].
  destruct (nth_error (w_holders w) j) as [[kj aj]|] eqn:Ej; cbn in Hj; [|discriminate].
  injection Hi as ->. injection Hj as ->.
  destruct (shared_history_thm w ops i ki a Hw Ei) as [Ni Li].
  destruct (shared_history_thm w ops j kj a Hw Ej) as [Nj Lj].
  split; [now rewrite Li, Lj|]. unfold handle_of. now rewrite Ni, Nj.
Qed.

(* wire level, parametrically in the tables *)
Lemma dec_enc_resp o : dec_resp (enc_resp o) = o.
Proof. destruct o; reflexivity. Qed.

Lemma spec_hist_run rs : forall cur, spec_hist cur rs (map enc_resp (run d cur rs)) = true.
Proof.
  induction rs as [|r rest IH]; intros cur; [reflexivity|].
  cbn [run map spec_hist]. rewrite dec_enc_resp, step_ok_thm. cbn [andb]. apply IH.
Qed.

Lemma model_level_expect l tgt : model_level d l tgt = expect_level l tgt.
Proof.
  unfold model_level, expect_level.
  rewrite level_marshal_text_spec, level_string_spec, level_capital_spec, !unmarshal_text_spec. reflexivity.
Qed.

Lemma model_text_expect tgt t jt yt : model_text d tgt t jt yt = expect_text tgt t jt yt.
Proof.
  unfold model_text, expect_text.
  destruct jt as [j|], yt as [y|]; cbn [opt_rt];
    rewrite ?level_set_spec, ?parse_level_spec, ?parse_atomic_level_spec, ?atomic_unmarshal_text_spec,
            ?unmarshal_text_spec; reflexivity.
Qed.

End Checked.

(* ------------------------------------------------------------------ *)
(* 5. the reflective step: the tables regenerated from the source pass the checker *)

Lemma G_checked : checker G = true.
Proof. vm_compute. reflexivity. Qed.

(* ------------------------------------------------------------------ *)
(* 6. the code before the fix.  bytes.ToLower is Unicode-aware: U+0130 lower-cases to ASCII i
   (the harness reports bytes.ToLower of the witness on every run as
   !INFO go_bytes_ToLower_U+0130nfo=696e666f). *)

Definition orig_witness_text : bytes := [xc4; xb0; x6e; x66; x6f].      (* U+0130 n f o *)
Definition orig_witness_lowered : bytes := [x69; x6e; x66; x6f].        (* info *)

(* full statement for the original code, relative to what bytes.ToLower answers *)
Definition reject_full_orig (go_to_lower : bytes -> bytes) : Prop :=
  forall tgt t, level_unmarshal_text_orig G tgt t (go_to_lower t) = spec_result tgt t.

Lemma reject_full_orig_refuted go_to_lower :
  go_to_lower orig_witness_text = orig_witness_lowered -> ~ reject_full_orig go_to_lower.
Proof.
  intros Hlow Hfull. specialize (Hfull 42 orig_witness_text). rewrite Hlow in Hfull.
  vm_compute in Hfull. discriminate.
Qed.

Lemma orig_accepts_non_ascii :
  level_unmarshal_text_orig G 42 orig_witness_text orig_witness_lowered = (0, true) /\
  spec_result 42 orig_witness_text = (42, false) /\
  level_unmarshal_text G 42 orig_witness_text = (42, false).
Proof. vm_compute. auto. Qed.

(* on ASCII text bytes.ToLower is ASCII lower-casing, and there the two versions agree *)
Lemma orig_agrees_on_ascii d tgt t :
  level_unmarshal_text_orig d tgt t (ascii_lower t) = level_unmarshal_text d tgt t.
Proof. reflexivity. Qed.

(* ------------------------------------------------------------------ *)
(* 7. wire *)

Theorem spec_model i : wf i = true -> spec i (model i) = true.
Proof.
  unfold wf, spec, model. set (k := sx_z (sx_nth i 0)).
  rewrite andb_true_iff, !Z.leb_le. intros [Hlo Hhi].
  assert (Hk : k = 0 \/ k = 1 \/ k = 2 \/ k = 3) by lia.
  destruct Hk as [-> | [-> | [-> | ->]]].
  - rewrite (model_level_expect G G_checked). apply sx_eqb_refl.
  - rewrite (model_text_expect G G_checked). apply sx_eqb_refl.
  - cbn [sx_l]. apply (spec_hist_run G G_checked).
  - cbn [sx_l]. apply (spec_sh_hist_run G G_checked).
Qed.

Lemma init_world_wf init k0 : wf_world (init_world init k0).
Proof. intros k a [[= <- <-]|[]]. cbn. lia. Qed.

(* the 'deduplicated' UnmarshalText (the receiver is assigned a freshly parsed AtomicLevel): the variable
   reads debug, the logger built from it before the update still stands at info, and the two no
   longer share a cell; the oracle rejects exactly that observation *)
Definition repoint_ops : list sop := [SCopy 0 1; SText 0 [x64; x65; x62; x75; x67]].
Lemma repoint_splits :
  let w := fold_left (fun w o => fst (sh_step_repoint G w o)) repoint_ops (init_world 0 0) in
  level_seen w 0 = Some (-1) /\ level_seen w 1 = Some 0 /\ handle_of w 0 <> handle_of w 1 /\
  level_seen (sh_final G (init_world 0 0) repoint_ops) 0 = Some (-1) /\
  level_seen (sh_final G (init_world 0 0) repoint_ops) 1 = Some (-1).
Proof. vm_compute. repeat split; try reflexivity. discriminate. Qed.

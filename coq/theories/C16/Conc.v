(* C16 — concurrent EncodeEntry calls: the machine (definitions only; proofs are in C16/Proofs.v).

   consoleEncoder.EncodeEntry is called without any lock (an ioCore serialises only its sink), and every call
   borrows its column collector (sliceArrayEncoder) from a process-wide sync.Pool.  The line of an entry is
   nevertheless required to be the line of THAT entry: Enc.Console.console_encode, a function of the encoder
   (configuration + accumulated context), the entry and the fields alone.  This file models what the pure
   function abstracts away - collectors are heap objects addressed by reference, handed from goroutine to
   goroutine through the pool, and an EncodeEntry is a sequence of atomic steps that any other goroutine's
   steps may interleave with:

     PStart     --Get-->          PCollect a cols     (a: ANY pooled collector, or a fresh one - sync.Pool
                                                       promises nothing about which; the schedule chooses)
     PCollect a (x :: todo)  -->  PCollect a todo     (one sub-encoder call: elems = append(elems, x))
     PCollect a []           -->  PPrinted a l1       (the loop printing elems into the line)
     PPrinted a l1           -->  PMid a l1           (putSliceEncoder, first statement)
     PMid a l1               -->  PDone out           (putSliceEncoder, second statement; then message, context,
                                                       stack and line ending: `finish`, which touches no
                                                       shared object of this machine)

   `reset_first = true` is the code (elems = elems[:0]; Put).  `reset_first = false` is the two statements
   swapped (publish, then truncate); it is kept expressible so that Proofs.v can show that the theorem is about
   the order of those two statements and not true by construction. *)
From Coq Require Import List ZArith Bool Arith.
From Coq.Strings Require Import Byte.
Import ListNotations.
From Zap Require Import Base.Wire Enc.Bytes Enc.Fields Enc.JsonEnc Enc.WireEnc Enc.Console.

(* what one EncodeEntry call encodes: its encoder (configuration and accumulated With-context, neither of which
   EncodeEntry writes to) and its arguments *)
Record job := { j_cfg : cfg; j_ctx : st; j_ent : entry; j_fs : list fld }.

(* the line the sequential model assigns to the job *)
Definition job_line (j : job) : bytes := console_encode (j_cfg j) (j_ctx j) (j_ent j) (j_fs j).
Definition job_cols (j : job) : list bytes := col_elems (j_cfg j) (j_ent j).

(* consoleEncoder.EncodeEntry after the collected columns have been printed into the line *)
Definition finish (j : job) (l1 : bytes) : bytes :=
  let c := j_cfg j in let ent := j_ent j in
  let l2 := if negb (is_nil (k_message c)) then sep_if_nonempty c l1 ++ message ent else l1 in
  let cb := buf (close_ns (enc_flds c true (j_fs j) (j_ctx j))) in
  let l3 := if is_nil cb then l2 else sep_if_nonempty c l2 ++ [LBRACE] ++ cb ++ [RBRACE] in
  let l4 := if negb (is_nil (stack ent)) && negb (is_nil (k_stack c)) then l3 ++ [NL] ++ stack ent else l3 in
  l4 ++ resolved_le c.

(* the call a goroutine makes when the harness gives it the wire case i: the encoder reached by the case's
   With-chain, the case's entry and fields (exactly what C16.Model.model encodes) *)
Definition case_job (i : sx) : job :=
  let ec := dec_case i in let c := ec_cfg ec in
  {| j_cfg := c; j_ctx := with_chain c true (ec_ctxs ec); j_ent := ec_ent ec; j_fs := ec_fs ec |}.

Inductive pc :=
| PStart
| PCollect (a : nat) (todo : list bytes)
| PPrinted (a : nat) (l1 : bytes)
| PMid (a : nat) (l1 : bytes)
| PDone (out : bytes).

(* the collector a goroutine holds a reference to *)
Definition held (p : pc) : option nat :=
  match p with PCollect a _ | PPrinted a _ | PMid a _ => Some a | _ => None end.

Record mach := {
  heap : nat -> list bytes;   (* sliceArrayEncoder.elems of the collector at each address *)
  nxt : nat;                  (* next fresh address *)
  pool : list nat;            (* _sliceEncoderPool *)
  pcs : nat -> pc             (* goroutine id -> where its EncodeEntry call stands *)
}.

Definition upd {A} (f : nat -> A) (k : nat) (v : A) : nat -> A := fun x => if Nat.eqb x k then v else f x.
Fixpoint rm (a : nat) (l : list nat) : list nat :=
  match l with [] => [] | b :: r => if Nat.eqb b a then rm a r else b :: rm a r end.

Definition init : mach := {| heap := fun _ => []; nxt := 0; pool := []; pcs := fun _ => PStart |}.

Section Machine.
Variable jobs : nat -> job.       (* goroutine id -> the call it makes *)
Variable reset_first : bool.

(* one atomic step of goroutine t; k is the pool's choice on Get (k-th pooled collector, or New when there is
   no k-th one) *)
Definition step (tk : nat * nat) (m : mach) : mach :=
  let (t, k) := tk in
  let j := jobs t in
  match pcs m t with
  | PStart =>
      match nth_error (pool m) k with
      | Some a => {| heap := heap m; nxt := nxt m; pool := rm a (pool m); pcs := upd (pcs m) t (PCollect a (job_cols j)) |}
      | None => {| heap := upd (heap m) (nxt m) []; nxt := S (nxt m); pool := pool m;
                   pcs := upd (pcs m) t (PCollect (nxt m) (job_cols j)) |}
      end
  | PCollect a (x :: todo) =>
      {| heap := upd (heap m) a (heap m a ++ [x]); nxt := nxt m; pool := pool m; pcs := upd (pcs m) t (PCollect a todo) |}
  | PCollect a [] =>
      {| heap := heap m; nxt := nxt m; pool := pool m; pcs := upd (pcs m) t (PPrinted a (print_elems (j_cfg j) (heap m a) true)) |}
  | PPrinted a l1 =>
      if reset_first
      then {| heap := upd (heap m) a []; nxt := nxt m; pool := pool m; pcs := upd (pcs m) t (PMid a l1) |}
      else {| heap := heap m; nxt := nxt m; pool := a :: pool m; pcs := upd (pcs m) t (PMid a l1) |}
  | PMid a l1 =>
      if reset_first
      then {| heap := heap m; nxt := nxt m; pool := a :: pool m; pcs := upd (pcs m) t (PDone (finish j l1)) |}
      else {| heap := upd (heap m) a []; nxt := nxt m; pool := pool m; pcs := upd (pcs m) t (PDone (finish j l1)) |}
  | PDone _ => m
  end.

(* a schedule: which goroutine moves next (and what the pool hands out if that move is a Get) *)
Definition run (sched : list (nat * nat)) (m : mach) : mach := fold_left (fun m tk => step tk m) sched m.

(* steps goroutine t still has to take *)
Definition remaining (t : nat) (p : pc) : nat :=
  match p with
  | PStart => 4 + length (job_cols (jobs t))
  | PCollect _ todo => 3 + length todo
  | PPrinted _ _ => 2
  | PMid _ _ => 1
  | PDone _ => 0
  end.
End Machine.

(* ---- a two-goroutine instance for the witnesses: level column only ---- *)
Definition wcfg : cfg :=
  {| k_message := [x4d]; k_level := [x4c]; k_time := []; k_name := []; k_caller := []; k_function := []; k_stack := [];
     skip_line_ending := false; line_ending := []; e_level := SActive; e_time := SNil; e_duration := SNil;
     e_caller := SNil; e_name := SNil; console_sep := [];
     q_layout_escaped := true; q_nil_caller_guard := true |}.
Definition went (lvl msg : bytes) : entry :=
  {| lvl_text := lvl; lvl_string := lvl; time_zero := true;
     time_val := {| t_nanos := 0; t_rend := RInt 0 |}; time_col := [];
     name := []; caller_defined := false; caller_text := []; caller_string := [];
     func := []; message := msg; stack := [] |}.
(* goroutine 0 logs "info" / "a", every other goroutine "warn" / "b" *)
Definition wjobs (t : nat) : job :=
  match t with
  | O => {| j_cfg := wcfg; j_ctx := {| buf := []; ns := 0 |}; j_ent := went [x69; x6e; x66; x6f] [x61]; j_fs := [] |}
  | _ => {| j_cfg := wcfg; j_ctx := {| buf := []; ns := 0 |}; j_ent := went [x77; x61; x72; x6e] [x62]; j_fs := [] |}
  end.
(* goroutine 0 runs up to and including the first statement of putSliceEncoder; goroutine 1 then does a whole
   EncodeEntry, taking what the pool offers *)
Definition wsched : list (nat * nat) :=
  [(0, 0); (0, 0); (0, 0); (0, 0); (1, 0); (1, 0); (1, 0); (1, 0); (1, 0); (0, 0)].

(* C16 — stub *)
From Zap Require Import Base.Wire C16.Model.

From Coq Require Import List ZArith Bool.
From Coq.Strings Require Import Byte.
Import ListNotations.
From Zap Require Import Base.Wire Enc.Bytes Enc.Fields Enc.JsonEnc Enc.JsonParse Enc.WireEnc Enc.JsonAst Enc.Wf Enc.Console
  Enc.Parse3 Enc.Parse4 Enc.ConsoleProof C16.Model C16.Conc C16.ConcProofs.

Theorem wire_thm i : wf i = true -> spec i (model i) = true.
Proof.
  unfold wf, spec, model. intros Hw.
  apply andb_true_iff in Hw as [Hw We]. apply andb_true_iff in Hw as [Wc Wf'].
  cbn [sx_l]. rewrite (console_shape _ _ _ _ Wc Wf'), (proj2 (bytes_eqb_eq _ _) eq_refl). cbn [andb].
  set (ec := dec_case i) in *. set (c := ec_cfg ec).
  pose proof (tpre_close _ (ev_flds_pre c eq_refl (ec_fs ec) (wf_owf_flds _ Wf') _ (with_chain_pre c eq_refl (ec_ctxs ec) (wf_owf_ctxs _ Wc)))) as Hp.
  destruct (close (ev_flds c (ec_fs ec) (ev_with_chain c (ec_ctxs ec)))) as [|m r] eqn:E; [reflexivity|].
  destruct (context_same _ Hp) as [H1 H2]. rewrite H1, H2. reflexivity.
Qed.

Lemma ctx_members c : q_layout_escaped c = true -> forall ctxs fs, forallb wf_flds ctxs = true -> wf_flds fs = true ->
  tpre (TObj (close (ev_flds c fs (ev_with_chain c ctxs)))).
Proof.
  intros Hl ctxs fs Hc Hf. apply tpre_close. apply ev_flds_pre; [exact Hl|now apply wf_owf_flds|]. apply with_chain_pre; [exact Hl|now apply wf_owf_ctxs].
Qed.

(* ---- concurrent use (machine in C16/Conc.v, ownership proof in C16/ConcProofs.v) ----
   The row (i, line) the harness emits for an encode of case i made while other goroutines encode other cases
   is judged by the same wire functions: the machine says the line is `model i`, and the oracle accepts it. *)
Theorem conc_wire jobs sched t out i : jobs t = case_job i ->
  pcs (run jobs true sched init) t = PDone out -> model i = SL [SB out].
Proof. intros Ej H. rewrite (conc_safe _ _ _ _ H), Ej. reflexivity. Qed.

Theorem conc_wire_spec jobs sched t out i : wf i = true -> jobs t = case_job i ->
  pcs (run jobs true sched init) t = PDone out -> spec i (SL [SB out]) = true.
Proof. intros Hw Ej H. rewrite <- (conc_wire _ _ _ _ _ Ej H). now apply wire_thm. Qed.

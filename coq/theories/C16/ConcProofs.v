(* C16 — proofs about the machine of C16/Conc.v: under every schedule every finished EncodeEntry call has
   produced the line the sequential model assigns to its own job. *)
From Coq Require Import List ZArith Bool Arith Lia.
From Coq.Strings Require Import Byte.
Import ListNotations.
From Zap Require Import Base.Wire Enc.Bytes Enc.Fields Enc.JsonEnc Enc.Console C16.Conc.

Lemma upd_eq {A} (f : nat -> A) k v : upd f k v k = v.
Proof. unfold upd. now rewrite Nat.eqb_refl. Qed.
Lemma upd_neq {A} (f : nat -> A) k v x : x <> k -> upd f k v x = f x.
Proof. unfold upd. intros H. apply Nat.eqb_neq in H. now rewrite H. Qed.

Lemma in_rm a x l : In x (rm a l) <-> In x l /\ x <> a.
Proof.
  induction l as [|b r IH]; cbn [rm In]; [tauto|].
  destruct (Nat.eqb b a) eqn:E.
  - apply Nat.eqb_eq in E. subst b. rewrite IH. split; [tauto|]. intros [[H|H] N]; [congruence|tauto].
  - apply Nat.eqb_neq in E. cbn [In]. rewrite IH. split.
    + intros [H|[H N]]; [subst x; tauto|tauto].
    + intros [[H|H] N]; [tauto|tauto].
Qed.
Lemma nodup_rm a l : NoDup l -> NoDup (rm a l).
Proof.
  induction 1 as [|b r Hn Hd IH]; cbn [rm]; [constructor|].
  destruct (Nat.eqb b a); [exact IH|]. constructor; [|exact IH]. rewrite in_rm. tauto.
Qed.

Lemma finish_line j : finish j (print_elems (j_cfg j) (job_cols j) true) = job_line j.
Proof. reflexivity. Qed.

Section Safety.
Variable jobs : nat -> job.

(* the ownership discipline: a collector is referenced either by the pool (and is then empty) or by exactly
   one goroutine (and then holds exactly the columns that goroutine has appended so far) *)
Definition good (m : mach) (t : nat) (p : pc) : Prop :=
  match p with
  | PStart => True
  | PCollect a todo => heap m a ++ todo = job_cols (jobs t)
  | PPrinted a l1 => l1 = print_elems (j_cfg (jobs t)) (job_cols (jobs t)) true
  | PMid a l1 => heap m a = [] /\ l1 = print_elems (j_cfg (jobs t)) (job_cols (jobs t)) true
  | PDone out => out = job_line (jobs t)
  end.

Record inv (m : mach) : Prop := {
  i_pool : forall a, In a (pool m) -> a < nxt m /\ heap m a = [];
  i_nodup : NoDup (pool m);
  i_held : forall t a, held (pcs m t) = Some a -> a < nxt m /\ ~ In a (pool m);
  i_excl : forall t1 t2 a, held (pcs m t1) = Some a -> held (pcs m t2) = Some a -> t1 = t2;
  i_good : forall t, good m t (pcs m t)
}.

Lemma inv_init : inv init.
Proof.
  constructor; cbn.
  - intros a [].
  - constructor.
  - intros t a H. discriminate.
  - intros t1 t2 a H. discriminate.
  - intros t. exact I.
Qed.

(* goodness of another goroutine's state survives a write to a collector it does not hold *)
Lemma good_frame m m' t p : (forall a, held p = Some a -> heap m' a = heap m a) -> good m t p -> good m' t p.
Proof.
  intros Hh. destruct p as [|a todo|a l1|a l1|out]; cbn [good]; try tauto.
  - rewrite (Hh a eq_refl). tauto.
  - rewrite (Hh a eq_refl). tauto.
Qed.

Lemma step_inv tk m : inv m -> inv (step jobs true tk m).
Proof.
  destruct tk as [t k]. intros [Ipool Inodup Iheld Iexcl Igood]. unfold step.
  pose proof (Igood t) as Gt. pose proof (Iheld t) as Ht.
  destruct (pcs m t) as [|a todo|a l1|a l1|out] eqn:Ep.
  - (* Get *)
    destruct (nth_error (pool m) k) as [a|] eqn:En.
    + (* a pooled collector *)
      apply nth_error_In in En. destruct (Ipool a En) as [La Ea].
      constructor; cbn [heap nxt pool pcs].
      * intros b Hb. apply in_rm in Hb. apply Ipool. tauto.
      * now apply nodup_rm.
      * intros t' b Hb. destruct (Nat.eq_dec t' t) as [->|N].
        -- rewrite upd_eq in Hb. cbn in Hb. injection Hb as <-. split; [exact La|]. rewrite in_rm. tauto.
        -- rewrite upd_neq in Hb by exact N. destruct (Iheld t' b Hb) as [Lb Nb]. split; [exact Lb|]. rewrite in_rm. tauto.
      * intros t1 t2 b H1 H2.
        destruct (Nat.eq_dec t1 t) as [->|N1]; destruct (Nat.eq_dec t2 t) as [->|N2]; [reflexivity| | |].
        -- rewrite upd_eq in H1. cbn in H1. injection H1 as <-. rewrite upd_neq in H2 by exact N2.
           destruct (Iheld t2 a H2) as [_ Nb]. contradiction.
        -- rewrite upd_eq in H2. cbn in H2. injection H2 as <-. rewrite upd_neq in H1 by exact N1.
           destruct (Iheld t1 a H1) as [_ Nb]. contradiction.
        -- rewrite upd_neq in H1 by exact N1. rewrite upd_neq in H2 by exact N2. exact (Iexcl _ _ _ H1 H2).
      * intros t'. destruct (Nat.eq_dec t' t) as [->|N].
        -- rewrite upd_eq. cbn [good heap]. now rewrite Ea.
        -- rewrite upd_neq by exact N. exact (Igood t').
    + (* a fresh collector *)
      constructor; cbn [heap nxt pool pcs].
      * intros b Hb. destruct (Ipool b Hb) as [Lb Eb]. split; [lia|]. rewrite upd_neq by lia. exact Eb.
      * exact Inodup.
      * intros t' b Hb. destruct (Nat.eq_dec t' t) as [->|N].
        -- rewrite upd_eq in Hb. cbn in Hb. injection Hb as <-. split; [lia|]. intros Hin. apply Ipool in Hin. lia.
        -- rewrite upd_neq in Hb by exact N. destruct (Iheld t' b Hb) as [Lb Nb]. split; [lia|exact Nb].
      * intros t1 t2 b H1 H2.
        destruct (Nat.eq_dec t1 t) as [->|N1]; destruct (Nat.eq_dec t2 t) as [->|N2]; [reflexivity| | |].
        -- rewrite upd_eq in H1. cbn in H1. injection H1 as <-. rewrite upd_neq in H2 by exact N2.
           destruct (Iheld t2 _ H2) as [Lb _]. lia.
        -- rewrite upd_eq in H2. cbn in H2. injection H2 as <-. rewrite upd_neq in H1 by exact N1.
           destruct (Iheld t1 _ H1) as [Lb _]. lia.
        -- rewrite upd_neq in H1 by exact N1. rewrite upd_neq in H2 by exact N2. exact (Iexcl _ _ _ H1 H2).
      * intros t'. destruct (Nat.eq_dec t' t) as [->|N].
        -- rewrite upd_eq. cbn [good heap]. now rewrite upd_eq.
        -- rewrite upd_neq by exact N. apply (good_frame m); [|exact (Igood t')].
           intros b Hb. cbn [heap]. destruct (Iheld t' b Hb) as [Lb _]. apply upd_neq. lia.
  - (* PCollect *)
    destruct (Ht a eq_refl) as [La Na].
    assert (Hsame : forall p' t' b, held (upd (pcs m) t p' t') = Some b -> held p' = Some a -> held (pcs m t') = Some b).
    { intros p' t' b H Hp'. destruct (Nat.eq_dec t' t) as [->|N]; [rewrite upd_eq in H; rewrite Ep; cbn; congruence|now rewrite upd_neq in H by exact N]. }
    destruct todo as [|x todo].
    + (* print *)
      constructor; cbn [heap nxt pool pcs].
      * exact Ipool.
      * exact Inodup.
      * intros t' b Hb. apply Hsame in Hb; [|reflexivity]. exact (Iheld t' b Hb).
      * intros t1 t2 b H1 H2. apply Hsame in H1; [|reflexivity]. apply Hsame in H2; [|reflexivity]. exact (Iexcl _ _ _ H1 H2).
      * intros t'. destruct (Nat.eq_dec t' t) as [->|N].
        -- rewrite upd_eq. cbn [good heap]. cbn [good] in Gt. rewrite app_nil_r in Gt. now rewrite Gt.
        -- rewrite upd_neq by exact N. exact (Igood t').
    + (* one sub-encoder appends one column *)
      constructor; cbn [heap nxt pool pcs].
      * intros b Hb. destruct (Ipool b Hb) as [Lb Eb]. split; [exact Lb|]. rewrite upd_neq; [exact Eb|]. intros ->. contradiction.
      * exact Inodup.
      * intros t' b Hb. apply Hsame in Hb; [|reflexivity]. exact (Iheld t' b Hb).
      * intros t1 t2 b H1 H2. apply Hsame in H1; [|reflexivity]. apply Hsame in H2; [|reflexivity]. exact (Iexcl _ _ _ H1 H2).
      * intros t'. destruct (Nat.eq_dec t' t) as [->|N].
        -- rewrite upd_eq. cbn [good heap]. rewrite upd_eq. cbn [good] in Gt. now rewrite <- app_assoc.
        -- rewrite upd_neq by exact N. apply (good_frame m); [|exact (Igood t')].
           intros b Hb. cbn [heap]. apply upd_neq. intros ->. apply N. apply (Iexcl t' t a Hb). now rewrite Ep.
  - (* putSliceEncoder, first statement: elems = elems[:0] *)
    destruct (Ht a eq_refl) as [La Na].
    assert (Hsame : forall t' b, held (upd (pcs m) t (PMid a l1) t') = Some b -> held (pcs m t') = Some b).
    { intros t' b H. destruct (Nat.eq_dec t' t) as [->|N]; [rewrite upd_eq in H; rewrite Ep; exact H|now rewrite upd_neq in H by exact N]. }
    constructor; cbn [heap nxt pool pcs].
    + intros b Hb. destruct (Ipool b Hb) as [Lb Eb]. split; [exact Lb|]. rewrite upd_neq; [exact Eb|]. intros ->. contradiction.
    + exact Inodup.
    + intros t' b Hb. apply Hsame in Hb. exact (Iheld t' b Hb).
    + intros t1 t2 b H1 H2. apply Hsame in H1. apply Hsame in H2. exact (Iexcl _ _ _ H1 H2).
    + intros t'. destruct (Nat.eq_dec t' t) as [->|N].
      * rewrite upd_eq. cbn [good heap]. rewrite upd_eq. cbn [good] in Gt. tauto.
      * rewrite upd_neq by exact N. apply (good_frame m); [|exact (Igood t')].
        intros b Hb. cbn [heap]. apply upd_neq. intros ->. apply N. apply (Iexcl t' t a Hb). now rewrite Ep.
  - (* putSliceEncoder, second statement: Put; then the rest of the line *)
    destruct (Ht a eq_refl) as [La Na]. cbn [good] in Gt. destruct Gt as [Ea El].
    constructor; cbn [heap nxt pool pcs].
    + intros b [<-|Hb]; [tauto|exact (Ipool b Hb)].
    + constructor; [exact Na|exact Inodup].
    + intros t' b Hb. destruct (Nat.eq_dec t' t) as [->|N].
      * rewrite upd_eq in Hb. discriminate.
      * rewrite upd_neq in Hb by exact N. destruct (Iheld t' b Hb) as [Lb Nb]. split; [exact Lb|].
        intros [<-|Hin]; [|contradiction]. apply N. apply (Iexcl t' t a Hb). now rewrite Ep.
    + intros t1 t2 b H1 H2.
      destruct (Nat.eq_dec t1 t) as [->|N1]; [rewrite upd_eq in H1; discriminate|].
      destruct (Nat.eq_dec t2 t) as [->|N2]; [rewrite upd_eq in H2; discriminate|].
      rewrite upd_neq in H1 by exact N1. rewrite upd_neq in H2 by exact N2. exact (Iexcl _ _ _ H1 H2).
    + intros t'. destruct (Nat.eq_dec t' t) as [->|N].
      * rewrite upd_eq. cbn [good]. rewrite El. apply finish_line.
      * rewrite upd_neq by exact N. exact (Igood t').
  - (* finished *)
    constructor; assumption.
Qed.

Lemma run_inv sched : forall m, inv m -> inv (run jobs true sched m).
Proof.
  induction sched as [|tk r IH]; intros m Hm; [exact Hm|]. cbn [run fold_left]. apply IH. now apply step_inv.
Qed.

(* SAFETY: whatever the other goroutines do in between, and whichever collector the pool hands out, a finished
   call has produced the sequential line of its own job *)
Theorem conc_safe sched t out :
  pcs (run jobs true sched init) t = PDone out -> out = job_line (jobs t).
Proof.
  intros H. pose proof (i_good _ (run_inv sched _ inv_init) t) as G. rewrite H in G. exact G.
Qed.
End Safety.

Section Progress.
Variable jobs : nat -> job.
Variable rf : bool.

Lemma step_remaining t k m : remaining jobs t (pcs m t) <> 0 ->
  S (remaining jobs t (pcs (step jobs rf (t, k) m) t)) = remaining jobs t (pcs m t).
Proof.
  unfold step. destruct (pcs m t) as [|a todo|a l1|a l1|out] eqn:Ep; cbn [remaining]; intros Hn.
  - destruct (nth_error (pool m) k); cbn [pcs]; rewrite upd_eq; cbn [remaining]; reflexivity.
  - destruct todo as [|x todo]; cbn [pcs]; rewrite upd_eq; cbn [remaining length]; reflexivity.
  - destruct rf; cbn [pcs]; rewrite upd_eq; reflexivity.
  - destruct rf; cbn [pcs]; rewrite upd_eq; reflexivity.
  - congruence.
Qed.

Lemma run_alone t n : forall m, remaining jobs t (pcs m t) = n ->
  remaining jobs t (pcs (run jobs rf (repeat (t, 0) n) m) t) = 0.
Proof.
  induction n as [|n IH]; intros m Hr; [exact Hr|]. cbn [repeat run fold_left]. apply IH.
  pose proof (step_remaining t 0 m) as Hs. rewrite Hr in Hs. specialize (Hs (Nat.neq_succ_0 n)). lia.
Qed.

(* PROGRESS (so that safety is not vacuous): after ANY schedule, letting goroutine t run finishes its call *)
Theorem conc_completes sched t :
  exists more out, pcs (run jobs rf (sched ++ more) init) t = PDone out.
Proof.
  set (m := run jobs rf sched init).
  exists (repeat (t, 0) (remaining jobs t (pcs m t))).
  pose proof (run_alone t _ m eq_refl) as H. unfold run in *. rewrite fold_left_app. fold m.
  destruct (pcs (fold_left _ (repeat _ _) m) t) as [|a todo|a l1|a l1|out]; cbn [remaining] in H; try discriminate.
  now exists out.
Qed.
End Progress.

(* the line is a function of the job alone: two calls with the same (configuration, context, entry, fields),
   made by any goroutines in any two runs with any other traffic, return the same bytes *)
Theorem line_function jobs1 jobs2 sched1 sched2 t1 t2 out1 out2 :
  jobs1 t1 = jobs2 t2 ->
  pcs (run jobs1 true sched1 init) t1 = PDone out1 ->
  pcs (run jobs2 true sched2 init) t2 = PDone out2 ->
  out1 = out2.
Proof.
  intros E H1 H2. rewrite (conc_safe _ _ _ _ H1), (conc_safe _ _ _ _ H2). now rewrite E.
Qed.

(* with the two statements of putSliceEncoder swapped (Put, then elems = elems[:0]) the statement is FALSE:
   goroutine 1 picks up the collector goroutine 0 has published but not yet truncated, and its line starts
   with goroutine 0's level column *)
Theorem publish_before_reset_refuted :
  exists jobs sched t out, pcs (run jobs false sched init) t = PDone out /\ bytes_eqb out (job_line (jobs t)) = false.
Proof. exists wjobs, wsched, 1, [x69; x6e; x66; x6f; x09; x77; x61; x72; x6e; x09; x62; x0a]. split; vm_compute; reflexivity. Qed.
(* the same schedule with the statements in the code's order *)
Example witness_schedule_in_order :
  pcs (run wjobs true wsched init) 1 = PDone (job_line (wjobs 1)) /\ pcs (run wjobs true wsched init) 0 = PDone (job_line (wjobs 0)).
Proof. split; vm_compute; reflexivity. Qed.

(* C16 — wire functions for the console encoder. *)
From Coq Require Import List ZArith Bool.
From Coq.Strings Require Import Byte.
Import ListNotations.
From Zap Require Import Base.Wire Enc.Bytes Enc.Fields Enc.JsonEnc Enc.JsonParse Enc.WireEnc Enc.JsonAst Enc.Wf Enc.Console Enc.Parse3.

(* observation: (line) *)
Definition model (i : sx) : sx :=
  let ec := dec_case i in let c := ec_cfg ec in
  SL [SB (console_encode c (with_chain c true (ec_ctxs ec)) (ec_ent ec) (ec_fs ec))].

(* the oracle: the line is exactly the documented shape over the reference tree semantics, and its
   context object (if any) parses to the members the JSON encoder emits for the same fields *)
Definition spec (i o : sx) : bool :=
  let ec := dec_case i in let c := ec_cfg ec in
  match sx_l o with
  | [SB out] =>
      bytes_eqb out (console_spec c (ec_ctxs ec) (ec_ent ec) (ec_fs ec)) &&
      (let ms := close (ev_flds c (ec_fs ec) (ev_with_chain c (ec_ctxs ec))) in
       match ms with
       | [] => true
       | _ => match parse (pv true (TObj ms)), parse (pv false (TObj ms)) with
              | Some a, Some b => match a, b with JObj _, JObj _ => true | _, _ => false end
              | _, _ => false
              end
       end)
  | _ => false
  end.
Definition wf (i : sx) : bool :=
  let ec := dec_case i in forallb wf_flds (ec_ctxs ec) && wf_flds (ec_fs ec) && wf_entry (ec_ent ec).

(* C09 — structured access summaries, their interleaving semantics, and the
   static discipline checkers.  Definitions only (proofs: Race.v, Deadlock.v).

   A method summary is a [code]: a sequence of actions whose critical sections,
   once-bodies and spawned bodies are nested ([CCrit l x body k] stands for
   l.Lock()/RLock(); body; l.Unlock()/RUnlock(); k).  Identifiers (fields, locks,
   onces, channels) are of an arbitrary type [id] with a boolean equality: the
   generated facts use [nat], programs use (instance, nat). *)
From Coq Require Import List Bool Arith Lia.
Import ListNotations.
Set Implicit Arguments.

Section Code.
Variable id : Type.

Inductive code :=
| CNil
| CAcc (f : id) (w : bool) (k : code)          (* plain read (w=false) / write of a location *)
| CAtomic (f : id) (k : code)                  (* sync/atomic operation on a location *)
| CCrit (l : id) (x : bool) (body k : code)    (* x=true: Lock/Unlock, x=false: RLock/RUnlock *)
| COnce (o : id) (body k : code)               (* o.Do(func(){ body }) *)
| CSpawn (body k : code)                       (* go func(){ body }() *)
| CRecv (c : id) (k : code)                    (* <-c on a channel that is only ever closed *)
| CClose (c : id) (k : code)                   (* close(c) *)
| CUnlock (l : id) (x : bool) (k : code)       (* run-time only: pending release *)
| COnceExit (o : id) (k : code).               (* run-time only: pending completion of o *)

Fixpoint capp (a b : code) : code :=
  match a with
  | CNil => b
  | CAcc f w k => CAcc f w (capp k b)
  | CAtomic f k => CAtomic f (capp k b)
  | CCrit l x body k => CCrit l x body (capp k b)
  | COnce o body k => COnce o body (capp k b)
  | CSpawn body k => CSpawn body (capp k b)
  | CRecv c k => CRecv c (capp k b)
  | CClose c k => CClose c (capp k b)
  | CUnlock l x k => CUnlock l x (capp k b)
  | COnceExit o k => COnceExit o (capp k b)
  end.

Definition cconcat (l : list code) : code := fold_right capp CNil l.

(* no run-time-only instruction anywhere: the shape of every summary *)
Fixpoint pure (k : code) : bool :=
  match k with
  | CNil => true
  | CAcc _ _ k | CAtomic _ k | CRecv _ k | CClose _ k => pure k
  | CCrit _ _ body k | COnce _ body k | CSpawn body k => pure body && pure k
  | CUnlock _ _ _ | COnceExit _ _ => false
  end.

(* run-time-only instructions occur on the spine only, never inside a body *)
Fixpoint wfk (k : code) : bool :=
  match k with
  | CNil => true
  | CAcc _ _ k | CAtomic _ k | CRecv _ k | CClose _ k | CUnlock _ _ k | COnceExit _ k => wfk k
  | CCrit _ _ body k | COnce _ body k | CSpawn body k => pure body && wfk k
  end.

(* ---------------------------------------------------------------- state *)

Record lockst := { lw : option nat; lr : list nat }.   (* writer, readers (thread ids) *)
Inductive oncest := ONew | ORun (t : nat) | ODone.

Record state := {
  thr : list code;            (* thread id = index; spawned threads are appended *)
  lks : id -> lockst;
  ons : id -> oncest;
  chs : id -> bool            (* closed? *)
}.

Variable eqb : id -> id -> bool.

Definition upd {A} (m : id -> A) (x : id) (v : A) : id -> A := fun y => if eqb y x then v else m y.

Fixpoint setnth {A} (l : list A) (n : nat) (a : A) : list A :=
  match l, n with
  | [], _ => []
  | _ :: r, O => a :: r
  | b :: r, S n' => b :: setnth r n' a
  end.

Fixpoint remove_one (t : nat) (l : list nat) : list nat :=
  match l with
  | [] => []
  | u :: r => if Nat.eqb u t then r else u :: remove_one t r
  end.

Definition is_nil {A} (l : list A) : bool := match l with [] => true | _ => false end.

Definition set_thr (s : state) (t : nat) (k : code) : state :=
  {| thr := setnth (thr s) t k; lks := lks s; ons := ons s; chs := chs s |}.

(* one step of thread t; a blocked or finished thread's turn is a no-op *)
Definition step (s : state) (t : nat) : state :=
  match nth_error (thr s) t with
  | None => s
  | Some k =>
    match k with
    | CNil => s
    | CAcc _ _ k' | CAtomic _ k' => set_thr s t k'
    | CCrit l true body k' =>
        let st := lks s l in
        match lw st, lr st with
        | None, [] => {| thr := setnth (thr s) t (capp body (CUnlock l true k'));
                         lks := upd (lks s) l {| lw := Some t; lr := [] |}; ons := ons s; chs := chs s |}
        | _, _ => s
        end
    | CCrit l false body k' =>
        let st := lks s l in
        match lw st with
        | None => {| thr := setnth (thr s) t (capp body (CUnlock l false k'));
                     lks := upd (lks s) l {| lw := None; lr := t :: lr st |}; ons := ons s; chs := chs s |}
        | Some _ => s
        end
    | CUnlock l true k' =>
        {| thr := setnth (thr s) t k'; lks := upd (lks s) l {| lw := None; lr := lr (lks s l) |};
           ons := ons s; chs := chs s |}
    | CUnlock l false k' =>
        {| thr := setnth (thr s) t k'; lks := upd (lks s) l {| lw := lw (lks s l); lr := remove_one t (lr (lks s l)) |};
           ons := ons s; chs := chs s |}
    | COnce o body k' =>
        match ons s o with
        | ONew => {| thr := setnth (thr s) t (capp body (COnceExit o k')); lks := lks s;
                     ons := upd (ons s) o (ORun t); chs := chs s |}
        | ORun _ => s
        | ODone => set_thr s t k'
        end
    | COnceExit o k' =>
        {| thr := setnth (thr s) t k'; lks := lks s; ons := upd (ons s) o ODone; chs := chs s |}
    | CSpawn body k' =>
        {| thr := setnth (thr s) t k' ++ [body]; lks := lks s; ons := ons s; chs := chs s |}
    | CRecv c k' => if chs s c then set_thr s t k' else s
    | CClose c k' =>
        {| thr := setnth (thr s) t k'; lks := lks s; ons := ons s; chs := upd (chs s) c true |}
    end
  end.

Definition init (prog : list code) : state :=
  {| thr := prog; lks := fun _ => {| lw := None; lr := [] |}; ons := fun _ => ONew; chs := fun _ => false |}.

Definition run (prog : list code) (sched : list nat) : state := fold_left step sched (init prog).

(* ---------------------------------------------------------------- races *)

Inductive akind := Plain (w : bool) | At.

Definition head (k : code) : option (id * akind) :=
  match k with
  | CAcc f w _ => Some (f, Plain w)
  | CAtomic f _ => Some (f, At)
  | _ => None
  end.

(* two plain accesses conflict when one writes; an atomic operation conflicts with
   every plain access (conservative: an atomic load against a plain read is not a
   race in Go, it is counted as one here); two atomic operations never conflict *)
Definition conflict (a b : akind) : bool :=
  match a, b with
  | Plain w1, Plain w2 => w1 || w2
  | At, At => false
  | _, _ => true
  end.

(* a data race on f: two different threads are both about to access f, conflictingly *)
Definition race_state (f : id) (s : state) : Prop :=
  exists t1 t2 k1 k2 a1 a2,
    t1 <> t2 /\ nth_error (thr s) t1 = Some k1 /\ nth_error (thr s) t2 = Some k2 /\
    head k1 = Some (f, a1) /\ head k2 = Some (f, a2) /\ conflict a1 a2 = true.

(* executable version over the locations selected by [flt], used by the wire model *)
Definition head_conf (flt : id -> bool) (k1 k2 : code) : bool :=
  match head k1, head k2 with
  | Some (f1, a1), Some (f2, a2) => eqb f1 f2 && flt f1 && conflict a1 a2
  | _, _ => false
  end.
Fixpoint raceb_l (flt : id -> bool) (l : list code) : bool :=
  match l with
  | [] => false
  | k :: r => existsb (head_conf flt k) r || raceb_l flt r
  end.
Definition raceb (flt : id -> bool) (s : state) : bool := raceb_l flt (thr s).

(* ---------------------------------------------------------------- enabledness *)

Definition can_step_k (s : state) (t : nat) (k : code) : bool :=
  match k with
  | CNil => false
  | CCrit l true _ _ => match lw (lks s l), lr (lks s l) with None, [] => true | _, _ => false end
  | CCrit l false _ _ => match lw (lks s l) with None => true | Some _ => false end
  | COnce o _ _ => match ons s o with ORun _ => false | _ => true end
  | CRecv c _ => chs s c
  | _ => true
  end.
Definition can_step (s : state) (t : nat) : bool :=
  match nth_error (thr s) t with Some k => can_step_k s t k | None => false end.

(* what a thread is waiting for *)
Definition waits_lock (s : state) (t : nat) (l : id) : Prop :=
  exists x body k, nth_error (thr s) t = Some (CCrit l x body k) /\ can_step s t = false.
Definition waits_once (s : state) (t : nat) (o : id) : Prop :=
  exists body k, nth_error (thr s) t = Some (COnce o body k) /\ can_step s t = false.
Definition waits_chan (s : state) (t : nat) (c : id) : Prop :=
  exists k, nth_error (thr s) t = Some (CRecv c k) /\ chs s c = false.

(* executable: a state in which nobody can move although some thread is blocked on a
   lock or on a once (channel waits are reported separately, see Deadlock.v) *)
Definition blocked_lo_k (s : state) (t : nat) (k : code) : bool :=
  match k with
  | CCrit _ _ _ _ | COnce _ _ _ => negb (can_step_k s t k)
  | _ => false
  end.
Fixpoint idx_existsb (f : nat -> code -> bool) (n : nat) (l : list code) : bool :=
  match l with [] => false | k :: r => f n k || idx_existsb f (S n) r end.
Definition lock_deadb (s : state) : bool :=
  idx_existsb (blocked_lo_k s) 0 (thr s) && negb (idx_existsb (can_step_k s) 0 (thr s)).

(* ---------------------------------------------------------------- discipline checkers *)

(* every access to f satisfies P (classes (a) and (e)) *)
Fixpoint allacc (P : akind -> bool) (f : id) (k : code) : bool :=
  match k with
  | CNil => true
  | CAcc g w k' => (negb (eqb g f) || P (Plain w)) && allacc P f k'
  | CAtomic g k' => (negb (eqb g f) || P At) && allacc P f k'
  | CCrit _ _ body k' | COnce _ body k' | CSpawn body k' => allacc P f body && allacc P f k'
  | CRecv _ k' | CClose _ k' | CUnlock _ _ k' | COnceExit _ k' => allacc P f k'
  end.
Definition is_read (a : akind) : bool := match a with Plain false => true | _ => false end.
Definition is_at (a : akind) : bool := match a with At => true | _ => false end.

(* class (b): f consistently protected by lock l.  Context = how the thread holds l. *)
Inductive lctx := XN | XR | XW.
Definition lctx_of (x : bool) : lctx := if x then XW else XR.
Definition lctx_is (c : lctx) (x : bool) : bool :=
  match c, x with XW, true => true | XR, false => true | _, _ => false end.
Definition lacc_ok (c : lctx) (w : bool) : bool :=
  match c with XW => true | XR => negb w | XN => false end.
Fixpoint prot (f l : id) (c : lctx) (k : code) : bool :=
  match k with
  | CNil => true
  | CAcc g w k' => (negb (eqb g f) || lacc_ok c w) && prot f l c k'
  | CAtomic g k' => negb (eqb g f) && prot f l c k'
  | CCrit m x body k' =>
      if eqb m l then match c with XN => prot f l (lctx_of x) body && prot f l XN k' | _ => false end
      else prot f l c body && prot f l c k'
  | COnce _ body k' => prot f l c body && prot f l c k'
  | CSpawn body k' => prot f l XN body && prot f l c k'
  | CRecv _ k' | CClose _ k' | COnceExit _ k' => prot f l c k'
  | CUnlock m x k' => if eqb m l then lctx_is c x && prot f l XN k' else prot f l c k'
  end.

(* class (c): f written only inside the body of once o, read only inside it or
   program-ordered after a completed o.Do in the same thread *)
Inductive octx := OB | OI | OA.
Definition oacc_ok (c : octx) (w : bool) : bool :=
  match c with OI => true | OA => negb w | OB => false end.
Definition ochild (c : octx) : octx := match c with OA => OA | _ => OB end.
Fixpoint oprot (f o : id) (c : octx) (k : code) : bool :=
  match k with
  | CNil => true
  | CAcc g w k' => (negb (eqb g f) || oacc_ok c w) && oprot f o c k'
  | CAtomic g k' => negb (eqb g f) && oprot f o c k'
  | COnce p body k' =>
      if eqb p o then match c with OI => false | _ => oprot f o OI body && oprot f o OA k' end
      else oprot f o c body && oprot f o c k'
  | COnceExit p k' =>
      if eqb p o then match c with OI => oprot f o OA k' | _ => false end else oprot f o c k'
  | CCrit _ _ body k' => oprot f o c body && oprot f o c k'
  | CSpawn body k' => oprot f o (ochild c) body && oprot f o c k'
  | CRecv _ k' | CClose _ k' | CUnlock _ _ k' => oprot f o c k'
  end.

(* ---------------------------------------------------------------- deadlock checker *)

Inductive res := RL (l : id) (x : bool) | RO (o : id).
Definition res_eqb (a b : res) : bool :=
  match a, b with RL l x, RL m y => eqb l m && Bool.eqb x y | RO x, RO y => eqb x y | _, _ => false end.

Variable rkl rko : id -> nat.        (* ranks of locks and onces *)
Definition rk (r : res) : nat := match r with RL l _ => rkl l | RO o => rko o end.
Definition below (n : nat) (h : list res) : bool := forallb (fun r => n <? rk r) h.

(* resources whose release is pending on the spine, innermost first *)
Fixpoint pend (k : code) : list res :=
  match k with
  | CNil => []
  | CUnlock l x k' => RL l x :: pend k'
  | COnceExit o k' => RO o :: pend k'
  | CAcc _ _ k' | CAtomic _ k' | CRecv _ k' | CClose _ k' => pend k'
  | CCrit _ _ _ k' | COnce _ _ k' | CSpawn _ k' => pend k'
  end.

Fixpoint ranked (h : list res) : bool :=
  match h with [] => true | r :: h' => below (rk r) h' && ranked h' end.

(* dl h k: with the resources h held (innermost first), k acquires only resources of
   strictly smaller rank than everything it holds (so the waits-for relation is
   acyclic), never waits on a channel while holding a lock or running a once body
   (the shape of #1428), and releases in LIFO order *)
Fixpoint dl (h : list res) (k : code) : bool :=
  match k with
  | CNil => true
  | CAcc _ _ k' | CAtomic _ k' | CClose _ k' => dl h k'
  | CCrit l x body k' => below (rkl l) h && dl (RL l x :: h) body && dl h k'
  | COnce o body k' => below (rko o) h && dl (RO o :: h) body && dl h k'
  | CSpawn body k' => dl [] body && dl h k'
  | CRecv c k' => is_nil h && dl h k'
  | CUnlock l x k' => match h with r :: h' => res_eqb r (RL l x) && dl h' k' | [] => false end
  | COnceExit o k' => match h with r :: h' => res_eqb r (RO o) && dl h' k' | [] => false end
  end.

End Code.

Arguments CNil {id}.

(* renaming of identifiers (instantiation of a summary at an object) *)
Fixpoint cmap {A B : Type} (g : A -> B) (k : code A) : code B :=
  match k with
  | CNil => CNil
  | CAcc f w k => CAcc (g f) w (cmap g k)
  | CAtomic f k => CAtomic (g f) (cmap g k)
  | CCrit l x body k => CCrit (g l) x (cmap g body) (cmap g k)
  | COnce o body k => COnce (g o) (cmap g body) (cmap g k)
  | CSpawn body k => CSpawn (cmap g body) (cmap g k)
  | CRecv c k => CRecv (g c) (cmap g k)
  | CClose c k => CClose (g c) (cmap g k)
  | CUnlock l x k => CUnlock (g l) x (cmap g k)
  | COnceExit o k => COnceExit (g o) (cmap g k)
  end.

(* every identifier occurring in k satisfies P *)
Fixpoint allids {A : Type} (P : A -> bool) (k : code A) : bool :=
  match k with
  | CNil => true
  | CAcc f _ k | CAtomic f k | CRecv f k | CClose f k | CUnlock f _ k | COnceExit f k => P f && allids P k
  | CCrit l _ body k | COnce l body k => P l && allids P body && allids P k
  | CSpawn body k => allids P body && allids P k
  end.

(* identifiers of a given kind occurring in k (for the checkers' candidate lists) *)
Fixpoint ids_of {A : Type} (kind : nat) (k : code A) : list A :=
  match k with
  | CNil => []
  | CAcc f _ k | CAtomic f k => (if Nat.eqb kind 0 then [f] else []) ++ ids_of kind k
  | CCrit l _ body k => (if Nat.eqb kind 1 then [l] else []) ++ ids_of kind body ++ ids_of kind k
  | COnce o body k => (if Nat.eqb kind 2 then [o] else []) ++ ids_of kind body ++ ids_of kind k
  | CSpawn body k => ids_of kind body ++ ids_of kind k
  | CRecv _ k | CClose _ k | CUnlock _ _ k | COnceExit _ k => ids_of kind k
  end.

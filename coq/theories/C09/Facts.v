(* C09 — from per-type access summaries (Gen/AccessFacts.v) to programs: instances,
   the decidable discipline over a table of summaries, programs built from it.
   Definitions only (proofs: Inst.v). *)
From Coq Require Import List Bool Arith.
Import ListNotations.
From Zap Require Import C09.Sem.

(* a location / lock / once / channel of a program: (object instance, identifier of the
   summary table) *)
Definition oref := (nat * nat)%type.
Definition eqb2 (a b : oref) : bool := Nat.eqb (fst a) (fst b) && Nat.eqb (snd a) (snd b).
Definition inst (i : nat) (u : code nat) : code oref := cmap (pair i) u.

Fixpoint lookup (t : list (nat * nat)) (x : nat) : nat :=
  match t with
  | [] => 0
  | (k, v) :: r => if Nat.eqb k x then v else lookup r x
  end.

(* one call: a summary executed on an object instance *)
Definition call := (nat * code nat)%type.
Definition thread_of (cs : list call) : code oref := cconcat (map (fun c => inst (fst c) (snd c)) cs).

Section Table.
Variable U : list (code nat).          (* the summaries *)
Variable rk : nat -> nat.              (* rank of locks and onces *)

Definition all_units (chk : code nat -> bool) : bool := forallb chk U.
Definition fields : list nat := flat_map (ids_of 0) U.
Definition locks : list nat := flat_map (ids_of 1) U.
Definition onces : list nat := flat_map (ids_of 2) U.

Definition cls_a (f : nat) : bool := all_units (allacc Nat.eqb is_read f).          (* never written *)
Definition cls_e (f : nat) : bool := all_units (allacc Nat.eqb is_at f).            (* only atomics *)
Definition cls_b (f l : nat) : bool := all_units (prot Nat.eqb f l XN).             (* lock l *)
Definition cls_c (f o : nat) : bool := all_units (oprot Nat.eqb f o OB).            (* once o *)
Definition field_ok (f : nat) : bool :=
  cls_a f || cls_e f || existsb (cls_b f) locks || existsb (cls_c f) onces.

Definition units_pure : bool := all_units (@pure nat).
Definition memb (x : nat) (l : list nat) : bool := existsb (Nat.eqb x) l.
Definition discipline_ok (exempt : list nat) : bool :=
  units_pure && forallb (fun f => memb f exempt || field_ok f) fields.
Definition deadlock_ok : bool := units_pure && all_units (dl Nat.eqb rk rk []).

(* programs: any number of threads, each any sequence of calls of summaries of the
   table on any object instances *)
Definition calls_ok (cs : list call) : Prop := forall c, In c cs -> In (snd c) U.
Definition from_facts (prog : list (code oref)) : Prop :=
  forall k, In k prog -> exists cs, calls_ok cs /\ k = thread_of cs.

End Table.

Definition rk2 (rk : nat -> nat) (r : oref) : nat := rk (snd r).

(* C09 — wire model.  A case is a concurrent program over the access summaries that
   gen/ extracts from the repository (Gen/AccessFacts.v) plus one schedule:

     input  = ( (thread ...) (tid ...) )      thread = ( (instance #unit-name) ... )
     output = ( race lock-deadlock panic unknown-units )

   [model] runs the interleaving semantics of Sem.v on the program along the schedule
   and reports whether some visited state is a race state on a location covered by the
   disciplines, or a state in which nobody can move while a thread is blocked on a lock
   or a once.  The real zap reports what the race detector, the watchdog and recover()
   observed while running the corresponding API calls.  [spec] accepts exactly the
   all-zero observation.  No proofs in this file. *)
From Coq Require Import List ZArith Bool.
From Coq.Strings Require Import Byte.
Import ListNotations.
From Zap Require Import Base.Wire C09.Sem C09.Facts Gen.AccessFacts.

Definition U : list (code nat) := map snd units.
Definition rk : nat -> nat := lookup ranks.

Definition table := list (bytes * code nat).

Fixpoint find_unit (n : bytes) (us : table) : option (code nat) :=
  match us with
  | [] => None
  | (s, c) :: r => if bytes_eqb s n then Some c else find_unit n r
  end.

(* decode one thread: its calls, and how many unit names were not found *)
Fixpoint dec_calls (us : table) (l : list sx) : list call * nat :=
  match l with
  | [] => ([], 0)
  | x :: r =>
      let (cs, u) := dec_calls us r in
      match find_unit (sx_b (sx_nth x 1)) us with
      | Some c => ((sx_n (sx_nth x 0), c) :: cs, u)
      | None => (cs, S u)
      end
  end.

Fixpoint dec_threads (us : table) (l : list sx) : list (list call) * nat :=
  match l with
  | [] => ([], 0)
  | x :: r =>
      let (ts, u) := dec_threads us r in
      let (cs, v) := dec_calls us (sx_l x) in
      (cs :: ts, v + u)
  end.

Definition dec_sched (x : sx) : list nat := map sx_n (sx_l x).

(* locations covered by the proved disciplines (class (d) fields are not) *)
Definition covered (ex : list nat) (r : oref) : bool := negb (memb (snd r) ex).

Fixpoint scan (ex : list nat) (s : state oref) (sched : list nat) (race dead : bool) : bool * bool :=
  let race' := race || raceb eqb2 (covered ex) s in
  let dead' := dead || lock_deadb s in
  match sched with
  | [] => (race', dead')
  | t :: r => scan ex (step eqb2 s t) r race' dead'
  end.

Definition model_with (us : table) (ex : list nat) (i : sx) : sx :=
  let (ts, unk) := dec_threads us (sx_l (sx_nth i 0)) in
  let prog := map thread_of ts in
  let (race, dead) := scan ex (init prog) (dec_sched (sx_nth i 1)) false false in
  SL [of_bool race; of_bool dead; SZ 0; of_nat unk].

Definition model (i : sx) : sx := model_with units exempt i.

Definition spec (i o : sx) : bool := sx_eqb o (SL [SZ 0; SZ 0; SZ 0; SZ 0]).

(* every unit name of the case is known to the table *)
Definition wf (i : sx) : bool := Nat.eqb (snd (dec_threads units (sx_l (sx_nth i 0)))) 0.

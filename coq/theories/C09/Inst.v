(* C09 — the per-type discipline lifts to programs over any number of object
   instances: soundness of [discipline_ok] and [deadlock_ok]. *)
From Coq Require Import List Bool Arith Lia.
Import ListNotations.
From Zap Require Import C09.Sem C09.Race C09.Deadlock C09.Facts.

Ltac bools :=
  repeat match goal with
  | H : _ && _ = true |- _ => apply andb_true_iff in H; destruct H
  end.

Lemma eqb2_ok (a b : oref) : eqb2 a b = true <-> a = b.
Proof.
  destruct a as [i x], b as [j y]. unfold eqb2; cbn. rewrite andb_true_iff, !Nat.eqb_eq.
  split; [intros [-> ->]; reflexivity|intros [= -> ->]; auto].
Qed.
Lemma nat_eqb_ok (a b : nat) : Nat.eqb a b = true <-> a = b.
Proof. apply Nat.eqb_eq. Qed.
Lemma eqb2_same i x y : eqb2 (i, x) (i, y) = Nat.eqb x y.
Proof. unfold eqb2; cbn. now rewrite Nat.eqb_refl. Qed.
Lemma eqb2_diff i j x y : j <> i -> eqb2 (j, x) (i, y) = false.
Proof. intros H. unfold eqb2; cbn. apply Nat.eqb_neq in H. now rewrite H. Qed.

(* ---------------------------------------------------------------- renaming *)
Lemma pure_cmap A B (g : A -> B) (k : code A) : pure (cmap g k) = pure k.
Proof. induction k; cbn; auto; now rewrite ?IHk1, ?IHk2. Qed.

Lemma cmap_capp A B (g : A -> B) (a b : code A) : cmap g (capp a b) = capp (cmap g a) (cmap g b).
Proof. induction a; cbn; auto; now rewrite ?IHa, ?IHa2. Qed.

Section Same.
Variable i : nat.
Notation g := (pair i : nat -> oref).

Lemma allacc_same P f (k : code nat) : allacc eqb2 P (i, f) (cmap g k) = allacc Nat.eqb P f k.
Proof. induction k; cbn [cmap allacc]; auto; rewrite ?eqb2_same, ?IHk, ?IHk1, ?IHk2; reflexivity. Qed.

Lemma prot_same f l c (k : code nat) : prot eqb2 (i, f) (i, l) c (cmap g k) = prot Nat.eqb f l c k.
Proof.
  revert c. induction k as [|g0 w k IHk|g0 k IHk|m x k1 IHk1 k2 IHk2|p k1 IHk1 k2 IHk2|k1 IHk1 k2 IHk2|ch k IHk|ch k IHk|m x k IHk|p k IHk]; intros c; cbn [cmap prot]; auto; rewrite ?eqb2_same, ?IHk, ?IHk1, ?IHk2; try reflexivity.
Qed.

Lemma oprot_same f o c (k : code nat) : oprot eqb2 (i, f) (i, o) c (cmap g k) = oprot Nat.eqb f o c k.
Proof.
  revert c. induction k as [|g0 w k IHk|g0 k IHk|m x k1 IHk1 k2 IHk2|p k1 IHk1 k2 IHk2|k1 IHk1 k2 IHk2|ch k IHk|ch k IHk|m x k IHk|p k IHk]; intros c; cbn [cmap oprot]; auto; rewrite ?eqb2_same, ?IHk, ?IHk1, ?IHk2; try reflexivity.
Qed.
End Same.

Section Foreign.
Variables i j : nat.
Hypothesis Hji : j <> i.
Notation g := (pair j : nat -> oref).

Lemma allacc_foreign P f (k : code nat) : allacc eqb2 P (i, f) (cmap g k) = true.
Proof. induction k; cbn [cmap allacc]; auto; rewrite ?(eqb2_diff _ _ _ _ Hji), ?IHk, ?IHk1, ?IHk2; reflexivity. Qed.

Lemma prot_foreign f l c (k : code nat) : prot eqb2 (i, f) (i, l) c (cmap g k) = true.
Proof.
  revert c. induction k as [|g0 w k IHk|g0 k IHk|m x k1 IHk1 k2 IHk2|p k1 IHk1 k2 IHk2|k1 IHk1 k2 IHk2|ch k IHk|ch k IHk|m x k IHk|p k IHk]; intros c; cbn [cmap prot]; auto;
    rewrite ?(eqb2_diff _ _ _ _ Hji), ?IHk, ?IHk1, ?IHk2; reflexivity.
Qed.

Lemma oprot_foreign f o c (k : code nat) : oprot eqb2 (i, f) (i, o) c (cmap g k) = true.
Proof.
  revert c. induction k as [|g0 w k IHk|g0 k IHk|m x k1 IHk1 k2 IHk2|p k1 IHk1 k2 IHk2|k1 IHk1 k2 IHk2|ch k IHk|ch k IHk|m x k IHk|p k IHk]; intros c; cbn [cmap oprot]; auto;
    rewrite ?(eqb2_diff _ _ _ _ Hji), ?IHk, ?IHk1, ?IHk2; reflexivity.
Qed.
End Foreign.

(* ---------------------------------------------------------------- threads of calls *)
Section Table.
Variable U : list (code nat).
Variable rk : nat -> nat.
Hypothesis Upure : units_pure U = true.

Lemma unit_pure u : In u U -> pure u = true.
Proof. intros H. unfold units_pure, all_units in Upure. rewrite forallb_forall in Upure. auto. Qed.

Lemma thread_pure cs : calls_ok U cs -> pure (thread_of cs) = true.
Proof.
  induction cs as [|c r IH]; intros H; [reflexivity|].
  unfold thread_of; cbn [map cconcat fold_right]; fold (thread_of r).
  apply pure_capp.
  - unfold inst. rewrite pure_cmap. apply unit_pure, H. now left.
  - apply IH. intros c' Hc. apply H. now right.
Qed.

Lemma prog_pure prog : from_facts U prog -> pure_prog prog.
Proof. intros H k Hk. destruct (H _ Hk) as (cs & Hc & ->). now apply thread_pure. Qed.

(* a checker that holds of every summary holds of every thread, at every instance *)
Lemma lift (chkN : code nat -> bool) (chkR : code oref -> bool) i :
  (forall a b, pure a = true -> chkR a = true -> chkR b = true -> chkR (capp a b) = true) ->
  chkR CNil = true ->
  (forall u, chkR (inst i u) = chkN u) ->
  (forall j u, j <> i -> chkR (inst j u) = true) ->
  all_units U chkN = true ->
  forall cs, calls_ok U cs -> chkR (thread_of cs) = true.
Proof.
  intros Happ Hnil Hsame Hfor Hall. unfold all_units in Hall. rewrite forallb_forall in Hall.
  induction cs as [|[j u] r IH]; intros H; [exact Hnil|].
  unfold thread_of; cbn [map cconcat fold_right fst snd]; fold (thread_of r).
  apply Happ.
  - unfold inst. rewrite pure_cmap. apply unit_pure. apply (H (j, u)). now left.
  - destruct (Nat.eq_dec j i) as [->|Hn]; [rewrite Hsame; apply Hall; apply (H (i, u)); now left|now apply Hfor].
  - apply IH. intros c' Hc. apply H. now right.
Qed.

Theorem discipline_sound f :
  field_ok U f = true ->
  forall prog, from_facts U prog -> forall i sched, ~ race_state (i, f) (run eqb2 prog sched).
Proof.
  intros Hok prog Hp i sched. pose proof (prog_pure _ Hp) as Pp.
  unfold field_ok in Hok. apply orb_true_iff in Hok as [Hok|Hc].
  apply orb_true_iff in Hok as [Hok|Hb]. apply orb_true_iff in Hok as [Ha|He].
  - (* (a) *) apply (@allacc_sound _ eqb2 eqb2_ok is_read (i, f) prog).
    + intros [[|]|] [[|]|]; cbn; intros; try discriminate; reflexivity.
    + intros k Hk. destruct (Hp _ Hk) as (cs & Hc & ->).
      apply (lift (allacc Nat.eqb is_read f) (allacc eqb2 is_read (i, f)) i); auto.
      * intros a b _ Ha1 Hb1. rewrite allacc_capp. now rewrite Ha1, Hb1.
      * intros u. apply allacc_same.
      * intros j u Hj. now apply allacc_foreign.
  - (* (e) *) apply (@allacc_sound _ eqb2 eqb2_ok is_at (i, f) prog).
    + intros [[|]|] [[|]|]; cbn; intros; try discriminate; reflexivity.
    + intros k Hk. destruct (Hp _ Hk) as (cs & Hc & ->).
      apply (lift (allacc Nat.eqb is_at f) (allacc eqb2 is_at (i, f)) i); auto.
      * intros a b _ Ha1 Hb1. rewrite allacc_capp. now rewrite Ha1, Hb1.
      * intros u. apply allacc_same.
      * intros j u Hj. now apply allacc_foreign.
  - (* (b) *) apply existsb_exists in Hb as (l & _ & Hl).
    apply (@lock_sound _ eqb2 eqb2_ok (i, f) (i, l) prog); [exact Pp|].
    intros k Hk. destruct (Hp _ Hk) as (cs & Hc & ->).
    apply (lift (prot Nat.eqb f l XN) (prot eqb2 (i, f) (i, l) XN) i); auto.
    + intros a b Pa Ha1 Hb1. rewrite (@prot_capp _ eqb2 (i, f) (i, l)) by assumption. now rewrite Ha1, Hb1.
    + intros u. apply prot_same.
    + intros j u Hj. now apply prot_foreign.
  - (* (c) *) apply existsb_exists in Hc as (o & _ & Ho).
    apply (@once_sound _ eqb2 eqb2_ok (i, f) (i, o) prog); [exact Pp|].
    intros k Hk. destruct (Hp _ Hk) as (cs & Hc & ->).
    apply (lift (oprot Nat.eqb f o OB) (oprot eqb2 (i, f) (i, o) OB) i); auto.
    + intros a b Pa Ha1 Hb1. now apply (@oprot_capp _ eqb2 (i, f) (i, o)).
    + intros u. apply oprot_same.
    + intros j u Hj. now apply oprot_foreign.
Qed.

(* ---------------------------------------------------------------- deadlock *)
Lemma below_map j n (h : list (res nat)) :
  below (rk2 rk) (rk2 rk) n (map (fun r => match r with RL l x => RL (j, l) x | RO o => RO (j, o) end) h)
  = below rk rk n h.
Proof.
  unfold below. induction h as [|a r IH]; [reflexivity|]. cbn [map forallb]. rewrite IH.
  destruct a; reflexivity.
Qed.

Lemma dl_inst j (k : code nat) : forall h,
  dl eqb2 (rk2 rk) (rk2 rk) (map (fun r => match r with RL l x => RL (j, l) x | RO o => RO (j, o) end) h) (inst j k)
  = dl Nat.eqb rk rk h k.
Proof.
  unfold inst. induction k; intros h; cbn [cmap dl]; auto.
  - rewrite below_map. rewrite <- IHk1, <- IHk2. reflexivity.
  - rewrite below_map. rewrite <- IHk1, <- IHk2. reflexivity.
  - rewrite <- IHk1, <- IHk2. reflexivity.
  - rewrite <- IHk. destruct h; reflexivity.
  - destruct h as [|[m y|p] h']; cbn [map]; auto; rewrite <- IHk; cbn [res_eqb]; rewrite ?eqb2_same; reflexivity.
  - destruct h as [|[m y|p] h']; cbn [map]; auto; rewrite <- IHk; cbn [res_eqb]; rewrite ?eqb2_same; reflexivity.
Qed.

Lemma thread_dl cs :
  all_units U (dl Nat.eqb rk rk []) = true -> calls_ok U cs ->
  dl eqb2 (rk2 rk) (rk2 rk) [] (thread_of cs) = true.
Proof.
  intros Hall. unfold all_units in Hall. rewrite forallb_forall in Hall.
  induction cs as [|[j u] r IH]; intros H; [reflexivity|].
  unfold thread_of; cbn [map cconcat fold_right fst snd]; fold (thread_of r).
  rewrite dl_capp by (unfold inst; rewrite pure_cmap; apply unit_pure; apply (H (j, u)); now left).
  apply andb_true_iff. split.
  - pose proof (dl_inst j u []) as E. cbn [map] in E. etransitivity; [exact E|]. apply Hall. apply (H (j, u)). now left.
  - apply IH. intros c' Hc. apply H. now right.
Qed.

Theorem deadlock_sound :
  all_units U (dl Nat.eqb rk rk []) = true ->
  forall prog, from_facts U prog -> forall sched,
    let s := run eqb2 prog sched in
    (forall t, blocked_lo s t -> exists t', can_step s t' = true) /\
    (forall t c, waits_chan s t c -> forall r, ~ holdsP s t r) /\
    lock_deadb s = false.
Proof.
  intros Hall prog Hp sched s. pose proof (prog_pure _ Hp) as Pp.
  assert (Hd : forall k, In k prog -> dl eqb2 (rk2 rk) (rk2 rk) [] k = true).
  { intros k Hk. destruct (Hp _ Hk) as (cs & Hc & ->). now apply thread_dl. }
  split; [|split].
  - exact (no_lock_deadlock oref eqb2 eqb2_ok (rk2 rk) (rk2 rk) prog sched Pp Hd).
  - exact (chan_wait_holds_nothing oref eqb2 eqb2_ok (rk2 rk) (rk2 rk) prog sched Pp Hd).
  - exact (lock_deadb_false oref eqb2 eqb2_ok (rk2 rk) (rk2 rk) prog sched Pp Hd).
Qed.

End Table.

(* C09 — soundness of the access disciplines: invariants of the interleaving
   semantics of Sem.v, for any number of threads and any schedule. *)
From Coq Require Import List Bool Arith Lia.
Import ListNotations.
From Zap Require Import C09.Sem.
Set Implicit Arguments.

(* ---------------------------------------------------------------- lists *)
Lemma length_setnth A (l : list A) n a : length (setnth l n a) = length l.
Proof. revert n; induction l as [|b r IH]; intros [|n]; cbn; auto. Qed.

Lemma nth_setnth_eq A (l : list A) n a : n < length l -> nth_error (setnth l n a) n = Some a.
Proof. revert n; induction l as [|b r IH]; intros [|n] H; cbn in *; try lia; auto. apply IH; lia. Qed.

Lemma nth_setnth_neq A (l : list A) n m a : m <> n -> nth_error (setnth l n a) m = nth_error l m.
Proof. revert n m; induction l as [|b r IH]; intros [|n] [|m] H; cbn; auto; try congruence. Qed.

Lemma nth_some_lt A (l : list A) n a : nth_error l n = Some a -> n < length l.
Proof. intros H. apply nth_error_Some. congruence. Qed.

(* the code of thread u after thread t (running k0) moved to k' and spawned sp *)
Lemma thr_after A (l : list A) t k' sp u k :
  t < length l -> nth_error (setnth l t k' ++ sp) u = Some k ->
  (u = t /\ k = k') \/ (u <> t /\ nth_error l u = Some k) \/ (length l <= u /\ In k sp).
Proof.
  intros Ht H. destruct (Nat.eq_dec u t) as [->|Hn].
  - left. rewrite nth_error_app1 in H by (rewrite length_setnth; exact Ht).
    rewrite nth_setnth_eq in H by exact Ht. split; congruence.
  - right. destruct (lt_dec u (length l)) as [Hu|Hu].
    + left. rewrite nth_error_app1 in H by (rewrite length_setnth; exact Hu).
      rewrite nth_setnth_neq in H by exact Hn. auto.
    + right. rewrite nth_error_app2 in H by (rewrite length_setnth; lia).
      split; [lia|]. eapply nth_error_In; eauto.
Qed.

Arguments thr_after {A l t k' sp u k}.
Lemma thr_after0 A (l : list A) t k' u k :
  t < length l -> nth_error (setnth l t k') u = Some k ->
  (u = t /\ k = k') \/ (u <> t /\ nth_error l u = Some k).
Proof.
  intros Ht H. rewrite <- (app_nil_r (setnth l t k')) in H.
  destruct (thr_after Ht H) as [?|[?|[_ []]]]; auto.
Qed.

Arguments thr_after0 {A l t k' u k}.

Section Sound.
Variable id : Type.
Variable eqb : id -> id -> bool.
Hypothesis eqb_ok : forall a b, eqb a b = true <-> a = b.

Notation code := (code id).
Notation state := (state id).
Notation step := (step eqb).
Notation run := (run eqb).

Lemma eqb_refl a : eqb a a = true.
Proof. apply eqb_ok; reflexivity. Qed.
Lemma eqb_false a b : a <> b -> eqb a b = false.
Proof. intros H. destruct (eqb a b) eqn:E; [apply eqb_ok in E; contradiction|reflexivity]. Qed.
Lemma eqb_sym a b : eqb a b = eqb b a.
Proof.
  destruct (eqb a b) eqn:E.
  - apply eqb_ok in E; subst; symmetry; apply eqb_refl.
  - destruct (eqb b a) eqn:E2; [apply eqb_ok in E2; subst; rewrite eqb_refl in E; discriminate|reflexivity].
Qed.

Lemma upd_same A (m : id -> A) x v : upd eqb m x v x = v.
Proof. unfold upd. now rewrite eqb_refl. Qed.
Lemma upd_other A (m : id -> A) x v y : y <> x -> upd eqb m x v y = m y.
Proof. intros H. unfold upd. now rewrite eqb_false. Qed.

(* ---------------------------------------------------------------- generic: run preserves *)
Lemma run_inv (P : state -> Prop) prog :
  P (init prog) -> (forall s t, P s -> P (step s t)) -> forall sched, P (run prog sched).
Proof.
  intros H0 Hs sched. unfold run. generalize (init prog) H0.
  induction sched as [|t r IH]; intros s Hs0; cbn; [exact Hs0|]. apply IH. apply Hs. exact Hs0.
Qed.

(* ---------------------------------------------------------------- purity *)
Lemma pure_wfk (k : code) : pure k = true -> wfk k = true.
Proof.
  induction k; cbn; intros H; auto; try discriminate;
    apply andb_true_iff in H as [H1 H2]; rewrite H1; cbn; auto.
Qed.
Lemma wfk_capp (a b : code) : pure a = true -> wfk b = true -> wfk (capp a b) = true.
Proof.
  induction a; cbn; intros Ha Hb; auto; try discriminate;
    apply andb_true_iff in Ha as [H1 H2]; rewrite H1; cbn; auto.
Qed.
Lemma pure_capp (a b : code) : pure a = true -> pure b = true -> pure (capp a b) = true.
Proof.
  induction a; cbn; intros Ha Hb; auto; try discriminate;
    apply andb_true_iff in Ha as [H1 H2]; rewrite H1; cbn; auto.
Qed.

(* ---------------------------------------------------------------- one step, by cases *)
Inductive tr (s : state) (t : nat) :
  code -> code -> list code -> (id -> lockst) -> (id -> oncest) -> (id -> bool) -> Prop :=
| TAcc f w k : tr s t (CAcc f w k) k [] (lks s) (ons s) (chs s)
| TAt f k : tr s t (CAtomic f k) k [] (lks s) (ons s) (chs s)
| TLockW l body k : lw (lks s l) = None -> lr (lks s l) = [] ->
    tr s t (CCrit l true body k) (capp body (CUnlock l true k)) []
       (upd eqb (lks s) l {| lw := Some t; lr := [] |}) (ons s) (chs s)
| TLockR l body k : lw (lks s l) = None ->
    tr s t (CCrit l false body k) (capp body (CUnlock l false k)) []
       (upd eqb (lks s) l {| lw := None; lr := t :: lr (lks s l) |}) (ons s) (chs s)
| TUnlockW l k :
    tr s t (CUnlock l true k) k [] (upd eqb (lks s) l {| lw := None; lr := lr (lks s l) |}) (ons s) (chs s)
| TUnlockR l k :
    tr s t (CUnlock l false k) k []
       (upd eqb (lks s) l {| lw := lw (lks s l); lr := remove_one t (lr (lks s l)) |}) (ons s) (chs s)
| TOnceRun o body k : ons s o = ONew ->
    tr s t (COnce o body k) (capp body (COnceExit o k)) [] (lks s) (upd eqb (ons s) o (ORun t)) (chs s)
| TOnceSkip o body k : ons s o = ODone ->
    tr s t (COnce o body k) k [] (lks s) (ons s) (chs s)
| TOnceExit o k : tr s t (COnceExit o k) k [] (lks s) (upd eqb (ons s) o ODone) (chs s)
| TSpawn body k : tr s t (CSpawn body k) k [body] (lks s) (ons s) (chs s)
| TRecv c k : chs s c = true -> tr s t (CRecv c k) k [] (lks s) (ons s) (chs s)
| TClose c k : tr s t (CClose c k) k [] (lks s) (ons s) (upd eqb (chs s) c true).

Lemma step_cases s t :
  step s t = s \/
  exists k k' sp L O C,
    nth_error (thr s) t = Some k /\ t < length (thr s) /\
    step s t = {| thr := setnth (thr s) t k' ++ sp; lks := L; ons := O; chs := C |} /\
    tr s t k k' sp L O C.
Proof.
  unfold step. destruct (nth_error (thr s) t) as [k|] eqn:E; [|now left].
  pose proof (nth_some_lt _ _ E) as Lt.
  destruct k.
  - now left.
  - right. do 6 eexists. split; [reflexivity|]. split; [exact Lt|]. split; [|apply TAcc].
    unfold set_thr. now rewrite app_nil_r.
  - right. do 6 eexists. split; [reflexivity|]. split; [exact Lt|]. split; [|apply TAt].
    unfold set_thr. now rewrite app_nil_r.
  - destruct x.
    + destruct (lw (lks s l)) eqn:E1; [now left|]. destruct (lr (lks s l)) eqn:E2; [|now left].
      right. do 6 eexists. split; [reflexivity|]. split; [exact Lt|]. split; [|apply TLockW; assumption].
      now rewrite app_nil_r.
    + destruct (lw (lks s l)) eqn:E1; [now left|].
      right. do 6 eexists. split; [reflexivity|]. split; [exact Lt|]. split; [|apply TLockR; assumption].
      now rewrite app_nil_r.
  - destruct (ons s o) eqn:E1.
    + right. do 6 eexists. split; [reflexivity|]. split; [exact Lt|]. split; [|apply TOnceRun; assumption].
      now rewrite app_nil_r.
    + now left.
    + right. do 6 eexists. split; [reflexivity|]. split; [exact Lt|]. split; [|apply TOnceSkip; assumption].
      unfold set_thr. now rewrite app_nil_r.
  - right. do 6 eexists. split; [reflexivity|]. split; [exact Lt|]. split; [reflexivity|apply TSpawn].
  - destruct (chs s c) eqn:E1; [|now left].
    right. do 6 eexists. split; [reflexivity|]. split; [exact Lt|]. split; [|apply TRecv; assumption].
    unfold set_thr. now rewrite app_nil_r.
  - right. do 6 eexists. split; [reflexivity|]. split; [exact Lt|]. split; [|apply TClose].
    now rewrite app_nil_r.
  - destruct x.
    + right. do 6 eexists. split; [reflexivity|]. split; [exact Lt|]. split; [|apply TUnlockW].
      now rewrite app_nil_r.
    + right. do 6 eexists. split; [reflexivity|]. split; [exact Lt|]. split; [|apply TUnlockR].
      now rewrite app_nil_r.
  - right. do 6 eexists. split; [reflexivity|]. split; [exact Lt|]. split; [|apply TOnceExit].
    now rewrite app_nil_r.
Qed.

Ltac bools :=
  repeat match goal with
  | H : _ && _ = true |- _ => apply andb_true_iff in H; destruct H
  end.

(* a thread-local property preserved by every transition holds of all threads forever *)
Definition All (Q : code -> Prop) (s : state) : Prop := forall u k, nth_error (thr s) u = Some k -> Q k.

Lemma local_step (Q : code -> Prop) :
  (forall s t k k' sp L O C, tr s t k k' sp L O C -> Q k -> Q k' /\ Forall Q sp) ->
  forall s t, All Q s -> All Q (step s t).
Proof.
  intros HQ s t I.
  destruct (step_cases s t) as [->|(k & k' & sp & L & O & C & E & Lt & -> & T)]; [exact I|].
  destruct (HQ _ _ _ _ _ _ _ _ T (I _ _ E)) as [Q1 Q2].
  intros u k0 Hu; cbn [thr] in Hu.
  destruct (thr_after Lt Hu) as [[-> ->]|[[_ Hu']|[_ Hin]]]; [exact Q1|exact (I _ _ Hu')|].
  rewrite Forall_forall in Q2. auto.
Qed.

Lemma local_run (Q : code -> Prop) prog :
  (forall s t k k' sp L O C, tr s t k k' sp L O C -> Q k -> Q k' /\ Forall Q sp) ->
  (forall k, In k prog -> Q k) -> forall sched, All Q (run prog sched).
Proof.
  intros HQ H0. apply run_inv; [|intros; now apply local_step].
  intros u k Hu. apply H0. eapply nth_error_In; eauto.
Qed.

Definition WF : state -> Prop := All (fun k => wfk k = true).

Lemma wfk_tr s t k k' sp L O C : tr s t k k' sp L O C -> wfk k = true -> wfk k' = true /\ Forall (fun k => wfk k = true) sp.
Proof.
  intros T W. inversion T; subst; cbn [wfk] in W; bools; split; auto;
    try (apply wfk_capp; cbn [wfk]; auto).
  constructor; [now apply pure_wfk|constructor].
Qed.

Definition pure_prog (prog : list code) : Prop := forall k, In k prog -> pure k = true.

Lemma WF_run prog sched : pure_prog prog -> WF (run prog sched).
Proof.
  intros Hp. apply local_run; [exact wfk_tr|]. intros k Hk. apply pure_wfk, Hp, Hk.
Qed.


Lemma eqb_dec (a b : id) : {a = b} + {a <> b}.
Proof. destruct (eqb a b) eqn:E; [left; now apply eqb_ok|right; intros ->; rewrite eqb_refl in E; discriminate]. Qed.

(* ---------------------------------------------------------------- classes (a) and (e) *)
Lemma allacc_capp P f (a b : code) : allacc eqb P f (capp a b) = (allacc eqb P f a && allacc eqb P f b)%bool.
Proof.
  induction a; cbn [capp allacc]; auto; rewrite ?IHa, ?IHa2; now rewrite ?andb_assoc.
Qed.

Lemma allacc_tr P f s t k k' sp L O C : tr s t k k' sp L O C ->
  allacc eqb P f k = true -> allacc eqb P f k' = true /\ Forall (fun k => allacc eqb P f k = true) sp.
Proof.
  intros T A. inversion T; subst; cbn [allacc] in A; bools; split; auto;
    try (rewrite allacc_capp; cbn [allacc]; apply andb_true_iff; split; auto).
Qed.

Theorem allacc_sound P f prog :
  (forall a b, P a = true -> P b = true -> conflict a b = false) ->
  (forall k, In k prog -> allacc eqb P f k = true) ->
  forall sched, ~ race_state f (run prog sched).
Proof.
  intros HP H0 sched (t1 & t2 & k1 & k2 & a1 & a2 & Hne & N1 & N2 & H1 & H2 & Cf).
  pose proof (@local_run (fun k => allacc eqb P f k = true) prog (@allacc_tr P f) H0 sched) as I.
  assert (G : forall k a, allacc eqb P f k = true -> head k = Some (f, a) -> P a = true).
  { intros k a A Hh. destruct k; cbn [head] in Hh; try discriminate; injection Hh as -> <-;
      cbn [allacc] in A; bools; rewrite eqb_refl in *; cbn in *; assumption. }
  rewrite (HP a1 a2) in Cf; [discriminate| |].
  - exact (G _ _ (I _ _ N1) H1).
  - exact (G _ _ (I _ _ N2) H2).
Qed.

(* ---------------------------------------------------------------- class (b): lock *)
Section LockClass.
Variables f l : id.
Notation prot := (prot eqb f l).

Lemma prot_capp c (a b : code) : pure a = true -> prot c (capp a b) = (prot c a && prot c b)%bool.
Proof.
  revert c.
  induction a as [|g w a IHa|g a IHa|m x a1 IHa1 a2 IHa2|o a1 IHa1 a2 IHa2|a1 IHa1 a2 IHa2|ch a IHa|ch a IHa|m x a IHa|o a IHa];
    intros c Pa; cbn [capp Sem.prot pure] in *; auto; try discriminate; bools.
  - rewrite IHa by assumption. now rewrite andb_assoc.
  - rewrite IHa by assumption. now rewrite andb_assoc.
  - destruct (eqb m l).
    + destruct c; auto. rewrite IHa2 by assumption. now rewrite andb_assoc.
    + rewrite IHa2 by assumption. now rewrite andb_assoc.
  - rewrite IHa2 by assumption. now rewrite andb_assoc.
  - rewrite IHa2 by assumption. now rewrite andb_assoc.
Qed.

Definition lrelS (st : lockst) (u : nat) (c : lctx) : Prop :=
  match c with
  | XN => True
  | XW => lw st = Some u
  | XR => lw st = None /\ In u (lr st)
  end.

Lemma in_remove_one u t rs : u <> t -> In u rs -> In u (remove_one t rs).
Proof.
  intros Hn. induction rs as [|v r IH]; cbn; [auto|]. intros [->|Hi].
  - destruct (Nat.eqb u t) eqn:E; [apply Nat.eqb_eq in E; contradiction|now left].
  - destruct (Nat.eqb v t); [exact Hi|right; auto].
Qed.

Ltac others :=
  match goal with
  | Ru : lrelS _ _ ?cu |- _ =>
    destruct cu; cbn in *; auto; try congruence;
    try (destruct Ru as [Ru1 Ru2]; try congruence;
         try match goal with H : lr _ = [] |- _ => rewrite H in Ru2; destruct Ru2 end;
         try (split; [first [assumption|reflexivity]|]; auto using in_remove_one))
  end.

Lemma lock_tr s t k k' sp L O C c :
  tr s t k k' sp L O C -> wfk k = true -> prot c k = true -> lrelS (lks s l) t c ->
  (forall u cu, u <> t -> lrelS (lks s l) u cu -> lrelS (L l) u cu) /\
  (exists c', prot c' k' = true /\ lrelS (L l) t c') /\
  Forall (fun b => prot XN b = true) sp.
Proof.
  intros T W Pc Rc. inversion T; subst; cbn [wfk] in W; cbn [prot] in Pc; bools.
  - (* acc *) split; [auto|]. split; [exists c; auto|constructor].
  - split; [auto|]. split; [exists c; auto|constructor].
  - (* lockW *) destruct (eqb_dec l0 l) as [->|Hn].
    + rewrite eqb_refl in Pc. destruct c; try discriminate. bools.
      rewrite upd_same. split; [|split; [|constructor]].
      * intros u cu Hu Ru. others.
      * exists XW. split; [|reflexivity]. rewrite prot_capp by assumption. cbn [prot].
        rewrite eqb_refl. cbn. apply andb_true_iff; auto.
    + rewrite eqb_false in Pc by assumption. bools. rewrite upd_other by auto.
      split; [auto|]. split; [|constructor]. exists c. split; [|assumption].
      rewrite prot_capp by assumption. cbn [prot]. rewrite eqb_false by assumption. apply andb_true_iff; auto.
  - (* lockR *) destruct (eqb_dec l0 l) as [->|Hn].
    + rewrite eqb_refl in Pc. destruct c; try discriminate. bools.
      rewrite upd_same. split; [|split; [|constructor]].
      * intros u cu Hu Ru. others.
      * exists XR. split; [|cbn; auto]. rewrite prot_capp by assumption. cbn [prot].
        rewrite eqb_refl. cbn. apply andb_true_iff; auto.
    + rewrite eqb_false in Pc by assumption. bools. rewrite upd_other by auto.
      split; [auto|]. split; [|constructor]. exists c. split; [|assumption].
      rewrite prot_capp by assumption. cbn [prot]. rewrite eqb_false by assumption. apply andb_true_iff; auto.
  - (* unlockW *) destruct (eqb_dec l0 l) as [->|Hn].
    + rewrite eqb_refl in Pc. bools. destruct c; try discriminate. cbn in Rc.
      rewrite upd_same. split; [|split; [|constructor]].
      * intros u cu Hu Ru. others.
      * exists XN. split; [assumption|exact I].
    + rewrite eqb_false in Pc by assumption. rewrite upd_other by auto.
      split; [auto|]. split; [exists c; auto|constructor].
  - (* unlockR *) destruct (eqb_dec l0 l) as [->|Hn].
    + rewrite eqb_refl in Pc. bools. destruct c; try discriminate. cbn in Rc. destruct Rc as [Rc1 Rc2].
      rewrite upd_same. split; [|split; [|constructor]].
      * intros u cu Hu Ru. others.
      * exists XN. split; [assumption|exact I].
    + rewrite eqb_false in Pc by assumption. rewrite upd_other by auto.
      split; [auto|]. split; [exists c; auto|constructor].
  - (* onceRun *) split; [auto|]. split; [|constructor]. exists c. split; [|assumption].
    rewrite prot_capp by assumption. cbn [prot]. apply andb_true_iff; auto.
  - split; [auto|]. split; [exists c; auto|constructor].
  - split; [auto|]. split; [exists c; auto|constructor].
  - (* spawn *) split; [auto|]. split; [exists c; auto|constructor; [assumption|constructor]].
  - split; [auto|]. split; [exists c; auto|constructor].
  - split; [auto|]. split; [exists c; auto|constructor].
Qed.

Definition LInv (s : state) : Prop :=
  forall u k, nth_error (thr s) u = Some k -> exists c, prot c k = true /\ lrelS (lks s l) u c.

Lemma LInv_step s t : WF s -> LInv s -> LInv (step s t).
Proof.
  intros W Iv.
  destruct (step_cases s t) as [->|(k & k' & sp & L & O & C & E & Lt & -> & T)]; [exact Iv|].
  destruct (Iv _ _ E) as (c & Pc & Rc).
  destruct (lock_tr c T (W _ _ E) Pc Rc) as (Ho & (c' & Pc' & Rc') & Hsp).
  intros u k0 Hu; cbn [thr lks] in *.
  destruct (thr_after Lt Hu) as [[-> ->]|[[Hn Hu']|[_ Hin]]].
  - exists c'. auto.
  - destruct (Iv _ _ Hu') as (cu & Pu & Ru). exists cu. split; [assumption|]. now apply Ho.
  - rewrite Forall_forall in Hsp. exists XN. split; [auto|exact I].
Qed.

Theorem lock_sound prog :
  pure_prog prog -> (forall k, In k prog -> prot XN k = true) ->
  forall sched, ~ race_state f (run prog sched).
Proof.
  intros Hp H0 sched.
  assert (Iv : WF (run prog sched) /\ LInv (run prog sched)).
  { apply (@run_inv (fun s => WF s /\ LInv s)).
    - split.
      + intros u k Hu. apply pure_wfk, Hp. eapply nth_error_In; eauto.
      + intros u k Hu. exists XN. split; [|exact I]. apply H0. eapply nth_error_In; eauto.
    - intros s t [W Iv]. split; [apply local_step; [exact wfk_tr|exact W]|now apply LInv_step]. }
  destruct Iv as [_ Iv].
  intros (t1 & t2 & k1 & k2 & a1 & a2 & Hne & N1 & N2 & H1 & H2 & Cf).
  destruct (Iv _ _ N1) as (c1 & P1 & R1). destruct (Iv _ _ N2) as (c2 & P2 & R2).
  assert (G : forall k a c, prot c k = true -> head k = Some (f, a) -> exists w, a = Plain w /\ lacc_ok c w = true).
  { intros k a c A Hh. destruct k; cbn [head] in Hh; try discriminate; injection Hh as -> <-;
      cbn [Sem.prot] in A; bools; rewrite eqb_refl in *; cbn in *; try discriminate. eauto. }
  destruct (G _ _ _ P1 H1) as (w1 & -> & A1). destruct (G _ _ _ P2 H2) as (w2 & -> & A2).
  cbn in Cf. destruct c1, c2; cbn in *; try discriminate; try (destruct R1, R2; congruence);
    try (destruct R1; congruence); try (destruct R2; congruence); try congruence.
  destruct w1, w2; discriminate.
Qed.
End LockClass.


(* ---------------------------------------------------------------- class (c): once *)
Section OnceClass.
Variables f o : id.
Notation oprot := (oprot eqb f o).

Lemma oprot_mono (k : code) : oprot OB k = true -> oprot OA k = true.
Proof.
  induction k as [|g w a IHa|g a IHa|m x a1 IHa1 a2 IHa2|p a1 IHa1 a2 IHa2|a1 IHa1 a2 IHa2|ch a IHa|ch a IHa|m x a IHa|p a IHa];
    cbn [Sem.oprot ochild]; intros H; auto; bools.
  - apply andb_true_iff. split; [|auto]. destruct (eqb g f); cbn in *; [discriminate|reflexivity].
  - apply andb_true_iff. split; auto.
  - apply andb_true_iff. split; auto.
  - destruct (eqb p o); [assumption|]. bools. apply andb_true_iff. split; auto.
  - apply andb_true_iff. split; auto.
  - destruct (eqb p o); [discriminate|auto].
Qed.

Lemma oprot_capp c (a b : code) :
  pure a = true -> oprot c a = true -> oprot c b = true -> oprot c (capp a b) = true.
Proof.
  revert c.
  induction a as [|g w a IHa|g a IHa|m x a1 IHa1 a2 IHa2|p a1 IHa1 a2 IHa2|a1 IHa1 a2 IHa2|ch a IHa|ch a IHa|m x a IHa|p a IHa];
    intros c Pa Ha Hb; cbn [capp Sem.oprot pure] in *; auto; try discriminate; bools.
  - apply andb_true_iff. split; auto.
  - apply andb_true_iff. split; auto.
  - apply andb_true_iff. split; auto.
  - destruct (eqb p o).
    + destruct c; try discriminate; bools; apply andb_true_iff; split; auto.
      apply IHa2; auto using oprot_mono.
    + bools. apply andb_true_iff. split; auto.
  - apply andb_true_iff. split; auto.
Qed.

Definition orelS (st : oncest) (u : nat) (c : octx) : Prop :=
  match c with
  | OB => True
  | OI => st = ORun u
  | OA => st = ODone
  end.

Lemma once_tr s t k k' sp L O C c :
  tr s t k k' sp L O C -> wfk k = true -> oprot c k = true -> orelS (ons s o) t c ->
  (forall u cu, u <> t -> orelS (ons s o) u cu -> orelS (O o) u cu) /\
  (exists c', oprot c' k' = true /\ orelS (O o) t c') /\
  Forall (fun b => exists cb, oprot cb b = true /\ forall v, orelS (O o) v cb) sp.
Proof.
  intros T W Pc Rc. inversion T; subst; cbn [wfk] in W; cbn [Sem.oprot] in Pc; bools.
  - split; [auto|]. split; [exists c; auto|constructor].
  - split; [auto|]. split; [exists c; auto|constructor].
  - (* lockW *) split; [auto|]. split; [|constructor]. exists c. split; [|assumption].
    apply oprot_capp; auto.
  - split; [auto|]. split; [|constructor]. exists c. split; [|assumption].
    apply oprot_capp; auto.
  - split; [auto|]. split; [exists c; auto|constructor].
  - split; [auto|]. split; [exists c; auto|constructor].
  - (* onceRun *) destruct (eqb_dec o0 o) as [->|Hn].
    + rewrite eqb_refl in Pc. rewrite upd_same.
      destruct c; try discriminate; cbn in Rc; try congruence. bools.
      split; [|split; [|constructor]].
      * intros u cu _ Ru. destruct cu; cbn in *; auto; congruence.
      * exists OI. split; [|reflexivity]. apply oprot_capp; auto. cbn [Sem.oprot]. now rewrite eqb_refl.
    + rewrite eqb_false in Pc by assumption. bools. rewrite upd_other by auto.
      split; [auto|]. split; [|constructor]. exists c. split; [|assumption].
      apply oprot_capp; auto. cbn [Sem.oprot]. now rewrite eqb_false.
  - (* onceSkip *) destruct (eqb_dec o0 o) as [->|Hn].
    + rewrite eqb_refl in Pc. split; [auto|]. split; [|constructor].
      exists OA. split; [|assumption]. destruct c; try discriminate; bools; auto.
    + rewrite eqb_false in Pc by assumption. bools.
      split; [auto|]. split; [exists c; auto|constructor].
  - (* onceExit *) destruct (eqb_dec o0 o) as [->|Hn].
    + rewrite eqb_refl in Pc. rewrite upd_same. destruct c; try discriminate. cbn in Rc.
      split; [|split; [|constructor]].
      * intros u cu Hu Ru. destruct cu; cbn in *; auto. congruence.
      * exists OA. split; [assumption|reflexivity].
    + rewrite eqb_false in Pc by assumption. rewrite upd_other by auto.
      split; [auto|]. split; [exists c; auto|constructor].
  - (* spawn *) split; [auto|]. split; [exists c; auto|]. constructor; [|constructor].
    exists (ochild c). split; [assumption|]. intros v. destruct c; cbn in *; auto.
  - split; [auto|]. split; [exists c; auto|constructor].
  - split; [auto|]. split; [exists c; auto|constructor].
Qed.

Definition OInv (s : state) : Prop :=
  forall u k, nth_error (thr s) u = Some k -> exists c, oprot c k = true /\ orelS (ons s o) u c.

Lemma OInv_step s t : WF s -> OInv s -> OInv (step s t).
Proof.
  intros W Iv.
  destruct (step_cases s t) as [->|(k & k' & sp & L & O & C & E & Lt & -> & T)]; [exact Iv|].
  destruct (Iv _ _ E) as (c & Pc & Rc).
  destruct (once_tr c T (W _ _ E) Pc Rc) as (Ho & (c' & Pc' & Rc') & Hsp).
  intros u k0 Hu; cbn [thr ons] in *.
  destruct (thr_after Lt Hu) as [[-> ->]|[[Hn Hu']|[_ Hin]]].
  - exists c'. auto.
  - destruct (Iv _ _ Hu') as (cu & Pu & Ru). exists cu. split; [assumption|]. now apply Ho.
  - rewrite Forall_forall in Hsp. destruct (Hsp _ Hin) as (cb & Pb & Rb). exists cb. auto.
Qed.

Theorem once_sound prog :
  pure_prog prog -> (forall k, In k prog -> oprot OB k = true) ->
  forall sched, ~ race_state f (run prog sched).
Proof.
  intros Hp H0 sched.
  assert (Iv : WF (run prog sched) /\ OInv (run prog sched)).
  { apply (@run_inv (fun s => WF s /\ OInv s)).
    - split.
      + intros u k Hu. apply pure_wfk, Hp. eapply nth_error_In; eauto.
      + intros u k Hu. exists OB. split; [|exact I]. apply H0. eapply nth_error_In; eauto.
    - intros s t [W Iv]. split; [apply local_step; [exact wfk_tr|exact W]|now apply OInv_step]. }
  destruct Iv as [_ Iv].
  intros (t1 & t2 & k1 & k2 & a1 & a2 & Hne & N1 & N2 & H1 & H2 & Cf).
  destruct (Iv _ _ N1) as (c1 & P1 & R1). destruct (Iv _ _ N2) as (c2 & P2 & R2).
  assert (G : forall k a c, oprot c k = true -> head k = Some (f, a) -> exists w, a = Plain w /\ oacc_ok c w = true).
  { intros k a c A Hh. destruct k; cbn [head] in Hh; try discriminate; injection Hh as -> <-;
      cbn [Sem.oprot] in A; bools; rewrite eqb_refl in *; cbn in *; try discriminate. eauto. }
  destruct (G _ _ _ P1 H1) as (w1 & -> & A1). destruct (G _ _ _ P2 H2) as (w2 & -> & A2).
  cbn in Cf. destruct c1, c2; cbn in *; try discriminate; try congruence.
  destruct w1, w2; discriminate.
Qed.
End OnceClass.

End Sound.

(* C09 — recycled objects (sync.Pool): the release discipline and what it buys.

   Part 1.  Per function and per recycled variable v, gen/c09_release.go extracts the
   control-flow skeleton of the events on v (Gen/ReleaseFacts.v):
       ERel  v is handed back (v.Free(), pool.Put(v), putX(v))
       EUse  v is used (read, written through, passed on)
       EAcq  v is (re)bound (v := pool.Get(), v = nil, ...)
   with branches, loops, switch/select, return/break/continue and DEFERRED code.
   [fn_trace body tr]: tr is the event sequence of some path through the function,
   deferred code included (last registered first).  [good false tr]: on that path v is
   never handed back twice and never touched after it was handed back.
   [release_ok] is a decidable check (abstract interpretation over the two statuses
   "live"/"released" and the stack of pending deferred code) and [release_sound] proves
   that it covers EVERY path.

   Part 2.  Why it matters for C09: a pool hands an object it holds to whoever asks.
   [pool_exclusive]: if every goroutine keeps the discipline on every object (uses and
   puts only what it got and has not put back since), then no object is ever held by two
   goroutines, and every use of a pooled object happens while nobody else holds it — no
   data race on recycled objects, for any number of goroutines and any interleaving.
   [double_put_shares]: one double Put (all later code perfectly disciplined) and two
   goroutines hold the same object. *)
From Coq Require Import List Bool Arith Lia.
Import ListNotations.

(* ================================================================ Part 1: one function *)

Inductive ev := ERel | EUse | EAcq.

Inductive stm :=
| SSkip
| SEv (e : ev)
| SSeq (a b : stm)
| SIf (a b : stm)        (* either branch *)
| SLoop (a : stm)        (* zero or more rounds; break and continue end a round *)
| SCatch (a : stm)       (* switch / select: a break ends it *)
| SRet | SBrk | SCont
| SDefer (d : stm).      (* d runs when the function returns *)

Inductive out := ONorm | ORet | OBrk | OCont.

(* exec s pending trace pending' outcome *)
Inductive exec : stm -> list stm -> list ev -> list stm -> out -> Prop :=
| XSkip p : exec SSkip p [] p ONorm
| XEv e p : exec (SEv e) p [e] p ONorm
| XSeqN a b p t1 p1 t2 p2 o : exec a p t1 p1 ONorm -> exec b p1 t2 p2 o -> exec (SSeq a b) p (t1 ++ t2) p2 o
| XSeqA a b p t1 p1 o : exec a p t1 p1 o -> o <> ONorm -> exec (SSeq a b) p t1 p1 o
| XIfL a b p t p' o : exec a p t p' o -> exec (SIf a b) p t p' o
| XIfR a b p t p' o : exec b p t p' o -> exec (SIf a b) p t p' o
| XLoop0 a p : exec (SLoop a) p [] p ONorm
| XLoopS a p t1 p1 o1 t2 p2 o2 : exec a p t1 p1 o1 -> o1 = ONorm \/ o1 = OCont ->
    exec (SLoop a) p1 t2 p2 o2 -> exec (SLoop a) p (t1 ++ t2) p2 o2
| XLoopB a p t1 p1 : exec a p t1 p1 OBrk -> exec (SLoop a) p t1 p1 ONorm
| XLoopR a p t1 p1 : exec a p t1 p1 ORet -> exec (SLoop a) p t1 p1 ORet
| XCatch a p t p' o : exec a p t p' o -> exec (SCatch a) p t p' (match o with OBrk => ONorm | _ => o end)
| XRet p : exec SRet p [] p ORet
| XBrk p : exec SBrk p [] p OBrk
| XCont p : exec SCont p [] p OCont
| XDefer d p : exec (SDefer d) p [] (d :: p) ONorm.

(* the pending deferred code runs last-registered first (the list is a stack); each is a
   function body of its own *)
Inductive unwind : list stm -> list ev -> Prop :=
| UNil : unwind [] []
| UCons d p t1 p1 o t2 : exec d [] t1 p1 o -> unwind p t2 -> unwind (d :: p) (t1 ++ t2).

Definition fn_trace (body : stm) (tr : list ev) : Prop :=
  exists t1 p o t2, exec body [] t1 p o /\ unwind p t2 /\ tr = t1 ++ t2.

(* the discipline on a trace; rel = "v is currently handed back" *)
Fixpoint good (rel : bool) (t : list ev) : bool :=
  match t with
  | [] => true
  | EAcq :: q => good false q
  | EUse :: q => negb rel && good rel q
  | ERel :: q => negb rel && good true q
  end.

Fixpoint after (rel : bool) (t : list ev) : bool :=
  match t with
  | [] => rel
  | EAcq :: q => after false q
  | EUse :: q => after rel q
  | ERel :: q => after true q
  end.

Lemma good_app r t1 t2 : good r (t1 ++ t2) = good r t1 && good (after r t1) t2.
Proof.
  revert r. induction t1 as [|e q IH]; intros r; cbn; [reflexivity|].
  destruct e; rewrite ?IH, ?andb_assoc; reflexivity.
Qed.

Lemma after_app r t1 t2 : after r (t1 ++ t2) = after (after r t1) t2.
Proof. revert r. induction t1 as [|e q IH]; intros r; cbn; [reflexivity|]. destruct e; apply IH. Qed.

(* ---------------------------------------------------------------- the checker *)
Definition st := (bool * list stm)%type.      (* handed back?, pending deferred code *)

Definition ev_eqb (a b : ev) : bool :=
  match a, b with ERel, ERel | EUse, EUse | EAcq, EAcq => true | _, _ => false end.

Fixpoint stm_eqb (a b : stm) : bool :=
  match a, b with
  | SSkip, SSkip | SRet, SRet | SBrk, SBrk | SCont, SCont => true
  | SEv e, SEv f => ev_eqb e f
  | SSeq a1 a2, SSeq b1 b2 | SIf a1 a2, SIf b1 b2 => stm_eqb a1 b1 && stm_eqb a2 b2
  | SLoop x, SLoop y | SCatch x, SCatch y | SDefer x, SDefer y => stm_eqb x y
  | _, _ => false
  end.

Fixpoint stms_eqb (a b : list stm) : bool :=
  match a, b with
  | [], [] => true
  | x :: q, y :: r => stm_eqb x y && stms_eqb q r
  | _, _ => false
  end.

Definition st_eqb (a b : st) : bool := Bool.eqb (fst a) (fst b) && stms_eqb (snd a) (snd b).

Lemma stm_eqb_eq a : forall b, stm_eqb a b = true -> a = b.
Proof.
  induction a; intros b H; destruct b; cbn in H; try discriminate; try reflexivity.
  - destruct e, e0; cbn in H; try discriminate; reflexivity.
  - apply andb_true_iff in H as [H1 H2]. now rewrite (IHa1 _ H1), (IHa2 _ H2).
  - apply andb_true_iff in H as [H1 H2]. now rewrite (IHa1 _ H1), (IHa2 _ H2).
  - now rewrite (IHa _ H).
  - now rewrite (IHa _ H).
  - now rewrite (IHa _ H).
Qed.

Lemma stms_eqb_eq a : forall b, stms_eqb a b = true -> a = b.
Proof.
  induction a as [|x q IH]; intros [|y r] H; cbn in H; try discriminate; [reflexivity|].
  apply andb_true_iff in H as [H1 H2]. now rewrite (stm_eqb_eq _ _ H1), (IH _ H2).
Qed.

Lemma st_eqb_eq a b : st_eqb a b = true -> a = b.
Proof.
  destruct a as [x p], b as [y q]. unfold st_eqb; cbn. intros H. apply andb_true_iff in H as [H1 H2].
  apply Bool.eqb_prop in H1. now rewrite H1, (stms_eqb_eq _ _ H2).
Qed.

(* sets of states as duplicate-free lists *)
Definition add1 (x : st) (l : list st) : list st := if existsb (st_eqb x) l then l else x :: l.
Definition union (a b : list st) : list st := fold_right add1 b a.

Lemma in_add1 x y l : In x (y :: l) -> In x (add1 y l).
Proof.
  unfold add1. destruct (existsb (st_eqb y) l) eqn:E; [|auto].
  intros [<-|H]; [|exact H]. apply existsb_exists in E as (z & Hz & Ez). now rewrite (st_eqb_eq _ _ Ez).
Qed.

Lemma in_union x a b : In x a \/ In x b -> In x (union a b).
Proof.
  unfold union. induction a as [|y q IH]; cbn [fold_right]; intros [H|H]; try (now destruct H); auto.
  - apply in_add1. destruct H as [<-|H]; [now left|right; auto].
  - apply in_add1. right. auto.
Qed.

Record res := mkres { rn : list st; rr : list st; rb : list st; rc : list st; rok : bool }.
Definition rempty := mkres [] [] [] [] true.
Definition rjoin (x y : res) : res :=
  mkres (union (rn x) (rn y)) (union (rr x) (rr y)) (union (rb x) (rb y)) (union (rc x) (rc y)) (rok x && rok y).
Definition rbind (l : list st) (f : st -> res) : res := fold_right (fun s acc => rjoin (f s) acc) rempty l.
Definition sel (o : out) (x : res) : list st :=
  match o with ONorm => rn x | ORet => rr x | OBrk => rb x | OCont => rc x end.

Lemma sel_rjoin o x y z : In z (sel o x) \/ In z (sel o y) -> In z (sel o (rjoin x y)).
Proof. destruct o; cbn; apply in_union. Qed.

Lemma rbind_ok l f s : In s l -> rok (rbind l f) = true -> rok (f s) = true.
Proof.
  induction l as [|y q IH]; cbn; [intros []|]. intros [<-|H] E; apply andb_true_iff in E as [E1 E2]; auto.
Qed.

Lemma rbind_in l f s o z : In s l -> In z (sel o (f s)) -> In z (sel o (rbind l f)).
Proof.
  induction l as [|y q IH]; cbn [rbind fold_right]; [intros []|]. intros [<-|H] Hz; apply sel_rjoin; [now left|right].
  apply IH; assumption.
Qed.

Fixpoint nodefer (s : stm) : bool :=
  match s with
  | SDefer _ => false
  | SSeq a b | SIf a b => nodefer a && nodefer b
  | SLoop a | SCatch a => nodefer a
  | _ => true
  end.

Definition memb (y : bool) (l : list bool) : bool := existsb (Bool.eqb y) l.

Lemma memb_in y l : memb y l = true -> In y l.
Proof. unfold memb. intros H. apply existsb_exists in H as (z & Hz & E). apply Bool.eqb_prop in E. now subst. Qed.

(* statuses at the head of the next round of a loop with body result [b] *)
Definition nxt (b : res) : list bool := map fst (rn b ++ rc b).

Fixpoint ai (s : stm) (x : st) : res :=
  match s with
  | SSkip => mkres [x] [] [] [] true
  | SEv EAcq => mkres [(false, snd x)] [] [] [] true
  | SEv EUse => mkres [x] [] [] [] (negb (fst x))
  | SEv ERel => mkres [(true, snd x)] [] [] [] (negb (fst x))
  | SSeq a b =>
      let ra := ai a x in
      let rest := rbind (rn ra) (ai b) in
      mkres (rn rest) (union (rr ra) (rr rest)) (union (rb ra) (rb rest)) (union (rc ra) (rc rest)) (rok ra && rok rest)
  | SIf a b => rjoin (ai a x) (ai b x)
  | SCatch a => let ra := ai a x in mkres (union (rn ra) (rb ra)) (rr ra) [] (rc ra) (rok ra)
  | SRet => mkres [] [x] [] [] true
  | SBrk => mkres [] [] [x] [] true
  | SCont => mkres [] [] [] [x] true
  | SDefer d => mkres [(fst x, d :: snd x)] [] [] [] (nodefer d)
  | SLoop a =>
      (* no defer in a loop: the pending stack is the same at every round, so the states at the
         head of a round differ in the status only; X2 = the statuses after up to two rounds,
         CHECKED to be closed under one more *)
      let p := snd x in
      let body := fun r => ai a (r, p) in
      let X1 := fst x :: nxt (body (fst x)) in
      let X2 := X1 ++ flat_map (fun r => nxt (body r)) X1 in
      let closed := forallb (fun r => forallb (fun y => memb y X2) (nxt (body r))) X2 in
      mkres (union (map (fun r => (r, p)) X2) (flat_map (fun r => rb (body r)) X2))
            (flat_map (fun r => rr (body r)) X2) [] []
            (nodefer a && closed && forallb (fun r => rok (body r)) X2)
  end.

(* every way of running the pending deferred code from status r is fine *)
Fixpoint unwind_ok (p : list stm) (r : bool) : bool :=
  match p with
  | [] => true
  | d :: q =>
      let rd := ai d (r, []) in
      rok rd && forallb (fun s => unwind_ok q (fst s)) (rn rd ++ rr rd ++ rb rd ++ rc rd)
  end.

Definition exits (x : res) : list st := rn x ++ rr x ++ rb x ++ rc x.

Definition release_ok (body : stm) : bool :=
  let rb := ai body (false, []) in
  rok rb && forallb (fun s => unwind_ok (snd s) (fst s)) (exits rb).

(* ---------------------------------------------------------------- soundness *)
Lemma nodefer_pend s p t p' o : exec s p t p' o -> nodefer s = true -> p' = p.
Proof.
  induction 1; cbn [nodefer]; intros N; try reflexivity; try discriminate;
    try (apply andb_true_iff in N as [N1 N2]); auto.
  - rewrite (IHexec2 N2). auto.
  - rewrite IHexec2 by assumption. auto.
Qed.

Definition sound_at (s : stm) : Prop :=
  forall p t p' o, exec s p t p' o -> forall r, rok (ai s (r, p)) = true ->
    good r t = true /\ In (after r t, p') (sel o (ai s (r, p))).

Lemma loop_sound a (IHa : sound_at a) (Hnd : nodefer a = true) p (X : list bool)
  (Hok : forall x, In x X -> rok (ai a (x, p)) = true)
  (Hcl : forall x, In x X -> forall y, In y (nxt (ai a (x, p))) -> In y X) :
  forall l p0 t p' o, exec l p0 t p' o -> l = SLoop a -> p0 = p -> forall r, In r X ->
    good r t = true /\ p' = p /\
    match o with
    | ONorm => In (after r t) X \/ exists x, In x X /\ In (after r t, p') (rb (ai a (x, p)))
    | ORet => exists x, In x X /\ In (after r t, p') (rr (ai a (x, p)))
    | _ => False
    end.
Proof.
  induction 1; intros El Ep r Hr; try discriminate; injection El as ->; subst.
  - (* no round *) cbn. auto.
  - (* one round, then the rest *)
    clear IHexec1.
    pose proof (nodefer_pend _ _ _ _ _ H Hnd) as ->.
    destruct (IHa _ _ _ _ H r (Hok _ Hr)) as [G1 I1].
    assert (Hx : In (after r t1) X).
    { apply (Hcl _ Hr). unfold nxt. rewrite map_app. apply in_or_app. apply (in_map fst) in I1. cbn [fst] in I1.
      destruct H0 as [->| ->]; cbn [sel] in I1; auto. }
    destruct (IHexec2 eq_refl eq_refl _ Hx) as (G2 & -> & R).
    rewrite good_app, after_app, G1, G2. auto.
  - (* break *)
    clear IHexec. pose proof (nodefer_pend _ _ _ _ _ H Hnd) as ->.
    destruct (IHa _ _ _ _ H r (Hok _ Hr)) as [G1 I1]. cbn in I1. split; [exact G1|]. split; [reflexivity|].
    right. exists r. auto.
  - (* return *)
    clear IHexec. pose proof (nodefer_pend _ _ _ _ _ H Hnd) as ->.
    destruct (IHa _ _ _ _ H r (Hok _ Hr)) as [G1 I1]. cbn in I1. split; [exact G1|]. split; [reflexivity|].
    exists r. auto.
Qed.

Lemma exec_seq_inv a b p t p' o : exec (SSeq a b) p t p' o ->
  (exists t1 p1 t2, exec a p t1 p1 ONorm /\ exec b p1 t2 p' o /\ t = t1 ++ t2) \/ (exec a p t p' o /\ o <> ONorm).
Proof. inversion 1; subst; eauto 10. Qed.

Lemma exec_if_inv a b p t p' o : exec (SIf a b) p t p' o -> exec a p t p' o \/ exec b p t p' o.
Proof. inversion 1; subst; auto. Qed.

Lemma exec_catch_inv a p t p' o : exec (SCatch a) p t p' o ->
  exists o', exec a p t p' o' /\ o = match o' with OBrk => ONorm | _ => o' end.
Proof. inversion 1; subst; eauto. Qed.

Lemma ai_sound s : sound_at s.
Proof.
  induction s as [|e|a IHa b IHb|a IHa b IHb|a IHa|a IHa| | | |d IHd]; intros p t p' o H r Hok.
  - (* skip *) inversion H; subst. cbn. auto.
  - (* event *) inversion H; subst. destruct e; cbn in *.
    + destruct r; cbn in Hok; try discriminate. cbn. auto.
    + destruct r; cbn in Hok; try discriminate. cbn. auto.
    + auto.
  - (* seq *)
    cbn [ai] in Hok |- *. cbn [rok] in Hok. apply andb_true_iff in Hok as [Oa Ob].
    apply exec_seq_inv in H as [(t1 & p1 & t2 & Ha & Hb & ->)|[Ha Hne]].
    + destruct (IHa _ _ _ _ Ha r Oa) as [G1 I1]. cbn [sel] in I1.
      pose proof (rbind_ok _ _ _ I1 Ob) as Ob'.
      destruct (IHb _ _ _ _ Hb _ Ob') as [G2 I2].
      rewrite good_app, after_app, G1, G2. split; [reflexivity|].
      pose proof (rbind_in _ (ai b) _ o _ I1 I2) as R.
      destruct o; cbn [sel rn rr rb rc] in *; auto; apply in_union; auto.
    + destruct (IHa _ _ _ _ Ha r Oa) as [G1 I1]. split; [exact G1|].
      destruct o; cbn [sel rn rr rb rc] in *; try congruence; apply in_union; auto.
  - (* if *)
    cbn [ai] in Hok |- *. unfold rjoin in Hok; cbn [rok] in Hok. apply andb_true_iff in Hok as [Oa Ob].
    apply exec_if_inv in H as [H|H].
    + destruct (IHa _ _ _ _ H r Oa) as [G1 I1]. split; [exact G1|]. apply sel_rjoin. auto.
    + destruct (IHb _ _ _ _ H r Ob) as [G1 I1]. split; [exact G1|]. apply sel_rjoin. auto.
  - (* loop *)
    cbn [ai] in Hok. cbn [rok fst snd] in Hok.
    apply andb_true_iff in Hok as [Hok Oall]. apply andb_true_iff in Hok as [Nd Cl].
    set (X1 := r :: nxt (ai a (r, p))) in *.
    set (X2 := X1 ++ flat_map (fun r0 => nxt (ai a (r0, p))) X1) in *.
    assert (HrX : In r X2) by (unfold X2, X1; apply in_or_app; left; now left).
    assert (HokX : forall x, In x X2 -> rok (ai a (x, p)) = true).
    { intros x Hx. rewrite forallb_forall in Oall. auto. }
    assert (HclX : forall x, In x X2 -> forall y, In y (nxt (ai a (x, p))) -> In y X2).
    { intros x Hx y Hy. rewrite forallb_forall in Cl. specialize (Cl _ Hx). rewrite forallb_forall in Cl. apply memb_in. auto. }
    destruct (loop_sound a IHa Nd p X2 HokX HclX _ _ _ _ _ H eq_refl eq_refl r HrX) as (G & -> & R).
    split; [exact G|]. cbn [ai sel rn rr rb rc fst snd]. fold X1. fold X2.
    destruct o; try contradiction.
    + apply in_union. destruct R as [R|(x & Hx & R)]; [left; exact (in_map (fun r0 => (r0, p)) _ _ R)|right; apply in_flat_map; eauto].
    + destruct R as (x & Hx & R). apply in_flat_map; eauto.
  - (* catch *)
    cbn [ai] in Hok |- *. cbn [rok] in Hok. apply exec_catch_inv in H as (o' & H & ->).
    destruct (IHa _ _ _ _ H r Hok) as [G I]. split; [exact G|].
    destruct o'; cbn [sel rn rr rb rc] in *; auto; apply in_union; auto.
  - inversion H; subst. cbn. auto.
  - inversion H; subst. cbn. auto.
  - inversion H; subst. cbn. auto.
  - (* defer *) inversion H; subst. cbn. auto.
Qed.

Lemma unwind_sound p t : unwind p t -> forall r, unwind_ok p r = true -> good r t = true.
Proof.
  induction 1; intros r Hok; [reflexivity|]. cbn [unwind_ok] in Hok. apply andb_true_iff in Hok as [O1 O2].
  destruct (ai_sound _ _ _ _ _ H r O1) as [G I]. rewrite good_app, G. cbn.
  rewrite forallb_forall in O2. apply IHunwind.
  assert (In (after r t1, p1) (rn (ai d (r, [])) ++ rr (ai d (r, [])) ++ rb (ai d (r, [])) ++ rc (ai d (r, [])))).
  { destruct o; cbn [sel] in I; rewrite !in_app_iff; auto. }
  exact (O2 _ H1).
Qed.

Theorem release_sound body : release_ok body = true -> forall tr, fn_trace body tr -> good false tr = true.
Proof.
  unfold release_ok. intros Hok tr (t1 & p & o & t2 & Hx & Hu & ->).
  apply andb_true_iff in Hok as [O1 O2].
  destruct (ai_sound _ _ _ _ _ Hx false O1) as [G I]. rewrite good_app, G. cbn.
  rewrite forallb_forall in O2.
  assert (In (after false t1, p) (exits (ai body (false, [])))).
  { unfold exits. destruct o; cbn [sel] in I; rewrite !in_app_iff; auto. }
  exact (unwind_sound _ _ Hu _ (O2 _ H)).
Qed.

(* the table-level check over named units *)
Definition release_all_ok {N : Type} (us : list (N * stm)) : bool := forallb (fun u => release_ok (snd u)) us.

(* ================================================================ Part 2: the pool *)

Inductive act :=
| AGet (t x : nat)     (* goroutine t obtains object x from the pool (or a new one) *)
| AUse (t x : nat)
| APut (t x : nat)     (* goroutine t puts x into the pool -- whether or not it holds it *)
| ADrop (x : nat).     (* the pool forgets one free copy of x (garbage collection) *)

Record pst := mkp { cnt : nat -> nat; holds : nat -> nat -> bool }.   (* free copies; who holds what *)

Definition upd (f : nat -> nat) (x v : nat) : nat -> nat := fun y => if Nat.eqb y x then v else f y.
Definition updh (h : nat -> nat -> bool) (t x : nat) (v : bool) : nat -> nat -> bool :=
  fun t' y => if Nat.eqb t' t && Nat.eqb y x then v else h t' y.

Definition pinit : pst := mkp (fun _ => 0) (fun _ _ => false).

Inductive pstep : pst -> act -> pst -> Prop :=
| PGetFree s t x : 0 < cnt s x -> pstep s (AGet t x) (mkp (upd (cnt s) x (cnt s x - 1)) (updh (holds s) t x true))
| PGetNew s t x : cnt s x = 0 -> (forall t', holds s t' x = false) ->     (* a new object: nobody has it *)
    pstep s (AGet t x) (mkp (cnt s) (updh (holds s) t x true))
| PUse s t x : pstep s (AUse t x) s
| PPut s t x : pstep s (APut t x) (mkp (upd (cnt s) x (S (cnt s x))) (updh (holds s) t x false))
| PDrop s x : 0 < cnt s x -> pstep s (ADrop x) (mkp (upd (cnt s) x (cnt s x - 1)) (holds s)).

Inductive pruns : list act -> pst -> Prop :=
| RNil : pruns [] pinit
| RSnoc h s a s' : pruns h s -> pstep s a s' -> pruns (h ++ [a]) s'.

(* what goroutine t did to object x, as events of Part 1 *)
Fixpoint proj (t x : nat) (h : list act) : list ev :=
  match h with
  | [] => []
  | AGet t' y :: q => if Nat.eqb t' t && Nat.eqb y x then EAcq :: proj t x q else proj t x q
  | AUse t' y :: q => if Nat.eqb t' t && Nat.eqb y x then EUse :: proj t x q else proj t x q
  | APut t' y :: q => if Nat.eqb t' t && Nat.eqb y x then ERel :: proj t x q else proj t x q
  | ADrop _ :: q => proj t x q
  end.

Lemma proj_app t x h1 h2 : proj t x (h1 ++ h2) = proj t x h1 ++ proj t x h2.
Proof.
  induction h1 as [|a q IH]; cbn; [reflexivity|].
  destruct a; try destruct (Nat.eqb t0 t && Nat.eqb x0 x); cbn; now rewrite ?IH.
Qed.

(* every goroutine keeps the discipline on every object (it starts without it: status "handed back") *)
Definition disciplined (h : list act) : Prop := forall t x, good true (proj t x h) = true.

Definition pinv (h : list act) (s : pst) : Prop :=
  (forall x, cnt s x <= 1) /\
  (forall t x, holds s t x = true -> cnt s x = 0) /\
  (forall t1 t2 x, holds s t1 x = true -> holds s t2 x = true -> t1 = t2) /\
  (forall t x, holds s t x = negb (after true (proj t x h))).

Lemma disciplined_prefix h a : disciplined (h ++ [a]) -> disciplined h.
Proof. intros D t x. specialize (D t x). rewrite proj_app, good_app in D. apply andb_true_iff in D. tauto. Qed.

Lemma eqb2_true t' t y x : Nat.eqb t' t && Nat.eqb y x = true -> t' = t /\ y = x.
Proof. intros H. apply andb_true_iff in H as [H1 H2]. apply Nat.eqb_eq in H1, H2. auto. Qed.

Lemma eqb2_refl t x : Nat.eqb t t && Nat.eqb x x = true.
Proof. now rewrite !Nat.eqb_refl. Qed.

Lemma pool_invariant h s : pruns h s -> disciplined h -> pinv h s.
Proof.
  induction 1 as [|h s a s' Hr IH Hs]; intros D.
  - repeat split; cbn; auto; intros; discriminate.
  - specialize (IH (disciplined_prefix _ _ D)). destruct IH as (I1 & I2 & I3 & I4).
    assert (Dl : forall t x, good (after true (proj t x h)) (proj t x [a]) = true).
    { intros t x. specialize (D t x). rewrite proj_app, good_app in D. apply andb_true_iff in D. tauto. }
    assert (I4' : forall t x, after true (proj t x (h ++ [a])) = after (after true (proj t x h)) (proj t x [a])).
    { intros t x. now rewrite proj_app, after_app. }
    destruct Hs as [s t x Hc|s t x Hc Hn|s t x|s t x|s x Hc]; unfold pinv; cbn [cnt holds].
    + (* Get of a free copy *)
      assert (C1 : cnt s x = 1) by (specialize (I1 x); lia).
      assert (Nobody : forall t', holds s t' x = false).
      { intros t'. destruct (holds s t' x) eqn:E; [|reflexivity]. apply I2 in E. lia. }
      repeat split.
      * intros y. unfold upd. destruct (Nat.eqb y x); [lia|apply I1].
      * intros t' y. unfold updh, upd. destruct (Nat.eqb t' t && Nat.eqb y x) eqn:E.
        -- apply eqb2_true in E as [-> ->]. rewrite Nat.eqb_refl. lia.
        -- intros Hh. destruct (Nat.eqb y x) eqn:Ey; [|eauto]. apply Nat.eqb_eq in Ey. subst. rewrite Nobody in Hh. discriminate.
      * intros t1 t2 y. unfold updh.
        destruct (Nat.eqb t1 t && Nat.eqb y x) eqn:E1; destruct (Nat.eqb t2 t && Nat.eqb y x) eqn:E2; intros H1 H2.
        -- apply eqb2_true in E1 as [-> _]. apply eqb2_true in E2 as [-> _]. reflexivity.
        -- apply eqb2_true in E1 as [-> ->]. rewrite Nobody in H2. discriminate.
        -- apply eqb2_true in E2 as [-> ->]. rewrite Nobody in H1. discriminate.
        -- eauto.
      * intros t' y. rewrite I4'. unfold updh. cbn [proj]. destruct (Nat.eqb t t' && Nat.eqb x y) eqn:E.
        -- apply eqb2_true in E as [-> ->]. rewrite eqb2_refl. reflexivity.
        -- assert (E' : Nat.eqb t' t && Nat.eqb y x = false).
           { rewrite (Nat.eqb_sym t' t), (Nat.eqb_sym y x). exact E. }
           rewrite E'. cbn. apply I4.
    + (* Get of a new object *)
      repeat split.
      * exact I1.
      * intros t' y. unfold updh. destruct (Nat.eqb t' t && Nat.eqb y x) eqn:E.
        -- apply eqb2_true in E as [-> ->]. auto.
        -- apply I2.
      * intros t1 t2 y. unfold updh.
        destruct (Nat.eqb t1 t && Nat.eqb y x) eqn:E1; destruct (Nat.eqb t2 t && Nat.eqb y x) eqn:E2; intros H1 H2.
        -- apply eqb2_true in E1 as [-> _]. apply eqb2_true in E2 as [-> _]. reflexivity.
        -- apply eqb2_true in E1 as [-> ->]. rewrite Hn in H2. discriminate.
        -- apply eqb2_true in E2 as [-> ->]. rewrite Hn in H1. discriminate.
        -- eauto.
      * intros t' y. rewrite I4'. unfold updh. cbn [proj]. destruct (Nat.eqb t t' && Nat.eqb x y) eqn:E.
        -- apply eqb2_true in E as [-> ->]. rewrite eqb2_refl. reflexivity.
        -- assert (E' : Nat.eqb t' t && Nat.eqb y x = false).
           { rewrite (Nat.eqb_sym t' t), (Nat.eqb_sym y x). exact E. }
           rewrite E'. cbn. apply I4.
    + (* Use *)
      repeat split; auto.
      intros t' y. rewrite I4'. cbn [proj]. destruct (Nat.eqb t t' && Nat.eqb x y); cbn; apply I4.
    + (* Put: the discipline says t holds x *)
      assert (Ht : holds s t x = true).
      { specialize (Dl t x). cbn [proj] in Dl. rewrite eqb2_refl in Dl. cbn in Dl. rewrite I4.
        destruct (after true (proj t x h)); [discriminate|reflexivity]. }
      assert (C0 : cnt s x = 0) by eauto.
      repeat split.
      * intros y. unfold upd. destruct (Nat.eqb y x); [lia|apply I1].
      * intros t' y. unfold updh, upd. destruct (Nat.eqb t' t && Nat.eqb y x) eqn:E; [discriminate|].
        intros Hh. destruct (Nat.eqb y x) eqn:Ey; [|eauto]. apply Nat.eqb_eq in Ey. subst.
        assert (t' = t) by eauto. subst. rewrite Nat.eqb_refl in E. discriminate.
      * intros t1 t2 y. unfold updh.
        destruct (Nat.eqb t1 t && Nat.eqb y x); destruct (Nat.eqb t2 t && Nat.eqb y x); try discriminate; eauto.
      * intros t' y. rewrite I4'. unfold updh. cbn [proj]. destruct (Nat.eqb t t' && Nat.eqb x y) eqn:E.
        -- apply eqb2_true in E as [-> ->]. rewrite eqb2_refl. reflexivity.
        -- assert (E' : Nat.eqb t' t && Nat.eqb y x = false).
           { rewrite (Nat.eqb_sym t' t), (Nat.eqb_sym y x). exact E. }
           rewrite E'. cbn. apply I4.
    + (* Drop *)
      repeat split; auto.
      * intros y. unfold upd. destruct (Nat.eqb y x); [specialize (I1 x); lia|apply I1].
      * intros t' y Hh. unfold upd. destruct (Nat.eqb y x) eqn:Ey; [|eauto]. apply Nat.eqb_eq in Ey. subst.
        apply I2 in Hh. lia.
      * intros t' y. rewrite I4'. cbn [proj]. cbn. apply I4.
Qed.

(* no object is ever held by two goroutines; a use happens while the user is the only holder *)
Theorem pool_exclusive h s : pruns h s -> disciplined h ->
  (forall t1 t2 x, holds s t1 x = true -> holds s t2 x = true -> t1 = t2) /\
  (forall h1 t x h2, h = h1 ++ AUse t x :: h2 -> forall s1, pruns h1 s1 ->
     holds s1 t x = true /\ forall t', holds s1 t' x = true -> t' = t).
Proof.
  intros R D. split.
  - destruct (pool_invariant _ _ R D) as (_ & _ & I3 & _). exact I3.
  - intros h1 t x h2 -> s1 R1.
    assert (D1 : disciplined (h1 ++ [AUse t x])).
    { intros t' y. specialize (D t' y). replace (h1 ++ AUse t x :: h2) with ((h1 ++ [AUse t x]) ++ h2) in D by (rewrite <- app_assoc; reflexivity).
      rewrite proj_app, good_app in D. apply andb_true_iff in D. tauto. }
    destruct (pool_invariant _ _ R1 (disciplined_prefix _ _ D1)) as (_ & _ & I3 & I4).
    assert (Ht : holds s1 t x = true).
    { specialize (D1 t x). rewrite proj_app, good_app in D1. apply andb_true_iff in D1 as [_ D1].
      cbn [proj] in D1. rewrite eqb2_refl in D1. cbn in D1. rewrite I4.
      destruct (after true (proj t x h1)); [discriminate|reflexivity]. }
    split; [exact Ht|]. intros t' Ht'. eauto.
Qed.

(* one double Put is enough: goroutine 0 gets object 7, puts it twice; afterwards goroutines
   1 and 2, each perfectly disciplined, both hold it *)
Definition double_put_run : list act := [AGet 0 7; APut 0 7; APut 0 7; AGet 1 7; AGet 2 7].

Theorem double_put_shares : exists s, pruns double_put_run s /\ holds s 1 7 = true /\ holds s 2 7 = true /\
  disciplined [AGet 1 7; AGet 2 7] /\ good true (proj 0 7 double_put_run) = false.
Proof.
  eexists. split.
  - change double_put_run with ((((([] ++ [AGet 0 7]) ++ [APut 0 7]) ++ [APut 0 7]) ++ [AGet 1 7]) ++ [AGet 2 7]).
    eapply RSnoc. eapply RSnoc. eapply RSnoc. eapply RSnoc. eapply RSnoc. apply RNil.
    + apply PGetNew; reflexivity.
    + apply PPut.
    + apply PPut.
    + apply PGetFree. cbn. lia.
    + apply PGetFree. cbn. lia.
  - split; [reflexivity|]. split; [reflexivity|]. split; [|reflexivity].
    intros t x. cbn [proj]. destruct (Nat.eqb 1 t && Nat.eqb 7 x); destruct (Nat.eqb 2 t && Nat.eqb 7 x); reflexivity.
Qed.

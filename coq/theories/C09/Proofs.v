(* C09 — stub *)
From Zap Require Import Base.Wire C09.Model.

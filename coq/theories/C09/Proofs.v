(* C09 — proofs: the generated table satisfies the disciplines; consequences for all
   programs, instances and schedules; the pre-fix lazyWithCore summary does not; the
   wire oracle is the proved property. *)
From Coq Require Import List ZArith Bool String Arith Lia.
From Coq.Strings Require Import Byte.
Import ListNotations.
From Zap Require Import Base.Wire C09.Sem C09.Race C09.Deadlock C09.Facts C09.Inst C09.Orig C09.Model Gen.AccessFacts.
From Zap Require C09.Diag.   (* printed before any obligation below can break *)
From Zap Require C09.Release Gen.ReleaseFacts.

Ltac bools :=
  repeat match goal with
  | H : _ && _ = true |- _ => apply andb_true_iff in H; destruct H
  end.

(* ---------------------------------------------------------------- table-level soundness *)
Lemma allacc_notin P f (k : code nat) : ~ In f (ids_of 0 k) -> allacc Nat.eqb P f k = true.
Proof.
  induction k as [|g0 w k IHk|g0 k IHk|m x k1 IHk1 k2 IHk2|p k1 IHk1 k2 IHk2|k1 IHk1 k2 IHk2|ch k IHk|ch k IHk|m x k IHk|p k IHk];
    cbn [ids_of allacc Nat.eqb app]; intros H; auto.
  - assert (g0 <> f) by (intros ->; apply H; now left). apply Nat.eqb_neq in H0. rewrite H0. cbn.
    apply IHk. intros Hi. apply H. now right.
  - assert (g0 <> f) by (intros ->; apply H; now left). apply Nat.eqb_neq in H0. rewrite H0. cbn.
    apply IHk. intros Hi. apply H. now right.
  - rewrite IHk1, IHk2; auto; intros Hi; apply H; apply in_or_app; auto.
  - rewrite IHk1, IHk2; auto; intros Hi; apply H; apply in_or_app; auto.
  - rewrite IHk1, IHk2; auto; intros Hi; apply H; apply in_or_app; auto.
Qed.

Lemma memb_in x l : memb x l = true <-> In x l.
Proof.
  unfold memb. rewrite existsb_exists. split.
  - intros (y & Hy & E). apply Nat.eqb_eq in E. now subst.
  - intros H. exists x. split; [exact H|apply Nat.eqb_refl].
Qed.

Lemma facts_all Us ex : discipline_ok Us ex = true -> forall f, memb f ex = false -> field_ok Us f = true.
Proof.
  intros D f Hf. unfold discipline_ok in D. bools.
  destruct (in_dec Nat.eq_dec f (fields Us)) as [Hi|Hn].
  - rewrite forallb_forall in H0. specialize (H0 _ Hi). rewrite Hf in H0. exact H0.
  - unfold field_ok. assert (A : cls_a Us f = true); [|now rewrite A].
    unfold cls_a, all_units. apply forallb_forall. intros u Hu. apply allacc_notin.
    intros Hi. apply Hn. unfold fields. apply in_flat_map. eauto.
Qed.

Lemma discipline_pure Us ex : discipline_ok Us ex = true -> units_pure Us = true.
Proof. intros D. unfold discipline_ok in D. bools. assumption. Qed.

Theorem discipline_sound_thm : forall Us ex, discipline_ok Us ex = true ->
  forall prog, from_facts Us prog -> forall sched i f, memb f ex = false ->
  ~ race_state (i, f) (run eqb2 prog sched).
Proof.
  intros Us ex D prog Hp sched i f Hf.
  exact (discipline_sound Us (discipline_pure _ _ D) f (facts_all _ _ D f Hf) prog Hp i sched).
Qed.

Theorem no_deadlock_thm : forall Us rkf, deadlock_ok Us rkf = true ->
  forall prog, from_facts Us prog -> forall sched,
    let s := run eqb2 prog sched in
    (forall t, blocked_lo s t -> exists t', can_step s t' = true) /\
    (forall t c, waits_chan s t c -> forall r, ~ holdsP s t r).
Proof.
  intros Us rkf D prog Hp sched s. unfold deadlock_ok in D. bools.
  destruct (deadlock_sound Us rkf H H0 prog Hp sched) as (A & B & _). split; assumption.
Qed.

(* ---------------------------------------------------------------- the generated facts *)
Lemma facts_thm : discipline_ok U exempt = true.
Proof. vm_compute. reflexivity. Qed.

Lemma facts_deadlock_thm : deadlock_ok U rk = true.
Proof. vm_compute. reflexivity. Qed.

Lemma units_nonempty : 50 <= List.length units.
Proof. vm_compute. repeat constructor. Qed.

(* the release skeletons extracted from the repository: on EVERY path through every function
   that hands a recycled object back, the object is handed back at most once per acquisition
   and not touched afterwards *)
Lemma release_facts_thm : Release.release_all_ok ReleaseFacts.release_units = true.
Proof. vm_compute. reflexivity. Qed.

Lemma release_paths_thm : forall name body, In (name, body) ReleaseFacts.release_units ->
  forall tr, Release.fn_trace body tr -> Release.good false tr = true.
Proof.
  intros name body Hin. apply Release.release_sound.
  pose proof release_facts_thm as F. unfold Release.release_all_ok in F. rewrite forallb_forall in F.
  exact (F _ Hin).
Qed.

Lemma release_units_nonempty : 20 <= List.length ReleaseFacts.release_units.
Proof. vm_compute. repeat constructor. Qed.

(* the shape of seed c09d: the object is acquired, its release deferred, and one early-return
   path releases it by hand as well *)
Definition c09d_shape : Release.stm :=
  Release.SSeq (Release.SEv Release.EAcq) (Release.SSeq (Release.SDefer (Release.SEv Release.ERel))
    (Release.SSeq (Release.SEv Release.EUse)
      (Release.SSeq (Release.SIf (Release.SSeq (Release.SEv Release.ERel) Release.SRet) Release.SSkip) (Release.SEv Release.EUse)))).

Lemma c09d_shape_rejected : Release.release_ok c09d_shape = false /\
  exists tr, Release.fn_trace c09d_shape tr /\ Release.good false tr = false.
Proof.
  split; [vm_compute; reflexivity|].
  exists [Release.EAcq; Release.EUse; Release.ERel; Release.ERel].
  split; [|reflexivity].
  exists ([Release.EAcq] ++ [] ++ [Release.EUse] ++ ([Release.ERel] ++ []))%list, [Release.SEv Release.ERel], Release.ORet, ([Release.ERel] ++ [])%list.
  split; [|split; [|reflexivity]].
  - unfold c09d_shape. eapply Release.XSeqN; [apply Release.XEv|].
    eapply Release.XSeqN; [apply Release.XDefer|].
    eapply Release.XSeqN; [apply Release.XEv|].
    eapply Release.XSeqA; [|discriminate].
    apply Release.XIfL. eapply Release.XSeqN; [apply Release.XEv|apply Release.XRet].
  - eapply Release.UCons; [apply Release.XEv|apply Release.UNil].
Qed.

(* ---------------------------------------------------------------- pre-fix lazyWithCore *)
Lemma facts_orig_refuted :
  discipline_ok U_orig [] = false /\ field_ok U_orig 0 = false /\
  from_facts U_orig prog_orig /\ race_state (0, 0) (run eqb2 prog_orig sched_orig).
Proof.
  split; [vm_compute; reflexivity|]. split; [vm_compute; reflexivity|]. split.
  - intros k [<-|[<-|[]]].
    + exists [(0, lazy_check_orig)]. split; [|reflexivity]. intros c [<-|[]]. cbn. auto.
    + exists [(0, lazy_enabled_orig)]. split; [|reflexivity]. intros c [<-|[]]. cbn. auto 6.
  - exists 0, 1. do 2 eexists. exists (Plain true), (Plain false).
    split; [discriminate|]. split; [vm_compute; reflexivity|]. split; [vm_compute; reflexivity|].
    split; [reflexivity|]. split; reflexivity.
Qed.

(* ---------------------------------------------------------------- executable race test *)
Lemma raceb_l_spec (flt : oref -> bool) (l : list (code oref)) : raceb_l eqb2 flt l = true ->
  exists i j k1 k2, i <> j /\ nth_error l i = Some k1 /\ nth_error l j = Some k2 /\ head_conf eqb2 flt k1 k2 = true.
Proof.
  induction l as [|k r IH]; cbn [raceb_l]; [discriminate|].
  intros H. apply orb_true_iff in H as [H|H].
  - apply existsb_exists in H as (k2 & Hin & Hc). apply In_nth_error in Hin as [j Hj].
    exists 0, (S j), k, k2. cbn. auto.
  - destruct (IH H) as (i & j & k1 & k2 & Hn & H1 & H2 & Hc).
    exists (S i), (S j), k1, k2. cbn. auto.
Qed.

Lemma raceb_race flt (s : state oref) : raceb eqb2 flt s = true ->
  exists f, flt f = true /\ race_state f s.
Proof.
  intros H. apply raceb_l_spec in H as (i & j & k1 & k2 & Hn & H1 & H2 & Hc).
  unfold head_conf in Hc.
  destruct (head k1) as [[f1 a1]|] eqn:E1; [|discriminate].
  destruct (head k2) as [[f2 a2]|] eqn:E2; [|discriminate]. bools.
  apply eqb2_ok in H. subst f2.
  exists f1. split; [assumption|]. exists i, j, k1, k2, a1, a2. auto 10.
Qed.

Lemma scan_clean ex prog : 
  (forall sched, raceb eqb2 (covered ex) (run eqb2 prog sched) = false) ->
  (forall sched, lock_deadb (run eqb2 prog sched) = false) ->
  forall sched pre, scan ex (run eqb2 prog pre) sched false false = (false, false).
Proof.
  intros HR HD. induction sched as [|t r IH]; intros pre; cbn [scan].
  - now rewrite HR, HD.
  - rewrite HR, HD. cbn [orb].
    replace (step eqb2 (run eqb2 prog pre) t) with (run eqb2 prog (pre ++ [t])); [apply IH|].
    unfold run. now rewrite fold_left_app.
Qed.

Lemma find_unit_in n us c : find_unit n us = Some c -> In c (map snd us).
Proof.
  induction us as [|[s c'] r IH]; cbn; [discriminate|].
  destruct (bytes_eqb s n); [intros [= ->]; now left|right; auto].
Qed.

Lemma dec_calls_ok us l : calls_ok (map snd us) (fst (dec_calls us l)).
Proof.
  induction l as [|x r IH]; cbn [dec_calls]; [intros c []|].
  destruct (dec_calls us r) as [cs u] eqn:E. cbn [fst] in IH.
  destruct (find_unit (sx_b (sx_nth x 1)) us) as [c|] eqn:F; cbn [fst]; [|exact IH].
  intros c0 [<-|Hc]; [cbn; eapply find_unit_in; eauto|auto].
Qed.

Lemma dec_threads_ok us l : Forall (calls_ok (map snd us)) (fst (dec_threads us l)).
Proof.
  induction l as [|x r IH]; cbn [dec_threads]; [constructor|].
  destruct (dec_threads us r) as [ts u] eqn:E. cbn [fst] in IH.
  pose proof (dec_calls_ok us (sx_l x)) as C.
  destruct (dec_calls us (sx_l x)) as [cs v]. cbn [fst] in *. constructor; assumption.
Qed.

Lemma model_from_facts us l : from_facts (map snd us) (map thread_of (fst (dec_threads us l))).
Proof.
  pose proof (dec_threads_ok us l) as F. rewrite Forall_forall in F.
  intros k Hk. apply in_map_iff in Hk as (cs & <- & Hc). exists cs. split; [auto|reflexivity].
Qed.

Theorem wire_thm : forall i, wf i = true -> spec i (model i) = true.
Proof.
  intros i W. unfold model, model_with, wf in *.
  pose proof (model_from_facts units (sx_l (sx_nth i 0))) as FF. fold U in FF.
  destruct (dec_threads units (sx_l (sx_nth i 0))) as [ts unk] eqn:E. cbn [fst snd] in *.
  apply Nat.eqb_eq in W. subst unk.
  set (prog := map thread_of ts) in *.
  assert (HR : forall sched, raceb eqb2 (covered exempt) (run eqb2 prog sched) = false).
  { intros sched. destruct (raceb eqb2 (covered exempt) (run eqb2 prog sched)) eqn:R; [|reflexivity].
    apply raceb_race in R as ([j f] & Hc & Hr). exfalso.
    unfold covered in Hc. cbn [snd] in Hc. apply negb_true_iff in Hc.
    exact (discipline_sound_thm U exempt facts_thm prog FF sched j f Hc Hr). }
  assert (HD : forall sched, lock_deadb (run eqb2 prog sched) = false).
  { intros sched. pose proof facts_deadlock_thm as D. unfold deadlock_ok in D. bools.
    exact (proj2 (proj2 (deadlock_sound U rk H H0 prog FF sched))). }
  change (init prog) with (run eqb2 prog []).
  rewrite (scan_clean exempt prog HR HD). reflexivity.
Qed.

(* C09 — diagnostics printed at compile time (they end up in the log of a broken
   obligation): which fields of the regenerated table violate the access discipline,
   which summaries violate the deadlock checker, which functions may hand a recycled
   object back twice or touch it afterwards.  All lists are empty on a tree that
   satisfies the property.  No proofs. *)
From Coq Require Import List Bool String Arith.
Import ListNotations.
From Zap Require Import C09.Sem C09.Facts C09.Model Gen.AccessFacts.
From Zap Require C09.Release Gen.ReleaseFacts.
Open Scope string_scope.

Fixpoint name_of (t : list (nat * string)) (x : nat) : string :=
  match t with
  | [] => "?"
  | (k, v) :: r => if Nat.eqb k x then v else name_of r x
  end.

Definition failing_fields : list string :=
  map (name_of id_names)
      (filter (fun f => negb (memb f exempt || field_ok U f)) (nodup Nat.eq_dec (fields U))).

Definition bad_summaries : list nat :=
  map fst (filter (fun p => negb (pure (snd p) && dl Nat.eqb rk rk [] (snd p)))
                  (combine (seq 0 (List.length U)) U)).

Eval vm_compute in ("C09: fields violating the access discipline", failing_fields).
Eval vm_compute in ("C09: summaries (index in Gen.AccessFacts.units) violating the deadlock checker", bad_summaries).

Definition failing_releases : list string :=
  map fst (filter (fun u => negb (Release.release_ok (snd u))) ReleaseFacts.release_units).

Eval vm_compute in ("C09: a recycled object may be handed back twice, or touched after it was handed back, in (file: function: variable)", failing_releases).

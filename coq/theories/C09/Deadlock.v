(* C09 — no lock/once deadlock: if nested acquisitions strictly descend in rank and
   no thread waits on a channel while holding a lock or running a once body, then
   whenever some thread is blocked on a lock or a once, some thread can step. *)
From Coq Require Import List Bool Arith Lia.
Import ListNotations.
From Zap Require Import C09.Sem C09.Race.


Section DL.
Variable id : Type.
Variable eqb : id -> id -> bool.
Hypothesis eqb_ok : forall a b, eqb a b = true <-> a = b.
Variables rkl rko : id -> nat.

Notation code := (code id).
Notation state := (state id).
Notation step := (step eqb).
Notation run := (run eqb).
Notation dl := (dl eqb rkl rko).
Notation below := (below rkl rko).
Notation ranked := (ranked rkl rko).
Notation rk := (rk rkl rko).
Notation res := (res id).

Ltac bools :=
  repeat match goal with
  | H : _ && _ = true |- _ => apply andb_true_iff in H; destruct H
  end.

Lemma res_eqb_ok (a b : res) : res_eqb eqb a b = true <-> a = b.
Proof.
  destruct a as [l x|o], b as [m y|p]; cbn; split; intros H; try discriminate.
  - apply andb_true_iff in H as [H1 H2]. apply eqb_ok in H1. apply Bool.eqb_prop in H2. congruence.
  - injection H as -> ->. apply andb_true_iff. split; [now apply eqb_ok|apply Bool.eqb_reflx].
  - apply eqb_ok in H. congruence.
  - injection H as ->. now apply eqb_ok.
Qed.

Lemma below_in n h r : below n h = true -> In r h -> n < rk r.
Proof.
  unfold Sem.below. rewrite forallb_forall. intros H Hi. apply H in Hi. now apply Nat.ltb_lt in Hi.
Qed.

Lemma ranked_notin r h : ranked (r :: h) = true -> ~ In r h.
Proof.
  cbn. intros H Hi. apply andb_true_iff in H as [H _]. pose proof (below_in _ _ _ H Hi). lia.
Qed.

Lemma pure_pend (a b : code) : pure a = true -> pend (capp a b) = pend b.
Proof.
  induction a; cbn; intros H; auto; try discriminate; bools; auto.
Qed.
Lemma pure_pend0 (a : code) : pure a = true -> pend a = [].
Proof.
  induction a; cbn; intros H; auto; try discriminate; bools; auto.
Qed.

Lemma dl_capp h (a b : code) : pure a = true -> dl h (capp a b) = (dl h a && dl h b)%bool.
Proof.
  revert h.
  induction a as [|g w a IHa|g a IHa|m x a1 IHa1 a2 IHa2|p a1 IHa1 a2 IHa2|a1 IHa1 a2 IHa2|ch a IHa|ch a IHa|m x a IHa|p a IHa];
    intros h Pa; cbn [capp Sem.dl pure] in *; auto; try discriminate; bools.
  - rewrite IHa2 by assumption. now rewrite !andb_assoc.
  - rewrite IHa2 by assumption. now rewrite !andb_assoc.
  - rewrite IHa2 by assumption. now rewrite !andb_assoc.
  - rewrite IHa by assumption. now rewrite !andb_assoc.
Qed.

(* what "thread u holds resource r" means in a state *)
Definition holdsP (s : state) (u : nat) (r : res) : Prop :=
  match r with
  | RL l true => lw (lks s l) = Some u
  | RL l false => In u (lr (lks s l))
  | RO o => ons s o = ORun u
  end.

Definition TI (k : code) : Prop := dl (pend k) k = true /\ ranked (pend k) = true.

Definition DInv (s : state) : Prop :=
  (forall u k, nth_error (thr s) u = Some k -> TI k /\ forall r, In r (pend k) <-> holdsP s u r) /\
  (forall u r, holdsP s u r -> u < length (thr s)) /\
  (forall l, NoDup (lr (lks s l))).

Lemma remove_one_notin t rs : NoDup rs -> ~ In t (remove_one t rs).
Proof.
  induction 1 as [|v r Hv Hn IH]; cbn; [auto|].
  destruct (Nat.eqb v t) eqn:E; [apply Nat.eqb_eq in E; subst; exact Hv|].
  apply Nat.eqb_neq in E. intros [->|Hi]; [congruence|auto].
Qed.
Lemma remove_one_in u t rs : In u (remove_one t rs) -> In u rs.
Proof.
  induction rs as [|v r IH]; cbn; [auto|]. destruct (Nat.eqb v t); [auto|]. intros [->|Hi]; auto.
Qed.
Lemma remove_one_nodup t rs : NoDup rs -> NoDup (remove_one t rs).
Proof.
  induction 1 as [|v r Hv Hn IH]; cbn; [constructor|].
  destruct (Nat.eqb v t); [assumption|]. constructor; [|assumption].
  intros Hi. apply Hv. eapply remove_one_in; eauto.
Qed.


Definition holdsLO (L : id -> lockst) (O : id -> oncest) (u : nat) (r : res) : Prop :=
  match r with
  | RL l true => lw (L l) = Some u
  | RL l false => In u (lr (L l))
  | RO o => O o = ORun u
  end.
Lemma holdsP_LO s u r : holdsP s u r = holdsLO (lks s) (ons s) u r.
Proof. reflexivity. Qed.

Lemma in_cons_neq (r r0 : res) h : r <> r0 -> (In r (r0 :: h) <-> In r h).
Proof. intros Hn. cbn. split; [intros [E|Hi]; [congruence|exact Hi]|auto]. Qed.

(* the thread-table part of a step that leaves the held-resource picture of the
   other threads unchanged *)
Lemma DInv_upd s t k k' sp L O C :
  DInv s -> nth_error (thr s) t = Some k -> TI k' ->
  (forall r, In r (pend k') <-> holdsLO L O t r) ->
  (forall u r, u <> t -> (holdsLO L O u r <-> holdsP s u r)) ->
  (forall l, NoDup (lr (L l))) ->
  (forall b, In b sp -> pure b = true /\ dl [] b = true) ->
  DInv {| thr := setnth (thr s) t k' ++ sp; lks := L; ons := O; chs := C |}.
Proof.
  intros (A & B & N) E Tk' Hi Ho Hn Hsp. pose proof (nth_some_lt _ _ E) as Lt.
  assert (Bt : forall u r, holdsLO L O u r -> u < length (thr s)).
  { intros u r Hh. destruct (Nat.eq_dec u t) as [->|Hne]; [exact Lt|]. apply (B u r). now apply Ho. }
  split; [|split].
  - intros u k0 Hu; cbn [thr] in Hu.
    destruct (thr_after Lt Hu) as [[-> ->]|[[Hne Hu']|[Hge Hin]]].
    + split; [exact Tk'|]. intros r. rewrite holdsP_LO. cbn [lks ons]. apply Hi.
    + destruct (A _ _ Hu') as [Tu Iu]. split; [exact Tu|]. intros r. rewrite holdsP_LO. cbn [lks ons].
      rewrite (Ho u r Hne). apply Iu.
    + destruct (Hsp _ Hin) as [Pb Db]. split.
      * unfold TI. rewrite (pure_pend0 _ Pb). split; [exact Db|reflexivity].
      * intros r. rewrite (pure_pend0 _ Pb). rewrite holdsP_LO. cbn [lks ons]. split; [intros []|].
        intros Hh. apply Bt in Hh. lia.
  - intros u r Hh. rewrite holdsP_LO in Hh. cbn [lks ons thr] in *. apply Bt in Hh.
    rewrite app_length, length_setnth. lia.
  - exact Hn.
Qed.

Lemma eqb_dec' (a b : id) : {a = b} + {a <> b}.
Proof. exact (eqb_dec eqb eqb_ok a b). Qed.

Ltac updsimp :=
  repeat first
    [ rewrite (upd_same eqb eqb_ok)
    | rewrite (upd_other eqb eqb_ok) by (auto; congruence) ].

Lemma DInv_step s t : WF s -> DInv s -> DInv (step s t).
Proof.
  intros W Iv.
  destruct (step_cases eqb s t) as [->|(k & k' & sp & L & O & C & E & Lt & -> & T)]; [exact Iv|].
  pose proof Iv as (A & B & N).
  destruct (A _ _ E) as [[Dk Rk] Ik]. pose proof (W _ _ E) as Wk.
  assert (Same : forall k1 sp1 C1, pend k1 = pend k -> dl (pend k) k1 = true ->
            (forall b, In b sp1 -> pure b = true /\ dl [] b = true) ->
            DInv {| thr := setnth (thr s) t k1 ++ sp1; lks := lks s; ons := ons s; chs := C1 |}).
  { intros k1 sp1 C1 Hp Hd Hs. apply (DInv_upd s t k k1 sp1 _ _ C1 Iv E); auto.
    - unfold TI. rewrite Hp. auto.
    - intros r. rewrite Hp. apply Ik.
    - intros u r _. reflexivity. }
  inversion T; subst; cbn [wfk] in Wk; cbn [Sem.pend Sem.dl Sem.ranked] in Dk, Rk, Ik; bools.
  - apply Same; auto; intros b [].
  - apply Same; auto; intros b [].
  - (* lockW *)
    apply (DInv_upd s t _ _ [] _ _ _ Iv E).
    + unfold TI. rewrite pure_pend by assumption. cbn [Sem.pend Sem.ranked]. split.
      * rewrite dl_capp by assumption. cbn [Sem.dl].
        apply andb_true_iff. split; [assumption|]. apply andb_true_iff. split; [|assumption].
        now apply res_eqb_ok.
      * apply andb_true_iff. split; assumption.
    + intros r. rewrite pure_pend by assumption. cbn [Sem.pend].
      destruct r as [m [|]|p]; cbn [holdsLO].
      * destruct (eqb_dec' m l) as [->|Hn]; updsimp.
        -- cbn. split; auto.
        -- rewrite in_cons_neq by congruence. apply (Ik (RL m true)).
      * destruct (eqb_dec' m l) as [->|Hn]; updsimp.
        -- rewrite in_cons_neq by congruence. cbn. rewrite (Ik (RL l false)). cbn. rewrite H0. reflexivity.
        -- rewrite in_cons_neq by congruence. apply (Ik (RL m false)).
      * rewrite in_cons_neq by congruence. apply (Ik (RO p)).
    + intros u r Hu. destruct r as [m [|]|p]; cbn [holdsLO holdsP]; try reflexivity.
      * destruct (eqb_dec' m l) as [->|Hn]; updsimp; [|reflexivity].
        cbn. rewrite H. split; intros; congruence.
      * destruct (eqb_dec' m l) as [->|Hn]; updsimp; [|reflexivity].
        cbn. rewrite H0. reflexivity.
    + intros m. destruct (eqb_dec' m l) as [->|Hn]; updsimp; [constructor|apply N].
    + intros b [].
  - (* lockR *)
    assert (Nt : ~ In t (lr (lks s l))).
    { intros Hi. apply (Ik (RL l false)) in Hi. pose proof (below_in _ _ _ H0 Hi) as Hlt. cbn in Hlt. lia. }
    apply (DInv_upd s t _ _ [] _ _ _ Iv E).
    + unfold TI. rewrite pure_pend by assumption. cbn [Sem.pend Sem.ranked]. split.
      * rewrite dl_capp by assumption. cbn [Sem.dl].
        apply andb_true_iff. split; [assumption|]. apply andb_true_iff. split; [|assumption].
        now apply res_eqb_ok.
      * apply andb_true_iff. split; assumption.
    + intros r. rewrite pure_pend by assumption. cbn [Sem.pend].
      destruct r as [m [|]|p]; cbn [holdsLO].
      * rewrite in_cons_neq by congruence.
        destruct (eqb_dec' m l) as [->|Hn]; updsimp.
        -- cbn. rewrite (Ik (RL l true)). cbn. rewrite H. reflexivity.
        -- apply (Ik (RL m true)).
      * destruct (eqb_dec' m l) as [->|Hn]; updsimp.
        -- cbn. split; auto.
        -- rewrite in_cons_neq by congruence. apply (Ik (RL m false)).
      * rewrite in_cons_neq by congruence. apply (Ik (RO p)).
    + intros u r Hu. destruct r as [m [|]|p]; cbn [holdsLO holdsP]; try reflexivity.
      * destruct (eqb_dec' m l) as [->|Hn]; updsimp; [|reflexivity].
        cbn. rewrite H. reflexivity.
      * destruct (eqb_dec' m l) as [->|Hn]; updsimp; [|reflexivity].
        cbn. split; [intros [->|Hi]; [congruence|exact Hi]|auto].
    + intros m. destruct (eqb_dec' m l) as [->|Hn]; updsimp; [|apply N].
      cbn. constructor; [exact Nt|apply N].
    + intros b [].
  - (* unlockW *)
    assert (Ht : lw (lks s l) = Some t) by (apply (Ik (RL l true)); now left).
    pose proof (ranked_notin (RL l true) (pend k') ltac:(cbn [Sem.ranked]; apply andb_true_iff; split; assumption)) as Nin.
    apply (DInv_upd s t _ _ [] _ _ _ Iv E).
    + split; assumption.
    + intros r. destruct r as [m [|]|p]; cbn [holdsLO].
      * destruct (eqb_dec' m l) as [->|Hn]; updsimp.
        -- cbn. split; [intros Hi; contradiction|discriminate].
        -- rewrite <- (in_cons_neq (RL m true) (RL l true)) by congruence. apply (Ik (RL m true)).
      * rewrite <- (in_cons_neq (RL m false) (RL l true)) by congruence. rewrite (Ik (RL m false)). cbn.
        destruct (eqb_dec' m l) as [->|Hn]; updsimp; reflexivity.
      * rewrite <- (in_cons_neq (RO p) (RL l true)) by congruence. apply (Ik (RO p)).
    + intros u r Hu. destruct r as [m [|]|p]; cbn [holdsLO holdsP]; try reflexivity.
      * destruct (eqb_dec' m l) as [->|Hn]; updsimp; [|reflexivity].
        cbn. rewrite Ht. split; intros; congruence.
      * destruct (eqb_dec' m l) as [->|Hn]; updsimp; reflexivity.
    + intros m. destruct (eqb_dec' m l) as [->|Hn]; updsimp; apply N.
    + intros b [].
  - (* unlockR *)
    assert (Ht : In t (lr (lks s l))) by (apply (Ik (RL l false)); now left).
    pose proof (ranked_notin (RL l false) (pend k') ltac:(cbn [Sem.ranked]; apply andb_true_iff; split; assumption)) as Nin.
    apply (DInv_upd s t _ _ [] _ _ _ Iv E).
    + split; assumption.
    + intros r. destruct r as [m [|]|p]; cbn [holdsLO].
      * rewrite <- (in_cons_neq (RL m true) (RL l false)) by congruence. rewrite (Ik (RL m true)). cbn.
        destruct (eqb_dec' m l) as [->|Hn]; updsimp; reflexivity.
      * destruct (eqb_dec' m l) as [->|Hn]; updsimp.
        -- cbn. split; [intros Hi; contradiction|]. intros Hi. exfalso. revert Hi. apply remove_one_notin, N.
        -- rewrite <- (in_cons_neq (RL m false) (RL l false)) by congruence. apply (Ik (RL m false)).
      * rewrite <- (in_cons_neq (RO p) (RL l false)) by congruence. apply (Ik (RO p)).
    + intros u r Hu. destruct r as [m [|]|p]; cbn [holdsLO holdsP]; try reflexivity.
      * destruct (eqb_dec' m l) as [->|Hn]; updsimp; reflexivity.
      * destruct (eqb_dec' m l) as [->|Hn]; updsimp; [|reflexivity].
        cbn. split; [apply remove_one_in|now apply in_remove_one].
    + intros m. destruct (eqb_dec' m l) as [->|Hn]; updsimp; [|apply N].
      cbn. apply remove_one_nodup, N.
    + intros b [].
  - (* onceRun *)
    apply (DInv_upd s t _ _ [] _ _ _ Iv E).
    + unfold TI. rewrite pure_pend by assumption. cbn [Sem.pend Sem.ranked]. split.
      * rewrite dl_capp by assumption. cbn [Sem.dl].
        apply andb_true_iff. split; [assumption|]. apply andb_true_iff. split; [|assumption].
        now apply res_eqb_ok.
      * apply andb_true_iff. split; assumption.
    + intros r. rewrite pure_pend by assumption. cbn [Sem.pend].
      destruct r as [m x|p].
      * rewrite in_cons_neq by congruence. apply (Ik (RL m x)).
      * cbn [holdsLO]. destruct (eqb_dec' p o) as [->|Hn]; updsimp.
        -- split; [reflexivity|now left].
        -- rewrite in_cons_neq by congruence. apply (Ik (RO p)).
    + intros u r Hu. destruct r as [m [|]|p]; cbn [holdsLO holdsP]; try reflexivity.
      destruct (eqb_dec' p o) as [->|Hn]; updsimp; [|reflexivity].
      rewrite H. split; intros; congruence.
    + apply N.
    + intros b [].
  - (* onceSkip *) apply Same; auto; intros b [].
  - (* onceExit *)
    assert (Ht : ons s o = ORun t) by (apply (Ik (RO o)); now left).
    pose proof (ranked_notin (RO o) (pend k') ltac:(cbn [Sem.ranked]; apply andb_true_iff; split; assumption)) as Nin.
    apply (DInv_upd s t _ _ [] _ _ _ Iv E).
    + split; assumption.
    + intros r. destruct r as [m x|p].
      * rewrite <- (in_cons_neq (RL m x) (RO o)) by congruence. apply (Ik (RL m x)).
      * cbn [holdsLO]. destruct (eqb_dec' p o) as [->|Hn]; updsimp.
        -- split; [intros Hi; contradiction|discriminate].
        -- rewrite <- (in_cons_neq (RO p) (RO o)) by congruence. apply (Ik (RO p)).
    + intros u r Hu. destruct r as [m [|]|p]; cbn [holdsLO holdsP]; try reflexivity.
      destruct (eqb_dec' p o) as [->|Hn]; updsimp; [|reflexivity].
      rewrite Ht. split; intros; congruence.
    + apply N.
    + intros b [].
  - (* spawn *) apply Same; auto. intros b [<-|[]]. auto.
  - (* recv *) apply Same; auto; intros b [].
  - (* close *) apply Same; auto; intros b [].
Qed.


Lemma DInv_init prog : pure_prog prog -> (forall k, In k prog -> dl [] k = true) -> DInv (init prog).
Proof.
  intros Hp Hd. split; [|split].
  - intros u k Hu. cbn [init thr] in Hu. apply nth_error_In in Hu.
    unfold TI. rewrite (pure_pend0 _ (Hp _ Hu)). split; [split; [auto|reflexivity]|].
    intros r. split; [intros []|]. destruct r as [m [|]|p]; cbn; try discriminate. auto.
  - intros u r Hh. destruct r as [m [|]|p]; cbn in Hh; try discriminate. destruct Hh.
  - intros l. cbn. constructor.
Qed.

Lemma DInv_run prog sched :
  pure_prog prog -> (forall k, In k prog -> dl [] k = true) -> WF (run prog sched) /\ DInv (run prog sched).
Proof.
  intros Hp Hd. apply (run_inv eqb (fun s => WF s /\ DInv s)).
  - split; [|now apply DInv_init]. intros u k Hu. apply pure_wfk, Hp. eapply nth_error_In; eauto.
  - intros s t [W Iv]. split; [apply local_step; [apply wfk_tr|exact W]|now apply DInv_step].
Qed.

(* ---------------------------------------------------------------- progress *)
Definition arank (k : code) : nat :=
  match k with CCrit l _ _ _ => rkl l | COnce o _ _ => rko o | _ => 0 end.

Definition blocked_lo (s : state) (t : nat) : Prop :=
  exists k, nth_error (thr s) t = Some k /\ blocked_lo_k s t k = true.

Lemma holder_moves s : DInv s -> forall h kh r,
  nth_error (thr s) h = Some kh -> In r (pend kh) ->
  (forall t k, nth_error (thr s) t = Some k -> blocked_lo_k s t k = true -> arank k < rk r ->
     exists t', can_step s t' = true) ->
  exists t', can_step s t' = true.
Proof.
  intros (A & B & N) h kh r Eh Hin IH.
  destruct (can_step_k s h kh) eqn:Cs.
  { exists h. unfold can_step. now rewrite Eh. }
  destruct (A _ _ Eh) as [[Dk Rk] _].
  destruct kh; cbn [can_step_k] in Cs; try discriminate.
  - destruct Hin.
  - (* blocked on a lock: its rank is below everything held *)
    cbn [Sem.pend Sem.dl] in Dk, Hin. apply andb_true_iff in Dk as [Dk _]. apply andb_true_iff in Dk as [Dk _].
    apply (IH h _ Eh).
    + cbn [blocked_lo_k can_step_k]. destruct x; rewrite Cs; reflexivity.
    + cbn [arank]. exact (below_in _ _ _ Dk Hin).
  - cbn [Sem.pend Sem.dl] in Dk, Hin. apply andb_true_iff in Dk as [Dk _]. apply andb_true_iff in Dk as [Dk _].
    apply (IH h _ Eh).
    + cbn [blocked_lo_k can_step_k]. rewrite Cs; reflexivity.
    + cbn [arank]. exact (below_in _ _ _ Dk Hin).
  - (* waiting on a channel while holding r: excluded by dl *)
    cbn [Sem.pend Sem.dl] in Dk, Hin. apply andb_true_iff in Dk as [Dk _].
    destruct (pend kh); [destruct Hin|discriminate].
Qed.

Lemma progress_aux s : DInv s -> forall n t k,
  nth_error (thr s) t = Some k -> blocked_lo_k s t k = true -> arank k = n ->
  exists t', can_step s t' = true.
Proof.
  intros Iv. pose proof Iv as (A & B & N).
  induction n as [n IH] using lt_wf_ind. intros t k E Bk Hr.
  assert (G : forall h r, holdsP s h r -> rk r = n -> exists t', can_step s t' = true).
  { intros h r Hh Hrk. pose proof (B _ _ Hh) as Lh.
    destruct (nth_error (thr s) h) as [kh|] eqn:Eh; [|apply nth_error_None in Eh; lia].
    apply (holder_moves s Iv h kh r Eh).
    - apply (A _ _ Eh). exact Hh.
    - intros t0 k0 E0 B0 Hlt. rewrite Hrk in Hlt. exact (IH _ Hlt t0 k0 E0 B0 eq_refl). }
  destruct k; cbn [blocked_lo_k] in Bk; try discriminate; cbn [can_step_k arank] in Bk, Hr.
  - destruct x.
    + destruct (lw (lks s l)) as [h|] eqn:E1.
      * apply (G h (RL l true)); [exact E1|exact Hr].
      * destruct (lr (lks s l)) as [|h rs] eqn:E2; [discriminate|].
        apply (G h (RL l false)); [cbn; rewrite E2; now left|exact Hr].
    + destruct (lw (lks s l)) as [h|] eqn:E1; [|discriminate].
      apply (G h (RL l true)); [exact E1|exact Hr].
  - destruct (ons s o) as [|h|] eqn:E1; try discriminate.
    apply (G h (RO o)); [exact E1|exact Hr].
Qed.

Theorem no_lock_deadlock prog sched :
  pure_prog prog -> (forall k, In k prog -> dl [] k = true) ->
  forall t, blocked_lo (run prog sched) t -> exists t', can_step (run prog sched) t' = true.
Proof.
  intros Hp Hd t (k & E & Bk). destruct (DInv_run prog sched Hp Hd) as [_ Iv].
  exact (progress_aux _ Iv _ t k E Bk eq_refl).
Qed.

(* a thread waiting on a channel holds no lock and runs no once body, so it can never
   be what the closer is waiting for *)
Theorem chan_wait_holds_nothing prog sched :
  pure_prog prog -> (forall k, In k prog -> dl [] k = true) ->
  forall t c, waits_chan (run prog sched) t c -> forall r, ~ holdsP (run prog sched) t r.
Proof.
  intros Hp Hd t c (k & E & _) r Hh. destruct (DInv_run prog sched Hp Hd) as [_ (A & _ & _)].
  destruct (A _ _ E) as [[Dk _] Ik]. apply Ik in Hh. cbn [Sem.pend Sem.dl] in Dk, Hh.
  apply andb_true_iff in Dk as [Dk _]. destruct (pend k); [destruct Hh|discriminate].
Qed.

(* executable form, for the wire model *)
Lemma idx_existsb_spec (f : nat -> code -> bool) l n :
  idx_existsb f n l = true <-> exists i k, nth_error l i = Some k /\ f (n + i) k = true.
Proof.
  revert n. induction l as [|a r IH]; intros n; cbn [idx_existsb].
  - split; [discriminate|]. intros ([|i] & k & H & _); discriminate.
  - rewrite orb_true_iff, IH. split.
    + intros [H|(i & k & H1 & H2)].
      * exists 0, a. rewrite Nat.add_0_r. auto.
      * exists (S i), k. rewrite Nat.add_succ_r. auto.
    + intros ([|i] & k & H1 & H2).
      * injection H1 as ->. rewrite Nat.add_0_r in H2. auto.
      * right. exists i, k. rewrite Nat.add_succ_r in H2. auto.
Qed.

Theorem lock_deadb_false prog sched :
  pure_prog prog -> (forall k, In k prog -> dl [] k = true) -> lock_deadb (run prog sched) = false.
Proof.
  intros Hp Hd. unfold lock_deadb.
  destruct (idx_existsb (blocked_lo_k (run prog sched)) 0 (thr (run prog sched))) eqn:E1; [|reflexivity].
  apply idx_existsb_spec in E1 as (i & k & E & Bk). cbn in Bk.
  destruct (no_lock_deadlock prog sched Hp Hd i) as [t' Ct]; [exists k; auto|].
  unfold can_step in Ct. destruct (nth_error (thr (run prog sched)) t') as [k'|] eqn:E'; [|discriminate].
  assert (X : idx_existsb (can_step_k (run prog sched)) 0 (thr (run prog sched)) = true).
  { apply idx_existsb_spec. exists t', k'. auto. }
  rewrite X. reflexivity.
Qed.

End DL.

Arguments blocked_lo {id} s t.
Arguments holdsP {id} s u r.

(* C09 — the access summary of zapcore.lazyWithCore BEFORE the fix (frozen copy of what
   gen/c09_access.go produced on the original lazy_with.go; identifiers: 0 = the
   embedded Core field, 1 = the embedded sync.Once, 2 = fields).  Kept as documentation
   of the pre-fix behaviour: C09_facts_refuted is stated on it. *)
From Coq Require Import List String.
Import ListNotations.
Open Scope string_scope.
From Zap Require Import C09.Sem C09.Facts.

(* type lazyWithCore struct { Core; sync.Once; fields []Field }
   initOnce: d.Once.Do(func() { d.Core = d.Core.With(d.fields) })
   With/Check: d.initOnce(); return d.Core.With/Check(...)
   Enabled, Write, Sync: promoted from the embedded Core — a plain read of d.Core *)
Definition units_orig : list (string * code nat) := [
  ("lazyWithCore.Check",
   COnce 1 (CAcc 2 false (CAcc 0 false (CAcc 0 true (CNil)))) (CAcc 0 false (CNil)));
  ("lazyWithCore.With",
   COnce 1 (CAcc 2 false (CAcc 0 false (CAcc 0 true (CNil)))) (CAcc 0 false (CNil)));
  ("lazyWithCore.Enabled",
   CAcc 0 false (CNil));
  ("lazyWithCore.Write",
   CAcc 0 false (CNil));
  ("lazyWithCore.Sync",
   CAcc 0 false (CNil))
].
Definition U_orig : list (code nat) := map snd units_orig.

(* two goroutines on one fresh WithLazy logger: Info -> Logger.check -> core.Enabled
   (thread 1) while another Info is inside initOnce (thread 0) *)
Definition lazy_check_orig : code nat := COnce 1 (CAcc 2 false (CAcc 0 false (CAcc 0 true CNil))) (CAcc 0 false CNil).
Definition lazy_enabled_orig : code nat := CAcc 0 false CNil.
Definition prog_orig : list (code oref) := [thread_of [(0, lazy_check_orig)]; thread_of [(0, lazy_enabled_orig)]].
Definition sched_orig : list nat := [0; 0; 0].

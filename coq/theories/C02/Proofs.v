(* C02 — stub *)
From Zap Require Import Base.Wire C02.Model.

(* C02 — proofs specific to the property; the heavy lifting is in Enc/. *)
From Coq Require Import List ZArith Bool.
From Coq.Strings Require Import Byte.
Import ListNotations.
From Zap Require Import Base.Wire Enc.Bytes Enc.Fields Enc.JsonEnc Enc.JsonParse Enc.WireEnc Enc.JsonAst Enc.Wf Enc.MapEnc
  Enc.Parse1 Enc.Parse3 Enc.Parse4 Enc.MapAgree Enc.Codec C02.Model.

Lemma jv_eqb_refl : forall v, jv_eqb v v = true.
Proof.
  fix IH 1. intros [| b | r | s | l | l]; cbn [jv_eqb].
  - reflexivity.
  - destruct b; reflexivity.
  - now apply bytes_eqb_eq.
  - now apply bytes_eqb_eq.
  - induction l as [|x r IHl]; [reflexivity|]. now rewrite IH, IHl.
  - induction l as [|[k x] r IHl]; [reflexivity|]. rewrite IH, IHl. assert (bytes_eqb k k = true) by now apply bytes_eqb_eq. now rewrite H.
Qed.

(* the value a finite float contributes is exactly the number token strconv produced for its own
   bits at its own bit size; NaN and the infinities are the three strings *)
Lemma float_token f :
  jv_of (TA (float_atom f)) =
  match fcls f with
  | FFin => JNum (ftxt f)
  | FNaN => JStr [x4e; x61; x4e] | FPInf => JStr [x2b; x49; x6e; x66] | FNInf => JStr [x2d; x49; x6e; x66]
  end.
Proof. unfold float_atom. destruct (fcls f); reflexivity. Qed.

(* the line half of the wire-level oracle accepts what the model observes *)
Theorem wire_line i : wf i = true -> spec_line i (model i) = true.
Proof.
  unfold wf, spec_line, model. intros Hw.
  apply andb_true_iff in Hw as [Hw We]. apply andb_true_iff in Hw as [Wc Wf'].
  destruct (entry_valid_wf (ec_cfg (dec_case i)) (ec_ctxs (dec_case i)) (ec_ent (dec_case i)) (ec_fs (dec_case i))
              eq_refl eq_refl Wc Wf' We) as (out & E & L).
  rewrite E. cbn [sx_l]. rewrite L. apply jv_eqb_refl.
Qed.

(* C02 — temporary wiring: the tree-level semantics printed compactly *)
From Coq Require Import List ZArith Bool.
From Coq.Strings Require Import Byte.
Import ListNotations.
From Zap Require Import Base.Wire Enc.Bytes Enc.Fields Enc.JsonEnc Enc.JsonParse Enc.WireEnc Enc.JsonAst.
Definition model (i : sx) : sx :=
  let ec := dec_case i in let c := ec_cfg ec in
  SL [SB (pv false (TObj (entry_members c (ec_ctxs ec) (ec_ent ec) (ec_fs ec))) ++ resolved_le c)].
Definition spec (i o : sx) : bool := true.

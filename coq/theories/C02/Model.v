(* C02 — wire functions.  Observation: (line mapdump): the JSON line of the entry and
   the contents of a zapcore.MapObjectEncoder fed the same context + call-site fields.
   The oracle is written against the tree-level reference semantics (Enc/JsonAst.v):
   the line decodes (Enc/JsonParse.v) to exactly the reference members, and the map
   encoder's record, each typed leaf replaced by its documented JSON representation,
   is the last-write-wins view of the same tree. *)
From Coq Require Import List ZArith Bool.
From Coq.Strings Require Import Byte.
Import ListNotations.
From Zap Require Import Base.Wire Enc.Bytes Enc.Fields Enc.JsonEnc Enc.JsonParse Enc.WireEnc Enc.JsonAst Enc.Wf Enc.MapEnc
  Enc.Parse1 Enc.Parse3.

(* ---- equality on decoded JSON ---- *)
Fixpoint jv_eqb (a b : jv) {struct a} : bool :=
  match a, b with
  | JNull, JNull => true
  | JBool x, JBool y => Bool.eqb x y
  | JNum x, JNum y => bytes_eqb x y
  | JStr x, JStr y => bytes_eqb x y
  | JArr x, JArr y =>
      (fix go (x y : list jv) {struct x} : bool :=
         match x, y with [], [] => true | a :: x', b :: y' => jv_eqb a b && go x' y' | _, _ => false end) x y
  | JObj x, JObj y =>
      (fix go (x y : list (bytes * jv)) {struct x} : bool :=
         match x, y with [], [] => true | (k, a) :: x', (k', b) :: y' => bytes_eqb k k' && jv_eqb a b && go x' y' | _, _ => false end) x y
  | _, _ => false
  end.

(* ---- wire form of map dumps ---- *)
Definition enc_fv (f : fv) : sx :=
  SL [SZ (match fcls f with FNaN => 0 | FPInf => 1 | FNInf => 2 | FFin => 3 end); SB (ftxt f)].
Definition enc_rend (r : rend) : sx :=
  match r with RFloat f => SL [SZ 0; enc_fv f] | RInt z => SL [SZ 1; SZ z] | RStr s => SL [SZ 2; SB s] | RLayout s => SL [SZ 3; SB s] end.
Definition enc_leaf (l : leaf) : sx :=
  match l with
  | LBool b => SL [SZ 0; of_bool b] | LInt z => SL [SZ 1; SZ z] | LUint z => SL [SZ 2; SZ z]
  | LFloat f => SL [SZ 3; enc_fv f] | LStr s => SL [SZ 4; SB s] | LBin s => SL [SZ 5; SB s]
  | LCplx re im g => SL [SZ 6; enc_fv re; enc_fv im; of_bool g]
  | LDur d => SL [SZ 7; SL [SZ (d_nanos d); enc_rend (d_rend d)]]
  | LTime t => SL [SZ 8; SL [SZ (t_nanos t); enc_rend (t_rend t)]]
  | LRefl r => SL [SZ 9; match r with RNil => SL [SZ 0] | ROk t => SL [SZ 1; SB t] | RErr m => SL [SZ 2; SB m] end]
  end.
Definition enc_atom (a : atom) : sx :=
  match a with
  | ANum t => SL [SZ 0; SB t] | AStr s => SL [SZ 1; SB s] | AQ b => SL [SZ 2; SB b]
  | ATrue => SL [SZ 3] | AFalse => SL [SZ 4] | ARaw t => SL [SZ 5; SB t]
  end.
Fixpoint enc_mtree {A} (f : A -> sx) (t : mtree A) {struct t} : sx :=
  match t with
  | ML a => f a
  | MA l => SL [SZ 20; SL ((fix go (l : list (mtree A)) := match l with [] => [] | x :: r => enc_mtree f x :: go r end) l)]
  | MO l => SL [SZ 21; SL ((fix go (l : list (bytes * mtree A)) := match l with [] => [] | (k, x) :: r => SL [SB k; enc_mtree f x] :: go r end) l)]
  end.
Definition dec_leaf (s : sx) : leaf :=
  let a := sx_nth s 1 in
  match sx_z (sx_nth s 0) with
  | 0%Z => LBool (sx_bool a) | 1%Z => LInt (sx_z a) | 2%Z => LUint (sx_z a) | 3%Z => LFloat (dec_fv a)
  | 4%Z => LStr (sx_b a) | 5%Z => LBin (sx_b a)
  | 6%Z => LCplx (dec_fv a) (dec_fv (sx_nth s 2)) (sx_bool (sx_nth s 3))
  | 7%Z => LDur (dec_dv a) | 8%Z => LTime (dec_tv a) | _ => LRefl (dec_rv a)
  end.
Fixpoint dec_mtree (fuel : nat) (s : sx) : mtree leaf :=
  match fuel with
  | O => MA []
  | S f =>
      match sx_z (sx_nth s 0) with
      | 20%Z => MA (map (dec_mtree f) (sx_l (sx_nth s 1)))
      | 21%Z => MO (map (fun e => (sx_b (sx_nth e 0), dec_mtree f (sx_nth e 1))) (sx_l (sx_nth s 1)))
      | _ => ML (dec_leaf s)
      end
  end.

(* ---- the case ---- *)
Definition all_fields (ec : ecase) : list fld := concat (ec_ctxs ec) ++ ec_fs ec.
Fixpoint has_refl_err_fld (f : fld) {struct f} : bool :=
  match f with
  | FReflect _ (RErr _) => true
  | FObject _ m | FInline m => has_refl_err_obj m
  | FArray _ a => has_refl_err_arr a
  | _ => false
  end
with has_refl_err_obj (m : objm) {struct m} : bool :=
  match m with Obj calls _ => (fix go (l : list fld) := match l with [] => false | f :: r => has_refl_err_fld f || go r end) calls end
with has_refl_err_arr (a : arrm) {struct a} : bool :=
  match a with Arr es _ _ => (fix go (l : list elem) := match l with [] => false | e :: r => has_refl_err_elem e || go r end) es end
with has_refl_err_elem (e : elem) {struct e} : bool :=
  match e with ERefl (RErr _) => true | EObj m => has_refl_err_obj m | EArr a => has_refl_err_arr a | _ => false end.

Definition model (i : sx) : sx :=
  let ec := dec_case i in let c := ec_cfg ec in
  match encode_entry c false (with_chain c false (ec_ctxs ec)) (ec_ent ec) (ec_fs ec) with
  | Some out => SL [SB out; enc_mtree enc_leaf (msort (MO (map_encode (all_fields ec))))]
  | None => SL []
  end.

(* the line decodes to exactly the reference members: order, nesting, values *)
Definition spec_line (i o : sx) : bool :=
  let ec := dec_case i in let c := ec_cfg ec in
  match sx_l o with
  | SB out :: _ =>
      match line_obj (resolved_le c) out with
      | Some ms => jv_eqb (JObj ms) (JObj (jv_mem (entry_members c (ec_ctxs ec) (ec_ent ec) (ec_fs ec))))
      | None => false
      end
  | _ => false
  end.
Definition spec (i o : sx) : bool :=
  let ec := dec_case i in let c := ec_cfg ec in
  match sx_l o with
  | [SB out; dump] =>
      spec_line i o &&
      (* the map encoder agrees with the last-write-wins view of the same tree (a reflected value
         that encoding/json rejects is stored raw by the map encoder and has no JSON form: not compared) *)
      (if existsb has_refl_err_fld (all_fields ec) then true else
       sx_eqb (enc_mtree enc_atom (msort (mmap (leaf_atom c) (dec_mtree (sx_size dump) dump))))
              (enc_mtree enc_atom (msort (viewT (TObj (close (ev_flds c (ec_fs ec) (ev_with_chain c (ec_ctxs ec)))))))))
  | _ => false
  end.

Definition wf (i : sx) : bool :=
  let ec := dec_case i in forallb wf_flds (ec_ctxs ec) && wf_flds (ec_fs ec) && wf_entry (ec_ent ec).

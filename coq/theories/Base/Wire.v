(* Wire format shared by every property: the Go harness prints a case and the
   implementation's observation as S-expressions; each property defines, in Coq,
   [model : sx -> sx] (what the model of the code observes on that case) and
   [spec : sx -> sx -> bool] (the property's executable oracle, applied to any
   observation).  Decoding of cases therefore happens inside Coq and is the
   same code under [vm_compute] and under extraction. *)
From Coq Require Import List ZArith Bool Lia.
From Coq.Strings Require Import Byte.
Import ListNotations.

Definition bytes := list byte.

Inductive sx :=
| SZ (z : Z)
| SB (b : bytes)
| SL (l : list sx).

Fixpoint bytes_eqb (a b : bytes) : bool :=
  match a, b with
  | [], [] => true
  | x :: a', y :: b' => Byte.eqb x y && bytes_eqb a' b'
  | _, _ => false
  end.

Lemma byte_eqb_eq x y : Byte.eqb x y = true <-> x = y.
Proof. split; [apply Byte.byte_dec_bl | apply Byte.byte_dec_lb]. Qed.

Lemma bytes_eqb_eq a : forall b, bytes_eqb a b = true <-> a = b.
Proof.
  induction a as [|x a IH]; intros [|y b]; cbn; try (split; [discriminate|discriminate]); try tauto.
  rewrite andb_true_iff, byte_eqb_eq, IH. split; [intros [-> ->]; reflexivity|intros [= -> ->]; auto].
Qed.

Fixpoint sx_eqb (a b : sx) {struct a} : bool :=
  match a, b with
  | SZ x, SZ y => Z.eqb x y
  | SB x, SB y => bytes_eqb x y
  | SL x, SL y =>
      (fix go (x y : list sx) {struct x} : bool :=
         match x, y with
         | [], [] => true
         | a :: x', b :: y' => sx_eqb a b && go x' y'
         | _, _ => false
         end) x y
  | _, _ => false
  end.

(* total projections (used only by decoders; the harness never emits the
   defaulted shapes, and [wf] predicates of each property reject them) *)
Definition sx_z (s : sx) : Z := match s with SZ z => z | _ => 0%Z end.
Definition sx_n (s : sx) : nat := Z.to_nat (sx_z s).
Definition sx_b (s : sx) : bytes := match s with SB b => b | _ => [] end.
Definition sx_l (s : sx) : list sx := match s with SL l => l | _ => [] end.
Definition sx_bool (s : sx) : bool := negb (Z.eqb (sx_z s) 0).
Definition sx_nth (s : sx) (i : nat) : sx := nth i (sx_l s) (SL []).

Definition of_bool (b : bool) : sx := SZ (if b then 1 else 0)%Z.
Definition of_nat (n : nat) : sx := SZ (Z.of_nat n).
Definition of_blist (l : list bytes) : sx := SL (map SB l).
Definition of_zlist (l : list Z) : sx := SL (map SZ l).
Definition of_opt {A} (f : A -> sx) (o : option A) : sx :=
  match o with None => SL [] | Some a => SL [f a] end.

Definition byte_of_Z (z : Z) : byte :=
  match Byte.of_N (Z.to_N z) with Some b => b | None => x00 end.
Definition Z_of_byte (b : byte) : Z := Z.of_N (Byte.to_N b).

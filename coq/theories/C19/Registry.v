(* C19 — proofs about normalizeScheme, the sink registry and the encoder registry. *)
From Coq Require Import List ZArith Bool Lia.
From Coq.Strings Require Import Byte.
Import ListNotations.
From Zap Require Import Base.Wire C19.Model.

(* ------------------------------------------------------------------ generalities *)
Lemma bytes_eqb_refl a : bytes_eqb a a = true.
Proof. now apply bytes_eqb_eq. Qed.
Lemma bytes_eqb_neq a b : a <> b -> bytes_eqb a b = false.
Proof. intros H. destruct (bytes_eqb a b) eqn:E; [apply bytes_eqb_eq in E; contradiction|reflexivity]. Qed.
Lemma bytes_eqb_sym a b : bytes_eqb a b = bytes_eqb b a.
Proof.
  destruct (bytes_eqb a b) eqn:E.
  - apply bytes_eqb_eq in E. subst. now rewrite bytes_eqb_refl.
  - symmetry. apply bytes_eqb_neq. intros ->. now rewrite bytes_eqb_refl in E.
Qed.
Lemma is_nil_true {A} (l : list A) : is_nil l = true <-> l = [].
Proof. destruct l; cbn; split; congruence. Qed.
Lemma is_nil_false {A} (l : list A) : is_nil l = false <-> l <> [].
Proof. destruct l; cbn; split; congruence. Qed.

Lemma lookup_app {A} (r1 r2 : amap A) k :
  lookup (r1 ++ r2) k = match lookup r1 k with Some v => Some v | None => lookup r2 k end.
Proof.
  induction r1 as [|[k' v] t IH]; cbn [app lookup]; [reflexivity|].
  destruct (bytes_eqb k' k); [reflexivity|exact IH].
Qed.
Lemma keys_app {A} (r1 r2 : amap A) : keys (r1 ++ r2) = keys r1 ++ keys r2.
Proof. unfold keys. apply map_app. Qed.

(* ------------------------------------------------------------------ normalizeScheme *)
Lemma valid_scheme_cons c t :
  valid_scheme (c :: t) = is_letter c && forallb scheme_char t.
Proof. reflexivity. Qed.

Lemma normalize_panic s : normalize s = NPanic <-> s = [].
Proof.
  destruct s as [|c t]; cbn [normalize]; [tauto|].
  split; [|discriminate].
  destruct (negb (is_letter c)); [discriminate|]. destruct (forallb scheme_char t); discriminate.
Qed.

Lemma normalize_spec s : s <> [] ->
  normalize s = if valid_scheme s then NOk (ascii_lower s) else NErr.
Proof.
  destruct s as [|c t]; [congruence|]. intros _.
  rewrite valid_scheme_cons. cbn [normalize].
  destruct (is_letter c); cbn [negb andb]; [|reflexivity].
  destruct (forallb scheme_char t); reflexivity.
Qed.

(* validity and the normal form depend on the name only up to ASCII case *)
Lemma lower_byte_class c :
  is_letter (lower_byte c) = is_letter c /\ is_digit (lower_byte c) = is_digit c /\ is_pmd (lower_byte c) = is_pmd c
  /\ lower_byte (lower_byte c) = lower_byte c.
Proof. destruct c; vm_compute; repeat split. Qed.
Lemma scheme_char_lower c : scheme_char (lower_byte c) = scheme_char c.
Proof. unfold scheme_char. destruct (lower_byte_class c) as (-> & -> & -> & _). reflexivity. Qed.
Lemma valid_scheme_lower s : valid_scheme (ascii_lower s) = valid_scheme s.
Proof.
  destruct s as [|c t]; [reflexivity|]. unfold ascii_lower. cbn [map]. rewrite !valid_scheme_cons.
  destruct (lower_byte_class c) as (-> & _). f_equal.
  induction t as [|d t IH]; [reflexivity|]. cbn [map forallb]. now rewrite scheme_char_lower, IH.
Qed.
Lemma ascii_lower_idem s : ascii_lower (ascii_lower s) = ascii_lower s.
Proof.
  unfold ascii_lower. induction s as [|c t IH]; [reflexivity|]. cbn [map].
  destruct (lower_byte_class c) as (_ & _ & _ & ->). now rewrite IH.
Qed.
Lemma ascii_lower_nil s : ascii_lower s = [] <-> s = [].
Proof. destruct s; cbn; split; congruence. Qed.

(* a valid scheme is ASCII *)
Lemma scheme_char_ascii c : scheme_char c = true -> is_ascii c = true.
Proof. destruct c; vm_compute; congruence. Qed.
Lemma valid_scheme_ascii s : valid_scheme s = true -> forallb is_ascii s = true.
Proof.
  destruct s as [|c t]; [discriminate|]. rewrite valid_scheme_cons. intros H.
  apply andb_true_iff in H as [Hc Ht]. cbn [forallb].
  rewrite (scheme_char_ascii c) by (unfold scheme_char; now rewrite Hc). cbn [andb].
  induction t as [|d t IH]; [reflexivity|]. cbn [forallb] in *.
  apply andb_true_iff in Ht as [Hd Ht]. now rewrite (scheme_char_ascii d Hd), IH.
Qed.

(* ------------------------------------------------------------------ RegisterSink *)
Definition reg_accepts (r : sreg) (name : bytes) : Prop :=
  name <> [] /\ valid_scheme name = true /\ lookup r (ascii_lower name) = None.

Lemma register_spec r name f :
  let '(c, r') := register r name f in
  c <> RPanic /\
  (name = [] -> c = RErrEmpty) /\
  (name <> [] -> valid_scheme name = false -> c = RErrInvalid) /\
  (name <> [] -> valid_scheme name = true -> lookup r (ascii_lower name) <> None -> c = RErrDup) /\
  (c = ROk <-> reg_accepts r name) /\
  (c <> ROk -> r' = r) /\
  (c = ROk -> r' = r ++ [(ascii_lower name, f)]).
Proof.
  unfold register, reg_accepts. destruct (is_nil name) eqn:En.
  - apply is_nil_true in En. subst. repeat split; try congruence; try discriminate.
    intros (H & _); congruence.
  - apply is_nil_false in En. rewrite (normalize_spec name En).
    destruct (valid_scheme name) eqn:Ev; cbn [register_with].
    + destruct (lookup r (ascii_lower name)) as [v|] eqn:El.
      * repeat split; try congruence; try discriminate. intros (_ & _ & H); discriminate.
      * repeat split; try congruence; try discriminate.
    + repeat split; try congruence; try discriminate. intros (_ & H & _); discriminate.
Qed.

Lemma register_ok r name f : reg_accepts r name ->
  register r name f = (ROk, r ++ [(ascii_lower name, f)]).
Proof.
  intros H. pose proof (register_spec r name f) as S. destruct (register r name f) as [c r'].
  destruct S as (_ & _ & _ & _ & Hok & _ & Hr). apply Hok in H. subst c. now rewrite (Hr eq_refl).
Qed.
Lemma register_rejects r name f : ~ reg_accepts r name ->
  fst (register r name f) <> ROk /\ snd (register r name f) = r.
Proof.
  intros H. pose proof (register_spec r name f) as S. destruct (register r name f) as [c r'].
  destruct S as (_ & _ & _ & _ & Hok & Hr & _). cbn [fst snd].
  assert (c <> ROk) by (intros E; apply H, Hok, E). auto.
Qed.

(* lookups after a successful registration: every spelling of the scheme that
   agrees with the name up to ASCII case finds the new factory; every other key is
   unaffected *)
Lemma lookup_registered r name f s :
  reg_accepts r name -> ascii_lower s = ascii_lower name ->
  lookup (snd (register r name f)) (ascii_lower s) = Some f.
Proof.
  intros H E. rewrite (register_ok r name f H). cbn [snd]. rewrite lookup_app, E.
  destruct H as (_ & _ & ->). cbn [lookup]. now rewrite bytes_eqb_refl.
Qed.
Lemma lookup_other r name f k :
  k <> ascii_lower name -> lookup (snd (register r name f)) k = lookup r k.
Proof.
  intros Hk. pose proof (register_spec r name f) as S. destruct (register r name f) as [c r'].
  destruct S as (_ & _ & _ & _ & _ & Hne & Heq). cbn [snd].
  destruct c; try (rewrite Hne by discriminate; reflexivity).
  rewrite (Heq eq_refl), lookup_app. destruct (lookup r k); [reflexivity|].
  cbn [lookup]. rewrite bytes_eqb_neq by congruence. reflexivity.
Qed.

(* the statement of the property about names, parametric in the registration
   function (so that it can be refuted for the pre-fix code) *)
Definition registry_rejects_malformed (regf : sreg -> bytes -> bytes -> nat -> rres * sreg) : Prop :=
  forall r name lowered f, fst (regf r name lowered f) = ROk -> valid_scheme name = true.

Lemma registry_rejects_malformed_fixed : registry_rejects_malformed (fun r n _ f => register r n f).
Proof.
  intros r name _ f H. pose proof (register_spec r name f) as S. destruct (register r name f) as [c r'].
  cbn [fst] in H. destruct S as (_ & _ & _ & _ & Hok & _). apply Hok in H. apply H.
Qed.

(* "Kelvin": E2 84 AA e l v i n, which strings.ToLower maps to "kelvin" *)
Definition kelvin_name : bytes := [xe2; x84; xaa; x65; x6c; x76; x69; x6e].
Definition kelvin_lowered : bytes := [x6b; x65; x6c; x76; x69; x6e].
Lemma registry_kelvin_orig :
  register_orig sreg0 kelvin_name kelvin_lowered 1 = (ROk, sreg0 ++ [(kelvin_lowered, 1)])
  /\ valid_scheme kelvin_name = false /\ forallb is_ascii kelvin_name = false.
Proof. vm_compute. repeat split. Qed.
Lemma registry_rejects_malformed_orig_refuted : ~ registry_rejects_malformed register_orig.
Proof.
  intros H. specialize (H sreg0 kelvin_name kelvin_lowered 1).
  destruct registry_kelvin_orig as (E & V & _). rewrite E in H. specialize (H eq_refl). congruence.
Qed.

(* ------------------------------------------------------------------ RegisterEncoder *)
Lemma register_enc_spec r name v :
  let '(c, r') := register_enc r name v in
  (c = ROk <-> name <> [] /\ lookup r name = None) /\
  (name = [] -> c = RErrEmpty) /\
  (name <> [] -> lookup r name <> None -> c = RErrDup) /\
  (c <> ROk -> r' = r) /\
  (c = ROk -> r' = r ++ [(name, v)]).
Proof.
  unfold register_enc. destruct (is_nil name) eqn:En.
  - apply is_nil_true in En. subst. repeat split; try congruence; try discriminate. intros (H & _); congruence.
  - apply is_nil_false in En. destruct (lookup r name) as [w|] eqn:El.
    + repeat split; try congruence; try discriminate. intros (_ & H); discriminate.
    + repeat split; try congruence; try discriminate.
Qed.
Lemma lookup_enc_registered r name v : name <> [] -> lookup r name = None ->
  lookup (snd (register_enc r name v)) name = Some v
  /\ forall k, k <> name -> lookup (snd (register_enc r name v)) k = lookup r k.
Proof.
  intros Hn Hl. unfold register_enc. apply is_nil_false in Hn. rewrite Hn, Hl. cbn [snd]. split.
  - rewrite lookup_app, Hl. cbn [lookup]. now rewrite bytes_eqb_refl.
  - intros k Hk. rewrite lookup_app. destruct (lookup r k); [reflexivity|]. cbn [lookup].
    rewrite bytes_eqb_neq by congruence. reflexivity.
Qed.

(* ------------------------------------------------------------------ the registry against its declarative reading *)
(* [Inv r names]: the registry obtained from the registration attempts [names]
   resolves every key as the specification's "first valid name equal up to case" *)
Definition ids_pos (names : list (bytes * nat)) : Prop := Forall (fun p => snd p <> 0) names.
Definition Inv (r : sreg) (names : list (bytes * nat)) : Prop :=
  forall k, lookup r k = spec_factory names k.

Lemma spec_find_snoc names n id k :
  spec_find (names ++ [(n, id)]) k =
  match spec_find names k with
  | Some v => Some v
  | None => if valid_scheme n && bytes_eqb (ascii_lower n) k then Some id else None
  end.
Proof.
  induction names as [|[n' id'] t IH]; cbn [app spec_find]; [reflexivity|].
  destruct (valid_scheme n' && bytes_eqb (ascii_lower n') k); [reflexivity|exact IH].
Qed.

Lemma sreg0_eq : sreg0 = [(s_file, 0)].
Proof. vm_compute. reflexivity. Qed.
Lemma Inv0 : Inv sreg0 [].
Proof.
  intros k. rewrite sreg0_eq. unfold spec_factory. cbn [lookup spec_find].
  rewrite (bytes_eqb_sym k s_file). destruct (bytes_eqb s_file k); reflexivity.
Qed.

Lemma Inv_step r names n id : Inv r names -> Inv (snd (register r n id)) (names ++ [(n, id)]).
Proof.
  intros HI k. unfold spec_factory. rewrite spec_find_snoc.
  destruct (bytes_eqb k (ascii_lower n)) eqn:Ek.
  - apply bytes_eqb_eq in Ek. subst k.
    destruct (is_nil n) eqn:En.
    { apply is_nil_true in En. subst n. unfold register. cbn [is_nil snd]. rewrite (HI (ascii_lower [])).
      unfold spec_factory. cbn [valid_scheme andb]. destruct (bytes_eqb (ascii_lower []) s_file); [reflexivity|].
      destruct (spec_find names (ascii_lower [])); reflexivity. }
    apply is_nil_false in En. rewrite bytes_eqb_refl, andb_true_r.
    destruct (valid_scheme n) eqn:Ev.
    + destruct (lookup r (ascii_lower n)) as [v|] eqn:El.
      * destruct (register_rejects r n id) as (_ & ->); [intros (_ & _ & H); congruence|].
        rewrite El. pose proof (HI (ascii_lower n)) as H. rewrite El in H. unfold spec_factory in H.
        destruct (bytes_eqb (ascii_lower n) s_file); [exact H|]. now rewrite <- H.
      * rewrite (register_ok r n id) by (repeat split; assumption). cbn [snd]. rewrite lookup_app, El.
        cbn [lookup]. rewrite bytes_eqb_refl.
        pose proof (HI (ascii_lower n)) as H. rewrite El in H. unfold spec_factory in H.
        destruct (bytes_eqb (ascii_lower n) s_file); [discriminate|]. now rewrite <- H.
    + destruct (register_rejects r n id) as (_ & ->); [intros (_ & H & _); congruence|].
      rewrite (HI (ascii_lower n)). unfold spec_factory.
      destruct (bytes_eqb (ascii_lower n) s_file); [reflexivity|]. destruct (spec_find names (ascii_lower n)); reflexivity.
  - assert (Hk : k <> ascii_lower n) by (intros ->; now rewrite bytes_eqb_refl in Ek).
    rewrite (lookup_other r n id k Hk), (HI k). unfold spec_factory.
    rewrite (bytes_eqb_sym (ascii_lower n) k), Ek, andb_false_r.
    destruct (bytes_eqb k s_file); [reflexivity|]. destruct (spec_find names k); reflexivity.
Qed.

Lemma Inv_reg_all more : forall r names, Inv r names -> Inv (reg_all r more) (names ++ more).
Proof.
  induction more as [|[n id] t IH]; intros r names HI; cbn [reg_all fold_left].
  - now rewrite app_nil_r.
  - change (fold_left _ t ?x) with (reg_all x t). cbn [fst snd].
    replace (names ++ (n, id) :: t) with ((names ++ [(n, id)]) ++ t) by (now rewrite <- app_assoc).
    apply IH, Inv_step, HI.
Qed.

(* encoders: the same, with exact names *)
Definition EInv (r : ereg) (encs : list (bytes * (nat * bool))) : Prop :=
  forall k, lookup r k = spec_enc encs k.
Lemma spec_enc_find_snoc encs n v k :
  spec_enc_find (encs ++ [(n, v)]) k =
  match spec_enc_find encs k with
  | Some w => Some w
  | None => if negb (is_nil n) && bytes_eqb n k then Some v else None
  end.
Proof.
  induction encs as [|[n' v'] t IH]; cbn [app spec_enc_find]; [reflexivity|].
  destruct (negb (is_nil n') && bytes_eqb n' k); [reflexivity|exact IH].
Qed.
Lemma EInv0 : EInv ereg0 [].
Proof.
  intros k. unfold ereg0, spec_enc. cbn [lookup spec_enc_find].
  rewrite (bytes_eqb_sym k s_console), (bytes_eqb_sym k s_json).
  destruct (bytes_eqb s_console k); [reflexivity|]. destruct (bytes_eqb s_json k); reflexivity.
Qed.
Lemma EInv_step r encs n v : EInv r encs -> EInv (snd (register_enc r n v)) (encs ++ [(n, v)]).
Proof.
  intros HI k. unfold spec_enc. rewrite spec_enc_find_snoc.
  destruct (is_nil n) eqn:En.
  { unfold register_enc. rewrite En. cbn [snd negb andb]. rewrite (HI k). unfold spec_enc.
    destruct (bytes_eqb k s_console); [reflexivity|]. destruct (bytes_eqb k s_json); [reflexivity|].
    destruct (spec_enc_find encs k); reflexivity. }
  cbn [negb andb]. pose proof En as En'. apply is_nil_false in En'.
  destruct (lookup r n) as [w|] eqn:El.
  - unfold register_enc. rewrite En, El. cbn [snd]. rewrite (HI k). unfold spec_enc.
    destruct (bytes_eqb k s_console) eqn:E1; [reflexivity|]. destruct (bytes_eqb k s_json) eqn:E2; [reflexivity|].
    destruct (spec_enc_find encs k) eqn:Ef; [reflexivity|].
    destruct (bytes_eqb n k) eqn:Enk; [|reflexivity]. apply bytes_eqb_eq in Enk. subst k.
    pose proof (HI n) as H. rewrite El in H. unfold spec_enc in H. rewrite E1, E2, Ef in H. discriminate.
  - destruct (lookup_enc_registered r n v En' El) as (Hn & Ho).
    destruct (bytes_eqb n k) eqn:Enk.
    + apply bytes_eqb_eq in Enk. subst k. rewrite Hn.
      pose proof (HI n) as H. rewrite El in H. unfold spec_enc in H.
      destruct (bytes_eqb n s_console); [discriminate|]. destruct (bytes_eqb n s_json); [discriminate|].
      now rewrite <- H.
    + assert (Hk : k <> n) by (intros ->; now rewrite bytes_eqb_refl in Enk).
      rewrite (Ho k Hk), (HI k). unfold spec_enc.
      destruct (bytes_eqb k s_console); [reflexivity|]. destruct (bytes_eqb k s_json); [reflexivity|].
      destruct (spec_enc_find encs k); reflexivity.
Qed.
Lemma EInv_reg_all more : forall r encs, EInv r encs -> EInv (ereg_all r more) (encs ++ more).
Proof.
  induction more as [|[n v] t IH]; intros r encs HI; cbn [ereg_all fold_left].
  - now rewrite app_nil_r.
  - change (fold_left _ t ?x) with (ereg_all x t). cbn [fst snd].
    replace (encs ++ (n, v) :: t) with ((encs ++ [(n, v)]) ++ t) by (now rewrite <- app_assoc).
    apply IH, EInv_step, HI.
Qed.

(* C19 — proofs about newSink / file URLs, open / Open, Config.Build and the std-log
   redirection. *)
From Coq Require Import List ZArith Bool Lia Arith.
From Coq.Strings Require Import Byte.
Import ListNotations.
From Zap Require Import Base.Wire C19.Model C19.Registry.

(* ------------------------------------------------------------------ file URLs *)
Lemma file_from_path_spec p ok : file_from_path p ok = spec_file p ok.
Proof.
  unfold file_from_path, spec_file. destruct (bytes_eqb p s_stdout); [reflexivity|].
  destruct (bytes_eqb p s_stderr); reflexivity.
Qed.
Lemma file_from_url_spec u :
  file_from_url u = if file_url_ok u then spec_file (u_path u) (u_ok u) else ([], None).
Proof.
  unfold file_from_url, file_url_ok. destruct (u_user u); [reflexivity|]. cbn [negb andb].
  destruct (is_nil (u_frag u)); cbn [negb]; [|now rewrite !andb_false_r].
  destruct (is_nil (u_query u)); cbn [negb]; [|now rewrite !andb_false_r].
  destruct (is_nil (u_port u)); cbn [negb andb]; [|reflexivity].
  destruct (is_nil (u_hostname u)); cbn [negb andb orb]; [apply file_from_path_spec|].
  destruct (bytes_eqb (u_hostname u) s_localhost); cbn [negb]; [apply file_from_path_spec|reflexivity].
Qed.
Lemma file_url_ok_iff u :
  file_url_ok u = true <->
  u_user u = false /\ u_port u = [] /\ u_query u = [] /\ u_frag u = []
  /\ (u_hostname u = [] \/ u_hostname u = s_localhost).
Proof.
  unfold file_url_ok. rewrite !andb_true_iff, orb_true_iff, negb_true_iff, !is_nil_true, bytes_eqb_eq. tauto.
Qed.

Definition is_std_path (p : bytes) : bool := bytes_eqb p s_stdout || bytes_eqb p s_stderr.

(* a URL whose scheme is empty or "file", in any registry where "file" is the
   built-in factory: the opener is called iff the URL passes the checks, and then
   with exactly u.Path *)
Lemma file_url_thm r u :
  lookup r s_file = Some 0 -> u_abs u = false -> u_perr u = false ->
  (u_scheme u = [] \/ u_scheme u = s_file) ->
  (file_url_ok u = false -> new_sink r u = ([], None)) /\
  (file_url_ok u = true -> is_std_path (u_path u) = true -> new_sink r u = ([], Some KStd)) /\
  (file_url_ok u = true -> is_std_path (u_path u) = false ->
     new_sink r u = ([CFile (u_path u)], if u_ok u then Some KFile else None)).
Proof.
  intros Hf Ha Hp Hs. unfold new_sink. rewrite Ha, Hp.
  assert (E : lookup r (if is_nil (u_scheme u) then s_file else u_scheme u) = Some 0).
  { destruct Hs as [-> | ->]; [exact Hf|]. cbn [is_nil s_file]. exact Hf. }
  rewrite E, file_from_url_spec. unfold spec_file, is_std_path.
  repeat split; intros H1; rewrite H1; try reflexivity; intros H2; rewrite H2; reflexivity.
Qed.

(* newSink against the declarative reading of a path *)
Lemma spec_find_pos names k id : ids_pos names -> spec_find names k = Some id -> id <> 0.
Proof.
  induction 1 as [|[n i] t Hp _ IH]; cbn [spec_find]; [discriminate|].
  destruct (valid_scheme n && bytes_eqb (ascii_lower n) k); [|exact IH].
  intros [= <-]. exact Hp.
Qed.
Lemma new_sink_spec r names u :
  Inv r names -> ids_pos names -> wf_purl u = true -> new_sink r u = spec_path names u.
Proof.
  intros HI Hpos Hwf. unfold new_sink, spec_path, wf_purl in *.
  destruct (u_abs u); [apply file_from_path_spec|]. destruct (u_perr u); [reflexivity|].
  cbn [orb] in Hwf. apply bytes_eqb_eq in Hwf. rewrite <- Hwf.
  destruct (is_nil (u_scheme u)) eqn:En; cbn [orb].
  - rewrite (HI s_file). unfold spec_factory. rewrite bytes_eqb_refl. apply file_from_url_spec.
  - rewrite (HI (u_scheme u)). unfold spec_factory. destruct (bytes_eqb (u_scheme u) s_file) eqn:Ef.
    + apply file_from_url_spec.
    + destruct (spec_find names (u_scheme u)) as [id|] eqn:Es; [|reflexivity].
      pose proof (spec_find_pos _ _ _ Hpos Es) as Hid. destruct id as [|id]; [congruence|reflexivity].
Qed.

(* ------------------------------------------------------------------ counting events *)
Lemma count_app f a b : count f (a ++ b) = count f a + count f b.
Proof. induction a as [|e a IH]; cbn [app count]; [reflexivity|]. rewrite IH. lia. Qed.

Definition occ (id : nat) (ws : list sinkref) : nat := length (filter (fun s => Nat.eqb (sid s) id) ws).
Definition cocc (id : nat) (ws : list sinkref) : nat :=
  length (filter (fun s => closable s && Nat.eqb (sid s) id) ws).

Lemma count_write_combine id ws : count (is_write id) (combine_write ws) = occ id ws.
Proof.
  unfold combine_write, occ. induction ws as [|s t IH]; cbn [map count filter]; [reflexivity|].
  cbn [is_write]. destruct (Nat.eqb (sid s) id); cbn [length]; rewrite IH; reflexivity.
Qed.
Lemma count_close_combine id ws : count (is_close id) (combine_write ws) = 0.
Proof. unfold combine_write. induction ws as [|s t IH]; cbn [map count is_close]; [reflexivity|exact IH]. Qed.
Lemma count_write_writes id n ws : count (is_write id) (writes n ws) = n * occ id ws.
Proof.
  induction n as [|n IH]; cbn [writes count]; [reflexivity|].
  rewrite count_app, count_write_combine, IH. lia.
Qed.
Lemma count_close_writes id n ws : count (is_close id) (writes n ws) = 0.
Proof.
  induction n as [|n IH]; cbn [writes count]; [reflexivity|]. now rewrite count_app, count_close_combine, IH.
Qed.
Lemma count_write_close_all id ws : count (is_write id) (close_all ws) = 0.
Proof.
  unfold close_all. induction ws as [|s t IH]; cbn [map concat count]; [reflexivity|].
  rewrite count_app, IH. unfold close1. destruct (skd s); reflexivity.
Qed.
Lemma count_close_close_all id ws : count (is_close id) (close_all ws) = cocc id ws.
Proof.
  unfold close_all, cocc. induction ws as [|s t IH]; cbn [map concat count filter]; [reflexivity|].
  rewrite count_app, IH. unfold close1, closable.
  destruct (skd s); cbn [count is_close andb]; try reflexivity;
    destruct (Nat.eqb (sid s) id); cbn [length]; lia.
Qed.

(* sinks with pairwise distinct ids *)
Definition ids (ws : list sinkref) : list nat := map sid ws.
Lemma occ_notin id ws : ~ In id (ids ws) -> occ id ws = 0.
Proof.
  unfold occ, ids. induction ws as [|s t IH]; cbn [map filter In]; [reflexivity|]. intros H.
  destruct (Nat.eqb (sid s) id) eqn:E; [apply Nat.eqb_eq in E; tauto|]. apply IH. tauto.
Qed.
Lemma cocc_le id ws : cocc id ws <= occ id ws.
Proof.
  unfold cocc, occ. induction ws as [|s t IH]; cbn [filter]; [lia|].
  destruct (Nat.eqb (sid s) id); rewrite ?andb_true_r, ?andb_false_r;
    [destruct (closable s)|]; cbn [length]; lia.
Qed.
Lemma occ_in s ws : NoDup (ids ws) -> In s ws -> occ (sid s) ws = 1.
Proof.
  unfold ids. induction ws as [|x t IH]; cbn [map In]; [tauto|]. intros Hnd Hin.
  inversion Hnd as [|? ? Hx Ht]; subst. unfold occ. cbn [filter]. destruct Hin as [-> | Hin].
  - rewrite Nat.eqb_refl. cbn [length]. fold (occ (sid s) t). now rewrite (occ_notin _ _ Hx).
  - destruct (Nat.eqb (sid x) (sid s)) eqn:E.
    + apply Nat.eqb_eq in E. exfalso. apply Hx. rewrite E. now apply in_map.
    + fold (occ (sid s) t). now apply IH.
Qed.
Lemma cocc_in s ws : NoDup (ids ws) -> In s ws -> cocc (sid s) ws = if closable s then 1 else 0.
Proof.
  unfold ids. induction ws as [|x t IH]; cbn [map In]; [tauto|]. intros Hnd Hin.
  inversion Hnd as [|? ? Hx Ht]; subst. unfold cocc. cbn [filter]. destruct Hin as [-> | Hin].
  - rewrite Nat.eqb_refl, andb_true_r.
    assert (E0 : cocc (sid s) t = 0) by (pose proof (cocc_le (sid s) t); rewrite (occ_notin _ _ Hx) in *; lia).
    unfold cocc in E0. destruct (closable s); cbn [length]; lia.
  - destruct (Nat.eqb (sid x) (sid s)) eqn:E.
    + apply Nat.eqb_eq in E. exfalso. apply Hx. rewrite E. now apply in_map.
    + rewrite andb_false_r. fold (cocc (sid s) t). now apply IH.
Qed.

(* ------------------------------------------------------------------ open *)
Definition path_kinds (r : sreg) (ps : list purl) : list skind :=
  concat (map (fun u => match snd (new_sink r u) with Some k => [k] | None => [] end) ps).
Definition path_fails (r : sreg) (u : purl) : bool :=
  match snd (new_sink r u) with Some _ => false | None => true end.

Lemma open_loop_spec r ps : forall next,
  let '(ws, ne, cl) := open_loop r ps next in
  map skd ws = path_kinds r ps /\ ids ws = seq next (length ws)
  /\ ne = length (filter (path_fails r) ps)
  /\ cl = concat (map (fun u => fst (new_sink r u)) ps).
Proof.
  induction ps as [|u t IH]; intros next; cbn [open_loop]; [repeat split|].
  unfold path_kinds, path_fails. cbn [map concat filter]. destruct (new_sink r u) as [cs [k|]] eqn:En; cbn [fst snd].
  - specialize (IH (S next)). destruct (open_loop r t (S next)) as [[ws ne] cl]. destruct IH as (H1 & H2 & H3 & H4).
    unfold ids in *. cbn [map length seq app]. rewrite H1, H2, H3, H4. repeat split.
  - specialize (IH next). destruct (open_loop r t next) as [[ws ne] cl]. destruct IH as (H1 & H2 & H3 & H4).
    cbn [app length]. rewrite H1, H2, H3, H4. repeat split.
Qed.

Lemma seq_NoDup' a n : NoDup (seq a n).
Proof. apply seq_NoDup. Qed.

Lemma filter_fails_0 r ps : length (filter (path_fails r) ps) = 0 ->
  Forall (fun u => snd (new_sink r u) <> None) ps /\ length (path_kinds r ps) = length ps.
Proof.
  unfold path_kinds, path_fails. induction ps as [|u t IH]; cbn [filter map concat length]; [auto|].
  destruct (snd (new_sink r u)) eqn:E; cbn [length app]; [|discriminate].
  intros H. destruct (IH H) as (H1 & H2). split; [constructor; [congruence|exact H1]|now rewrite H2].
Qed.
Lemma filter_fails_pos r ps : length (filter (path_fails r) ps) <> 0 ->
  Exists (fun u => snd (new_sink r u) = None) ps.
Proof.
  unfold path_fails. induction ps as [|u t IH]; cbn [filter length]; [congruence|].
  destruct (snd (new_sink r u)) eqn:E; [|intros _; now constructor].
  intros H. apply Exists_cons_tl, IH, H.
Qed.

(* the all-or-nothing rule of open/Open, over every list of paths, every registry
   and every outcome of every opener *)
Definition open_atomic_stmt : Prop := forall r ps next,
  let o := open r ps next in
  map skd (o_sinks o) = path_kinds r ps /\ NoDup (ids (o_sinks o)) /\
  match o_writers o with
  | Some ws =>
      (* success: every path yielded a sink; nothing was closed; the combined writer
         delivers every write to every sink exactly once; closeAll closes every
         closable sink exactly once *)
      Forall (fun u => snd (new_sink r u) <> None) ps /\ length ws = length ps
      /\ o_sinks o = ws /\ o_evs o = [] /\ o_nerr o = 0
      /\ (forall n s, In s ws -> count (is_write (sid s)) (writes n ws) = n)
      /\ (forall s, In s ws -> count (is_close (sid s)) (close_all ws) = if closable s then 1 else 0)
  | None =>
      (* failure: some path failed, and every sink that was opened has been closed
         exactly once (os.Stdout / os.Stderr: never) and written to never *)
      Exists (fun u => snd (new_sink r u) = None) ps /\ o_nerr o = length (filter (path_fails r) ps) /\ o_nerr o <> 0
      /\ (forall s, In s (o_sinks o) -> count (is_close (sid s)) (o_evs o) = if closable s then 1 else 0)
      /\ (forall s, count (is_write (sid s)) (o_evs o) = 0)
  end.

Lemma open_atomic : open_atomic_stmt.
Proof.
  intros r ps next. unfold open. pose proof (open_loop_spec r ps next) as S.
  destruct (open_loop r ps next) as [[ws ne] cl]. destruct S as (Hk & Hid & Hne & Hcl).
  assert (Hnd : NoDup (ids ws)) by (rewrite Hid; apply seq_NoDup).
  destruct (Nat.eqb ne 0) eqn:E0; cbn [o_sinks o_writers o_evs o_nerr].
  - apply Nat.eqb_eq in E0. subst ne. symmetry in E0. destruct (filter_fails_0 r ps (eq_sym E0)) as (Hall & Hlen).
    repeat split; try assumption.
    + rewrite <- Hlen, <- Hk. now rewrite map_length.
    + now rewrite E0.
    + intros n s Hin. rewrite count_write_writes, (occ_in s ws Hnd Hin). lia.
    + intros s Hin. rewrite count_close_close_all. apply cocc_in; assumption.
  - apply Nat.eqb_neq in E0. repeat split; try assumption.
    + apply filter_fails_pos. congruence.
    + intros s Hin. rewrite count_close_close_all. apply cocc_in; assumption.
    + intros s. apply count_write_close_all.
Qed.

(* ------------------------------------------------------------------ Config.Build *)
Definition all_undone (sinks : list sinkref) (E : list ev) : Prop :=
  (forall s, In s sinks -> count (is_close (sid s)) E = if closable s then 1 else 0)
  /\ (forall s, count (is_write (sid s)) E = 0).

Lemma NoDup_ids_app ws1 ws2 :
  ids ws1 = seq 0 (length ws1) -> ids ws2 = seq (length ws1) (length ws2) -> NoDup (ids (ws1 ++ ws2)).
Proof.
  intros H1 H2. unfold ids in *. rewrite map_app, H1, H2, <- seq_app. apply seq_NoDup.
Qed.
Lemma ids_disjoint ws1 ws2 s :
  ids ws1 = seq 0 (length ws1) -> ids ws2 = seq (length ws1) (length ws2) ->
  (In s ws1 -> ~ In (sid s) (ids ws2)) /\ (In s ws2 -> ~ In (sid s) (ids ws1)).
Proof.
  intros H1 H2. split; intros Hin Hc.
  - apply (in_map sid) in Hin. fold (ids ws1) in Hin. rewrite H1 in Hin. rewrite H2 in Hc.
    apply in_seq in Hin. apply in_seq in Hc. lia.
  - apply (in_map sid) in Hin. fold (ids ws2) in Hin. rewrite H2 in Hin. rewrite H1 in Hc.
    apply in_seq in Hin. apply in_seq in Hc. lia.
Qed.
Lemma cocc_notin id ws : ~ In id (ids ws) -> cocc id ws = 0.
Proof. intros H. pose proof (cocc_le id ws). rewrite (occ_notin _ _ H) in *. lia. Qed.

(* openSinks: either both lists opened in full and nothing closed, or nothing
   returned and everything opened (by either Open) closed exactly once *)
Lemma open_sinks_spec r cfg :
  let s := open_sinks r cfg in
  NoDup (ids (r_sinks s)) /\
  match r_ws s with
  | Some (ws1, ws2) =>
      r_sinks s = ws1 ++ ws2 /\ r_evs s = []
      /\ map skd ws1 = path_kinds r (c_out cfg) /\ map skd ws2 = path_kinds r (c_errp cfg)
      /\ length ws1 = length (c_out cfg) /\ length ws2 = length (c_errp cfg)
      /\ ids ws1 = seq 0 (length ws1) /\ ids ws2 = seq (length ws1) (length ws2)
      /\ length (filter (path_fails r) (c_out cfg)) = 0 /\ length (filter (path_fails r) (c_errp cfg)) = 0
      /\ r_calls s = concat (map (fun u => fst (new_sink r u)) (c_out cfg)) ++ concat (map (fun u => fst (new_sink r u)) (c_errp cfg))
  | None =>
      all_undone (r_sinks s) (r_evs s)
      /\ length (filter (path_fails r) (c_out cfg)) + length (filter (path_fails r) (c_errp cfg)) <> 0
      /\ (exists pre, r_calls s = pre /\ incl pre (concat (map (fun u => fst (new_sink r u)) (c_out cfg)) ++ concat (map (fun u => fst (new_sink r u)) (c_errp cfg))))
  end.
Proof.
  unfold open_sinks, open.
  pose proof (open_loop_spec r (c_out cfg) 0) as S1.
  destruct (open_loop r (c_out cfg) 0) as [[ws1 ne1] cl1]. destruct S1 as (Hk1 & Hid1 & Hne1 & Hcl1).
  assert (Hnd1 : NoDup (ids ws1)) by (rewrite Hid1; apply seq_NoDup).
  destruct (Nat.eqb ne1 0) eqn:E1; cbn [o_writers o_sinks o_calls o_evs].
  - apply Nat.eqb_eq in E1. subst ne1.
    pose proof (open_loop_spec r (c_errp cfg) (length ws1)) as S2.
    destruct (open_loop r (c_errp cfg) (length ws1)) as [[ws2 ne2] cl2]. destruct S2 as (Hk2 & Hid2 & Hne2 & Hcl2).
    assert (Hnd : NoDup (ids (ws1 ++ ws2))) by (apply NoDup_ids_app; assumption).
    destruct (Nat.eqb ne2 0) eqn:E2; cbn [o_writers o_sinks o_calls o_evs r_ws r_sinks r_calls r_evs].
    + apply Nat.eqb_eq in E2. subst ne2. split; [exact Hnd|].
      destruct (filter_fails_0 r (c_out cfg) E1) as (_ & L1).
      destruct (filter_fails_0 r (c_errp cfg) E2) as (_ & L2).
      repeat split; try assumption; try (symmetry; assumption).
      * rewrite <- L1, <- Hk1. now rewrite map_length.
      * rewrite <- L2, <- Hk2. now rewrite map_length.
      * now rewrite Hcl1, Hcl2.
    + apply Nat.eqb_neq in E2. split; [exact Hnd|]. split; [split|split].
      * intros s Hin. rewrite count_app, !count_close_close_all.
        apply in_app_or in Hin. destruct (ids_disjoint ws1 ws2 s Hid1 Hid2) as (D1 & D2).
        assert (Hnd2 : NoDup (ids ws2)) by (rewrite Hid2; apply seq_NoDup).
        destruct Hin as [Hin|Hin].
        -- rewrite (cocc_notin _ _ (D1 Hin)), (cocc_in s ws1 Hnd1 Hin). lia.
        -- rewrite (cocc_notin _ _ (D2 Hin)), (cocc_in s ws2 Hnd2 Hin). lia.
      * intros s. now rewrite count_app, !count_write_close_all.
      * rewrite <- Hne2. lia.
      * eexists; split; [reflexivity|]. rewrite Hcl1, Hcl2. apply incl_refl.
  - apply Nat.eqb_neq in E1. cbn [r_ws r_sinks r_calls r_evs]. split; [exact Hnd1|]. split; [split|split].
    + intros s Hin. rewrite count_close_close_all. now apply cocc_in.
    + intros s. apply count_write_close_all.
    + rewrite <- Hne1. lia.
    + eexists; split; [reflexivity|]. rewrite Hcl1. apply incl_appl, incl_refl.
Qed.

(* the all-or-nothing rule of Build, parametric in the Build function *)
Definition build_atomic_stmt (bld : ereg -> sreg -> bcfg -> built) : Prop := forall er r cfg,
  let b := bld er r cfg in
  match b_ws b with
  | Some (ws1, ws2) =>
      b_cls b = BOk /\ c_level cfg = true
      /\ (exists id, new_encoder er (c_timekey cfg) (c_enctime cfg) (c_encoding cfg) = EOk id)
      /\ b_sinks b = ws1 ++ ws2 /\ b_evs b = [] /\ NoDup (ids (ws1 ++ ws2))
      /\ map skd ws1 = path_kinds r (c_out cfg) /\ length ws1 = length (c_out cfg)
      /\ map skd ws2 = path_kinds r (c_errp cfg) /\ length ws2 = length (c_errp cfg)
      (* n entries and m internal errors: every output sink receives the n, every
         error-output sink the m *)
      /\ (forall n m s, In s ws1 -> count (is_write (sid s)) (writes n ws1 ++ writes m ws2) = n)
      /\ (forall n m s, In s ws2 -> count (is_write (sid s)) (writes n ws1 ++ writes m ws2) = m)
  | None =>
      b_cls b <> BOk /\ all_undone (b_sinks b) (b_evs b)
  end.

Lemma enc_cls_ok e ids0 : enc_cls e = (BOk, ids0) -> exists id, e = EOk id.
Proof. destruct e; cbn [enc_cls]; intros [= ]; eauto. Qed.

Lemma all_undone_nil : all_undone [] [].
Proof. split; [intros s []|reflexivity]. Qed.

Lemma build_atomic : build_atomic_stmt build.
Proof.
  intros er r cfg. unfold build.
  destruct (enc_cls (new_encoder er (c_timekey cfg) (c_enctime cfg) (c_encoding cfg))) as [ec ids0] eqn:Ee.
  destruct ec; cbn [b_ws b_cls b_sinks b_evs]; try (split; [discriminate|apply all_undone_nil]).
  destruct (enc_cls_ok _ _ Ee) as (eid & Heid).
  destruct (c_level cfg) eqn:El; cbn [negb b_ws b_cls b_sinks b_evs]; [|split; [discriminate|apply all_undone_nil]].
  pose proof (open_sinks_spec r cfg) as S. cbn zeta in S.
  destruct (r_ws (open_sinks r cfg)) as [[ws1 ws2]|] eqn:Ew; cbn [b_ws b_cls b_sinks b_evs].
  - destruct S as (Hnd & Hs & He & Hk1 & Hk2 & L1 & L2 & I1 & I2 & _).
    assert (Hnd' : NoDup (ids (ws1 ++ ws2))) by (rewrite <- Hs; exact Hnd).
    assert (Hnd1 : NoDup (ids ws1)) by (rewrite I1; apply seq_NoDup).
    assert (Hnd2 : NoDup (ids ws2)) by (rewrite I2; apply seq_NoDup).
    repeat split; try assumption; try (eexists; eassumption).
    + intros n m s Hin. destruct (ids_disjoint ws1 ws2 s I1 I2) as (D1 & _).
      rewrite count_app, !count_write_writes, (occ_in s ws1 Hnd1 Hin), (occ_notin _ _ (D1 Hin)). lia.
    + intros n m s Hin. destruct (ids_disjoint ws1 ws2 s I1 I2) as (_ & D2).
      rewrite count_app, !count_write_writes, (occ_in s ws2 Hnd2 Hin), (occ_notin _ _ (D2 Hin)). lia.
  - destruct S as (_ & Hu & _). split; [discriminate|exact Hu].
Qed.

(* before the fix: a Config without a Level and one output path that opens *)
Definition leak_url : purl := mkU true [x2f; x6f; x6b] false [] false [] [] [x2f; x6f; x6b] [] [] true.
Definition leak_cfg : bcfg := mkB false false s_json false [leak_url] [].
Lemma build_orig_leaks :
  let b := build_orig ereg0 sreg0 leak_cfg in
  b_cls b = BLevel /\ b_ws b = None /\ b_sinks b = [mkS 0 KFile] /\ b_evs b = [].
Proof. vm_compute. repeat split. Qed.
Lemma build_atomic_orig_refuted : ~ build_atomic_stmt build_orig.
Proof.
  intros H. specialize (H ereg0 sreg0 leak_cfg). destruct build_orig_leaks as (_ & Hw & Hs & He).
  cbn zeta in H. rewrite Hw in H. destruct H as (_ & Hc & _). specialize (Hc (mkS 0 KFile)).
  rewrite Hs, He in Hc. specialize (Hc (or_introl eq_refl)). discriminate.
Qed.
(* what stays true of the pre-fix Build: with a Level it behaves like the fixed one *)
Lemma build_orig_with_level er r cfg : c_level cfg = true -> build_orig er r cfg = build er r cfg.
Proof.
  intros El. unfold build_orig, build.
  destruct (enc_cls (new_encoder er (c_timekey cfg) (c_enctime cfg) (c_encoding cfg))) as [ec ids0].
  destruct ec; try reflexivity. rewrite El. cbn [negb]. destruct (r_ws (open_sinks r cfg)); reflexivity.
Qed.

(* ------------------------------------------------------------------ std-log redirection *)
Lemma level_to_func_spec l : level_to_func l = if named_level l then Some l else None.
Proof.
  unfold named_level. destruct ((-1 <=? l)%Z && (l <=? 5)%Z) eqn:E.
  - apply andb_true_iff in E as [E1 E2]. apply Z.leb_le in E1, E2.
    assert (H : (l = -1 \/ l = 0 \/ l = 1 \/ l = 2 \/ l = 3 \/ l = 4 \/ l = 5)%Z) by lia.
    destruct H as [->|[->|[->|[->|[->|[->| ->]]]]]]; reflexivity.
  - assert (H : (l < -1 \/ l > 5)%Z).
    { apply andb_false_iff in E as [E|E]; [apply Z.leb_gt in E|apply Z.leb_gt in E]; lia. }
    destruct l as [|p|p]; [lia| |].
    + do 4 (try reflexivity; destruct p as [p|p|]; try lia); reflexivity.
    + do 2 (try reflexivity; destruct p as [p|p|]; try lia); reflexivity.
Qed.

Definition redirect_atomic_stmt (red : stdlog -> Z -> option (Z * bytes) * stdlog) : Prop := forall st l,
  match red st l with
  | (None, st') => named_level l = false /\ st' = st
  | (Some saved, st') =>
      named_level l = true /\ st' = mkL 0 [] (WZap l)
      /\ forall st'', restore saved st'' = mkL (l_flags st) (l_prefix st) WStderr
  end.
Lemma redirect_atomic : redirect_atomic_stmt redirect.
Proof.
  intros st l. unfold redirect. rewrite level_to_func_spec. destruct (named_level l); [|split; reflexivity].
  repeat split.
Qed.
Lemma redirect_atomic_orig_refuted : ~ redirect_atomic_stmt redirect_orig.
Proof.
  intros H. specialize (H (mkL 3 [x70] WUser) 6%Z). vm_compute in H. destruct H as (_ & H). discriminate.
Qed.
Lemma redirect_orig_valid st l : named_level l = true -> redirect_orig st l = redirect st l.
Proof. intros H. unfold redirect_orig, redirect. rewrite level_to_func_spec, H. reflexivity. Qed.

(* C19 — stub *)
From Zap Require Import Base.Wire C19.Model.

(* C19 — the wire-level link: on every well-formed case the observation computed by
   the model of the code is accepted by the property's oracle. *)
From Coq Require Import List ZArith Bool Lia Arith.
From Coq.Strings Require Import Byte.
Import ListNotations.
From Zap Require Import Base.Wire C19.Model C19.Registry C19.Open.

(* ------------------------------------------------------------------ generalities *)
Lemma sx_eqb_refl : forall s, sx_eqb s s = true.
Proof.
  fix IH 1. intros [z|b|l]; cbn [sx_eqb].
  - apply Z.eqb_refl.
  - apply bytes_eqb_refl.
  - induction l as [|a t IHt]; [reflexivity|]. rewrite (IH a). cbn [andb]. exact IHt.
Qed.

Lemma sx_mem_in x l : In x l -> sx_mem x l = true.
Proof.
  induction l as [|y t IH]; cbn [In sx_mem]; [tauto|]. intros [->|H].
  - now rewrite sx_eqb_refl.
  - rewrite (IH H). apply orb_true_r.
Qed.
Lemma all_in_incl xs ys : incl xs ys -> all_in xs ys = true.
Proof.
  unfold all_in. intros H. apply forallb_forall. intros x Hx. apply sx_mem_in, H, Hx.
Qed.

Lemma number_pos' {A} (l : list A) k : Forall (fun p : A * nat => snd p <> 0) (number (S k) l).
Proof. revert k. induction l as [|a t IH]; intros k; cbn [number]; constructor; [cbn; lia|apply IH]. Qed.
Lemma dec_names_pos s : ids_pos (dec_names s).
Proof. unfold dec_names, ids_pos. apply number_pos'. Qed.

Lemma Inv_case names : Inv (reg_all sreg0 names) names.
Proof. apply (Inv_reg_all names sreg0 [] Inv0). Qed.
Lemma EInv_case encs : EInv (ereg_all ereg0 encs) encs.
Proof. apply (EInv_reg_all encs ereg0 [] EInv0). Qed.

(* ------------------------------------------------------------------ paths of a case *)
Section Paths.
  Variable r : sreg.
  Variable names : list (bytes * nat).
  Hypothesis HI : Inv r names.
  Hypothesis Hpos : ids_pos names.

  Lemma kinds_spec ps : forallb wf_purl ps = true -> path_kinds r ps = spec_kinds names ps.
  Proof.
    unfold path_kinds, spec_kinds. induction ps as [|u t IH]; cbn [forallb map concat]; [reflexivity|].
    intros H. apply andb_true_iff in H as [Hu Ht]. now rewrite (new_sink_spec r names u HI Hpos Hu), (IH Ht).
  Qed.
  Lemma nfail_spec ps : forallb wf_purl ps = true -> length (filter (path_fails r) ps) = spec_nfail names ps.
  Proof.
    unfold path_fails, spec_nfail. induction ps as [|u t IH]; cbn [forallb filter]; [reflexivity|].
    intros H. apply andb_true_iff in H as [Hu Ht]. rewrite (new_sink_spec r names u HI Hpos Hu).
    destruct (snd (spec_path names u)); cbn [length]; now rewrite (IH Ht).
  Qed.
  Lemma calls_spec ps : forallb wf_purl ps = true ->
    concat (map (fun u => fst (new_sink r u)) ps) = spec_calls names ps.
  Proof.
    unfold spec_calls. induction ps as [|u t IH]; cbn [forallb map concat]; [reflexivity|].
    intros H. apply andb_true_iff in H as [Hu Ht]. now rewrite (new_sink_spec r names u HI Hpos Hu), (IH Ht).
  Qed.
End Paths.

(* ------------------------------------------------------------------ statistics *)
Lemma closable_std s : closable s = negb (is_std (skd s)).
Proof. unfold closable, is_std. destruct (skd s); reflexivity. Qed.

Lemma stats_uniform E W C l :
  (forall s, In s l -> closable s = true ->
     count (is_write (sid s)) E = W /\ count (is_close (sid s)) E = C) ->
  stats E l = spec_stats (map skd l) W C.
Proof.
  unfold stats, spec_stats. intros H. f_equal.
  induction l as [|s t IH]; cbn [map filter]; [reflexivity|].
  rewrite <- closable_std. destruct (closable s) eqn:Ec; cbn [map].
  - unfold stat_of at 1. destruct (H s (or_introl eq_refl) Ec) as (-> & ->). f_equal.
    apply IH. intros s' Hin. apply H. now right.
  - apply IH. intros s' Hin. apply H. now right.
Qed.

Lemma std_uniform E W l :
  (forall s, In s l -> closable s = false ->
     count (is_write (sid s)) E = W /\ count (is_close (sid s)) E = 0) ->
  std_pair E l = spec_std (map skd l) W.
Proof.
  unfold std_pair, spec_std. intros H.
  assert (G : sum_count is_write E (filter (fun s => negb (closable s)) l) = W * length (filter is_std (map skd l))
              /\ sum_count is_close E (filter (fun s => negb (closable s)) l) = 0).
  { induction l as [|s t IH]; cbn [map filter sum_count fold_right length]; [split; lia|].
    destruct IH as (I1 & I2); [intros s' Hin; apply H; now right|].
    rewrite closable_std, negb_involutive. destruct (is_std (skd s)) eqn:Es; [|split; assumption].
    assert (Ec : closable s = false) by (rewrite closable_std, Es; reflexivity).
    destruct (H s (or_introl eq_refl) Ec) as (Hw & Hc).
    cbn [sum_count fold_right length]. fold (sum_count is_write E (filter (fun s => negb (closable s)) t)).
    fold (sum_count is_close E (filter (fun s => negb (closable s)) t)).
    rewrite Hw, Hc, I1, I2. split; lia. }
  destruct G as (-> & ->). reflexivity.
Qed.

Lemma undone_stats kinds : forallb undone (sx_l (spec_stats kinds 0 1)) = true.
Proof.
  unfold spec_stats. cbn [sx_l]. induction kinds as [|k t IH]; cbn [filter map forallb]; [reflexivity|].
  destruct (is_std k); cbn [negb map forallb]; [exact IH|]. rewrite IH, andb_true_r.
  destruct k; reflexivity.
Qed.
Lemma spec_std_0 kinds : spec_std kinds 0 = std_untouched.
Proof. reflexivity. Qed.

(* ------------------------------------------------------------------ kind 2 *)
Lemma wire_redirect i : spec_redirect i (model_redirect i) = true.
Proof.
  unfold spec_redirect, model_redirect, model_redirect_with, redirect.
  set (l := if Z.eqb (sx_z (sx_nth i 1)) 0 then 0%Z else sx_z (sx_nth i 4)).
  rewrite level_to_func_spec. destruct (named_level l); cbn [l_writer l_flags l_prefix restore fst snd lw_code of_bool];
    apply sx_eqb_refl.
Qed.

(* ------------------------------------------------------------------ kind 0 *)
Lemma andb_intro (a b : bool) : a = true -> b = true -> a && b = true.
Proof. intros -> ->. reflexivity. Qed.

Lemma wire_open_gen r names ps nw :
  Inv r names -> ids_pos names -> forallb wf_purl ps = true ->
  spec_open_at names ps nw (obs_open (open r ps 0) nw) = true.
Proof.
  intros HI Hpos Hwf. unfold spec_open_at, obs_open.
  pose proof (open_atomic r ps 0) as A. cbn zeta in A. destruct A as (Hk & Hnd & A).
  assert (Hcalls : o_calls (open r ps 0) = spec_calls names ps).
  { unfold open. pose proof (open_loop_spec r ps 0) as S. destruct (open_loop r ps 0) as [[ws ne] cl].
    destruct S as (_ & _ & _ & ->). destruct (Nat.eqb ne 0); cbn [o_calls]; apply calls_spec; assumption. }
  rewrite (kinds_spec r names HI Hpos ps Hwf) in Hk.
  destruct (o_writers (open r ps 0)) as [ws|] eqn:Ew.
  - destruct A as (_ & _ & Hs & He & Hn & Hwr & Hcl).
    assert (Hnf : spec_nfail names ps = 0).
    { rewrite <- (nfail_spec r names HI Hpos ps Hwf). unfold open in Hn, Ew.
      pose proof (open_loop_spec r ps 0) as S. destruct (open_loop r ps 0) as [[ws' ne] cl].
      destruct S as (_ & _ & <- & _). destruct (Nat.eqb ne 0) eqn:E; [apply Nat.eqb_eq in E; exact E|discriminate]. }
    rewrite Hnf. cbn [Nat.eqb]. rewrite Hs in *. rewrite He, Hn, Hcalls. cbn [app sx_nth sx_l nth of_nat Z.of_nat].
    rewrite <- Hk.
    assert (S1 : stats (writes nw ws) ws = spec_stats (map skd ws) nw 0).
    { apply stats_uniform. intros s Hin _. split; [apply Hwr, Hin|apply count_close_writes]. }
    assert (S2 : stats (writes nw ws ++ close_all ws) ws = spec_stats (map skd ws) nw 1).
    { apply stats_uniform. intros s Hin Hc.
      rewrite !count_app, count_write_close_all, count_close_writes, (Hwr nw s Hin), (Hcl s Hin), Hc. split; lia. }
    assert (S3 : std_pair (writes nw ws ++ close_all ws) ws = spec_std (map skd ws) nw).
    { apply std_uniform. intros s Hin Hc.
      rewrite !count_app, count_write_close_all, count_close_writes, (Hwr nw s Hin), (Hcl s Hin), Hc. split; lia. }
    rewrite S1, S2, S3, !sx_eqb_refl. reflexivity.
  - destruct A as (_ & Hn & Hn0 & Hcl & Hwr).
    rewrite (nfail_spec r names HI Hpos ps Hwf) in Hn. rewrite <- Hn.
    destruct (Nat.eqb (o_nerr (open r ps 0)) 0) eqn:E; [apply Nat.eqb_eq in E; congruence|].
    rewrite Hcalls. cbn [sx_nth sx_l nth].
    set (o := open r ps 0) in *.
    assert (S2 : stats (o_evs o) (o_sinks o) = spec_stats (map skd (o_sinks o)) 0 1).
    { apply stats_uniform. intros s Hin Hc. split; [apply Hwr|]. rewrite (Hcl s Hin), Hc. reflexivity. }
    assert (S3 : std_pair (o_evs o) (o_sinks o) = spec_std (map skd (o_sinks o)) 0).
    { apply std_uniform. intros s Hin Hc. split; [apply Hwr|]. rewrite (Hcl s Hin), Hc. reflexivity. }
    rewrite S2, S3, undone_stats, spec_std_0, !sx_eqb_refl, all_in_incl by apply incl_refl. reflexivity.
Qed.
Lemma wire_open i : forallb wf_purl (map dec_purl (sx_l (sx_nth i 2))) = true -> spec_open i (model_open i) = true.
Proof.
  intros Hwf. unfold spec_open, model_open.
  apply wire_open_gen; [apply Inv_case|apply dec_names_pos|exact Hwf].
Qed.


(* ------------------------------------------------------------------ kind 1 *)
Lemma spec_build_err names encs cfg nw code ctor calls sinks E :
  In code (spec_problems encs names cfg) ->
  incl calls (spec_calls names (c_out cfg) ++ spec_calls names (c_errp cfg)) ->
  all_undone sinks E ->
  spec_build_at names encs cfg nw
    (SL [SZ code; ctor; SL (map enc_call calls); SL []; stats E sinks; std_pair E sinks]) = true.
Proof.
  intros Hin Hincl (Hcl & Hwr). unfold spec_build_at.
  destruct (spec_problems encs names cfg) as [|p0 pt] eqn:Ep; [destruct Hin|]. cbn [is_nil sx_nth sx_l nth sx_z].
  assert (S2 : stats E sinks = spec_stats (map skd sinks) 0 1).
  { apply stats_uniform. intros s Hs Hc. split; [apply Hwr|]. rewrite (Hcl s Hs), Hc. reflexivity. }
  assert (S3 : std_pair E sinks = spec_std (map skd sinks) 0).
  { apply std_uniform. intros s Hs Hc. split; [apply Hwr|]. rewrite (Hcl s Hs), Hc. reflexivity. }
  rewrite S2, S3, undone_stats, spec_std_0, !sx_eqb_refl.
  rewrite all_in_incl by (apply incl_map; exact Hincl).
  assert (X : existsb (Z.eqb code) (p0 :: pt) = true).
  { apply existsb_exists. exists code. split; [exact Hin|apply Z.eqb_refl]. }
  rewrite X. reflexivity.
Qed.

Lemma open_sinks_calls_err r cfg names :
  Inv r names -> ids_pos names ->
  forallb wf_purl (c_out cfg) = true -> forallb wf_purl (c_errp cfg) = true ->
  r_ws (open_sinks r cfg) = None ->
  incl (r_calls (open_sinks r cfg)) (spec_calls names (c_out cfg) ++ spec_calls names (c_errp cfg))
  /\ spec_nfail names (c_out cfg) + spec_nfail names (c_errp cfg) <> 0
  /\ all_undone (r_sinks (open_sinks r cfg)) (r_evs (open_sinks r cfg)).
Proof.
  intros HI Hpos W1 W2 Hn. pose proof (open_sinks_spec r cfg) as S. cbn zeta in S. rewrite Hn in S.
  destruct S as (_ & Hu & Hf & (pre & -> & Hincl)).
  rewrite (calls_spec r names HI Hpos _ W1), (calls_spec r names HI Hpos _ W2) in Hincl.
  rewrite (nfail_spec r names HI Hpos _ W1), (nfail_spec r names HI Hpos _ W2) in Hf. auto.
Qed.

Lemma wire_build_gen names encs cfg nw r er :
  Inv r names -> ids_pos names -> EInv er encs ->
  forallb wf_purl (c_out cfg) = true -> forallb wf_purl (c_errp cfg) = true ->
  spec_build_at names encs cfg nw (obs_build (build er r cfg) nw) = true.
Proof.
  intros HI Hpos HE W1 W2. unfold obs_build.
  assert (Hnil : all_undone [] []) by apply all_undone_nil.
  assert (Hi0 : incl (@nil call) (spec_calls names (c_out cfg) ++ spec_calls names (c_errp cfg))) by (intros x []).
  unfold build, new_encoder.
  destruct (c_timekey cfg && negb (c_enctime cfg)) eqn:Et.
  { cbn [enc_cls b_cls b_ctor b_calls b_ws b_evs b_sinks app map cls_code].
    apply (spec_build_err names encs cfg nw 1%Z _ [] [] []); try assumption.
    unfold spec_problems. rewrite Et. now left. }
  destruct (is_nil (c_encoding cfg)) eqn:En.
  { cbn [enc_cls b_cls b_ctor b_calls b_ws b_evs b_sinks app map cls_code].
    apply (spec_build_err names encs cfg nw 2%Z _ [] [] []); try assumption.
    unfold spec_problems. rewrite Et, En. now left. }
  rewrite (HE (c_encoding cfg)). destruct (spec_enc encs (c_encoding cfg)) as [[cid ok]|] eqn:Ese.
  2:{ cbn [enc_cls b_cls b_ctor b_calls b_ws b_evs b_sinks app map cls_code].
      apply (spec_build_err names encs cfg nw 3%Z _ [] [] []); try assumption.
      unfold spec_problems. rewrite Et, En, Ese. now left. }
  destruct ok.
  2:{ cbn [enc_cls b_cls b_ctor b_calls b_ws b_evs b_sinks app map cls_code].
      apply (spec_build_err names encs cfg nw 4%Z _ [] [] []); try assumption.
      unfold spec_problems. rewrite Et, En, Ese. now left. }
  cbn [enc_cls]. destruct (c_level cfg) eqn:El; cbn [negb].
  2:{ cbn [b_cls b_ctor b_calls b_ws b_evs b_sinks app map cls_code].
      apply (spec_build_err names encs cfg nw 6%Z _ [] [] []); try assumption.
      unfold spec_problems. rewrite Et, En, Ese, El. cbn [app].
      destruct (Nat.eqb _ 0); cbn [app In]; auto. }
  destruct (r_ws (open_sinks r cfg)) as [[ws1 ws2]|] eqn:Ew.
  2:{ cbn [b_cls b_ctor b_calls b_ws b_evs b_sinks app map cls_code].
      destruct (open_sinks_calls_err r cfg names HI Hpos W1 W2 Ew) as (Hincl & Hf & Hu).
      apply (spec_build_err names encs cfg nw 5%Z); try assumption.
      unfold spec_problems. rewrite Et, En, Ese, El. cbn [app].
      destruct (Nat.eqb _ 0) eqn:E0; [apply Nat.eqb_eq in E0; congruence|]. cbn [app In]. auto. }
  (* success *)
  cbn [b_cls b_ctor b_calls b_ws b_evs b_sinks app map cls_code].
  pose proof (open_sinks_spec r cfg) as S. cbn zeta in S. rewrite Ew in S.
  destruct S as (Hnd & Hs & He & Hk1 & Hk2 & L1 & L2 & I1 & I2 & F1 & F2 & Hc).
  rewrite (kinds_spec r names HI Hpos _ W1) in Hk1. rewrite (kinds_spec r names HI Hpos _ W2) in Hk2.
  rewrite (nfail_spec r names HI Hpos _ W1) in F1. rewrite (nfail_spec r names HI Hpos _ W2) in F2.
  rewrite (calls_spec r names HI Hpos _ W1), (calls_spec r names HI Hpos _ W2) in Hc.
  unfold spec_build_at, spec_problems. rewrite Et, En, Ese, El, F1, F2. cbn [Nat.add Nat.eqb app is_nil].
  rewrite Hs, He, Hc. cbn [app sx_nth sx_l nth].
  assert (Hnd1 : NoDup (ids ws1)) by (rewrite I1; apply seq_NoDup).
  assert (Hnd2 : NoDup (ids ws2)) by (rewrite I2; apply seq_NoDup).
  assert (Hcount : forall s, In s (ws1 ++ ws2) ->
            count (is_write (sid s)) (writes nw ws1 ++ writes nw ws2) = nw
            /\ count (is_close (sid s)) (writes nw ws1 ++ writes nw ws2) = 0).
  { intros s Hin. rewrite !count_app, !count_write_writes, !count_close_writes. split; [|reflexivity].
    destruct (ids_disjoint ws1 ws2 s I1 I2) as (D1 & D2). apply in_app_or in Hin. destruct Hin as [Hin|Hin].
    - rewrite (occ_in s ws1 Hnd1 Hin), (occ_notin _ _ (D1 Hin)). lia.
    - rewrite (occ_in s ws2 Hnd2 Hin), (occ_notin _ _ (D2 Hin)). lia. }
  assert (S1 : stats (writes nw ws1 ++ writes nw ws2) (ws1 ++ ws2) = spec_stats (map skd (ws1 ++ ws2)) nw 0).
  { apply stats_uniform. intros s Hin _. apply Hcount, Hin. }
  assert (S3 : std_pair (writes nw ws1 ++ writes nw ws2) (ws1 ++ ws2) = spec_std (map skd (ws1 ++ ws2)) nw).
  { apply std_uniform. intros s Hin _. apply Hcount, Hin. }
  rewrite S1, S3, (map_app skd), Hk1, Hk2, !sx_eqb_refl. reflexivity.
Qed.
Lemma wire_build i :
  forallb wf_purl (map dec_purl (sx_l (sx_nth i 7))) = true ->
  forallb wf_purl (map dec_purl (sx_l (sx_nth i 8))) = true ->
  spec_build i (model_build i) = true.
Proof.
  intros W1 W2. unfold spec_build, model_build, model_build_with.
  apply wire_build_gen; [apply Inv_case|apply dec_names_pos|apply EInv_case|exact W1|exact W2].
Qed.


(* ------------------------------------------------------------------ kind 3 *)
Lemma reg_code r names name id : Inv r names ->
  rres_code (fst (register r name id)) = spec_reg_cls names name
  /\ keys (snd (register r name id)) =
     if Z.eqb (spec_reg_cls names name) 0 then keys r ++ [ascii_lower name] else keys r.
Proof.
  intros HI. unfold register, spec_reg_cls. destruct (is_nil name) eqn:En; [split; reflexivity|].
  apply is_nil_false in En. rewrite (normalize_spec name En).
  destruct (valid_scheme name); cbn [negb register_with]; [|split; reflexivity].
  rewrite (HI (ascii_lower name)). destruct (spec_factory names (ascii_lower name)); cbn [fst snd rres_code Z.eqb].
  - split; reflexivity.
  - split; [reflexivity|]. rewrite keys_app. reflexivity.
Qed.

Lemma wire_sreg_ops : forall ops r names id,
  Inv r names -> ids_pos names -> id <> 0 -> forallb wf_op3 ops = true ->
  spec_sreg_ops names (keys r) id ops (model_sreg_ops (fun r n _ id => register r n id) r id ops) = true.
Proof.
  induction ops as [|op t IH]; intros r names id HI Hpos Hid Hwf; cbn [model_sreg_ops spec_sreg_ops]; [reflexivity|].
  cbn [forallb] in Hwf. apply andb_true_iff in Hwf as [Hop Ht]. unfold wf_op3 in Hop.
  destruct (Z.eqb (sx_z (sx_nth op 0)) 0) eqn:Ek.
  - set (name := sx_b (sx_nth op 1)). destruct (reg_code r names name id HI) as (Hc & Hk).
    pose proof (Inv_step r names name id HI) as HI'.
    destruct (register r name id) as [c r'] eqn:Er. cbn [fst snd] in *.
    rewrite Hc, Hk, sx_eqb_refl. cbn [andb]. rewrite <- Hk. apply IH; try assumption; try lia.
    unfold ids_pos in *. apply Forall_app. split; [exact Hpos|]. constructor; [exact Hid|constructor].
  - cbn [orb] in Hop. rewrite (new_sink_spec r names _ HI Hpos Hop).
    destruct (spec_path names (dec_purl (sx_nth op 1))) as [cs res]. rewrite sx_eqb_refl. cbn [andb].
    apply IH; try assumption; lia.
Qed.

(* ------------------------------------------------------------------ kind 4 *)
Lemma open_sinks_nil r tk et enc lv :
  open_sinks r (mkB tk et enc lv [] []) = mkR (Some ([], [])) [] [] [].
Proof. reflexivity. Qed.

Lemma wire_ereg_ops : forall ops r encs id,
  EInv r encs ->
  spec_ereg_ops encs (keys r) id ops (model_ereg_ops r id ops) = true.
Proof.
  induction ops as [|op t IH]; intros r encs id HE; cbn [model_ereg_ops spec_ereg_ops]; [reflexivity|].
  set (name := sx_b (sx_nth op 1)).
  destruct (Z.eqb (sx_z (sx_nth op 0)) 0) eqn:Ek.
  - pose proof (EInv_step r encs name (id, true) HE) as HE'.
    unfold register_enc in *. destruct (is_nil name) eqn:En.
    + cbn [fst snd rres_code Z.eqb] in *. rewrite sx_eqb_refl. cbn [andb]. apply IH, HE'.
    + rewrite (HE name) in *. destruct (spec_enc encs name) as [v|].
      * cbn [fst snd rres_code Z.eqb] in *. rewrite sx_eqb_refl. cbn [andb]. apply IH, HE'.
      * cbn [fst snd rres_code Z.eqb] in *. rewrite keys_app. cbn [keys map fst app]. rewrite sx_eqb_refl. cbn [andb].
        replace (keys r ++ [name]) with (keys (r ++ [(name, (id, true))])) by (rewrite keys_app; reflexivity).
        apply IH, HE'.
  - assert (X : sx_eqb
        (SL [SZ 1; SZ (cls_code (b_cls (build r sreg0 (mkB false false name true [] []))));
             SL (map of_nat (b_ctor (build r sreg0 (mkB false false name true [] []))));
             enc_keys (keys r)])
        (if is_nil name then SL [SZ 1; SZ 2; SL []; enc_keys (keys r)]
         else match spec_enc encs name with
              | None => SL [SZ 1; SZ 3; SL []; enc_keys (keys r)]
              | Some (cid, true) => SL [SZ 1; SZ 0; SL (if Nat.leb 2 cid then [of_nat cid] else []); enc_keys (keys r)]
              | Some (cid, false) => SL [SZ 1; SZ 4; SL [of_nat cid]; enc_keys (keys r)]
              end) = true).
    { unfold build, new_encoder. cbn [c_timekey c_enctime c_encoding c_level andb negb].
      destruct (is_nil name); [apply sx_eqb_refl|]. rewrite (HE name).
      destruct (spec_enc encs name) as [[cid ok]|]; [|apply sx_eqb_refl].
      destruct ok; cbn [enc_cls negb]; [|apply sx_eqb_refl].
      rewrite open_sinks_nil. cbn [r_ws r_sinks r_calls r_evs b_cls b_ctor cls_code].
      destruct (Nat.leb 2 cid); apply sx_eqb_refl. }
    rewrite X. cbn [andb]. apply IH, HE.
Qed.

Lemma sreg0_keys : keys sreg0 = [s_file].
Proof. vm_compute. reflexivity. Qed.

(* ------------------------------------------------------------------ kind 5 *)
Lemma not_blocked2 a b l : is_blocked (SL (a :: b :: l)) = false.
Proof. unfold is_blocked, blocked. cbn. apply andb_false_r. Qed.

Lemma model_redirect_shape op : exists a b l, model_redirect op = SL (a :: b :: l).
Proof.
  unfold model_redirect, model_redirect_with. destruct (redirect _ _) as [rr st1].
  eexists _, _, _. reflexivity.
Qed.

Lemma ereg_code er encs name v : EInv er encs ->
  let c := if is_nil name then 1%Z else match spec_enc encs name with Some _ => 3%Z | None => 0%Z end in
  rres_code (fst (register_enc er name v)) = c
  /\ keys (snd (register_enc er name v)) = if Z.eqb c 0 then keys er ++ [name] else keys er.
Proof.
  intros HE. cbn zeta. unfold register_enc. destruct (is_nil name); [split; reflexivity|].
  rewrite (HE name). destruct (spec_enc encs name); cbn [fst snd rres_code Z.eqb]; [split; reflexivity|].
  split; [reflexivity|]. rewrite keys_app. reflexivity.
Qed.

Lemma wire_mix_ops : forall ops r er names encs id,
  Inv r names -> ids_pos names -> EInv er encs -> id <> 0 -> forallb wf_op5 ops = true ->
  spec_mix_ops names encs (keys r) (keys er) id ops (model_mix_ops r er id ops) = true.
Proof.
  induction ops as [|op t IH]; intros r er names encs id HI Hpos HE Hid Hwf; cbn [model_mix_ops spec_mix_ops]; [reflexivity|].
  cbn [forallb] in Hwf. apply andb_true_iff in Hwf as [Hop Ht]. unfold wf_op5 in Hop.
  destruct (Z.eqb (tag op) 0) eqn:E0.
  { (* RegisterSink *)
    set (name := sx_b (sx_nth op 1)). destruct (reg_code r names name id HI) as (Hc & Hk).
    pose proof (Inv_step r names name id HI) as HI'.
    destruct (register r name id) as [c r'] eqn:Er. cbn [fst snd] in *.
    rewrite not_blocked2. cbn [negb andb]. rewrite Hc, Hk, sx_eqb_refl. cbn [andb]. rewrite <- Hk.
    apply IH; try assumption; try lia.
    unfold ids_pos in *. apply Forall_app. split; [exact Hpos|]. constructor; [exact Hid|constructor]. }
  destruct (Z.eqb (tag op) 1) eqn:E1.
  { (* Open *)
    rewrite not_blocked2. cbn [negb andb sx_nth sx_l nth].
    rewrite (wire_open_gen r names _ _ HI Hpos Hop), sx_eqb_refl. cbn [andb].
    apply IH; try assumption; lia. }
  destruct (Z.eqb (tag op) 2) eqn:E2.
  { (* RegisterEncoder *)
    set (name := sx_b (sx_nth op 1)). set (v := (id, sx_bool (sx_nth op 2))).
    destruct (ereg_code er encs name v HE) as (Hc & Hk). cbn zeta in Hc, Hk.
    pose proof (EInv_step er encs name v HE) as HE'.
    destruct (register_enc er name v) as [c er'] eqn:Er. cbn [fst snd] in *.
    rewrite not_blocked2. cbn [negb andb]. rewrite Hc, Hk, sx_eqb_refl. cbn [andb].
    match goal with |- spec_mix_ops _ _ _ ?k _ _ _ = true => replace k with (keys er') by (rewrite Hk; reflexivity) end.
    apply IH; try assumption; lia. }
  destruct (Z.eqb (tag op) 3) eqn:E3.
  { (* Config.Build *)
    apply andb_true_iff in Hop as [W1 W2].
    rewrite not_blocked2. cbn [negb andb sx_nth sx_l nth].
    rewrite (wire_build_gen names encs (dec_cfg5 op) _ r er HI Hpos HE W1 W2), !sx_eqb_refl. cbn [andb].
    apply IH; try assumption; lia. }
  rewrite Hop.
  (* redirection *)
  destruct (model_redirect_shape op) as (a & b & l & Es). rewrite Es, not_blocked2, <- Es. cbn [negb andb].
  rewrite wire_redirect. cbn [andb]. apply IH; try assumption; lia.
Qed.

Lemma ereg0_keys : keys ereg0 = [s_console; s_json].
Proof. reflexivity. Qed.

(* ------------------------------------------------------------------ no operation blocks *)
Lemma sx_eqb_eq : forall a b, sx_eqb a b = true -> a = b.
Proof.
  fix IH 1. intros [z|x|l] [z'|x'|l']; cbn; try discriminate.
  - intros H. apply Z.eqb_eq in H. subst. reflexivity.
  - intros H. apply bytes_eqb_eq in H. subst. reflexivity.
  - intros H. f_equal. revert l' H. induction l as [|a l IHl]; intros [|b l'] H; try discriminate H; [reflexivity|].
    apply andb_true_iff in H as [H1 H2]. f_equal; [apply IH, H1 | apply IHl, H2].
Qed.
Lemma eqb_not_blocked ob a b l : sx_eqb ob (SL (a :: b :: l)) = true -> is_blocked ob = false.
Proof. intros H. apply sx_eqb_eq in H. subst. apply not_blocked2. Qed.

(* whatever the oracle accepts for a history has one entry per operation, none of
   them the marker of an operation that did not return *)
Definition all_returned (ops obs : list sx) : Prop :=
  length obs = length ops /\ Forall (fun ob => is_blocked ob = false) obs.
Lemma all_returned_cons op ops ob obs : is_blocked ob = false -> all_returned ops obs -> all_returned (op :: ops) (ob :: obs).
Proof. intros H (L & F). split; [cbn [length]; now rewrite L|constructor; assumption]. Qed.

Lemma sreg_returned : forall ops names ks id obs,
  spec_sreg_ops names ks id ops obs = true -> all_returned ops obs.
Proof.
  induction ops as [|op t IH]; intros names ks id [|ob obs]; cbn [spec_sreg_ops]; try discriminate.
  - intros _. split; [reflexivity|constructor].
  - destruct (Z.eqb (sx_z (sx_nth op 0)) 0).
    + intros H. apply andb_true_iff in H as [H1 H2].
      apply all_returned_cons; [eapply eqb_not_blocked, H1|eapply IH, H2].
    + destruct (spec_path names (dec_purl (sx_nth op 1))) as [cs res]. intros H. apply andb_true_iff in H as [H1 H2].
      apply all_returned_cons; [eapply eqb_not_blocked, H1|eapply IH, H2].
Qed.
Lemma ereg_returned : forall ops encs ks id obs,
  spec_ereg_ops encs ks id ops obs = true -> all_returned ops obs.
Proof.
  induction ops as [|op t IH]; intros encs ks id [|ob obs]; cbn [spec_ereg_ops]; try discriminate.
  - intros _. split; [reflexivity|constructor].
  - destruct (Z.eqb (sx_z (sx_nth op 0)) 0).
    + intros H. apply andb_true_iff in H as [H1 H2].
      apply all_returned_cons; [eapply eqb_not_blocked, H1|eapply IH, H2].
    + intros H. apply andb_true_iff in H as [H1 H2].
      apply all_returned_cons; [|eapply IH, H2].
      destruct (is_nil (sx_b (sx_nth op 1))); [eapply eqb_not_blocked, H1|].
      destruct (spec_enc encs (sx_b (sx_nth op 1))) as [[cid [|]]|]; eapply eqb_not_blocked, H1.
Qed.
Lemma mix_returned : forall ops names encs sks eks id obs,
  spec_mix_ops names encs sks eks id ops obs = true -> all_returned ops obs.
Proof.
  induction ops as [|op t IH]; intros names encs sks eks id [|ob obs]; cbn [spec_mix_ops]; try discriminate.
  - intros _. split; [reflexivity|constructor].
  - intros H. apply andb_true_iff in H as [Hb H]. apply negb_true_iff in Hb.
    apply all_returned_cons; [exact Hb|].
    destruct (Z.eqb (tag op) 0); [apply andb_true_iff in H as [_ H]; eapply IH, H|].
    destruct (Z.eqb (tag op) 1); [apply andb_true_iff in H as [_ H]; eapply IH, H|].
    destruct (Z.eqb (tag op) 2); [apply andb_true_iff in H as [_ H]; eapply IH, H|].
    destruct (Z.eqb (tag op) 3); [apply andb_true_iff in H as [_ H]; eapply IH, H|].
    destruct (Z.eqb (tag op) 4); [apply andb_true_iff in H as [_ H]; eapply IH, H|discriminate].
Qed.

Lemma history_returned i o : history_kind i = true -> spec i o = true -> all_returned (sx_l (sx_nth i 1)) (sx_l o).
Proof.
  unfold history_kind, spec. intros Hk H.
  destruct (sx_z (sx_nth i 0)) as [|p|p]; try discriminate.
  do 3 (try destruct p as [p|p|]); try discriminate.
  - eapply mix_returned. unfold spec_mix in H. apply andb_true_iff in H as [_ H]. exact H.
  - eapply sreg_returned. exact H.
  - eapply ereg_returned. exact H.
Qed.

(* the marker itself, as the observation of a whole case, is rejected on every case *)
Lemma problems_not_7 encs names cfg : existsb (Z.eqb 7) (spec_problems encs names cfg) = false.
Proof.
  unfold spec_problems.
  destruct (c_timekey cfg && negb (c_enctime cfg)); destruct (is_nil (c_encoding cfg));
    try destruct (spec_enc encs (c_encoding cfg)) as [[cid [|]]|];
    destruct (Nat.eqb _ 0); destruct (c_level cfg); reflexivity.
Qed.
Lemma blocked_rejected i : spec i blocked = false.
Proof.
  unfold spec. destruct (sx_z (sx_nth i 0)) as [|p|p]; try reflexivity.
  - unfold spec_open, spec_open_at. destruct (Nat.eqb _ 0); reflexivity.
  - do 3 (try destruct p as [p|p|]); try reflexivity.
    + (* 7 *) unfold spec_conc, obs_conc. destruct (Z.eqb _ 0); reflexivity.
    + (* 3 *) unfold spec_sreg. cbn [blocked sx_l]. destruct (sx_l (sx_nth i 1)) as [|op t]; [reflexivity|].
      cbn [spec_sreg_ops]. destruct (Z.eqb (sx_z (sx_nth op 0)) 0); [reflexivity|].
      destruct (spec_path [] (dec_purl (sx_nth op 1))); reflexivity.
    + (* 4 *) unfold spec_ereg. cbn [blocked sx_l]. destruct (sx_l (sx_nth i 1)) as [|op t]; [reflexivity|].
      cbn [spec_ereg_ops]. destruct (Z.eqb (sx_z (sx_nth op 0)) 0); [reflexivity|].
      destruct (is_nil (sx_b (sx_nth op 1))); [reflexivity|].
      destruct (spec_enc [] (sx_b (sx_nth op 1))) as [[cid [|]]|]; reflexivity.
    + (* 2 *) unfold spec_redirect. destruct (named_level _); reflexivity.
    + (* 1 *) unfold spec_build, spec_build_at. destruct (is_nil _); [reflexivity|].
      cbn [blocked sx_nth sx_l nth sx_z]. now rewrite problems_not_7.
Qed.

(* a rejected registration is a no-op for the rest of a history: the remaining
   operations run on exactly the registries they would have run on without it *)
Lemma mix_rejected_sink r er id op t :
  tag op = 0%Z -> fst (register r (sx_b (sx_nth op 1)) id) <> ROk ->
  model_mix_ops r er id (op :: t) =
  SL [SZ 0; SZ (rres_code (fst (register r (sx_b (sx_nth op 1)) id))); enc_keys (keys r)]
  :: model_mix_ops r er (S id) t.
Proof.
  intros Ht Hc. cbn [model_mix_ops]. rewrite Ht. cbn [Z.eqb].
  pose proof (register_spec r (sx_b (sx_nth op 1)) id) as S.
  destruct (register r (sx_b (sx_nth op 1)) id) as [c r']. cbn [fst] in *.
  destruct S as (_ & _ & _ & _ & _ & Hr & _). rewrite (Hr Hc). reflexivity.
Qed.
Lemma mix_rejected_enc r er id op t :
  tag op = 2%Z -> fst (register_enc er (sx_b (sx_nth op 1)) (id, sx_bool (sx_nth op 2))) <> ROk ->
  model_mix_ops r er id (op :: t) =
  SL [SZ 0; SZ (rres_code (fst (register_enc er (sx_b (sx_nth op 1)) (id, sx_bool (sx_nth op 2))))); enc_keys (keys er)]
  :: model_mix_ops r er (S id) t.
Proof.
  intros Ht Hc. cbn [model_mix_ops]. rewrite Ht. cbn [Z.eqb].
  pose proof (register_enc_spec er (sx_b (sx_nth op 1)) (id, sx_bool (sx_nth op 2))) as S.
  destruct (register_enc er (sx_b (sx_nth op 1)) (id, sx_bool (sx_nth op 2))) as [c er']. cbn [fst] in *.
  destruct S as (_ & _ & _ & Hr & _). rewrite (Hr Hc). reflexivity.
Qed.

(* ------------------------------------------------------------------ kind 6: the multi-destination writer *)
Definition dests (ds : list (wbeh * nat)) : list nat := map snd ds.
Definition errs_of (f : wbeh -> bool) (ds : list (wbeh * nat)) : list nat :=
  map snd (filter (fun p => f (fst p)) ds).
Definition ns_of (ds : list (wbeh * nat)) : list nat := map (fun p => w_n (fst p)) ds.

(* the loop visits every destination, whatever the destinations before it answered *)
Lemma multi_write_evs : forall ds n, wr_evs (multi_write ds n) = map WWrite (dests ds).
Proof. induction ds as [|[b d] t IH]; intros n; cbn; [reflexivity|]. now rewrite IH. Qed.
Lemma multi_write_errs : forall ds n, wr_errs (multi_write ds n) = errs_of w_err ds.
Proof.
  induction ds as [|[b d] t IH]; intros n; cbn; [reflexivity|]. rewrite IH. unfold errs_of. cbn.
  destruct (w_err b); reflexivity.
Qed.
Lemma fold_min_acc : forall l a n, fold_right Nat.min (Nat.min a n) l = Nat.min a (fold_right Nat.min n l).
Proof. induction l as [|x l IH]; intros a n; cbn; [reflexivity|]. rewrite IH. lia. Qed.
Lemma multi_write_n : forall ds n, wr_n (multi_write ds n) = fold_right Nat.min n (ns_of ds).
Proof.
  induction ds as [|[b d] t IH]; intros n; [reflexivity|]. cbn [multi_write wr_n]. rewrite IH.
  unfold ns_of. cbn [map fst fold_right].
  replace (if w_n b <? n then w_n b else n) with (Nat.min (w_n b) n) by (destruct (Nat.ltb_spec (w_n b) n); lia).
  apply fold_min_acc.
Qed.
Lemma multi_sync_evs : forall ds, wr_evs (multi_sync ds) = map WSync (dests ds).
Proof. induction ds as [|[b d] t IH]; cbn; [reflexivity|]. now rewrite IH. Qed.
Lemma multi_sync_errs : forall ds, wr_errs (multi_sync ds) = errs_of w_serr ds.
Proof.
  induction ds as [|[b d] t IH]; cbn; [reflexivity|]. rewrite IH. unfold errs_of. cbn.
  destruct (w_serr b); reflexivity.
Qed.
Lemma multi_sync_n : forall ds, wr_n (multi_sync ds) = 0.
Proof. destruct ds as [|[b d] t]; reflexivity. Qed.

Lemma comb_write_evs ds len : wr_evs (comb_write ds len) = map WWrite (dests ds).
Proof. destruct ds as [|[b d] [|p t]]; try reflexivity. apply multi_write_evs. Qed.
Lemma comb_write_errs ds len : wr_errs (comb_write ds len) = errs_of w_err ds.
Proof.
  destruct ds as [|[b d] [|p t]]; [reflexivity| |apply multi_write_errs].
  unfold errs_of. cbn. destruct (w_err b); reflexivity.
Qed.
Lemma comb_write_n ds len : Forall (fun p => w_n (fst p) <= len) ds ->
  wr_n (comb_write ds len) = fold_right Nat.min len (ns_of ds).
Proof.
  destruct ds as [|[b d] [|p t]]; intros F; [reflexivity| |apply multi_write_n].
  inversion F as [|? ? H _]; subst. cbn in *. lia.
Qed.
Lemma comb_sync_evs ds : wr_evs (comb_sync ds) = map WSync (dests ds).
Proof. destruct ds as [|[b d] [|p t]]; try reflexivity. apply multi_sync_evs. Qed.
Lemma comb_sync_errs ds : wr_errs (comb_sync ds) = errs_of w_serr ds.
Proof.
  destruct ds as [|[b d] [|p t]]; [reflexivity| |apply multi_sync_errs].
  unfold errs_of. cbn. destruct (w_serr b); reflexivity.
Qed.
Lemma comb_sync_n ds : wr_n (comb_sync ds) = 0.
Proof. destruct ds as [|[b d] [|p t]]; try reflexivity. Qed.

(* counting what a destination received *)
Lemma wcount_app f a b : wcount f (a ++ b) = wcount f a + wcount f b.
Proof. unfold wcount. now rewrite filter_app, app_length. Qed.
Lemma wcount_nil f : wcount f [] = 0.
Proof. reflexivity. Qed.
Lemma ww_in d l : NoDup l -> In d l -> wcount (is_wwrite d) (map WWrite l) = 1.
Proof.
  induction l as [|a l IH]; intros ND H; [destruct H|]. inversion ND as [|? ? Hn ND']; subst.
  unfold wcount in *. cbn [map filter is_wwrite]. destruct (Nat.eqb_spec a d) as [->|Ne].
  - cbn [length]. f_equal. clear IH H ND ND'. induction l as [|x l IHl]; [reflexivity|].
    cbn [map filter is_wwrite]. destruct (Nat.eqb_spec x d) as [->|_]; [exfalso; apply Hn; now left|].
    apply IHl. intros H; apply Hn; now right.
  - destruct H as [->|H]; [congruence|]. apply IH; assumption.
Qed.
Lemma ww_out d l : ~ In d l -> wcount (is_wwrite d) (map WWrite l) = 0.
Proof.
  unfold wcount. induction l as [|a l IH]; intros H; [reflexivity|]. cbn [map filter is_wwrite].
  destruct (Nat.eqb_spec a d) as [->|_]; [exfalso; apply H; now left|]. apply IH. intros H'; apply H; now right.
Qed.
Lemma ws_w d l : wcount (is_wsync d) (map WWrite l) = 0.
Proof. unfold wcount. induction l as [|a l IH]; [reflexivity|]. exact IH. Qed.
Lemma ss_in d l : NoDup l -> In d l -> wcount (is_wsync d) (map WSync l) = 1.
Proof.
  induction l as [|a l IH]; intros ND H; [destruct H|]. inversion ND as [|? ? Hn ND']; subst.
  unfold wcount in *. cbn [map filter is_wsync]. destruct (Nat.eqb_spec a d) as [->|Ne].
  - cbn [length]. f_equal. clear IH H ND ND'. induction l as [|x l IHl]; [reflexivity|].
    cbn [map filter is_wsync]. destruct (Nat.eqb_spec x d) as [->|_]; [exfalso; apply Hn; now left|].
    apply IHl. intros H; apply Hn; now right.
  - destruct H as [->|H]; [congruence|]. apply IH; assumption.
Qed.
Lemma ss_out d l : ~ In d l -> wcount (is_wsync d) (map WSync l) = 0.
Proof.
  unfold wcount. induction l as [|a l IH]; intros H; [reflexivity|]. cbn [map filter is_wsync].
  destruct (Nat.eqb_spec a d) as [->|_]; [exfalso; apply H; now left|]. apply IH. intros H'; apply H; now right.
Qed.
Lemma sw_s d l : wcount (is_wwrite d) (map WSync l) = 0.
Proof. unfold wcount. induction l as [|a l IH]; [reflexivity|]. exact IH. Qed.

(* one internal-error line: every error-output destination gets one Write and one Sync *)
Lemma err_line_evs ds2 len : err_line ds2 len = map WWrite (dests ds2) ++ map WSync (dests ds2).
Proof. unfold err_line. now rewrite comb_write_evs, comb_sync_evs. Qed.
Lemma err_line_in d ds2 len : NoDup (dests ds2) -> In d (dests ds2) ->
  wcount (is_wwrite d) (err_line ds2 len) = 1 /\ wcount (is_wsync d) (err_line ds2 len) = 1.
Proof.
  intros ND H. rewrite err_line_evs, !wcount_app, ww_in, ss_in, ws_w, sw_s by assumption. split; reflexivity.
Qed.
Lemma err_line_out d ds2 len : ~ In d (dests ds2) ->
  wcount (is_wwrite d) (err_line ds2 len) = 0 /\ wcount (is_wsync d) (err_line ds2 len) = 0.
Proof.
  intros H. rewrite err_line_evs, !wcount_app, ww_out, ss_out, ws_w, sw_s by assumption. split; reflexivity.
Qed.

Lemma nodup_app_parts {A} (l1 l2 : list A) : NoDup (l1 ++ l2) ->
  NoDup l1 /\ NoDup l2 /\ (forall d, In d l1 -> ~ In d l2).
Proof.
  induction l1 as [|a l1 IH]; cbn [app]; intros ND; [repeat split; [constructor|exact ND|intros d []]|].
  inversion ND as [|? ? Hn ND']; subst. destruct (IH ND') as (N1 & N2 & Dj). repeat split.
  - constructor; [|exact N1]. intros H; apply Hn, in_or_app; now left.
  - exact N2.
  - intros d [->|H]; [intros H2; apply Hn, in_or_app; now right|apply Dj, H].
Qed.

Definition b2n (b : bool) : nat := if b then 1 else 0.
Definition any_err (ds : list (wbeh * nat)) : bool := negb (is_nil (errs_of w_err ds)).

(* one step, any mode: what a destination of the writer / of the output received ... *)
Lemma step_counts_out mode cl len t ds1 ds2 d :
  NoDup (dests ds1 ++ dests ds2) -> In d (dests ds1) ->
  let E := wr_evs (step_res mode cl len t ds1 ds2) in
  wcount (is_wwrite d) E = b2n (Z.eqb t 0) /\ wcount (is_wsync d) E = b2n (negb (Z.eqb t 0)).
Proof.
  intros ND H. destruct (nodup_app_parts _ _ ND) as (ND1 & _ & Dj). pose proof (Dj d H) as N2.
  destruct (err_line_out d ds2 len N2) as [L1 L2].
  unfold step_res. destruct (Z.eqb mode 2), (Z.eqb t 0); cbn [wr_evs b2n negb];
    rewrite ?comb_write_evs, ?comb_sync_evs, ?comb_write_errs, ?wcount_app;
    try (destruct cl); try (destruct (is_nil (errs_of w_err ds1)));
    rewrite ?wcount_nil, ?L1, ?L2, ?ws_w, ?sw_s, ?(ww_in d _ ND1 H), ?(ss_in d _ ND1 H); split; reflexivity.
Qed.
(* ... and what a destination of the error output received *)
Lemma step_counts_err mode cl len t ds1 ds2 d :
  NoDup (dests ds1 ++ dests ds2) -> In d (dests ds2) ->
  let E := wr_evs (step_res mode cl len t ds1 ds2) in
  let k := if Z.eqb mode 2 && Z.eqb t 0 then b2n cl + b2n (any_err ds1) else 0 in
  wcount (is_wwrite d) E = k /\ wcount (is_wsync d) E = k.
Proof.
  intros ND H. destruct (nodup_app_parts _ _ ND) as (_ & ND2 & Dj).
  assert (N1 : ~ In d (dests ds1)) by (intros H1; exact (Dj d H1 H)).
  destruct (err_line_in d ds2 len ND2 H) as [L1 L2].
  unfold step_res, any_err. destruct (Z.eqb mode 2), (Z.eqb t 0); cbn [wr_evs b2n negb andb];
    rewrite ?comb_write_evs, ?comb_sync_evs, ?comb_write_errs, ?wcount_app;
    try (destruct cl); try (destruct (is_nil (errs_of w_err ds1)));
    cbn [b2n negb]; rewrite ?wcount_nil, ?L1, ?L2, ?ws_w, ?sw_s, ?(ww_out d _ N1), ?(ss_out d _ N1); split; reflexivity.
Qed.

(* numbering *)
Lemma dests_number {A} (l : list A) k : map snd (number k l) = seq k (length l).
Proof. revert k. induction l as [|a l IH]; intros k; cbn; [reflexivity|]. now rewrite IH. Qed.
Lemma fsts_number {A} (l : list A) k : map fst (number k l) = l.
Proof. revert k. induction l as [|a l IH]; intros k; cbn; [reflexivity|]. now rewrite IH. Qed.
Lemma nodup_two {A} (l1 l2 : list A) : NoDup (seq 0 (length l1) ++ seq (length l1) (length l2)).
Proof. rewrite <- seq_app. apply seq_NoDup. Qed.
Lemma is_nil_number {A} (l : list A) k : is_nil (number k l) = is_nil l.
Proof. destruct l; reflexivity. Qed.
Lemma is_nil_map {A B} (f : A -> B) l : is_nil (map f l) = is_nil l.
Proof. destruct l; reflexivity. Qed.
Lemma any_err_number (b1 : list wbeh) k : any_err (number k b1) = existsb w_err b1.
Proof.
  unfold any_err, errs_of. rewrite is_nil_map. revert k. induction b1 as [|b l IH]; intros k; [reflexivity|].
  cbn [number filter fst existsb]. destruct (w_err b); [reflexivity|]. apply IH.
Qed.

Lemma dest_stats_const E (ds : list (wbeh * nat)) w s :
  (forall p, In p ds -> wcount (is_wwrite (snd p)) E = w /\ wcount (is_wsync (snd p)) E = s) ->
  dest_stats E ds = SL (map (fun _ => SL [of_nat w; of_nat s]) ds).
Proof.
  intros H. unfold dest_stats. f_equal. apply map_ext_in. intros p Hp. destruct (H p Hp) as [-> ->]. reflexivity.
Qed.
Lemma all_stat_number {A} w s (l : list A) k :
  SL (map (fun _ : A * nat => SL [of_nat w; of_nat s]) (number k l)) = all_stat w s l.
Proof.
  unfold all_stat. f_equal. revert k. induction l as [|a l IH]; intros k; cbn; [reflexivity|]. now rewrite IH.
Qed.
Lemma failing_errs f l : failing f l = map of_nat (errs_of f (number 0 l)).
Proof. unfold failing, errs_of. now rewrite map_map. Qed.

(* the model's observation of a step is what the oracle expects *)
Lemma model_step_expect mode cl len st : wf_step len st = true -> model_step mode cl len st = expect_step mode cl len st.
Proof.
  intros W. unfold model_step, expect_step, obs_step.
  set (t := sx_z (sx_nth st 0)). set (b1 := dec_behs (sx_nth st 1)). set (b2 := dec_behs (sx_nth st 2)).
  set (ds1 := number 0 b1). set (ds2 := number (length b1) b2).
  assert (D1 : dests ds1 = seq 0 (length b1)) by apply dests_number.
  assert (D2 : dests ds2 = seq (length b1) (length b2)) by apply dests_number.
  assert (ND : NoDup (dests ds1 ++ dests ds2)) by (rewrite D1, D2; apply nodup_two).
  assert (S1 : dest_stats (wr_evs (step_res mode cl len t ds1 ds2)) ds1
               = all_stat (b2n (Z.eqb t 0)) (b2n (negb (Z.eqb t 0))) b1).
  { unfold ds1 at 2. rewrite <- all_stat_number with (k := 0). apply dest_stats_const. intros p Hp.
    apply step_counts_out; [exact ND|]. apply in_map, Hp. }
  assert (S2 : dest_stats (wr_evs (step_res mode cl len t ds1 ds2)) ds2
               = let k := if Z.eqb mode 2 && Z.eqb t 0 then b2n cl + b2n (any_err ds1) else 0 in all_stat k k b2).
  { cbn zeta. unfold ds2 at 2. rewrite <- all_stat_number with (k := length b1). apply dest_stats_const. intros p Hp.
    apply step_counts_err; [exact ND|]. apply in_map, Hp. }
  rewrite S1, S2. cbn zeta. replace (any_err ds1) with (existsb w_err b1) by (symmetry; apply any_err_number).
  assert (WF : Forall (fun p : wbeh * nat => w_n (fst p) <= len) ds1).
  { unfold wf_step in W. fold b1 in W. rewrite forallb_forall in W. apply Forall_forall. intros p Hp.
    apply Nat.leb_le, W. rewrite <- (fsts_number b1 0). apply in_map, Hp. }
  unfold step_res. destruct (Z.eqb t 0) eqn:Et; destruct (Z.eqb mode 2) eqn:Em; cbn [andb b2n negb wr_n wr_errs].
  - rewrite comb_write_errs. unfold ds2 at 1. rewrite is_nil_number, failing_errs. fold ds1.
    destruct cl, (existsb w_err b1), (is_nil b2); reflexivity.
  - rewrite comb_write_errs, (comb_write_n _ _ WF), failing_errs. unfold ns_of, ds1.
    rewrite <- (map_map fst w_n), fsts_number. reflexivity.
  - rewrite comb_sync_errs, comb_sync_n, failing_errs. reflexivity.
  - rewrite comb_sync_errs, comb_sync_n, failing_errs. reflexivity.
Qed.

Lemma expect_step_shape mode cl len st : exists x y z, expect_step mode cl len st = SL (x :: y :: z).
Proof. unfold expect_step. destruct (Z.eqb _ 0); [destruct (Z.eqb mode 2)|]; eexists _, _, _; reflexivity. Qed.
Lemma expect_not_blocked mode cl len l : is_blocked (SL (map (expect_step mode cl len) l)) = false.
Proof.
  destruct l as [|a l]; [reflexivity|]. cbn [map]. destruct (expect_step_shape mode cl len a) as (x & y & z & ->).
  reflexivity.
Qed.
Lemma wire_multi i : forallb (wf_step (sx_n (sx_nth i 3))) (sx_l (sx_nth i 6)) = true -> spec_multi i (model_multi i) = true.
Proof.
  intros W. unfold spec_multi, model_multi. rewrite forallb_forall in W.
  rewrite (map_ext_in _ _ _ (fun st Hs => model_step_expect _ _ _ st (W st Hs))).
  now rewrite expect_not_blocked, sx_eqb_refl.
Qed.

(* ---- the statements of Props/C19.v ---- *)
(* one Write on the writer of Open / CombineWriteSyncers over any destinations with any
   answers: the calls made are one Write per destination, in order - a function of the
   destination list alone, not of what any destination answers *)
Lemma comb_write_all (ds : list (wbeh * nat)) (len : nat) :
  let r := comb_write ds len in
  wr_evs r = map WWrite (map snd ds)
  /\ (NoDup (map snd ds) -> forall d, In d (map snd ds) ->
      wcount (is_wwrite d) (wr_evs r) = 1 /\ wcount (is_wsync d) (wr_evs r) = 0)
  /\ wr_errs r = map snd (filter (fun p => w_err (fst p)) ds)
  /\ (Forall (fun p => w_n (fst p) <= len) ds -> wr_n r = fold_right Nat.min len (map (fun p => w_n (fst p)) ds)).
Proof.
  cbn zeta. rewrite comb_write_evs. repeat split.
  - now apply ww_in.
  - apply ws_w.
  - apply comb_write_errs.
  - apply comb_write_n.
Qed.
Lemma comb_sync_all (ds : list (wbeh * nat)) :
  let r := comb_sync ds in
  wr_evs r = map WSync (map snd ds)
  /\ (NoDup (map snd ds) -> forall d, In d (map snd ds) ->
      wcount (is_wsync d) (wr_evs r) = 1 /\ wcount (is_wwrite d) (wr_evs r) = 0)
  /\ wr_errs r = map snd (filter (fun p => w_serr (fst p)) ds).
Proof.
  cbn zeta. rewrite comb_sync_evs. repeat split.
  - now apply ss_in.
  - apply sw_s.
  - apply comb_sync_errs.
Qed.
(* the answers do not matter: same destinations, same calls *)
Lemma comb_write_answers_irrelevant ds ds' len len' :
  map snd ds = map snd ds' -> wr_evs (comb_write ds len) = wr_evs (comb_write ds' len').
Proof. intros H. rewrite !comb_write_evs. unfold dests. now rewrite H. Qed.

(* one entry on the logger of Config.Build *)
Lemma logger_entry_all (cl : bool) (len : nat) (ds1 ds2 : list (wbeh * nat)) :
  NoDup (map snd ds1 ++ map snd ds2) ->
  let r := step_res 2 cl len 0 ds1 ds2 in
  let k := b2n cl + b2n (existsb (fun p => w_err (fst p)) ds1) in
  (forall d, In d (map snd ds1) -> wcount (is_wwrite d) (wr_evs r) = 1 /\ wcount (is_wsync d) (wr_evs r) = 0)
  /\ (forall d, In d (map snd ds2) -> wcount (is_wwrite d) (wr_evs r) = k /\ wcount (is_wsync d) (wr_evs r) = k)
  /\ wr_errs r = (if is_nil ds2 then [] else map snd (filter (fun p => w_err (fst p)) ds1)).
Proof.
  intros ND. cbn zeta. repeat split.
  - apply (step_counts_out 2 cl len 0 ds1 ds2 d ND H).
  - apply (step_counts_out 2 cl len 0 ds1 ds2 d ND H).
  - destruct (step_counts_err 2 cl len 0 ds1 ds2 d ND H) as [E _]. cbn zeta in E. cbn [Z.eqb Pos.eqb andb] in E. rewrite E. f_equal. f_equal.
    unfold any_err, errs_of. rewrite is_nil_map. clear. induction ds1 as [|[b d] t IH]; [reflexivity|].
    cbn [filter fst existsb]. destruct (w_err b); [reflexivity|]. exact IH.
  - destruct (step_counts_err 2 cl len 0 ds1 ds2 d ND H) as [_ E]. cbn zeta in E. cbn [Z.eqb Pos.eqb andb] in E. rewrite E. f_equal. f_equal.
    unfold any_err, errs_of. rewrite is_nil_map. clear. induction ds1 as [|[b d] t IH]; [reflexivity|].
    cbn [filter fst existsb]. destruct (w_err b); [reflexivity|]. exact IH.
  - unfold step_res. cbn [Z.eqb wr_errs]. now rewrite comb_write_errs.
Qed.

(* histories: over any sequence of Writes and Syncs with any answers, every destination of
   the writer (every output destination of the logger) has received every Write (entry)
   and every Sync exactly once *)
Definition step_evs (mode : Z) (cl : bool) (len : nat) (st : sx) : list wev :=
  let b1 := dec_behs (sx_nth st 1) in
  wr_evs (step_res mode cl len (sx_z (sx_nth st 0)) (number 0 b1) (number (length b1) (dec_behs (sx_nth st 2)))).
Definition history_evs (mode : Z) (cl : bool) (len : nat) (steps : list sx) : list wev :=
  concat (map (step_evs mode cl len) steps).
Definition is_write_step (st : sx) : bool := Z.eqb (sx_z (sx_nth st 0)) 0.
Lemma history_delivery (mode : Z) (cl : bool) (len : nat) (steps : list sx) (nd d : nat) :
  Forall (fun st => length (dec_behs (sx_nth st 1)) = nd) steps -> d < nd ->
  wcount (is_wwrite d) (history_evs mode cl len steps) = length (filter is_write_step steps)
  /\ wcount (is_wsync d) (history_evs mode cl len steps) = length (filter (fun st => negb (is_write_step st)) steps).
Proof.
  intros F Hd. unfold history_evs. induction F as [|st steps Hl F IH]; [split; reflexivity|].
  cbn [map concat filter]. rewrite !wcount_app. destruct IH as [IH1 IH2]. rewrite IH1, IH2.
  set (b1 := dec_behs (sx_nth st 1)) in *. set (b2 := dec_behs (sx_nth st 2)).
  assert (ND : NoDup (dests (number 0 b1) ++ dests (number (length b1) b2))).
  { unfold dests. rewrite !dests_number. apply nodup_two. }
  assert (I : In d (dests (number 0 b1))).
  { unfold dests. rewrite dests_number. apply in_seq. lia. }
  destruct (step_counts_out mode cl len (sx_z (sx_nth st 0)) _ _ d ND I) as [C1 C2].
  unfold step_evs. fold b1 b2. rewrite C1, C2. unfold is_write_step.
  destruct (Z.eqb (sx_z (sx_nth st 0)) 0); cbn [b2n negb length]; split; lia.
Qed.

(* ------------------------------------------------------------------ kind 7: overlapping registrations *)
Lemma wire_conc_s : forall ops r names, Inv r names ->
  fst (conc_sreg r ops) = fst (spec_conc_s names (keys r) ops)
  /\ keys (snd (conc_sreg r ops)) = snd (spec_conc_s names (keys r) ops)
  /\ Inv (snd (conc_sreg r ops)) (names ++ ops).
Proof.
  induction ops as [|[n id] t IH]; intros r names HI; cbn [conc_sreg spec_conc_s fst snd].
  - rewrite app_nil_r. repeat split; assumption.
  - destruct (reg_code r names n id HI) as (Hc & Hk).
    pose proof (Inv_step r names n id HI) as HI'.
    destruct (IH _ _ HI') as (A & B & C).
    rewrite Hc, A, B, Hk. rewrite <- app_assoc in C. cbn [app] in C. repeat split; assumption.
Qed.
Lemma wire_conc_e : forall ops r encs, EInv r encs ->
  fst (conc_ereg r ops) = fst (spec_conc_e encs (keys r) ops)
  /\ keys (snd (conc_ereg r ops)) = snd (spec_conc_e encs (keys r) ops)
  /\ EInv (snd (conc_ereg r ops)) (encs ++ map enc_val ops).
Proof.
  induction ops as [|[n id] t IH]; intros r encs HI; cbn [conc_ereg spec_conc_e fst snd map].
  - rewrite app_nil_r. repeat split; assumption.
  - destruct (ereg_code r encs n (id, true) HI) as (Hc & Hk). cbn zeta in Hc, Hk.
    pose proof (EInv_step r encs n (id, true) HI) as HI'.
    destruct (IH _ _ HI') as (A & B & C). unfold spec_ereg_cls.
    rewrite Hc, A, B, Hk. unfold enc_val at 1 2 3. cbn [fst snd].
    rewrite <- app_assoc in C. cbn [app] in C. repeat split; assumption.
Qed.
Lemma wire_conc i : spec_conc i (model_conc i) = true.
Proof.
  unfold spec_conc, model_conc. set (ops := dec_cops (sx_nth i 2)).
  destruct (Z.eqb (sx_z (sx_nth i 1)) 0).
  - destruct (wire_conc_s ops sreg0 [] Inv0) as (A & B & C). rewrite sreg0_keys in A, B. cbn [app] in C.
    rewrite A, B.
    replace (map (fun op => look_s (snd (conc_sreg sreg0 ops)) (fst op)) ops)
      with (map (fun op => spec_look_s ops (fst op)) ops); [apply sx_eqb_refl|].
    apply map_ext. intros op. unfold look_s, spec_look_s. now rewrite (C (ascii_lower (fst op))).
  - destruct (wire_conc_e ops ereg0 [] EInv0) as (A & B & C). rewrite ereg0_keys in A, B. cbn [app] in C.
    rewrite A, B.
    replace (map (fun op => look_e (snd (conc_ereg ereg0 ops)) (fst op)) ops)
      with (map (fun op => spec_look_e ops (fst op)) ops); [apply sx_eqb_refl|].
    apply map_ext. intros op. unfold look_e, spec_look_e. now rewrite (C (fst op)).
Qed.

(* Registration is atomic: in ANY sequence of register steps - hence in every interleaving
   of any number of overlapping RegisterSink calls, each of which is one step - a key is
   accepted at most once, a key that was taken before stays with its owner, and afterwards
   the key belongs to the one call that was accepted. *)
Definition skey (n : bytes) : option bytes :=
  if is_nil n || negb (valid_scheme n) then None else Some (ascii_lower n).
Definition ekey (n : bytes) : option bytes := if is_nil n then None else Some n.
Definition has_key (key : bytes -> option bytes) (k : bytes) (n : bytes) : bool :=
  match key n with Some k' => bytes_eqb k' k | None => false end.
(* the calls designating key [k] that returned nil *)
Fixpoint winners (key : bytes -> option bytes) (k : bytes) (ops : list (bytes * nat)) (cs : list Z) : list nat :=
  match ops, cs with
  | op :: t, c :: cs' =>
      if Z.eqb c 0 && has_key key k (fst op) then snd op :: winners key k t cs' else winners key k t cs'
  | _, _ => []
  end.
(* the calls designating key [k] that did not return "already registered" although they lost *)
Fixpoint losers_ok (key : bytes -> option bytes) (k : bytes) (ops : list (bytes * nat)) (cs : list Z) : bool :=
  match ops, cs with
  | op :: t, c :: cs' =>
      (if has_key key k (fst op) then Z.eqb c 0 || Z.eqb c 3 else true) && losers_ok key k t cs'
  | [], [] => true
  | _, _ => false
  end.

Lemma conc_sreg_atomic : forall ops r k,
  let res := conc_sreg r ops in
  losers_ok skey k ops (fst res) = true /\
  match lookup r k with
  | Some v => winners skey k ops (fst res) = [] /\ lookup (snd res) k = Some v
  | None => (winners skey k ops (fst res) = [] /\ lookup (snd res) k = None
             /\ Forall (fun op => has_key skey k (fst op) = false) ops)
            \/ exists id, winners skey k ops (fst res) = [id] /\ lookup (snd res) k = Some id
  end.
Proof.
  induction ops as [|[n id] t IH]; intros r k; cbn zeta; cbn [conc_sreg winners losers_ok fst snd].
  - split; [reflexivity|]. destruct (lookup r k); [split; reflexivity|left; repeat split; constructor].
  - pose proof (register_spec r n id) as S. destruct (register r n id) as [c r'] eqn:Er. cbn [fst snd].
    destruct S as (_ & Hemp & Hinv & Hdup & Hok & Hrej & Hacc).
    specialize (IH r' k). cbn zeta in IH. destruct IH as [IHl IH].
    assert (K : has_key skey k n = true -> c = ROk \/ c = RErrDup).
    { unfold has_key, skey. destruct (is_nil n) eqn:En; [discriminate|]. apply is_nil_false in En.
      destruct (valid_scheme n) eqn:Ev; [|discriminate]. cbn [orb negb]. intros _.
      destruct (lookup r (ascii_lower n)) eqn:El.
      - right. apply Hdup; congruence.
      - left. apply Hok. repeat split; assumption. }
    assert (K2 : has_key skey k n = true -> lookup r k = None -> c = ROk).
    { unfold has_key, skey. destruct (is_nil n) eqn:En; [discriminate|]. apply is_nil_false in En.
      destruct (valid_scheme n) eqn:Ev; [|discriminate]. cbn [orb negb]. intros Hk Hl.
      apply bytes_eqb_eq in Hk. subst k. apply Hok. repeat split; assumption. }
    split.
    { rewrite IHl, andb_true_r. destruct (has_key skey k n); [|reflexivity].
      destruct (K eq_refl) as [-> | ->]; reflexivity. }
    destruct c.
    1, 3, 4, 5: (assert (E : r' = r) by (apply Hrej; discriminate); subst r'; cbn [rres_code Z.eqb andb];
      destruct (lookup r k) eqn:El; [exact IH|]; destruct IH as [(W & L & F)|IH]; [left|right; exact IH];
      repeat split; try assumption; constructor; [|exact F]; cbn [fst];
      destruct (has_key skey k n) eqn:Eh; [|reflexivity]; discriminate (K2 eq_refl eq_refl)).
    (* accepted *)
    destruct (proj1 Hok eq_refl) as (Hn & Hv & Hl). pose proof (Hacc eq_refl) as E; subst r'.
    cbn [rres_code Z.eqb andb]. apply is_nil_false in Hn.
    assert (Hh : has_key skey k n = bytes_eqb (ascii_lower n) k)
      by (unfold has_key, skey; rewrite Hn, Hv; reflexivity).
    rewrite Hh.
    rewrite lookup_app in IH. cbn [lookup] in IH.
    destruct (bytes_eqb (ascii_lower n) k) eqn:Ek.
    + apply bytes_eqb_eq in Ek. subst k. rewrite Hl in *. destruct IH as [W L].
      right. exists id. rewrite W. split; [reflexivity|exact L].
    + destruct (lookup r k) eqn:El; [exact IH|].
      destruct IH as [(W & L & F)|IH]; [left|right; exact IH].
      repeat split; try assumption. constructor; [|exact F]. cbn [fst]. exact Hh.
Qed.

Lemma conc_ereg_atomic : forall ops r k,
  let res := conc_ereg r ops in
  losers_ok ekey k ops (fst res) = true /\
  match lookup r k with
  | Some v => winners ekey k ops (fst res) = [] /\ lookup (snd res) k = Some v
  | None => (winners ekey k ops (fst res) = [] /\ lookup (snd res) k = None
             /\ Forall (fun op => has_key ekey k (fst op) = false) ops)
            \/ exists id, winners ekey k ops (fst res) = [id] /\ lookup (snd res) k = Some (id, true)
  end.
Proof.
  induction ops as [|[n id] t IH]; intros r k; cbn zeta; cbn [conc_ereg winners losers_ok fst snd].
  - split; [reflexivity|]. destruct (lookup r k); [split; reflexivity|left; repeat split; constructor].
  - pose proof (register_enc_spec r n (id, true)) as S. destruct (register_enc r n (id, true)) as [c r'] eqn:Er. cbn [fst snd].
    destruct S as (Hok & Hemp & Hdup & Hrej & Hacc).
    specialize (IH r' k). cbn zeta in IH. destruct IH as [IHl IH].
    assert (K : has_key ekey k n = true -> c = ROk \/ c = RErrDup).
    { unfold has_key, ekey. destruct (is_nil n) eqn:En; [discriminate|]. apply is_nil_false in En. intros _.
      destruct (lookup r n) eqn:El.
      - right. apply Hdup; congruence.
      - left. apply Hok. split; auto. }
    assert (K2 : has_key ekey k n = true -> lookup r k = None -> c = ROk).
    { unfold has_key, ekey. destruct (is_nil n) eqn:En; [discriminate|]. apply is_nil_false in En.
      intros Hk Hl. apply bytes_eqb_eq in Hk. subst k. apply Hok. split; assumption. }
    split.
    { rewrite IHl, andb_true_r. destruct (has_key ekey k n); [|reflexivity].
      destruct (K eq_refl) as [-> | ->]; reflexivity. }
    destruct c.
    1, 3, 4, 5: (assert (E : r' = r) by (apply Hrej; discriminate); subst r'; cbn [rres_code Z.eqb andb];
      destruct (lookup r k) eqn:El; [exact IH|]; destruct IH as [(W & L & F)|IH]; [left|right; exact IH];
      repeat split; try assumption; constructor; [|exact F]; cbn [fst];
      destruct (has_key ekey k n) eqn:Eh; [|reflexivity]; discriminate (K2 eq_refl eq_refl)).
    destruct (proj1 Hok eq_refl) as (Hn & Hl). pose proof (Hacc eq_refl) as E; subst r'.
    cbn [rres_code Z.eqb andb]. apply is_nil_false in Hn.
    assert (Hh : has_key ekey k n = bytes_eqb n k)
      by (unfold has_key, ekey; rewrite Hn; reflexivity).
    rewrite Hh.
    rewrite lookup_app in IH. cbn [lookup] in IH.
    destruct (bytes_eqb n k) eqn:Ek.
    + apply bytes_eqb_eq in Ek. subst k. rewrite Hl in *. destruct IH as [W L].
      right. exists id. rewrite W. split; [reflexivity|exact L].
    + destruct (lookup r k) eqn:El; [exact IH|].
      destruct IH as [(W & L & F)|IH]; [left|right; exact IH].
      repeat split; try assumption. constructor; [|exact F]. cbn [fst]. exact Hh.
Qed.

(* what the oracle accepts for overlapping RegisterSink / RegisterEncoder calls: the codes
   returned, whatever else was observed, have at most one nil per key and nothing but nil /
   "already registered" for a call that designates a key *)
Lemma conc_accepted i o : sx_z (sx_nth i 0) = 7%Z -> spec i o = true ->
  let ops := dec_cops (sx_nth i 2) in
  exists codes looks ks, o = obs_conc codes looks ks /\ length codes = length ops /\
    forall k,
      if Z.eqb (sx_z (sx_nth i 1)) 0
      then length (winners skey k ops codes) <= 1 /\ losers_ok skey k ops codes = true
      else length (winners ekey k ops codes) <= 1 /\ losers_ok ekey k ops codes = true.
Proof.
  intros H7 H. unfold spec in H. rewrite H7 in H. unfold spec_conc in H. cbn zeta.
  set (ops := dec_cops (sx_nth i 2)) in *.
  assert (Ls : forall ops r, length (fst (conc_sreg r ops)) = length ops).
  { induction ops0 as [|op t IH]; intros r; cbn [conc_sreg fst length]; [reflexivity|]. now rewrite IH. }
  assert (Le : forall ops r, length (fst (conc_ereg r ops)) = length ops).
  { induction ops0 as [|op t IH]; intros r; cbn [conc_ereg fst length]; [reflexivity|]. now rewrite IH. }
  destruct (Z.eqb (sx_z (sx_nth i 1)) 0).
  - apply sx_eqb_eq in H. eexists _, _, _. split; [exact H|].
    destruct (wire_conc_s ops sreg0 [] Inv0) as (A & _ & _). rewrite sreg0_keys in A. rewrite <- A.
    split; [apply Ls|]. intros k.
    destruct (conc_sreg_atomic ops sreg0 k) as [Lo W]. split; [|exact Lo].
    destruct (lookup sreg0 k).
    + destruct W as [-> _]. cbn. lia.
    + destruct W as [(-> & _)|(id & -> & _)]; cbn; lia.
  - apply sx_eqb_eq in H. eexists _, _, _. split; [exact H|].
    destruct (wire_conc_e ops ereg0 [] EInv0) as (A & _ & _). rewrite ereg0_keys in A. rewrite <- A.
    split; [apply Le|]. intros k.
    destruct (conc_ereg_atomic ops ereg0 k) as [Lo W]. split; [|exact Lo].
    destruct (lookup ereg0 k).
    + destruct W as [-> _]. cbn. lia.
    + destruct W as [(-> & _)|(id & -> & _)]; cbn; lia.
Qed.

(* ------------------------------------------------------------------ all kinds *)
Lemma spec_model i : wf i = true -> spec i (model i) = true.
Proof.
  intros Hwf. unfold wf, model, spec in *.
  destruct (sx_z (sx_nth i 0)) as [|p|p]; [apply wire_open, Hwf| |discriminate].
  do 3 (try destruct p as [p|p|]); try discriminate.
  - (* 7 *) apply wire_conc.
  - (* 5 *) unfold spec_mix, model_mix. cbn [sx_l].
    assert (B : is_blocked (SL (model_mix_ops sreg0 ereg0 2 (sx_l (sx_nth i 1)))) = false).
    { destruct (sx_l (sx_nth i 1)) as [|op t]; [reflexivity|].
      destruct t as [|op2 t]; [|].
      - unfold is_blocked, blocked. cbn [model_mix_ops].
        destruct (Z.eqb (tag op) 0); [destruct (register _ _ _); reflexivity|].
        destruct (Z.eqb (tag op) 1); [reflexivity|].
        destruct (Z.eqb (tag op) 2); [destruct (register_enc _ _ _); reflexivity|].
        destruct (Z.eqb (tag op) 3); [reflexivity|].
        destruct (Z.eqb (tag op) 4); [|reflexivity].
        destruct (model_redirect_shape op) as (a & b & l & ->). reflexivity.
      - assert (L : forall r er id, exists a b l, model_mix_ops r er id (op :: op2 :: t) = a :: b :: l).
        { intros r er id. cbn [model_mix_ops].
          repeat match goal with
                 | |- context [if ?c then _ else _] => destruct c
                 | |- context [let '(_, _) := ?x in _] => destruct x
                 end; eexists _, _, _; reflexivity. }
        destruct (L sreg0 ereg0 2) as (a & b & l & ->). apply not_blocked2. }
    rewrite B. cbn [negb andb]. rewrite <- sreg0_keys, <- ereg0_keys.
    apply (wire_mix_ops _ sreg0 ereg0 [] [] 2 Inv0); [constructor|exact EInv0|discriminate|exact Hwf].
  - (* 3 *) unfold spec_sreg, model_sreg. cbn [sx_l]. rewrite <- sreg0_keys.
    apply (wire_sreg_ops _ sreg0 [] 1 Inv0); [constructor|discriminate|exact Hwf].
  - (* 6 *) apply wire_multi, Hwf.
  - (* 4 *) unfold spec_ereg, model_ereg. cbn [sx_l]. apply (wire_ereg_ops _ ereg0 [] 2 EInv0).
  - (* 2 *) apply wire_redirect.
  - (* 1 *) apply andb_true_iff in Hwf as [W1 W2]. apply wire_build; assumption.
Qed.

(* C19 — Open, Config.Build and std-log redirection are all-or-nothing; URLs validated.

   Model of (following the Go text of the fixed tree; the pre-fix variants are kept
   as [..._orig] for the [_refuted] lemmas):
     sink.go     normalizeScheme, sinkRegistry.RegisterSink / newSink,
                 newFileSinkFromURL, newFileSinkFromPath
     writer.go   open, Open, CombineWriteSyncers
     encoder.go  RegisterEncoder, newEncoder
     config.go   Config.Build, openSinks, buildEncoder
     global.go   RedirectStdLog, RedirectStdLogAt, redirectStdLogAt, levelToFunc
   net/url is an oracle: a path travels as the record [purl] of the fields that
   url.Parse produced for it (the harness calls url.Parse itself), together with the
   answer [u_ok] of the stubbed operating system / test factory for the argument the
   path designates.  No proofs in this file. *)
From Coq Require Import List ZArith Bool Lia.
From Coq.Strings Require Import Byte.
Import ListNotations.
From Zap Require Import Base.Wire.

Definition is_nil {A} (l : list A) : bool := match l with [] => true | _ => false end.

(* ------------------------------------------------------------------ bytes *)
Definition bz (b : byte) : Z := Z_of_byte b.
Definition is_lower (b : byte) : bool := (97 <=? bz b)%Z && (bz b <=? 122)%Z.
Definition is_upper (b : byte) : bool := (65 <=? bz b)%Z && (bz b <=? 90)%Z.
Definition is_digit (b : byte) : bool := (48 <=? bz b)%Z && (bz b <=? 57)%Z.
Definition is_letter (b : byte) : bool := is_lower b || is_upper b.
Definition is_pmd (b : byte) : bool := Byte.eqb b x2e || Byte.eqb b x2b || Byte.eqb b x2d.   (* . + - *)
Definition is_ascii (b : byte) : bool := (bz b <? 128)%Z.
(* strings.ToLower restricted to ASCII input: 'A'..'Z' + 32 (Go's ASCII fast path) *)
Definition lower_byte (b : byte) : byte := if is_upper b then byte_of_Z (bz b + 32) else b.
Definition ascii_lower (s : bytes) : bytes := map lower_byte s.

Definition s_file : bytes := [x66; x69; x6c; x65].
Definition s_stdout : bytes := [x73; x74; x64; x6f; x75; x74].
Definition s_stderr : bytes := [x73; x74; x64; x65; x72; x72].
Definition s_localhost : bytes := [x6c; x6f; x63; x61; x6c; x68; x6f; x73; x74].
Definition s_console : bytes := [x63; x6f; x6e; x73; x6f; x6c; x65].
Definition s_json : bytes := [x6a; x73; x6f; x6e].

(* ------------------------------------------------------------------ registries (Go maps) *)
(* A Go map that is only ever extended with absent keys: an association list in
   insertion order; lookup = first match. *)
Definition amap (A : Type) := list (bytes * A).
Fixpoint lookup {A} (r : amap A) (k : bytes) : option A :=
  match r with
  | [] => None
  | (k', v) :: t => if bytes_eqb k' k then Some v else lookup t k
  end.
Definition keys {A} (r : amap A) : list bytes := map fst r.

(* normalizeScheme.  [NPanic]: s[0] on the empty string (the caller excludes it). *)
Inductive nres := NPanic | NErr | NOk (s : bytes).

(* sink.go after "fix: validate sink schemes before lower-casing them":
     first := s[0]; !isLetter(first) -> error
     for i := 1..: letter | digit | . + -  else error
     return strings.ToLower(s)            (ASCII only at this point)            *)
Definition scheme_char (c : byte) : bool := is_letter c || is_digit c || is_pmd c.
Definition normalize (s : bytes) : nres :=
  match s with
  | [] => NPanic
  | first :: rest =>
      if negb (is_letter first) then NErr
      else if forallb scheme_char rest then NOk (ascii_lower s) else NErr
  end.
(* sink.go before the fix: s = strings.ToLower(s) FIRST ([lowered] is the oracle's
   answer for strings.ToLower(s), which for non-ASCII input is not [ascii_lower]),
   then the byte checks on the lower-cased string. *)
Definition lchar_orig (c : byte) : bool := is_lower c || is_digit c || is_pmd c.
Definition normalize_orig (lowered : bytes) : nres :=
  match lowered with
  | [] => NPanic
  | first :: rest =>
      if negb (is_lower first) then NErr
      else if forallb lchar_orig rest then NOk lowered else NErr
  end.

(* sinkRegistry.RegisterSink: factories are identified by a number (0 = the
   built-in file factory). *)
Inductive rres := RPanic | ROk | RErrEmpty | RErrInvalid | RErrDup.
Definition sreg := amap nat.
Definition register_with (n : nres) (r : sreg) (f : nat) : rres * sreg :=
  match n with
  | NPanic => (RPanic, r)
  | NErr => (RErrInvalid, r)
  | NOk k => match lookup r k with
             | Some _ => (RErrDup, r)
             | None => (ROk, r ++ [(k, f)])
             end
  end.
Definition register (r : sreg) (name : bytes) (f : nat) : rres * sreg :=
  if is_nil name then (RErrEmpty, r) else register_with (normalize name) r f.
Definition register_orig (r : sreg) (name lowered : bytes) (f : nat) : rres * sreg :=
  if is_nil name then (RErrEmpty, r) else register_with (normalize_orig lowered) r f.
(* newSinkRegistry(): RegisterSink("file", sr.newFileSinkFromURL) *)
Definition sreg0 : sreg := snd (register [] s_file 0).
Definition reg_all (r : sreg) (names : list (bytes * nat)) : sreg :=
  fold_left (fun r nf => snd (register r (fst nf) (snd nf))) names r.

(* encoder.go: RegisterEncoder / the initial map.  Values: (constructor id, whether
   the constructor succeeds); ids 0/1 are the built-in console/json. *)
Definition ereg := amap (nat * bool).
Definition ereg0 : ereg := [(s_console, (0, true)); (s_json, (1, true))].
Definition register_enc (r : ereg) (name : bytes) (v : nat * bool) : rres * ereg :=
  if is_nil name then (RErrEmpty, r)
  else match lookup r name with
       | Some _ => (RErrDup, r)
       | None => (ROk, r ++ [(name, v)])
       end.
Definition ereg_all (r : ereg) (names : list (bytes * (nat * bool))) : ereg :=
  fold_left (fun r nv => snd (register_enc r (fst nv) (snd nv))) names r.

Inductive eres := EMissingTime | ENoName | EUnknown | ECtorErr (id : nat) | EOk (id : nat).
(* newEncoder(name, encoderConfig) *)
Definition new_encoder (r : ereg) (timekey_set enctime_set : bool) (name : bytes) : eres :=
  if timekey_set && negb enctime_set then EMissingTime
  else if is_nil name then ENoName
  else match lookup r name with
       | None => EUnknown
       | Some (id, ok) => if ok then EOk id else ECtorErr id
       end.

(* ------------------------------------------------------------------ URLs and newSink *)
Record purl := mkU {
  u_abs : bool;        (* filepath.IsAbs(raw) *)
  u_raw : bytes;
  u_perr : bool;       (* url.Parse returned an error *)
  u_scheme : bytes;    (* u.Scheme (lower-cased by url.Parse) *)
  u_user : bool;       (* u.User != nil *)
  u_hostname : bytes;  (* u.Hostname() *)
  u_port : bytes;      (* u.Port() *)
  u_path : bytes;      (* u.Path *)
  u_query : bytes;     (* u.RawQuery *)
  u_frag : bytes;      (* u.Fragment *)
  u_ok : bool          (* answer of the opener (stubbed openFile / test factory) *)
}.

Inductive skind := KTest | KFile | KStd.
Inductive call := CFile (p : bytes) | CFact (id : nat).

(* newFileSinkFromPath *)
Definition file_from_path (p : bytes) (ok : bool) : list call * option skind :=
  if bytes_eqb p s_stdout then ([], Some KStd)
  else if bytes_eqb p s_stderr then ([], Some KStd)
  else ([CFile p], if ok then Some KFile else None).
(* newFileSinkFromURL *)
Definition file_from_url (u : purl) : list call * option skind :=
  if u_user u then ([], None)
  else if negb (is_nil (u_frag u)) then ([], None)
  else if negb (is_nil (u_query u)) then ([], None)
  else if negb (is_nil (u_port u)) then ([], None)
  else if negb (is_nil (u_hostname u)) && negb (bytes_eqb (u_hostname u) s_localhost) then ([], None)
  else file_from_path (u_path u) (u_ok u).
(* sinkRegistry.newSink *)
Definition new_sink (r : sreg) (u : purl) : list call * option skind :=
  if u_abs u then file_from_path (u_raw u) (u_ok u)
  else if u_perr u then ([], None)
  else
    let sch := if is_nil (u_scheme u) then s_file else u_scheme u in
    match lookup r sch with
    | None => ([], None)
    | Some 0 => file_from_url u
    | Some id => ([CFact id], if u_ok u then Some KTest else None)
    end.

(* ------------------------------------------------------------------ open / Open *)
Record sinkref := mkS { sid : nat; skd : skind }.
Inductive ev := EWrite (id : nat) | EClose (id : nat).

(* Close of one closer: nopCloserSink.Close does nothing to os.Stdout/os.Stderr *)
Definition close1 (s : sinkref) : list ev := match skd s with KStd => [] | _ => [EClose (sid s)] end.
(* closeAll := func() { for _, c := range closers { _ = c.Close() } } *)
Definition close_all (cs : list sinkref) : list ev := concat (map close1 cs).

(* the loop of open(): (writers = closers, number of errors appended, opener calls);
   [next] numbers the sinks in order of creation *)
Fixpoint open_loop (r : sreg) (paths : list purl) (next : nat) : list sinkref * nat * list call :=
  match paths with
  | [] => ([], 0, [])
  | p :: t =>
      let '(cs, res) := new_sink r p in
      match res with
      | None => let '(ws, ne, cl) := open_loop r t next in (ws, S ne, cs ++ cl)
      | Some k => let '(ws, ne, cl) := open_loop r t (S next) in (mkS next k :: ws, ne, cs ++ cl)
      end
  end.

Record opened := mkO {
  o_writers : option (list sinkref);   (* None: (nil, nil, err) *)
  o_sinks : list sinkref;              (* every sink that was created *)
  o_nerr : nat;
  o_calls : list call;
  o_evs : list ev                      (* what open itself did to the sinks *)
}.
Definition open (r : sreg) (paths : list purl) (next : nat) : opened :=
  let '(ws, ne, cl) := open_loop r paths next in
  if Nat.eqb ne 0 then mkO (Some ws) ws ne cl []
  else mkO None ws ne cl (close_all ws).

(* one Write on CombineWriteSyncers(writers...): every writer gets it (no writers:
   io.Discard) *)
Definition combine_write (ws : list sinkref) : list ev := map (fun s => EWrite (sid s)) ws.
Fixpoint writes (n : nat) (ws : list sinkref) : list ev :=
  match n with 0 => [] | S m => combine_write ws ++ writes m ws end.

(* ------------------------------------------------------------------ Config.Build *)
Record bcfg := mkB {
  c_timekey : bool; c_enctime : bool; c_encoding : bytes;
  c_level : bool;                       (* cfg.Level != (AtomicLevel{}) *)
  c_out : list purl; c_errp : list purl
}.
Record sinks_res := mkR {
  r_ws : option (list sinkref * list sinkref);
  r_sinks : list sinkref; r_calls : list call; r_evs : list ev
}.
(* cfg.openSinks *)
Definition open_sinks (r : sreg) (cfg : bcfg) : sinks_res :=
  let o1 := open r (c_out cfg) 0 in
  match o_writers o1 with
  | None => mkR None (o_sinks o1) (o_calls o1) (o_evs o1)
  | Some ws1 =>
      let o2 := open r (c_errp cfg) (length ws1) in
      match o_writers o2 with
      | None => mkR None (ws1 ++ o_sinks o2) (o_calls o1 ++ o_calls o2) (o_evs o2 ++ close_all ws1)
      | Some ws2 => mkR (Some (ws1, ws2)) (ws1 ++ ws2) (o_calls o1 ++ o_calls o2) []
      end
  end.

Inductive bcls := BOk | BMissingTime | BNoName | BUnknownEnc | BCtorErr | BSink | BLevel.
Record built := mkBt {
  b_cls : bcls;
  b_ctor : list nat;                    (* user constructors invoked (ids >= 2) *)
  b_ws : option (list sinkref * list sinkref);
  b_sinks : list sinkref; b_calls : list call; b_evs : list ev
}.
Definition enc_cls (e : eres) : bcls * list nat :=
  match e with
  | EMissingTime => (BMissingTime, [])
  | ENoName => (BNoName, [])
  | EUnknown => (BUnknownEnc, [])
  | ECtorErr id => (BCtorErr, [id])
  | EOk id => (BOk, if Nat.leb 2 id then [id] else [])
  end.
(* Config.Build after "fix: check Config.Level before opening sinks" *)
Definition build (er : ereg) (r : sreg) (cfg : bcfg) : built :=
  let '(ec, ids) := enc_cls (new_encoder er (c_timekey cfg) (c_enctime cfg) (c_encoding cfg)) in
  match ec with
  | BOk =>
      if negb (c_level cfg) then mkBt BLevel ids None [] [] []
      else
        let s := open_sinks r cfg in
        match r_ws s with
        | None => mkBt BSink ids None (r_sinks s) (r_calls s) (r_evs s)
        | Some p => mkBt BOk ids (Some p) (r_sinks s) (r_calls s) (r_evs s)
        end
  | _ => mkBt ec ids None [] [] []
  end.
(* Config.Build before the fix: the level is checked after openSinks, and the
   sinks are not closed on that return *)
Definition build_orig (er : ereg) (r : sreg) (cfg : bcfg) : built :=
  let '(ec, ids) := enc_cls (new_encoder er (c_timekey cfg) (c_enctime cfg) (c_encoding cfg)) in
  match ec with
  | BOk =>
      let s := open_sinks r cfg in
      match r_ws s with
      | None => mkBt BSink ids None (r_sinks s) (r_calls s) (r_evs s)
      | Some p =>
          if negb (c_level cfg) then mkBt BLevel ids None (r_sinks s) (r_calls s) (r_evs s)
          else mkBt BOk ids (Some p) (r_sinks s) (r_calls s) (r_evs s)
      end
  | _ => mkBt ec ids None [] [] []
  end.

(* ------------------------------------------------------------------ std-log redirection *)
Inductive lw := WUser | WZap (lvl : Z) | WStderr.
Record stdlog := mkL { l_flags : Z; l_prefix : bytes; l_writer : lw }.
(* levelToFunc: a switch over the seven named levels *)
Definition level_to_func (l : Z) : option Z :=
  match l with
  | (-1)%Z => Some l | 0%Z => Some l | 1%Z => Some l | 2%Z => Some l
  | 3%Z => Some l | 4%Z => Some l | 5%Z => Some l
  | _ => None
  end.
(* the returned closure: SetFlags(flags); SetPrefix(prefix); SetOutput(os.Stderr) *)
Definition restore (saved : Z * bytes) (st : stdlog) : stdlog := mkL (fst saved) (snd saved) WStderr.
(* redirectStdLogAt after "fix: validate the level before touching the standard logger" *)
Definition redirect (st : stdlog) (l : Z) : option (Z * bytes) * stdlog :=
  match level_to_func l with
  | None => (None, st)
  | Some f => (Some (l_flags st, l_prefix st), mkL 0 [] (WZap f))
  end.
(* before the fix: SetFlags(0); SetPrefix("") happen before levelToFunc *)
Definition redirect_orig (st : stdlog) (l : Z) : option (Z * bytes) * stdlog :=
  let st1 := mkL 0 [] (l_writer st) in
  match level_to_func l with
  | None => (None, st1)
  | Some f => (Some (l_flags st, l_prefix st), mkL 0 [] (WZap f))
  end.
(* RedirectStdLog = redirectStdLogAt(l, InfoLevel) (the error branch panics) *)
Definition redirect_info (st : stdlog) : option (Z * bytes) * stdlog := redirect st 0.

(* ================================================================== specification *)
(* RFC 3986 3.1: ALPHA *( ALPHA / DIGIT / "+" / "-" / "." ), ASCII *)
Definition valid_scheme (s : bytes) : bool :=
  match s with
  | [] => false
  | c :: t => is_letter c && forallb (fun c => is_letter c || is_digit c || is_pmd c) t
  end.
(* net/url getScheme (the scheme as written, before lower-casing) *)
Fixpoint get_scheme_aux (first : bool) (s acc : bytes) : bytes :=
  match s with
  | [] => []
  | c :: t =>
      if is_letter c then get_scheme_aux false t (acc ++ [c])
      else if is_digit c || is_pmd c then (if first then [] else get_scheme_aux false t (acc ++ [c]))
      else if Byte.eqb c x3a then (if first then [] else acc)
      else []
  end.
Definition get_scheme (raw : bytes) : bytes := get_scheme_aux true raw [].

(* the factory a scheme designates: the first valid registered name that equals it
   up to ASCII case ("file" is always the built-in) *)
Fixpoint spec_find (names : list (bytes * nat)) (sch : bytes) : option nat :=
  match names with
  | [] => None
  | (n, id) :: t => if valid_scheme n && bytes_eqb (ascii_lower n) sch then Some id else spec_find t sch
  end.
Definition spec_factory (names : list (bytes * nat)) (sch : bytes) : option nat :=
  if bytes_eqb sch s_file then Some 0 else spec_find names sch.

Definition file_url_ok (u : purl) : bool :=
  negb (u_user u) && is_nil (u_port u) && is_nil (u_query u) && is_nil (u_frag u)
  && (is_nil (u_hostname u) || bytes_eqb (u_hostname u) s_localhost).
Definition spec_file (p : bytes) (ok : bool) : list call * option skind :=
  if bytes_eqb p s_stdout || bytes_eqb p s_stderr then ([], Some KStd)
  else ([CFile p], if ok then Some KFile else None).
(* what one path must do: the opener calls it causes and the sink it yields *)
Definition spec_path (names : list (bytes * nat)) (u : purl) : list call * option skind :=
  if u_abs u then spec_file (u_raw u) (u_ok u)
  else if u_perr u then ([], None)
  else
    let sch := ascii_lower (get_scheme (u_raw u)) in
    if is_nil sch || bytes_eqb sch s_file then
      (if file_url_ok u then spec_file (u_path u) (u_ok u) else ([], None))
    else match spec_find names sch with
         | Some id => ([CFact id], if u_ok u then Some KTest else None)
         | None => ([], None)
         end.
Definition spec_calls (names : list (bytes * nat)) (ps : list purl) : list call :=
  concat (map (fun u => fst (spec_path names u)) ps).
Definition spec_kinds (names : list (bytes * nat)) (ps : list purl) : list skind :=
  concat (map (fun u => match snd (spec_path names u) with Some k => [k] | None => [] end) ps).
Definition spec_nfail (names : list (bytes * nat)) (ps : list purl) : nat :=
  length (filter (fun u => match snd (spec_path names u) with Some _ => false | None => true end) ps).

(* ================================================================== wire *)
(* name   = (#name #lowered)          lowered = strings.ToLower(name) (oracle; used by the _orig model only)
   purl   = (abs #raw perr #scheme user #host #hostname #port #path #query #frag ok #opaque)
   call   = (0 #path) | (1 id)        stat = (kind writes closes)   kind: 0 test 1 file 2 std
   std    = (lines-on-stdout+stderr either-closed)                 stats list only the closable sinks
   kind 0 Open:     (0 (name..) (purl..) nw)                      obs (err nerr (call..) (stat..) (stat..) std)
   kind 1 Build:    (1 (name..) ((#enc ok)..) tk et #encoding lvl (purl..) (purl..) nw)
                                                                   obs (cls (ctor-id..) (call..) (stat..) (stat..) std)
   kind 2 Redirect: (2 which flags #prefix level)                  obs (err f1 #p1 w1 delivered f2 #p2 w2)
   kind 3 sink registry:    (3 (op..))  op = (0 #name #lowered) | (1 purl)
                                         obs ((0 cls (key..)) | (1 err (call..) (key..)) ..)
   kind 4 encoder registry: (4 (op..))  op = (0 #name) | (1 #name)
                                         obs ((0 cls (key..)) | (1 cls (ctor-id..) (key..)) ..)
   kind 5 mixed history over both registries (ids: the op's position + 2, for factories and constructors):
      (5 (op..))  op = (0 #name #lowered)                         RegisterSink      obs (0 cls (skey..))
                     | (1 (purl..) nw)                             Open, closeAll    obs (<kind-0 obs> (skey..))
                     | (2 #name ok)                                RegisterEncoder   obs (0 cls (ekey..))
                     | (3 tk et #encoding lvl (purl..) (purl..) nw) Config.Build     obs (<kind-1 obs> (skey..) (ekey..))
                     | (4 which flags #prefix level)               Redirect          obs <kind-2 obs>
   kind 6 the multi-destination writer under scripted destinations (registered test sinks "c19w://h/<j>"):
      (6 mode cl len nd1 nd2 (step..))   mode 0 Open(nd1 paths) | 1 CombineWriteSyncers(nd1 sinks)
                                              | 2 Config.Build(OutputPaths nd1, ErrorOutputPaths nd2; cl: caller annotation on)
         step = (t (beh..nd1) (beh..nd2))   t = 0: one Write of len bytes / one Info entry; 1: one Sync
         beh  = (n err serr)                during the step the destination answers every Write with (n, err) (n <= len;
                                            for entries and error lines: 0 -> 0, len -> everything, else a short count)
                                            and every Sync with serr
      obs ((((w s)..nd1) ((w s)..nd2) n (d..)) ..)   per step: per destination the Writes received with the whole payload
                                            (-1: a payload was damaged) and the Syncs received; the byte count returned
                                            (0 for a Sync and for a logger); the destinations whose errors the returned error
                                            (the "write error" line of a logger) consists of, in order (-1: a foreign error)
   blocked = (7): the operation (or the whole case) did not return within the harness's
   watchdog; in a history the observation list ends with it.  A registry read-back that
   does not return is (7) in place of the (key..) list.                                                    *)
Definition dec_purl (s : sx) : purl :=
  mkU (sx_bool (sx_nth s 0)) (sx_b (sx_nth s 1)) (sx_bool (sx_nth s 2)) (sx_b (sx_nth s 3))
      (sx_bool (sx_nth s 4)) (sx_b (sx_nth s 6)) (sx_b (sx_nth s 7)) (sx_b (sx_nth s 8))
      (sx_b (sx_nth s 9)) (sx_b (sx_nth s 10)) (sx_bool (sx_nth s 11)).
Fixpoint number {A} (i : nat) (l : list A) : list (A * nat) :=
  match l with [] => [] | a :: t => (a, i) :: number (S i) t end.
Definition dec_names (s : sx) : list (bytes * nat) := number 1 (map (fun n => sx_b (sx_nth n 0)) (sx_l s)).
Definition dec_encs (s : sx) : list (bytes * (nat * bool)) :=
  map (fun p => (fst (fst p), (snd p, snd (fst p))))
      (number 2 (map (fun n => (sx_b (sx_nth n 0), sx_bool (sx_nth n 1))) (sx_l s))).

Definition enc_call (c : call) : sx :=
  match c with CFile p => SL [SZ 0; SB p] | CFact id => SL [SZ 1; of_nat id] end.
Definition kind_code (k : skind) : Z := match k with KTest => 0 | KFile => 1 | KStd => 2 end.
Definition enc_stat (k : skind) (w c : nat) : sx := SL [SZ (kind_code k); of_nat w; of_nat c].

Fixpoint count (f : ev -> bool) (l : list ev) : nat :=
  match l with [] => 0 | e :: t => (if f e then 1 else 0) + count f t end.
Definition is_write (id : nat) (e : ev) : bool := match e with EWrite j => Nat.eqb j id | _ => false end.
Definition is_close (id : nat) (e : ev) : bool := match e with EClose j => Nat.eqb j id | _ => false end.
Definition stat_of (E : list ev) (s : sinkref) : sx :=
  enc_stat (skd s) (count (is_write (sid s)) E) (count (is_close (sid s)) E).
(* os.Stdout / os.Stderr are shared destinations: the harness observes them in
   aggregate (lines received by both, whether either was closed); every other sink
   is observed individually, in order of creation *)
Definition closable (s : sinkref) : bool := match skd s with KStd => false | _ => true end.
Definition is_std (k : skind) : bool := match k with KStd => true | _ => false end.
Definition stats (E : list ev) (l : list sinkref) : sx := SL (map (stat_of E) (filter closable l)).
Definition sum_count (f : nat -> ev -> bool) (E : list ev) (l : list sinkref) : nat :=
  fold_right (fun s a => count (f (sid s)) E + a) 0 l.
Definition std_pair (E : list ev) (l : list sinkref) : sx :=
  let sl := filter (fun s => negb (closable s)) l in
  SL [of_nat (sum_count is_write E sl); of_nat (sum_count is_close E sl)].
Definition spec_stats (kinds : list skind) (w c : nat) : sx :=
  SL (map (fun k => enc_stat k w c) (filter (fun k => negb (is_std k)) kinds)).
Definition spec_std (kinds : list skind) (nw : nat) : sx :=
  SL [of_nat (nw * length (filter is_std kinds)); SZ 0].

(* --- kind 0 --- *)
(* what the harness observes of one Open: nw Writes on the combined writer, snapshot,
   closeAll(), snapshot (or, on an error, one snapshot) *)
Definition obs_open (o : opened) (nw : nat) : sx :=
  match o_writers o with
  | Some ws =>
      let E1 := o_evs o ++ writes nw ws in
      let E2 := E1 ++ close_all ws in
      SL [SZ 0; of_nat (o_nerr o); SL (map enc_call (o_calls o)); stats E1 ws; stats E2 (o_sinks o); std_pair E2 (o_sinks o)]
  | None =>
      SL [SZ 1; of_nat (o_nerr o); SL (map enc_call (o_calls o)); SL []; stats (o_evs o) (o_sinks o); std_pair (o_evs o) (o_sinks o)]
  end.
Definition model_open (i : sx) : sx :=
  let names := dec_names (sx_nth i 1) in
  let ps := map dec_purl (sx_l (sx_nth i 2)) in
  let nw := sx_n (sx_nth i 3) in
  obs_open (open (reg_all sreg0 names) ps 0) nw.

Fixpoint sx_mem (x : sx) (l : list sx) : bool :=
  match l with [] => false | y :: t => sx_eqb x y || sx_mem x t end.
Definition all_in (xs ys : list sx) : bool := forallb (fun x => sx_mem x ys) xs.
(* every listed sink: no write, closed exactly once *)
Definition undone (s : sx) : bool := sx_eqb s (SL [SZ (sx_z (sx_nth s 0)); SZ 0; SZ 1]).
Definition std_untouched : sx := SL [SZ 0; SZ 0].
(* [names]: every registration attempted so far, in order, with its factory id *)
Definition spec_open_at (names : list (bytes * nat)) (ps : list purl) (nw : nat) (o : sx) : bool :=
  let calls := map enc_call (spec_calls names ps) in
  if Nat.eqb (spec_nfail names ps) 0 then
    sx_eqb (sx_nth o 0) (SZ 0) && sx_eqb (sx_nth o 1) (SZ 0) && sx_eqb (sx_nth o 2) (SL calls)
    && sx_eqb (sx_nth o 3) (spec_stats (spec_kinds names ps) nw 0)
    && sx_eqb (sx_nth o 4) (spec_stats (spec_kinds names ps) nw 1)
    && sx_eqb (sx_nth o 5) (spec_std (spec_kinds names ps) nw)
  else
    sx_eqb (sx_nth o 0) (SZ 1) && all_in (sx_l (sx_nth o 2)) calls
    && sx_eqb (sx_nth o 3) (SL []) && forallb undone (sx_l (sx_nth o 4))
    && sx_eqb (sx_nth o 5) std_untouched.
Definition spec_open (i o : sx) : bool :=
  spec_open_at (dec_names (sx_nth i 1)) (map dec_purl (sx_l (sx_nth i 2))) (sx_n (sx_nth i 3)) o.

(* --- kind 1 --- *)
Definition dec_cfg (i : sx) : bcfg :=
  mkB (sx_bool (sx_nth i 3)) (sx_bool (sx_nth i 4)) (sx_b (sx_nth i 5)) (sx_bool (sx_nth i 6))
      (map dec_purl (sx_l (sx_nth i 7))) (map dec_purl (sx_l (sx_nth i 8))).
Definition cls_code (c : bcls) : Z :=
  match c with BOk => 0 | BMissingTime => 1 | BNoName => 2 | BUnknownEnc => 3 | BCtorErr => 4 | BSink => 5 | BLevel => 6 end.
(* what the harness observes of one Build: nw entries, each one Write on the output and
   one on the error output *)
Definition obs_build (b : built) (nw : nat) : sx :=
  let hdr := [SZ (cls_code (b_cls b)); SL (map of_nat (b_ctor b)); SL (map enc_call (b_calls b))] in
  match b_ws b with
  | Some (ws1, ws2) =>
      let E1 := b_evs b ++ writes nw ws1 ++ writes nw ws2 in
      SL (hdr ++ [stats E1 (ws1 ++ ws2); stats E1 (b_sinks b); std_pair E1 (b_sinks b)])
  | None => SL (hdr ++ [SL []; stats (b_evs b) (b_sinks b); std_pair (b_evs b) (b_sinks b)])
  end.
Definition model_build_with (bld : ereg -> sreg -> bcfg -> built) (i : sx) : sx :=
  let names := dec_names (sx_nth i 1) in
  let encs := dec_encs (sx_nth i 2) in
  obs_build (bld (ereg_all ereg0 encs) (reg_all sreg0 names) (dec_cfg i)) (sx_n (sx_nth i 9)).
Definition model_build := model_build_with build.

(* the encoder a name designates: built-ins, else the first registered non-empty name *)
Fixpoint spec_enc_find (encs : list (bytes * (nat * bool))) (name : bytes) : option (nat * bool) :=
  match encs with
  | [] => None
  | (n, v) :: t => if negb (is_nil n) && bytes_eqb n name then Some v else spec_enc_find t name
  end.
Definition spec_enc (encs : list (bytes * (nat * bool))) (name : bytes) : option (nat * bool) :=
  if bytes_eqb name s_console then Some (0, true)
  else if bytes_eqb name s_json then Some (1, true)
  else spec_enc_find encs name.
(* the problems a configuration has, as error classes *)
Definition spec_problems (encs : list (bytes * (nat * bool))) (names : list (bytes * nat)) (cfg : bcfg) : list Z :=
  (if c_timekey cfg && negb (c_enctime cfg) then [1%Z] else [])
  ++ (if is_nil (c_encoding cfg) then [2%Z]
      else match spec_enc encs (c_encoding cfg) with
           | None => [3%Z] | Some (_, false) => [4%Z] | Some (_, true) => [] end)
  ++ (if Nat.eqb (spec_nfail names (c_out cfg) + spec_nfail names (c_errp cfg)) 0 then [] else [5%Z])
  ++ (if c_level cfg then [] else [6%Z]).
Definition spec_build_at (names : list (bytes * nat)) (encs : list (bytes * (nat * bool))) (cfg : bcfg) (nw : nat) (o : sx) : bool :=
  let probs := spec_problems encs names cfg in
  let calls := map enc_call (spec_calls names (c_out cfg) ++ spec_calls names (c_errp cfg)) in
  let kinds := spec_kinds names (c_out cfg) ++ spec_kinds names (c_errp cfg) in
  if is_nil probs then
    sx_eqb (sx_nth o 0) (SZ 0) && sx_eqb (sx_nth o 2) (SL calls)
    && sx_eqb (sx_nth o 3) (spec_stats kinds nw 0)
    && sx_eqb (sx_nth o 4) (spec_stats kinds nw 0)
    && sx_eqb (sx_nth o 5) (spec_std kinds nw)
  else
    existsb (Z.eqb (sx_z (sx_nth o 0))) probs && all_in (sx_l (sx_nth o 2)) calls
    && sx_eqb (sx_nth o 3) (SL []) && forallb undone (sx_l (sx_nth o 4))
    && sx_eqb (sx_nth o 5) std_untouched.
Definition spec_build (i o : sx) : bool :=
  spec_build_at (dec_names (sx_nth i 1)) (dec_encs (sx_nth i 2)) (dec_cfg i) (sx_n (sx_nth i 9)) o.

(* --- kind 2 --- *)
Definition lw_code (w : lw) : Z := match w with WUser => 0 | WZap _ => 1 | WStderr => 2 end.
Definition no_delivery : Z := (-99)%Z.
Definition model_redirect_with (red : stdlog -> Z -> option (Z * bytes) * stdlog) (i : sx) : sx :=
  let which := sx_z (sx_nth i 1) in
  let st := mkL (sx_z (sx_nth i 2)) (sx_b (sx_nth i 3)) WUser in
  let l := if Z.eqb which 0 then 0%Z else sx_z (sx_nth i 4) in
  let '(r, st1) := red st l in
  let deliv := match l_writer st1 with WZap f => f | _ => no_delivery end in
  let st2 := match r with Some saved => restore saved st1 | None => st1 end in
  SL [of_bool (match r with None => true | Some _ => false end);
      SZ (l_flags st1); SB (l_prefix st1); SZ (lw_code (l_writer st1)); SZ deliv;
      SZ (l_flags st2); SB (l_prefix st2); SZ (lw_code (l_writer st2))].
Definition model_redirect := model_redirect_with redirect.
Definition named_level (l : Z) : bool := (-1 <=? l)%Z && (l <=? 5)%Z.
Definition spec_redirect (i o : sx) : bool :=
  let which := sx_z (sx_nth i 1) in
  let flags := sx_z (sx_nth i 2) in
  let prefix := sx_b (sx_nth i 3) in
  let l := if Z.eqb which 0 then 0%Z else sx_z (sx_nth i 4) in
  if named_level l then
    sx_eqb o (SL [SZ 0; SZ 0; SB []; SZ 1; SZ l; SZ flags; SB prefix; SZ 2])
  else
    sx_eqb o (SL [SZ 1; SZ flags; SB prefix; SZ 0; SZ no_delivery; SZ flags; SB prefix; SZ 0]).

(* --- canonical key order (sort.Strings: byte-wise lexicographic) --- *)
Fixpoint bytes_leb (a b : bytes) : bool :=
  match a, b with
  | [], _ => true
  | _ :: _, [] => false
  | x :: a', y :: b' => if Byte.eqb x y then bytes_leb a' b' else (bz x <? bz y)%Z
  end.
Fixpoint insert_key (k : bytes) (l : list bytes) : list bytes :=
  match l with
  | [] => [k]
  | h :: t => if bytes_leb k h then k :: l else h :: insert_key k t
  end.
Definition sort_keys (l : list bytes) : list bytes := fold_right insert_key [] l.
Definition enc_keys (l : list bytes) : sx := of_blist (sort_keys l).
Definition rres_code (r : rres) : Z :=
  match r with ROk => 0 | RErrEmpty => 1 | RErrInvalid => 2 | RErrDup => 3 | RPanic => 9 end.

(* --- kind 3 --- *)
(* [reg_fn r name lowered id] : the registration function under test *)
Fixpoint model_sreg_ops (reg_fn : sreg -> bytes -> bytes -> nat -> rres * sreg)
    (r : sreg) (id : nat) (ops : list sx) : list sx :=
  match ops with
  | [] => []
  | op :: t =>
      if Z.eqb (sx_z (sx_nth op 0)) 0 then
        let '(c, r') := reg_fn r (sx_b (sx_nth op 1)) (sx_b (sx_nth op 2)) id in
        SL [SZ 0; SZ (rres_code c); enc_keys (keys r')] :: model_sreg_ops reg_fn r' (S id) t
      else
        let '(cs, res) := new_sink r (dec_purl (sx_nth op 1)) in
        SL [SZ 1; of_bool (match res with None => true | Some _ => false end); SL (map enc_call cs); enc_keys (keys r)]
        :: model_sreg_ops reg_fn r (S id) t
  end.
Definition model_sreg (i : sx) : sx :=
  SL (model_sreg_ops (fun r n _ id => register r n id) sreg0 1 (sx_l (sx_nth i 1))).
Definition model_sreg_orig (i : sx) : sx :=
  SL (model_sreg_ops register_orig sreg0 1 (sx_l (sx_nth i 1))).

(* spec state: the (name, id) pairs of all registrations attempted so far, and the
   keys accepted so far *)
Definition spec_reg_cls (names : list (bytes * nat)) (name : bytes) : Z :=
  if is_nil name then 1
  else if negb (valid_scheme name) then 2
  else match spec_factory names (ascii_lower name) with Some _ => 3 | None => 0 end.
Fixpoint spec_sreg_ops (names : list (bytes * nat)) (ks : list bytes) (id : nat) (ops obs : list sx) : bool :=
  match ops, obs with
  | [], [] => true
  | op :: t, ob :: obs' =>
      if Z.eqb (sx_z (sx_nth op 0)) 0 then
        let name := sx_b (sx_nth op 1) in
        let c := spec_reg_cls names name in
        let ks' := if Z.eqb c 0 then ks ++ [ascii_lower name] else ks in
        sx_eqb ob (SL [SZ 0; SZ c; enc_keys ks']) && spec_sreg_ops (names ++ [(name, id)]) ks' (S id) t obs'
      else
        let '(cs, res) := spec_path names (dec_purl (sx_nth op 1)) in
        sx_eqb ob (SL [SZ 1; of_bool (match res with None => true | Some _ => false end); SL (map enc_call cs); enc_keys ks])
        && spec_sreg_ops names ks (S id) t obs'
  | _, _ => false
  end.
Definition spec_sreg (i o : sx) : bool := spec_sreg_ops [] [s_file] 1 (sx_l (sx_nth i 1)) (sx_l o).

(* --- kind 4 --- *)
(* lookup goes through Config{Encoding: name}.Build() with no paths and a level *)
Fixpoint model_ereg_ops (r : ereg) (id : nat) (ops : list sx) : list sx :=
  match ops with
  | [] => []
  | op :: t =>
      let name := sx_b (sx_nth op 1) in
      if Z.eqb (sx_z (sx_nth op 0)) 0 then
        let '(c, r') := register_enc r name (id, true) in
        SL [SZ 0; SZ (rres_code c); enc_keys (keys r')] :: model_ereg_ops r' (S id) t
      else
        let b := build r sreg0 (mkB false false name true [] []) in
        SL [SZ 1; SZ (cls_code (b_cls b)); SL (map of_nat (b_ctor b)); enc_keys (keys r)] :: model_ereg_ops r (S id) t
  end.
Definition model_ereg (i : sx) : sx := SL (model_ereg_ops ereg0 2 (sx_l (sx_nth i 1))).
Fixpoint spec_ereg_ops (encs : list (bytes * (nat * bool))) (ks : list bytes) (id : nat) (ops obs : list sx) : bool :=
  match ops, obs with
  | [], [] => true
  | op :: t, ob :: obs' =>
      let name := sx_b (sx_nth op 1) in
      if Z.eqb (sx_z (sx_nth op 0)) 0 then
        let c := if is_nil name then 1%Z else match spec_enc encs name with Some _ => 3%Z | None => 0%Z end in
        let ks' := if Z.eqb c 0 then ks ++ [name] else ks in
        sx_eqb ob (SL [SZ 0; SZ c; enc_keys ks']) && spec_ereg_ops (encs ++ [(name, (id, true))]) ks' (S id) t obs'
      else
        let exp := if is_nil name then SL [SZ 1; SZ 2; SL []; enc_keys ks]
                   else match spec_enc encs name with
                        | None => SL [SZ 1; SZ 3; SL []; enc_keys ks]
                        | Some (cid, true) => SL [SZ 1; SZ 0; SL (if Nat.leb 2 cid then [of_nat cid] else []); enc_keys ks]
                        | Some (cid, false) => SL [SZ 1; SZ 4; SL [of_nat cid]; enc_keys ks]
                        end in
        sx_eqb ob exp && spec_ereg_ops encs ks (S id) t obs'
  | _, _ => false
  end.
Definition spec_ereg (i o : sx) : bool := spec_ereg_ops [] [s_console; s_json] 2 (sx_l (sx_nth i 1)) (sx_l o).

(* --- an operation that never returned --- *)
(* The harness runs every operation under a watchdog; an operation that has not
   returned when it expires is observed as [blocked] (and the rest of the history is
   not run).  No operation of the model blocks; the oracle rejects the marker wherever
   it can appear. *)
Definition blocked : sx := SL [SZ 7].
Definition is_blocked (o : sx) : bool := sx_eqb o blocked.

(* --- kind 5: mixed histories over both registries --- *)
Definition dec_cfg5 (op : sx) : bcfg :=
  mkB (sx_bool (sx_nth op 1)) (sx_bool (sx_nth op 2)) (sx_b (sx_nth op 3)) (sx_bool (sx_nth op 4))
      (map dec_purl (sx_l (sx_nth op 5))) (map dec_purl (sx_l (sx_nth op 6))).
Definition tag (op : sx) : Z := sx_z (sx_nth op 0).
Fixpoint model_mix_ops (r : sreg) (er : ereg) (id : nat) (ops : list sx) : list sx :=
  match ops with
  | [] => []
  | op :: t =>
      if Z.eqb (tag op) 0 then
        let '(c, r') := register r (sx_b (sx_nth op 1)) id in
        SL [SZ 0; SZ (rres_code c); enc_keys (keys r')] :: model_mix_ops r' er (S id) t
      else if Z.eqb (tag op) 1 then
        SL [obs_open (open r (map dec_purl (sx_l (sx_nth op 1))) 0) (sx_n (sx_nth op 2)); enc_keys (keys r)]
        :: model_mix_ops r er (S id) t
      else if Z.eqb (tag op) 2 then
        let '(c, er') := register_enc er (sx_b (sx_nth op 1)) (id, sx_bool (sx_nth op 2)) in
        SL [SZ 0; SZ (rres_code c); enc_keys (keys er')] :: model_mix_ops r er' (S id) t
      else if Z.eqb (tag op) 3 then
        SL [obs_build (build er r (dec_cfg5 op)) (sx_n (sx_nth op 7)); enc_keys (keys r); enc_keys (keys er)]
        :: model_mix_ops r er (S id) t
      else if Z.eqb (tag op) 4 then model_redirect op :: model_mix_ops r er (S id) t
      else SL [] :: model_mix_ops r er (S id) t
  end.
Definition model_mix (i : sx) : sx := SL (model_mix_ops sreg0 ereg0 2 (sx_l (sx_nth i 1))).

(* spec state: every sink / encoder registration attempted so far (with the id of its
   factory / constructor) and the keys accepted so far.  Every operation of the history
   must have returned (no [blocked]), whatever was rejected before it; a rejected
   registration changes no key; Open, Build and the redirection are judged exactly as
   in kinds 0, 1 and 2 against the registrations attempted so far, and leave the keys
   of both registries as they were. *)
Fixpoint spec_mix_ops (names : list (bytes * nat)) (encs : list (bytes * (nat * bool)))
    (sks eks : list bytes) (id : nat) (ops obs : list sx) : bool :=
  match ops, obs with
  | [], [] => true
  | op :: t, ob :: obs' =>
      negb (is_blocked ob) &&
      if Z.eqb (tag op) 0 then
        let name := sx_b (sx_nth op 1) in
        let c := spec_reg_cls names name in
        let sks' := if Z.eqb c 0 then sks ++ [ascii_lower name] else sks in
        sx_eqb ob (SL [SZ 0; SZ c; enc_keys sks'])
        && spec_mix_ops (names ++ [(name, id)]) encs sks' eks (S id) t obs'
      else if Z.eqb (tag op) 1 then
        spec_open_at names (map dec_purl (sx_l (sx_nth op 1))) (sx_n (sx_nth op 2)) (sx_nth ob 0)
        && sx_eqb (sx_nth ob 1) (enc_keys sks)
        && spec_mix_ops names encs sks eks (S id) t obs'
      else if Z.eqb (tag op) 2 then
        let name := sx_b (sx_nth op 1) in
        let c := if is_nil name then 1%Z else match spec_enc encs name with Some _ => 3%Z | None => 0%Z end in
        let eks' := if Z.eqb c 0 then eks ++ [name] else eks in
        sx_eqb ob (SL [SZ 0; SZ c; enc_keys eks'])
        && spec_mix_ops names (encs ++ [(name, (id, sx_bool (sx_nth op 2)))]) sks eks' (S id) t obs'
      else if Z.eqb (tag op) 3 then
        spec_build_at names encs (dec_cfg5 op) (sx_n (sx_nth op 7)) (sx_nth ob 0)
        && sx_eqb (sx_nth ob 1) (enc_keys sks) && sx_eqb (sx_nth ob 2) (enc_keys eks)
        && spec_mix_ops names encs sks eks (S id) t obs'
      else if Z.eqb (tag op) 4 then
        spec_redirect op ob && spec_mix_ops names encs sks eks (S id) t obs'
      else false
  | _, _ => false
  end.
Definition spec_mix (i o : sx) : bool :=
  negb (is_blocked o) && spec_mix_ops [] [] [s_file] [s_console; s_json] 2 (sx_l (sx_nth i 1)) (sx_l o).

(* --- kind 6: the multi-destination writer under scripted destinations --- *)
(* zapcore/write_syncer.go multiWriteSyncer.Write / Sync, NewMultiWriteSyncer, Lock and
   writer.go CombineWriteSyncers, as used by Open and (through openSinks) by Config.Build;
   zapcore/core.go ioCore.Write, zapcore/entry.go CheckedEntry.Write and logger.go
   Logger.check as far as they write to the two combined writers of a built logger.
   A destination is a registered test sink that answers every Write it receives during a
   step with (n, err) and every Sync with serr, as the case scripts it; destinations
   never panic.  Destinations are numbered in order of creation: those of Open /
   OutputPaths from 0, those of ErrorOutputPaths after them. *)
Record wbeh := mkW { w_n : nat; w_err : bool; w_serr : bool }.
Inductive wev := WWrite (d : nat) | WSync (d : nat).
(* what one call on a writer did: the calls that reached destinations (in order), the
   byte count it returned, and the destinations whose errors make up the returned error
   (multierr.Append keeps them in order; empty = nil) *)
Record wres := mkWR { wr_evs : list wev; wr_n : nat; wr_errs : list nat }.

(* multiWriteSyncer.Write:
     nWritten := len(p)
     for _, w := range ws { n, err := w.Write(p); writeErr = multierr.Append(writeErr, err)
                            if n < nWritten { nWritten = n } }
     return nWritten, writeErr                                   [nwritten]: the running minimum *)
Fixpoint multi_write (ds : list (wbeh * nat)) (nwritten : nat) : wres :=
  match ds with
  | [] => mkWR [] nwritten []
  | (b, d) :: t =>
      let r := multi_write t (if Nat.ltb (w_n b) nwritten then w_n b else nwritten) in
      mkWR (WWrite d :: wr_evs r) (wr_n r) ((if w_err b then [d] else []) ++ wr_errs r)
  end.
(* multiWriteSyncer.Sync: for _, w := range ws { err = multierr.Append(err, w.Sync()) } *)
Fixpoint multi_sync (ds : list (wbeh * nat)) : wres :=
  match ds with
  | [] => mkWR [] 0 []
  | (b, d) :: t =>
      let r := multi_sync t in
      mkWR (WSync d :: wr_evs r) 0 ((if w_serr b then [d] else []) ++ wr_errs r)
  end.
(* CombineWriteSyncers(ws...): no writer: AddSync(io.Discard); otherwise
   Lock(NewMultiWriteSyncer(ws...)), and NewMultiWriteSyncer of one writer is that writer *)
Definition comb_write (ds : list (wbeh * nat)) (len : nat) : wres :=
  match ds with
  | [] => mkWR [] len []
  | [(b, d)] => mkWR [WWrite d] (w_n b) (if w_err b then [d] else [])
  | _ => multi_write ds len
  end.
Definition comb_sync (ds : list (wbeh * nat)) : wres :=
  match ds with
  | [] => mkWR [] 0 []
  | [(b, d)] => mkWR [WSync d] 0 (if w_serr b then [d] else [])
  | _ => multi_sync ds
  end.
(* one internal-error line on the logger's error output: fmt.Fprintf(errorOutput, ...)
   (one Write; its results are discarded) followed by errorOutput.Sync() *)
Definition err_line (ds2 : list (wbeh * nat)) (len : nat) : list wev :=
  wr_evs (comb_write ds2 len) ++ wr_evs (comb_sync ds2).
(* one step on the writer under test.
   mode 0 / 1 (Open / CombineWriteSyncers): t = 0 one Write of len bytes, else one Sync.
   mode 2 (the logger of Config.Build, ds1 = OutputPaths, ds2 = ErrorOutputPaths):
     t = 0 one Info entry: Logger.check reports the caller it cannot find (cl: caller
           annotation is on; the harness makes it fail) on the error output; ioCore.Write
           writes the encoded entry to the output (byte count dropped); CheckedEntry.Write
           reports a non-nil error on the error output ("write error: <err>");
     else  Logger.Sync = ioCore.Sync = Sync of the output.
   For an entry [wr_errs] is what the "write error" line names (nothing without an
   error output). *)
Definition step_res (mode : Z) (cl : bool) (len : nat) (t : Z) (ds1 ds2 : list (wbeh * nat)) : wres :=
  if Z.eqb mode 2 then
    if Z.eqb t 0 then
      let pre := if cl then err_line ds2 len else [] in
      let r := comb_write ds1 len in
      let post := if is_nil (wr_errs r) then [] else err_line ds2 len in
      mkWR (pre ++ wr_evs r ++ post) 0 (if is_nil ds2 then [] else wr_errs r)
    else comb_sync ds1
  else
    if Z.eqb t 0 then comb_write ds1 len else comb_sync ds1.

Definition is_wwrite (d : nat) (e : wev) : bool := match e with WWrite j => Nat.eqb j d | _ => false end.
Definition is_wsync (d : nat) (e : wev) : bool := match e with WSync j => Nat.eqb j d | _ => false end.
Definition wcount (f : wev -> bool) (E : list wev) : nat := length (filter f E).

Definition dec_beh (s : sx) : wbeh := mkW (sx_n (sx_nth s 0)) (sx_bool (sx_nth s 1)) (sx_bool (sx_nth s 2)).
Definition dec_behs (s : sx) : list wbeh := map dec_beh (sx_l s).
(* per destination: (Writes received with the full payload, Syncs received) during the step *)
Definition dest_stats (E : list wev) (ds : list (wbeh * nat)) : sx :=
  SL (map (fun p => SL [of_nat (wcount (is_wwrite (snd p)) E); of_nat (wcount (is_wsync (snd p)) E)]) ds).
Definition obs_step (r : wres) (ds1 ds2 : list (wbeh * nat)) : sx :=
  SL [dest_stats (wr_evs r) ds1; dest_stats (wr_evs r) ds2; of_nat (wr_n r); SL (map of_nat (wr_errs r))].
Definition model_step (mode : Z) (cl : bool) (len : nat) (st : sx) : sx :=
  let b1 := dec_behs (sx_nth st 1) in
  let b2 := dec_behs (sx_nth st 2) in
  let ds1 := number 0 b1 in
  let ds2 := number (length b1) b2 in
  obs_step (step_res mode cl len (sx_z (sx_nth st 0)) ds1 ds2) ds1 ds2.
Definition model_multi (i : sx) : sx :=
  SL (map (model_step (sx_z (sx_nth i 1)) (sx_bool (sx_nth i 2)) (sx_n (sx_nth i 3))) (sx_l (sx_nth i 6))).

(* the oracle, written without the loop: whatever the other destinations answer, and
   whatever happened in the steps before,
     - every destination of the writer receives every Write once, with the whole payload,
       and every Sync once;
     - the returned error names exactly the destinations that failed, in order;
     - the returned byte count is the smallest any destination reported;
     - for a built logger: every output destination receives every entry once; every
       error-output destination receives one line (and one Sync) for the caller that
       cannot be found and one for an entry some output destination rejected, naming
       every output destination that rejected it; Sync reaches every output destination. *)
Definition all_stat {A} (w s : nat) (l : list A) : sx := SL (map (fun _ => SL [of_nat w; of_nat s]) l).
Definition failing (f : wbeh -> bool) (l : list wbeh) : list sx :=
  map (fun p => of_nat (snd p)) (filter (fun p => f (fst p)) (number 0 l)).
Definition expect_step (mode : Z) (cl : bool) (len : nat) (st : sx) : sx :=
  let t := sx_z (sx_nth st 0) in
  let b1 := dec_behs (sx_nth st 1) in
  let b2 := dec_behs (sx_nth st 2) in
  if Z.eqb t 0 then
    if Z.eqb mode 2 then
      let k := ((if cl then 1 else 0) + (if existsb w_err b1 then 1 else 0))%nat in
      SL [all_stat 1 0 b1; all_stat k k b2; SZ 0; SL (if is_nil b2 then [] else failing w_err b1)]
    else
      SL [all_stat 1 0 b1; all_stat 0 0 b2; of_nat (fold_right Nat.min len (map w_n b1)); SL (failing w_err b1)]
  else
    SL [all_stat 0 1 b1; all_stat 0 0 b2; SZ 0; SL (failing w_serr b1)].
Definition spec_multi (i o : sx) : bool :=
  negb (is_blocked o)
  && sx_eqb o (SL (map (expect_step (sx_z (sx_nth i 1)) (sx_bool (sx_nth i 2)) (sx_n (sx_nth i 3))) (sx_l (sx_nth i 6)))).
(* io.Writer: 0 <= n <= len(p) *)
Definition wf_step (len : nat) (st : sx) : bool :=
  forallb (fun b => Nat.leb (w_n b) len) (dec_behs (sx_nth st 1)).

(* --- kind 7: overlapping registrations of one name --- *)
(* G goroutines released from a barrier call RegisterSink (which = 0) / RegisterEncoder
   (which = 1) at the same time, goroutine g with the name n_g and a factory / constructor
   of its own, number id_g >= 2.  Go's RegisterSink / RegisterEncoder hold the registry
   mutex from the duplicate check to the insert, so one call is one atomic step of the
   functions [register] / [register_enc] above and an execution of the G overlapping calls
   is a list of such steps: some interleaving (permutation) of the G calls.
   wire: (7 which ops), ops = ((name id) ...) the calls in the order the harness proposes
   as the interleaving (the calls that returned nil first: if any interleaving explains
   what was seen, this one does).  Observation: ((code ...) (look ...) keys), per call the
   class of the error it returned (rres_code), per call what its name resolves to once all
   calls have returned (through zap.Open / Config.Build: the number of the factory or
   constructor that ran, 0/1 for a built-in, -1 for none), and the registered names. *)
Definition dec_cops (s : sx) : list (bytes * nat) :=
  map (fun o => (sx_b (sx_nth o 0), sx_n (sx_nth o 1))) (sx_l s).
Fixpoint conc_sreg (r : sreg) (ops : list (bytes * nat)) : list Z * sreg :=
  match ops with
  | [] => ([], r)
  | op :: t => let cr := register r (fst op) (snd op) in
               let rest := conc_sreg (snd cr) t in
               (rres_code (fst cr) :: fst rest, snd rest)
  end.
Definition enc_val (op : bytes * nat) : bytes * (nat * bool) := (fst op, (snd op, true)).
Fixpoint conc_ereg (r : ereg) (ops : list (bytes * nat)) : list Z * ereg :=
  match ops with
  | [] => ([], r)
  | op :: t => let cr := register_enc r (fst op) (snd op, true) in
               let rest := conc_ereg (snd cr) t in
               (rres_code (fst cr) :: fst rest, snd rest)
  end.
Definition zid (o : option nat) : Z := match o with Some id => Z.of_nat id | None => (-1)%Z end.
(* Open(name + "://h/x"): newSink looks the lower-cased scheme up *)
Definition look_s (r : sreg) (n : bytes) : Z :=
  if is_nil n || negb (valid_scheme n) then (-1)%Z else zid (lookup r (ascii_lower n)).
(* Config{Encoding: name}.Build(): newEncoder *)
Definition look_e (r : ereg) (n : bytes) : Z :=
  if is_nil n then (-1)%Z else zid (option_map fst (lookup r n)).
Definition obs_conc (codes : list Z) (looks : list Z) (ks : list bytes) : sx :=
  SL [SL (map SZ codes); SL (map SZ looks); enc_keys ks].
Definition model_conc (i : sx) : sx :=
  let ops := dec_cops (sx_nth i 2) in
  if Z.eqb (sx_z (sx_nth i 1)) 0 then
    let res := conc_sreg sreg0 ops in
    obs_conc (fst res) (map (fun op => look_s (snd res) (fst op)) ops) (keys (snd res))
  else
    let res := conc_ereg ereg0 ops in
    obs_conc (fst res) (map (fun op => look_e (snd res) (fst op)) ops) (keys (snd res)).

(* specification: registration is atomic.  Whatever the interleaving, a name is accepted at
   most once: with the calls listed in an order that explains the results, a call is
   rejected as "already registered" exactly if a built-in or an EARLIER call of the list
   designates the same key (scheme up to ASCII case / exact encoder name), empty and
   malformed names are rejected as such, and afterwards every name resolves to the factory
   of the first call of its key - the only one that was accepted. *)
Definition spec_ereg_cls (encs : list (bytes * (nat * bool))) (name : bytes) : Z :=
  if is_nil name then 1%Z else match spec_enc encs name with Some _ => 3%Z | None => 0%Z end.
Fixpoint spec_conc_s (names : list (bytes * nat)) (ks : list bytes) (ops : list (bytes * nat)) : list Z * list bytes :=
  match ops with
  | [] => ([], ks)
  | op :: t => let c := spec_reg_cls names (fst op) in
               let rest := spec_conc_s (names ++ [op]) (if Z.eqb c 0 then ks ++ [ascii_lower (fst op)] else ks) t in
               (c :: fst rest, snd rest)
  end.
Fixpoint spec_conc_e (encs : list (bytes * (nat * bool))) (ks : list bytes) (ops : list (bytes * nat)) : list Z * list bytes :=
  match ops with
  | [] => ([], ks)
  | op :: t => let c := spec_ereg_cls encs (fst op) in
               let rest := spec_conc_e (encs ++ [enc_val op]) (if Z.eqb c 0 then ks ++ [fst op] else ks) t in
               (c :: fst rest, snd rest)
  end.
Definition spec_look_s (ops : list (bytes * nat)) (n : bytes) : Z :=
  if is_nil n || negb (valid_scheme n) then (-1)%Z else zid (spec_factory ops (ascii_lower n)).
Definition spec_look_e (ops : list (bytes * nat)) (n : bytes) : Z :=
  if is_nil n then (-1)%Z else zid (option_map fst (spec_enc (map enc_val ops) n)).
Definition spec_conc (i o : sx) : bool :=
  let ops := dec_cops (sx_nth i 2) in
  if Z.eqb (sx_z (sx_nth i 1)) 0 then
    let e := spec_conc_s [] [s_file] ops in
    sx_eqb o (obs_conc (fst e) (map (fun op => spec_look_s ops (fst op)) ops) (snd e))
  else
    let e := spec_conc_e [] [s_console; s_json] ops in
    sx_eqb o (obs_conc (fst e) (map (fun op => spec_look_e ops (fst op)) ops) (snd e)).

(* --- dispatch on the case kind --- *)
Definition model (i : sx) : sx :=
  match sx_z (sx_nth i 0) with
  | 0%Z => model_open i
  | 1%Z => model_build i
  | 2%Z => model_redirect i
  | 3%Z => model_sreg i
  | 4%Z => model_ereg i
  | 5%Z => model_mix i
  | 6%Z => model_multi i
  | 7%Z => model_conc i
  | _ => SL []
  end.
(* the pre-fix code, for the replay of the [_refuted] witnesses *)
Definition model_orig (i : sx) : sx :=
  match sx_z (sx_nth i 0) with
  | 0%Z => model_open i
  | 1%Z => model_build_with build_orig i
  | 2%Z => model_redirect_with redirect_orig i
  | 3%Z => model_sreg_orig i
  | 4%Z => model_ereg i
  | _ => SL []
  end.
Definition spec (i o : sx) : bool :=
  match sx_z (sx_nth i 0) with
  | 0%Z => spec_open i o
  | 1%Z => spec_build i o
  | 2%Z => spec_redirect i o
  | 3%Z => spec_sreg i o
  | 4%Z => spec_ereg i o
  | 5%Z => spec_mix i o
  | 6%Z => spec_multi i o
  | 7%Z => spec_conc i o
  | _ => false
  end.
(* the cases whose observation is a list with one entry per operation *)
Definition history_kind (i : sx) : bool :=
  match sx_z (sx_nth i 0) with 3%Z | 4%Z | 5%Z => true | _ => false end.

(* well-formed cases: a known kind, and the net/url oracle's scheme is the written
   scheme lower-cased (monitored by the harness; an oracle assumption) *)
Definition wf_purl (u : purl) : bool :=
  u_abs u || u_perr u || bytes_eqb (u_scheme u) (ascii_lower (get_scheme (u_raw u))).
Definition wf_op3 (op : sx) : bool :=
  Z.eqb (sx_z (sx_nth op 0)) 0 || wf_purl (dec_purl (sx_nth op 1)).
Definition wf_op5 (op : sx) : bool :=
  if Z.eqb (tag op) 0 then true
  else if Z.eqb (tag op) 1 then forallb wf_purl (map dec_purl (sx_l (sx_nth op 1)))
  else if Z.eqb (tag op) 2 then true
  else if Z.eqb (tag op) 3 then
    forallb wf_purl (map dec_purl (sx_l (sx_nth op 5))) && forallb wf_purl (map dec_purl (sx_l (sx_nth op 6)))
  else Z.eqb (tag op) 4.
Definition wf (i : sx) : bool :=
  match sx_z (sx_nth i 0) with
  | 0%Z => forallb wf_purl (map dec_purl (sx_l (sx_nth i 2)))
  | 1%Z => forallb wf_purl (map dec_purl (sx_l (sx_nth i 7))) && forallb wf_purl (map dec_purl (sx_l (sx_nth i 8)))
  | 2%Z => true
  | 3%Z => forallb wf_op3 (sx_l (sx_nth i 1))
  | 4%Z => true
  | 5%Z => forallb wf_op5 (sx_l (sx_nth i 1))
  | 6%Z => forallb (wf_step (sx_n (sx_nth i 3))) (sx_l (sx_nth i 6))
  | 7%Z => true
  | _ => false
  end.

(* Model of zapio.Writer (zapio/writer.go), following the Go text:
   Write -> loop { writeLine }, writeLine -> IndexByte / fast path / flush(true),
   Sync = Close = flush(false), log -> Logger.Check (nil when the level is disabled).
   No proofs in this file. *)
From Coq Require Import List ZArith Bool Lia.
From Coq.Strings Require Import Byte.
Import ListNotations.
From Zap Require Import Base.Wire.

Definition nl : byte := x0a.
Definition is_nil {A} (l : list A) : bool := match l with [] => true | _ => false end.

(* bytes.IndexByte(line, '\n') *)
Fixpoint index_nl (bs : bytes) : option nat :=
  match bs with
  | [] => None
  | b :: r => if Byte.eqb b nl then Some 0 else option_map S (index_nl r)
  end.

(* Writer state: the level gate (Log.Core().Enabled(Level), which an AtomicLevel
   can change between calls) and Writer.buff. *)
Record st := { enabled : bool; buff : bytes }.

(* w.log(b): a message reaches the core iff Check returns non-nil *)
Definition log (en : bool) (b : bytes) : list bytes := if en then [b] else [].

(* flush(allowEmpty) *)
Definition flush (en : bool) (allow_empty : bool) (bf : bytes) : bytes * list bytes :=
  ([], if allow_empty || negb (is_nil bf) then log en bf else []).

(* writeLine(line) = (new buff, messages, remaining) *)
Definition write_line (en : bool) (bf line : bytes) : bytes * list bytes * bytes :=
  match index_nl line with
  | None => (bf ++ line, [], [])
  | Some idx =>
      let l := firstn idx line in
      let rem := skipn (S idx) line in
      if is_nil bf then (bf, log en l, rem)
      else let '(bf', ms) := flush en true (bf ++ l) in (bf', ms, rem)
  end.

(* for len(bs) > 0 { bs = w.writeLine(bs) } -- fuel = S (length bs) always suffices *)
Fixpoint write_loop (fuel : nat) (en : bool) (bf bs : bytes) : bytes * list bytes :=
  match fuel with
  | 0 => (bf, [])
  | S f =>
      match bs with
      | [] => (bf, [])
      | _ => let '(bf1, ms, rem) := write_line en bf bs in
             let '(bf2, ms') := write_loop f en bf1 rem in (bf2, ms ++ ms')
      end
  end.

Inductive op := W (chunk : bytes) | S_ (* Sync or Close *) | En (b : bool) (* level change *).

(* one API call: new state, messages logged, returned n (Write only) *)
Definition step (s : st) (o : op) : st * list bytes * option nat :=
  match o with
  | W c =>
      if enabled s then
        let '(bf, ms) := write_loop (S (length c)) true (buff s) c in
        ({| enabled := true; buff := bf |}, ms, Some (length c))
      else (s, [], Some (length c))
  | S_ => let '(bf, ms) := flush (enabled s) false (buff s) in
          ({| enabled := enabled s; buff := bf |}, ms, None)
  | En b => ({| enabled := b; buff := buff s |}, [], None)
  end.

Fixpoint run (s : st) (ops : list op) : st * list bytes * list nat :=
  match ops with
  | [] => (s, [], [])
  | o :: r =>
      let '(s1, ms, n) := step s o in
      let '(s2, ms', ns) := run s1 r in
      (s2, ms ++ ms', match n with Some k => k :: ns | None => ns end)
  end.

Definition init (en : bool) : st := {| enabled := en; buff := [] |}.
Definition messages (en : bool) (ops : list op) : list bytes := snd (fst (run (init en) ops)).
Definition returns (en : bool) (ops : list op) : list nat := snd (run (init en) ops).

(* ---------------- specification on the flattened stream ---------------- *)
Inductive sym := B (b : byte) | SYNC | EN (b : bool).
Definition flat1 (o : op) : list sym :=
  match o with W c => map B c | S_ => [SYNC] | En b => [EN b] end.
Definition flatten (ops : list op) : list sym := concat (map flat1 ops).

(* the lines of the stream: a newline ends the current line (even when empty);
   SYNC ends it iff non-empty; bytes written while the level is disabled are
   not part of the stream, and a line ended while disabled is not logged. *)
Fixpoint lines (en : bool) (cur : bytes) (s : list sym) : list bytes :=
  match s with
  | [] => []
  | B b :: r =>
      if en then (if Byte.eqb b nl then cur :: lines en [] r else lines en (cur ++ [b]) r)
      else lines en cur r
  | SYNC :: r =>
      if en then (if is_nil cur then lines en [] r else cur :: lines en [] r)
      else lines en [] r
  | EN b :: r => lines b cur r
  end.
Fixpoint pending (en : bool) (cur : bytes) (s : list sym) : bytes :=
  match s with
  | [] => cur
  | B b :: r => if en then (if Byte.eqb b nl then pending en [] r else pending en (cur ++ [b]) r)
                else pending en cur r
  | SYNC :: r => pending en [] r
  | EN b :: r => pending b cur r
  end.
Fixpoint final_en (en : bool) (s : list sym) : bool :=
  match s with [] => en | EN b :: r => final_en b r | _ :: r => final_en en r end.

(* ---------------- wire ---------------- *)
(* input  = (en0 (op ...))   op = (0 #bytes) | (1) | (2 b)
   observation = ((msg ...) (n ...))
   [model_ref]/[spec_ref] are the wire functions written with the definitions above;
   the driver runs [model]/[spec] (end of file), the same functions written with
   tail-recursive, linear-time primitives so that streams with lines of 1 MiB and
   more can be judged (C17/Proofs.v: model = model_ref, spec = spec_ref). *)
Definition dec_op (s : sx) : op :=
  match sx_z (sx_nth s 0) with
  | 0%Z => W (sx_b (sx_nth s 1))
  | 1%Z => S_
  | _ => En (sx_bool (sx_nth s 1))
  end.
Definition dec_case (i : sx) : bool * list op := (sx_bool (sx_nth i 0), map dec_op (sx_l (sx_nth i 1))).
Definition model_ref (i : sx) : sx :=
  let '(en, ops) := dec_case i in
  SL [of_blist (messages en ops); SL (map of_nat (returns en ops))].
(* the property's oracle, independent of the model: messages = lines of the
   flattened stream; every Write returned len(p) *)
Definition write_lens (ops : list op) : list nat :=
  concat (map (fun o => match o with W c => [length c] | _ => [] end) ops).
Definition spec_ref (i o : sx) : bool :=
  let '(en, ops) := dec_case i in
  sx_eqb (sx_nth o 0) (of_blist (lines en [] (flatten ops))) &&
  sx_eqb (sx_nth o 1) (SL (map of_nat (write_lens ops))).

(* ---------------- the same, executable on very long lines ----------------
   The definitions above are the reference (they follow the Go text / define the
   property).  Extracted as they stand they recurse as deep as a line is long
   ([++], [firstn], [length], [Z.of_nat], [map B]) and [lines] is quadratic in the
   line length ([cur ++ [b]]), so a 70 KiB line takes minutes and a 1 MiB line
   overflows the stack.  Below: the same functions on accumulators.  Proofs.v
   proves them equal to the reference, for all inputs. *)
Definition app_tr {A} (a b : list A) : list A := rev_append (rev_append a []) b.
Fixpoint len_z (acc : Z) (l : bytes) : Z :=
  match l with [] => acc | _ :: r => len_z (Z.succ acc) r end.
Fixpoint len_n (acc : nat) (l : bytes) : nat :=
  match l with [] => acc | _ :: r => len_n (S acc) r end.

(* idx := IndexByte(line, '\n'); line[:idx], line[idx+1:] in one pass *)
Fixpoint split_nl (racc : bytes) (bs : bytes) : option (bytes * bytes) :=
  match bs with
  | [] => None
  | b :: r => if Byte.eqb b nl then Some (rev_append racc [], r) else split_nl (b :: racc) r
  end.

Definition write_line_f (en : bool) (bf line : bytes) : bytes * list bytes * bytes :=
  match split_nl [] line with
  | None => (app_tr bf line, [], [])
  | Some (l, rem) =>
      if is_nil bf then (bf, log en l, rem)
      else let '(bf', ms) := flush en true (app_tr bf l) in (bf', ms, rem)
  end.

Fixpoint write_loop_f (fuel : nat) (en : bool) (bf bs : bytes) (racc : list bytes) : bytes * list bytes :=
  match fuel with
  | 0 => (bf, rev_append racc [])
  | S f =>
      match bs with
      | [] => (bf, rev_append racc [])
      | _ => let '(bf1, ms, rem) := write_line_f en bf bs in
             write_loop_f f en bf1 rem (rev_append ms racc)
      end
  end.

Definition step_f (s : st) (o : op) : st * list bytes * option Z :=
  match o with
  | W c =>
      if enabled s then
        let '(bf, ms) := write_loop_f (S (len_n 0 c)) true (buff s) c [] in
        ({| enabled := true; buff := bf |}, ms, Some (len_z 0 c))
      else (s, [], Some (len_z 0 c))
  | S_ => let '(bf, ms) := flush (enabled s) false (buff s) in
          ({| enabled := enabled s; buff := bf |}, ms, None)
  | En b => ({| enabled := b; buff := buff s |}, [], None)
  end.

Fixpoint run_f (s : st) (ops : list op) : st * list bytes * list Z :=
  match ops with
  | [] => (s, [], [])
  | o :: r =>
      let '(s1, ms, n) := step_f s o in
      let '(s2, ms', ns) := run_f s1 r in
      (s2, app_tr ms ms', match n with Some k => k :: ns | None => ns end)
  end.

Definition model (i : sx) : sx :=
  let '(en, ops) := dec_case i in
  let '(_, ms, ns) := run_f (init en) ops in
  SL [of_blist ms; SL (map SZ ns)].

(* [lines] with the current line and the output kept in reverse *)
Fixpoint scan_bytes (rcur : bytes) (acc : list bytes) (c : bytes) : bytes * list bytes :=
  match c with
  | [] => (rcur, acc)
  | b :: r => if Byte.eqb b nl then scan_bytes [] (rev_append rcur [] :: acc) r
              else scan_bytes (b :: rcur) acc r
  end.
Fixpoint scan_ops (en : bool) (rcur : bytes) (acc : list bytes) (ops : list op) : list bytes :=
  match ops with
  | [] => rev_append acc []
  | W c :: r =>
      if en then let '(rc, a) := scan_bytes rcur acc c in scan_ops en rc a r
      else scan_ops en rcur acc r
  | S_ :: r =>
      if en then (if is_nil rcur then scan_ops en [] acc r
                  else scan_ops en [] (rev_append rcur [] :: acc) r)
      else scan_ops en [] acc r
  | En b :: r => scan_ops b rcur acc r
  end.
Definition write_lens_z (ops : list op) : list Z :=
  concat (map (fun o => match o with W c => [len_z 0 c] | _ => [] end) ops).

Definition spec (i o : sx) : bool :=
  let '(en, ops) := dec_case i in
  sx_eqb (sx_nth o 0) (of_blist (scan_ops en [] [] ops)) &&
  sx_eqb (sx_nth o 1) (SL (map SZ (write_lens_z ops))).

From Coq Require Import List ZArith Bool Lia.
From Coq.Strings Require Import Byte.
Import ListNotations.
From Zap Require Import Base.Wire C17.Model.

Lemma index_nl_none bs : index_nl bs = None -> Forall (fun b => Byte.eqb b nl = false) bs.
Proof.
  induction bs as [|b r IH]; cbn; intros H; [constructor|].
  destruct (Byte.eqb b nl) eqn:E; [discriminate|].
  destruct (index_nl r); [discriminate|]. constructor; auto.
Qed.

Lemma index_nl_some bs idx : index_nl bs = Some idx ->
  bs = firstn idx bs ++ nl :: skipn (S idx) bs /\
  Forall (fun b => Byte.eqb b nl = false) (firstn idx bs) /\ idx < length bs.
Proof.
  revert idx. induction bs as [|b r IH]; cbn; intros idx H; [discriminate|].
  destruct (Byte.eqb b nl) eqn:E.
  - injection H as <-. apply byte_eqb_eq in E. subst. cbn. repeat split; [constructor|lia].
  - destruct (index_nl r) as [k|] eqn:K; [|discriminate]. injection H as <-.
    destruct (IH k eq_refl) as (H1 & H2 & H3). cbn [firstn skipn app].
    repeat split; [f_equal; exact H1|constructor; auto|cbn; lia].
Qed.

(* bytes without newline, while enabled, just extend the current line *)
Lemma lines_nonl bs : Forall (fun b => Byte.eqb b nl = false) bs ->
  forall cur rest, lines true cur (map B bs ++ rest) = lines true (cur ++ bs) rest.
Proof.
  induction 1 as [|b r Hb _ IH]; intros cur rest; cbn [map app lines].
  - now rewrite app_nil_r.
  - rewrite Hb, IH, <- app_assoc. reflexivity.
Qed.
Lemma pending_nonl bs : Forall (fun b => Byte.eqb b nl = false) bs ->
  forall cur rest, pending true cur (map B bs ++ rest) = pending true (cur ++ bs) rest.
Proof.
  induction 1 as [|b r Hb _ IH]; intros cur rest; cbn [map app pending].
  - now rewrite app_nil_r.
  - rewrite Hb, IH, <- app_assoc. reflexivity.
Qed.

Lemma byte_eqb_refl b : Byte.eqb b b = true.
Proof. now apply byte_eqb_eq. Qed.

(* the Write loop, enabled: messages are the lines completed inside the chunk,
   the new buffer is the pending partial line *)
Lemma write_loop_spec fuel : forall bf bs rest, length bs < fuel ->
  lines true bf (map B bs ++ rest) =
    snd (write_loop fuel true bf bs) ++ lines true (fst (write_loop fuel true bf bs)) rest.
Proof.
  induction fuel as [|f IH]; intros bf bs rest Hl; [lia|].
  cbn [write_loop]. destruct bs as [|b0 r0] eqn:Ebs; [reflexivity|]. rewrite <- Ebs in *.
  assert (Hne : bs <> []) by (subst; discriminate). clear Ebs.
  unfold write_line. destruct (index_nl bs) as [idx|] eqn:Ei.
  - destruct (index_nl_some bs idx Ei) as (Hsplit & Hno & Hlt).
    set (l := firstn idx bs) in *. set (rem := skipn (S idx) bs) in *.
    assert (Hrem : length rem < f).
    { unfold rem. rewrite skipn_length. lia. }
    assert (Hl1 : lines true bf (map B bs ++ rest) = (bf ++ l) :: lines true [] (map B rem ++ rest)).
    { rewrite Hsplit at 1. rewrite map_app, <- app_assoc. rewrite (lines_nonl l Hno).
      cbn [map app lines]. now rewrite byte_eqb_refl. }
    rewrite Hl1. destruct (is_nil bf) eqn:Eb.
    + destruct bf; [|discriminate]. cbn [app log].
      specialize (IH [] rem rest Hrem). destruct (write_loop f true [] rem) as [bf2 ms']. cbn [fst snd] in *.
      now rewrite IH.
    + unfold flush. cbn [orb log].
      specialize (IH [] rem rest Hrem). destruct (write_loop f true [] rem) as [bf2 ms']. cbn [fst snd] in *.
      now rewrite IH.
  - pose proof (index_nl_none bs Ei) as Hno. rewrite (lines_nonl bs Hno).
    destruct f as [|f']; cbn [write_loop fst snd app]; reflexivity.
Qed.

Lemma lines_disabled_bytes bs : forall cur rest, lines false cur (map B bs ++ rest) = lines false cur rest.
Proof. induction bs as [|b r IH]; intros; cbn [map app lines]; auto. Qed.

(* one step, any level state *)
Lemma step_spec s o rest :
  lines (enabled s) (buff s) (flat1 o ++ rest) =
    snd (fst (step s o)) ++ lines (enabled (fst (fst (step s o)))) (buff (fst (fst (step s o)))) rest.
Proof.
  destruct s as [en bf]. destruct o as [c| |b]; cbn [step flat1 enabled buff].
  - destruct en.
    + pose proof (write_loop_spec (S (length c)) bf c rest (Nat.lt_succ_diag_r _)) as H.
      destruct (write_loop (S (length c)) true bf c) as [bf' ms]. cbn [fst snd enabled buff] in *. exact H.
    + cbn [fst snd enabled buff app]. apply lines_disabled_bytes.
  - unfold flush. cbn [orb app lines fst snd enabled buff]. destruct en.
    + destruct bf; cbn [is_nil negb log app]; reflexivity.
    + destruct (negb (is_nil bf)); reflexivity.
  - reflexivity.
Qed.

Lemma run_spec ops : forall s rest,
  lines (enabled s) (buff s) (flatten ops ++ rest) =
    snd (fst (run s ops)) ++ lines (enabled (fst (fst (run s ops)))) (buff (fst (fst (run s ops)))) rest.
Proof.
  induction ops as [|o r IH]; intros s rest; [reflexivity|].
  unfold flatten; cbn [map concat run]. fold (flatten r). rewrite <- app_assoc.
  rewrite step_spec. destruct (step s o) as [[s1 ms] n]. cbn [fst snd].
  rewrite IH. destruct (run s1 r) as [[s2 ms'] ns]. cbn [fst snd]. now rewrite app_assoc.
Qed.

(* C17_lines: for every operation history (any chunking, Sync and level changes
   anywhere), the messages logged are exactly the lines of the flattened stream *)
Theorem lines_thm en ops : messages en ops = lines en [] (flatten ops).
Proof.
  unfold messages. pose proof (run_spec ops (init en) []) as H. rewrite app_nil_r in H.
  cbn [init enabled buff lines] in H. now rewrite app_nil_r in H.
Qed.

(* chunking independence: only the flattened stream matters *)
Corollary chunking_thm en ops1 ops2 : flatten ops1 = flatten ops2 -> messages en ops1 = messages en ops2.
Proof. intros H. now rewrite !lines_thm, H. Qed.

(* every Write reports all bytes consumed *)
Lemma step_returns s c : snd (step s (W c)) = Some (length c).
Proof. unfold step. destruct (enabled s); [destruct (write_loop (S (length c)) true (buff s) c)|]; reflexivity. Qed.

Theorem returns_thm ops : forall s, snd (run s ops) = write_lens ops.
Proof.
  induction ops as [|o r IH]; intros s; [reflexivity|]. cbn [run].
  pose proof (step_returns s) as Hw. destruct (step s o) as [[s1 ms] n] eqn:E.
  specialize (IH s1). destruct (run s1 r) as [[s2 ms'] ns]. cbn [snd] in *.
  unfold write_lens in *; cbn [map concat]. destruct o as [c| |b].
  - specialize (Hw c). rewrite E in Hw. cbn in Hw. subst n. cbn. now rewrite IH.
  - cbn in E. injection E as <- <- <-. cbn. exact IH.
  - cbn in E. injection E as <- <- <-. cbn. exact IH.
Qed.

(* closing emits everything: after a final Sync/Close nothing remains buffered *)
Lemma step_sync_empties s : buff (fst (fst (step s S_))) = [].
Proof. reflexivity. Qed.
Theorem close_empties en ops : buff (fst (fst (run (init en) (ops ++ [S_])))) = [].
Proof.
  generalize (init en). induction ops as [|o r IH]; intros s; cbn [app run].
  - cbn. reflexivity.
  - destruct (step s o) as [[s1 ms] n]. specialize (IH s1).
    destruct (run s1 (r ++ [S_])) as [[s2 ms'] ns]. exact IH.
Qed.

(* nothing logged, nothing buffered while the level stays disabled *)
Fixpoint no_enable (ops : list op) : bool :=
  match ops with [] => true | En true :: _ => false | _ :: r => no_enable r end.
Theorem disabled_thm ops : no_enable ops = true ->
  messages false ops = [] /\ buff (fst (fst (run (init false) ops))) = [].
Proof.
  unfold messages. generalize (eq_refl : buff (init false) = []). generalize (eq_refl : enabled (init false) = false).
  generalize (init false). induction ops as [|o r IH]; intros s He Hb Hn; [cbn; auto|].
  cbn [run]. destruct o as [c| |[|]]; cbn [no_enable] in Hn; try discriminate; cbn [step]; rewrite ?He.
  - destruct (IH s He Hb Hn) as [H1 H2]. destruct (run s r) as [[s2 ms'] ns]. cbn [fst snd] in *. auto.
  - unfold flush. rewrite Hb. cbn [is_nil negb orb].
    destruct (IH {| enabled := false; buff := [] |} eq_refl eq_refl Hn) as [H1 H2].
    destruct (run _ r) as [[s2 ms'] ns]. cbn [fst snd] in *. auto.
  - destruct (IH {| enabled := false; buff := buff s |} eq_refl Hb Hn) as [H1 H2].
    destruct (run _ r) as [[s2 ms'] ns]. cbn [fst snd] in *. auto.
Qed.

(* no loss / duplication / reordering: with the level enabled throughout and no
   Sync inside, re-joining the messages with newlines reproduces the stream *)
Fixpoint join_nl (ms : list bytes) : bytes :=
  match ms with [] => [] | m :: r => m ++ nl :: join_nl r end.
Definition stream (ops : list op) : bytes :=
  concat (map (fun o => match o with W c => c | _ => [] end) ops).
Fixpoint only_writes (ops : list op) : bool :=
  match ops with [] => true | W _ :: r => only_writes r | _ => false end.

Lemma lines_bytes_join bs : forall cur,
  cur ++ bs = join_nl (lines true cur (map B bs)) ++ pending true cur (map B bs).
Proof.
  induction bs as [|b r IH]; intros cur; cbn [map lines pending join_nl app].
  - now rewrite app_nil_r.
  - destruct (Byte.eqb b nl) eqn:E.
    + apply byte_eqb_eq in E. subst b. cbn [join_nl]. rewrite <- app_assoc. cbn [app].
      specialize (IH []). cbn [app] in IH. now rewrite <- IH.
    + rewrite <- IH, <- app_assoc. reflexivity.
Qed.
Lemma flatten_only_writes ops : only_writes ops = true -> flatten ops = map B (stream ops).
Proof.
  induction ops as [|o r IH]; [reflexivity|]. destruct o; cbn [only_writes]; try discriminate.
  intros H. unfold flatten, stream in *. cbn [map concat flat1]. rewrite map_app. now rewrite IH.
Qed.
Lemma lines_snoc_sync s : forall en cur, lines en cur (s ++ [SYNC]) =
  lines en cur s ++ (if final_en en s && negb (is_nil (pending en cur s)) then [pending en cur s] else []).
Proof.
  induction s as [|x r IH]; intros en cur.
  - cbn. destruct en; destruct cur; reflexivity.
  - destruct x as [b| |b]; cbn [app lines pending final_en].
    + destruct en; [destruct (Byte.eqb b nl)|]; cbn [app]; rewrite IH; reflexivity.
    + destruct en; [destruct (is_nil cur)|]; cbn [app]; rewrite IH; reflexivity.
    + apply IH.
Qed.
Lemma final_en_bytes bs en : final_en en (map B bs) = en.
Proof. induction bs; cbn; auto. Qed.

Theorem no_loss_thm ops : only_writes ops = true ->
  let ms := messages true (ops ++ [S_]) in
  let p := pending true [] (map B (stream ops)) in
  stream ops = join_nl (lines true [] (map B (stream ops))) ++ p /\
  ms = lines true [] (map B (stream ops)) ++ (if is_nil p then [] else [p]).
Proof.
  intros Ho ms p. split.
  - exact (lines_bytes_join (stream ops) []).
  - unfold ms. rewrite lines_thm. unfold flatten. rewrite map_app, concat_app. fold (flatten ops).
    cbn [map concat flat1 app]. rewrite (flatten_only_writes ops Ho), lines_snoc_sync, final_en_bytes.
    cbn [andb]. fold p. destruct (is_nil p); reflexivity.
Qed.

(* wire-level statement: the oracle accepts what the model observes, for every case *)
Lemma sx_eqb_refl s : sx_eqb s s = true.
Proof.
  revert s. fix IH 1. intros [z|b|l]; cbn.
  - apply Z.eqb_refl.
  - now apply bytes_eqb_eq.
  - induction l as [|a r IHr]; [reflexivity|]. now rewrite IH, IHr.
Qed.
Lemma spec_model_ref i : spec_ref i (model_ref i) = true.
Proof.
  unfold spec_ref, model_ref. destruct (dec_case i) as [en ops]. unfold sx_nth. cbn [sx_l nth].
  rewrite lines_thm, sx_eqb_refl. cbn [andb]. unfold returns. rewrite returns_thm. apply sx_eqb_refl.
Qed.

(* ---------------- the accumulator versions run by the driver ----------------
   [model] and [spec] (tail-recursive, linear time: needed to judge streams whose
   lines are far longer than any buffer threshold) are the reference functions. *)
Lemma rev_tr_eq {A} (l : list A) : rev_append l [] = rev l.
Proof. now rewrite rev_append_rev, app_nil_r. Qed.
Lemma app_tr_eq {A} (a b : list A) : app_tr a b = a ++ b.
Proof. unfold app_tr. now rewrite rev_append_rev, rev_tr_eq, rev_involutive. Qed.
Lemma len_z_eq l : forall acc, len_z acc l = (acc + Z.of_nat (length l))%Z.
Proof. induction l as [|b r IH]; intros acc; cbn [len_z length]; [lia|]. rewrite IH. lia. Qed.
Lemma len_n_eq l : forall acc, len_n acc l = acc + length l.
Proof. induction l as [|b r IH]; intros acc; cbn [len_n length]; [lia|]. rewrite IH. lia. Qed.

Lemma split_nl_eq bs : forall racc,
  split_nl racc bs = match index_nl bs with
                     | None => None
                     | Some idx => Some (rev racc ++ firstn idx bs, skipn (S idx) bs)
                     end.
Proof.
  induction bs as [|b r IH]; intros racc; cbn [split_nl index_nl]; [reflexivity|].
  destruct (Byte.eqb b nl).
  - cbn [firstn skipn]. now rewrite rev_tr_eq, app_nil_r.
  - rewrite IH. destruct (index_nl r) as [k|]; cbn [option_map]; [|reflexivity].
    cbn [rev firstn skipn]. now rewrite <- app_assoc.
Qed.

Lemma write_line_f_eq en bf line : write_line_f en bf line = write_line en bf line.
Proof.
  unfold write_line_f, write_line. rewrite split_nl_eq. cbn [rev app].
  destruct (index_nl line) as [idx|]; rewrite ?app_tr_eq; reflexivity.
Qed.

Lemma write_loop_f_eq fuel : forall en bf bs racc,
  write_loop_f fuel en bf bs racc =
    (fst (write_loop fuel en bf bs), rev racc ++ snd (write_loop fuel en bf bs)).
Proof.
  induction fuel as [|f IH]; intros en bf bs racc; cbn [write_loop_f write_loop].
  - cbn [fst snd]. now rewrite rev_tr_eq, app_nil_r.
  - destruct bs as [|b0 r0].
    + cbn [fst snd]. now rewrite rev_tr_eq, app_nil_r.
    + rewrite write_line_f_eq. destruct (write_line en bf (b0 :: r0)) as [[bf1 ms] rem].
      rewrite IH. destruct (write_loop f en bf1 rem) as [bf2 ms']. cbn [fst snd].
      now rewrite rev_append_rev, rev_app_distr, rev_involutive, <- app_assoc.
Qed.

Definition opt_z (n : option nat) : option Z := option_map Z.of_nat n.
Lemma step_f_eq s o :
  step_f s o = (fst (fst (step s o)), snd (fst (step s o)), opt_z (snd (step s o))).
Proof.
  destruct o as [c| |b]; cbn [step_f step].
  - destruct (enabled s).
    + rewrite write_loop_f_eq, len_n_eq, len_z_eq. cbn [rev app plus].
      destruct (write_loop (S (length c)) true (buff s) c) as [bf ms]. reflexivity.
    + rewrite len_z_eq. reflexivity.
  - destruct (flush (enabled s) false (buff s)) as [bf ms]. reflexivity.
  - reflexivity.
Qed.

Lemma run_f_eq ops : forall s,
  run_f s ops = (fst (fst (run s ops)), snd (fst (run s ops)), map Z.of_nat (snd (run s ops))).
Proof.
  induction ops as [|o r IH]; intros s; cbn [run_f run]; [reflexivity|].
  rewrite step_f_eq. destruct (step s o) as [[s1 ms] n]. cbn [fst snd].
  rewrite IH. destruct (run s1 r) as [[s2 ms'] ns]. cbn [fst snd].
  rewrite app_tr_eq. destruct n; reflexivity.
Qed.

Lemma map_SZ_of_nat ns : map SZ (map Z.of_nat ns) = map of_nat ns.
Proof. now rewrite map_map. Qed.

Theorem model_fast_thm i : model i = model_ref i.
Proof.
  unfold model, model_ref, messages, returns. destruct (dec_case i) as [en ops].
  rewrite run_f_eq. destruct (run (init en) ops) as [[s ms] ns]. cbn [fst snd].
  now rewrite map_SZ_of_nat.
Qed.

Lemma is_nil_rev {A} (l : list A) : is_nil (rev l) = is_nil l.
Proof. destruct l as [|a r]; [reflexivity|]. cbn [rev is_nil]. destruct (rev r); reflexivity. Qed.

Lemma scan_bytes_eq c : forall rcur acc rest,
  rev (snd (scan_bytes rcur acc c)) ++ lines true (rev (fst (scan_bytes rcur acc c))) rest =
    rev acc ++ lines true (rev rcur) (map B c ++ rest).
Proof.
  induction c as [|b r IH]; intros rcur acc rest; cbn [scan_bytes map app lines fst snd]; [reflexivity|].
  destruct (Byte.eqb b nl).
  - rewrite IH. cbn [rev]. now rewrite rev_tr_eq, <- app_assoc.
  - rewrite IH. reflexivity.
Qed.

Lemma scan_ops_eq ops : forall en rcur acc,
  scan_ops en rcur acc ops = rev acc ++ lines en (rev rcur) (flatten ops).
Proof.
  induction ops as [|o r IH]; intros en rcur acc.
  - cbn. now rewrite rev_tr_eq, app_nil_r.
  - unfold flatten. cbn [map concat]. fold (flatten r). destruct o as [c| |b]; cbn [scan_ops flat1].
    + destruct en.
      * pose proof (scan_bytes_eq c rcur acc (flatten r)) as H.
        destruct (scan_bytes rcur acc c) as [rc a]. cbn [fst snd] in H. now rewrite IH.
      * rewrite IH. now rewrite lines_disabled_bytes.
    + cbn [app lines]. destruct en.
      * rewrite is_nil_rev. destruct (is_nil rcur); rewrite IH; cbn [rev]; [reflexivity|].
        now rewrite rev_tr_eq, <- app_assoc.
      * now rewrite IH.
    + cbn [app lines]. now rewrite IH.
Qed.

Lemma write_lens_z_eq ops : write_lens_z ops = map Z.of_nat (write_lens ops).
Proof.
  unfold write_lens_z, write_lens. induction ops as [|o r IH]; [reflexivity|].
  cbn [map concat]. rewrite map_app, IH. destruct o; cbn [map app]; [|reflexivity|reflexivity].
  now rewrite len_z_eq.
Qed.

Theorem spec_fast_thm i o : spec i o = spec_ref i o.
Proof.
  unfold spec, spec_ref. destruct (dec_case i) as [en ops].
  now rewrite scan_ops_eq, write_lens_z_eq, map_SZ_of_nat.
Qed.

Lemma spec_is_lines i o : spec i o =
  (sx_eqb (sx_nth o 0) (of_blist (lines (fst (dec_case i)) [] (flatten (snd (dec_case i))))) &&
   sx_eqb (sx_nth o 1) (SL (map of_nat (write_lens (snd (dec_case i)))))).
Proof. rewrite spec_fast_thm. unfold spec_ref. destruct (dec_case i) as [en ops]. reflexivity. Qed.

Theorem spec_model i : spec i (model i) = true.
Proof. rewrite spec_fast_thm, model_fast_thm. apply spec_model_ref. Qed.

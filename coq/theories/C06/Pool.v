(* C06 — the CheckedEntry pool (zapcore/entry.go: _cePool, getCheckedEntry, putCheckedEntry, CheckedEntry.Write)
   under ARBITRARY interleaving of log calls.  Definitions only; the proofs are in C06/PoolProofs.v.

   Why it is here: the terminal action works on the *CheckedEntry it is handed - CheckWriteAction.OnWrite does
   panic(ce.Message), a custom CheckWriteHook reads ce.Level / ce.Message / ce.LoggerName and decides what to do.
   CheckedEntries are recycled through a sync.Pool, so "the panic carries the message" and "the hook gets the
   Panic / Fatal entry" are statements about WHEN an entry goes back to the pool relative to every other log call
   that runs in between: the ones another goroutine makes, and the ones the hook itself (or an entry hook, a sink, a
   marshaler of the entry) makes on its own goroutine before it looks at the entry.

   The machine.  A heap of CheckedEntries (address -> Entry fields that matter: level, message, logger name), the
   pool (the addresses in it), and any number of threads of control, each making log calls one after the other.  One
   log call is, in the order of the Go text,
       Get     getCheckedEntry(): ce := _cePool.Get(); ce.reset()      Logger.check -> ce.AddCore / ce.After on nil
       Fill    ce.Entry = ent
       Read*   for i := range ce.cores { ce.cores[i].Write(ce.Entry, fields) }      one read of ce.Entry per core
       Hook    hook := ce.after; hook.OnWrite(ce, fields)                the terminal action reads the entry
       Put     putCheckedEntry(ce)
   and a schedule (list of (thread, choice)) interleaves the steps of all threads in any way.  A log call made from
   inside a hook / sink / marshaler is a call of another thread of this machine that runs, start to end, between two
   steps of the call it is nested in - one of the interleavings.  sync.Pool.Get may hand out ANY pooled element or a
   new one (per-P caches, stealing, the GC emptying the pool): the choice that comes with every step picks the
   element, a choice past the end means New.

   [early] is the order of the last two steps: false = the code (hook, then Put); true = Put first, then the hook
   ("nothing after a hook that panics is guaranteed to run") - refuted in PoolProofs.v by a two-call schedule. *)
From Coq Require Import List ZArith Bool Arith.
From Coq.Strings Require Import Byte.
Import ListNotations.
From Zap Require Import Base.Wire.

Record entry := { en_level : Z; en_msg : bytes; en_name : bytes }.
(* ce.reset(): ce.Entry = Entry{}  (Level 0 = InfoLevel, empty message, empty logger name) *)
Definition blank : entry := {| en_level := 0%Z; en_msg := []; en_name := [] |}.

(* where a thread is in its current call; [a] = the address of the CheckedEntry it works on *)
Inductive pc :=
| PIdle                      (* between calls *)
| PGot (a : nat)             (* getCheckedEntry returned a (reset) *)
| PCores (a : nat) (k : nat) (* ce.Entry filled; k cores still to write *)
| PHook (a : nat)            (* cores written; the hook is about to look at ce *)
| PPut (a : nat)             (* the hook has looked; putCheckedEntry next *)
| PRel (a : nat).            (* [early] only: ce already back in the pool, the hook still to look at it *)

(* a call to make: the entry logged and the number of cores that accepted it *)
Record job := { j_ent : entry; j_cores : nat }.
(* a call made: the entry logged, what every core was handed, what the hook found in ce *)
Record done := { d_ent : entry; d_reads : list entry; d_saw : entry }.
Record thr := { t_pc : pc; t_todo : list job; t_reads : list entry; t_saw : entry; t_done : list done }.
Record pool := { p_heap : nat -> entry; p_free : list nat; p_next : nat; p_thr : nat -> thr }.

Definition hupd (h : nat -> entry) (a : nat) (e : entry) : nat -> entry := fun b => if Nat.eqb b a then e else h b.
Definition tupd (f : nat -> thr) (i : nat) (t : thr) : nat -> thr := fun j => if Nat.eqb j i then t else f j.
Fixpoint remove_nth {A} (n : nat) (l : list A) : list A :=
  match l, n with
  | [], _ => []
  | _ :: r, O => r
  | x :: r, S n' => x :: remove_nth n' r
  end.
Definition set_pc (t : thr) (p : pc) : thr :=
  {| t_pc := p; t_todo := t_todo t; t_reads := t_reads t; t_saw := t_saw t; t_done := t_done t |}.
(* the call is over: record it, go on to the next one *)
Definition finish_call (t : thr) (j : job) (r : list job) (saw : entry) : thr :=
  {| t_pc := PIdle; t_todo := r; t_reads := []; t_saw := blank;
     t_done := t_done t ++ [{| d_ent := j_ent j; d_reads := t_reads t; d_saw := saw |}] |}.

(* one step of thread i; c = which pooled element a Get takes *)
Definition pstep (early : bool) (i c : nat) (s : pool) : pool :=
  let t := p_thr s i in
  match t_todo t with
  | [] => s                                                  (* nothing left to log *)
  | j :: r =>
      match t_pc t with
      | PIdle =>
          match nth_error (p_free s) c with
          | Some a =>                                        (* _cePool.Get() found one; reset() *)
              {| p_heap := hupd (p_heap s) a blank; p_free := remove_nth c (p_free s); p_next := p_next s;
                 p_thr := tupd (p_thr s) i (set_pc t (PGot a)) |}
          | None =>                                          (* New: &CheckedEntry{...} *)
              {| p_heap := hupd (p_heap s) (p_next s) blank; p_free := p_free s; p_next := S (p_next s);
                 p_thr := tupd (p_thr s) i (set_pc t (PGot (p_next s))) |}
          end
      | PGot a =>                                            (* ce.Entry = ent *)
          {| p_heap := hupd (p_heap s) a (j_ent j); p_free := p_free s; p_next := p_next s;
             p_thr := tupd (p_thr s) i (set_pc t (PCores a (j_cores j))) |}
      | PCores a (S k) =>                                    (* ce.cores[i].Write(ce.Entry, fields) *)
          {| p_heap := p_heap s; p_free := p_free s; p_next := p_next s;
             p_thr := tupd (p_thr s) i
                        {| t_pc := PCores a k; t_todo := t_todo t; t_reads := t_reads t ++ [p_heap s a];
                           t_saw := t_saw t; t_done := t_done t |} |}
      | PCores a O =>
          if early
          then {| p_heap := p_heap s; p_free := a :: p_free s; p_next := p_next s;
                  p_thr := tupd (p_thr s) i (set_pc t (PRel a)) |}
          else {| p_heap := p_heap s; p_free := p_free s; p_next := p_next s;
                  p_thr := tupd (p_thr s) i (set_pc t (PHook a)) |}
      | PHook a =>                                           (* hook.OnWrite(ce, fields) looks at ce *)
          {| p_heap := p_heap s; p_free := p_free s; p_next := p_next s;
             p_thr := tupd (p_thr s) i
                        {| t_pc := PPut a; t_todo := t_todo t; t_reads := t_reads t; t_saw := p_heap s a;
                           t_done := t_done t |} |}
      | PPut a =>                                            (* putCheckedEntry(ce) *)
          {| p_heap := p_heap s; p_free := a :: p_free s; p_next := p_next s;
             p_thr := tupd (p_thr s) i (finish_call t j r (t_saw t)) |}
      | PRel a =>
          {| p_heap := p_heap s; p_free := p_free s; p_next := p_next s;
             p_thr := tupd (p_thr s) i (finish_call t j r (p_heap s a)) |}
      end
  end.

Definition sched := list (nat * nat).
Definition prun (early : bool) (sc : sched) (s : pool) : pool :=
  fold_left (fun s ic => pstep early (fst ic) (snd ic) s) sc s.

(* nothing pooled, nothing allocated, every thread about to make the calls [jobs] gives it *)
Definition idle (js : list job) : thr := {| t_pc := PIdle; t_todo := js; t_reads := []; t_saw := blank; t_done := [] |}.
Definition pinit (jobs : nat -> list job) : pool :=
  {| p_heap := fun _ => blank; p_free := []; p_next := 0; p_thr := fun i => idle (jobs i) |}.

(* ---- one call of thread 0 with everything else the machine can do squeezed into every gap ----
   [ns] = what the other threads do between two steps of the call (no step of thread 0 in it) *)
Fixpoint main_reads (early : bool) (ns : sched) (k : nat) (s : pool) : pool :=
  match k with
  | O => s
  | S k' => main_reads early ns k' (prun early ns (pstep early 0 0 s))
  end.
Definition main_call (early : bool) (ns : sched) (k : nat) (s : pool) : pool :=
  let s1 := prun early ns (pstep early 0 0 s) in            (* Get *)
  let s2 := prun early ns (pstep early 0 0 s1) in           (* Fill *)
  let s3 := main_reads early ns k s2 in                     (* the cores *)
  let s4 := prun early ns (pstep early 0 0 s3) in           (* on to the hook *)
  let s5 := prun early ns (pstep early 0 0 s4) in           (* the hook looks *)
  pstep early 0 0 s5.                                       (* Put *)

(* The interleaving the wire model runs (any other gives the same answer: PoolProofs.hook_sees_logged_entry):
   in every gap thread 1 - the unrelated logger that hooks, sinks and marshalers log through before they look at
   anything - makes [nested] complete calls (5 steps each: an entry with no core), always taking the element that
   went into the pool last (the per-P private slot of sync.Pool), and thread 2 - another goroutine logging on yet
   another logger - advances by [conc] steps, so that its calls straddle the steps of the call observed *)
Definition aux_entry : entry := {| en_level := 0%Z; en_msg := [x61; x75; x78]; en_name := [x61; x75; x78] |}.
Definition bg_entry : entry := {| en_level := 1%Z; en_msg := [x62; x67]; en_name := [x62; x67] |}.
Definition gap (nested conc : nat) : sched := repeat (1, 0) (5 * nested) ++ repeat (2, 0) conc.
Definition wire_jobs (e : entry) (k nested conc : nat) (i : nat) : list job :=
  match i with
  | O => [{| j_ent := e; j_cores := k |}]
  | 1 => repeat {| j_ent := aux_entry; j_cores := 0 |} (nested * (k + 5))
  | 2 => repeat {| j_ent := bg_entry; j_cores := 1 |} (conc * (k + 5))
  | _ => []
  end.
Definition wire_run (early : bool) (e : entry) (k nested conc : nat) : pool :=
  main_call early (gap nested conc) k (pinit (wire_jobs e k nested conc)).
(* what the cores were handed and what the hook found *)
Definition wire_seen (early : bool) (e : entry) (k nested conc : nat) : list entry * entry :=
  match t_done (p_thr (wire_run early e k nested conc) 0) with
  | d :: _ => (d_reads d, d_saw d)
  | [] => ([], blank)
  end.

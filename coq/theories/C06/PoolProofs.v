(* C06 — the CheckedEntry pool: what every core is handed and what the terminal hook finds in the entry is the
   entry that was logged, for ALL interleavings of any number of log calls on any number of threads and every
   behaviour of sync.Pool.Get (C06/Pool.v).  The order "Put, then hook" is refuted. *)
From Coq Require Import List ZArith Bool Arith Lia.
From Coq.Strings Require Import Byte.
Import ListNotations.
From Zap Require Import Base.Wire C06.Pool.

(* the CheckedEntry a thread holds: taken out of the pool (or made) and not yet put back *)
Definition owns (t : thr) : option nat :=
  match t_pc t with
  | PGot a | PCores a _ | PHook a | PPut a => Some a
  | PIdle | PRel _ => None
  end.

(* a call made is right when every core was handed, and the hook found, the entry logged *)
Definition call_ok (d : done) : Prop := d_saw d = d_ent d /\ Forall (eq (d_ent d)) (d_reads d).

(* ownership: no entry is held twice, none that is held is in the pool, none is in the pool twice *)
Record sinv (fr : list nat) (nx : nat) (f : nat -> thr) : Prop := {
  s_excl : forall i j a, owns (f i) = Some a -> owns (f j) = Some a -> i = j;
  s_nfree : forall i a, owns (f i) = Some a -> ~ In a fr;
  s_nodup : NoDup fr;
  s_ltf : forall a, In a fr -> a < nx;
  s_lto : forall i a, owns (f i) = Some a -> a < nx }.

(* the entry a thread holds is, from Fill on, the one it logs; so is everything it has read from it *)
Definition tgood (h : nat -> entry) (t : thr) : Prop :=
  Forall call_ok (t_done t) /\
  match t_todo t with
  | [] => True
  | j :: _ =>
      match t_pc t with
      | PIdle | PGot _ => t_reads t = []
      | PCores a _ | PHook a => h a = j_ent j /\ Forall (eq (j_ent j)) (t_reads t)
      | PPut _ => t_saw t = j_ent j /\ Forall (eq (j_ent j)) (t_reads t)
      | PRel _ => False
      end
  end.

Definition pinv (s : pool) : Prop :=
  sinv (p_free s) (p_next s) (p_thr s) /\ forall i, tgood (p_heap s) (p_thr s i).

Lemma owns_tupd f i t j : owns (tupd f i t j) = if Nat.eqb j i then owns t else owns (f j).
Proof. unfold tupd. destruct (Nat.eqb j i); reflexivity. Qed.

(* ---- remove_nth ---- *)
Lemma remove_nth_In {A} (x : A) : forall l c, In x (remove_nth c l) -> In x l.
Proof.
  induction l as [|y r IH]; intros c H; [destruct c; exact H|].
  destruct c as [|c]; cbn [remove_nth] in H; [right; exact H|].
  destruct H as [H|H]; [left; exact H|right; exact (IH c H)].
Qed.
Lemma remove_nth_NoDup {A} : forall (l : list A) c, NoDup l -> NoDup (remove_nth c l).
Proof.
  induction l as [|y r IH]; intros c H; [destruct c; exact H|].
  inversion H as [|? ? Hn Hr]; subst. destruct c as [|c]; cbn [remove_nth]; [exact Hr|].
  constructor; [intros Hin; apply Hn; exact (remove_nth_In _ _ _ Hin)|apply IH; exact Hr].
Qed.
Lemma remove_nth_gone {A} (a : A) : forall l c, NoDup l -> nth_error l c = Some a -> ~ In a (remove_nth c l).
Proof.
  induction l as [|y r IH]; intros c Hd Hc; [destruct c; discriminate Hc|].
  inversion Hd as [|? ? Hn Hr]; subst. destruct c as [|c]; cbn [nth_error remove_nth] in *.
  - inversion Hc; subst. exact Hn.
  - intros [H|H]; [subst y; apply Hn; exact (nth_error_In _ _ Hc)|exact (IH c Hr Hc H)].
Qed.

(* ---- ownership is kept by the four kinds of step ---- *)
Lemma sinv_same fr nx f i t' : sinv fr nx f -> owns t' = owns (f i) -> sinv fr nx (tupd f i t').
Proof.
  intros [E N D L O] H. constructor; auto.
  - intros j k a. rewrite !owns_tupd.
    destruct (Nat.eqb_spec j i) as [->|Hj], (Nat.eqb_spec k i) as [->|Hk]; rewrite ?H; intros H1 H2; eauto.
  - intros j a. rewrite owns_tupd. destruct (Nat.eqb_spec j i) as [->|Hj]; rewrite ?H; apply N.
  - intros j a. rewrite owns_tupd. destruct (Nat.eqb_spec j i) as [->|Hj]; rewrite ?H; apply O.
Qed.
Lemma sinv_get_free fr nx f i t' c a :
  sinv fr nx f -> owns (f i) = None -> nth_error fr c = Some a -> owns t' = Some a ->
  sinv (remove_nth c fr) nx (tupd f i t').
Proof.
  intros [E N D L O] Hn Hc Ht. pose proof (nth_error_In _ _ Hc) as Hin. constructor.
  - intros j k b. rewrite !owns_tupd.
    destruct (Nat.eqb_spec j i) as [->|Hj], (Nat.eqb_spec k i) as [->|Hk]; rewrite ?Ht; intros H1 H2; eauto.
    + inversion H1; subst b. exfalso. exact (N k a H2 Hin).
    + inversion H2; subst b. exfalso. exact (N j a H1 Hin).
  - intros j b. rewrite owns_tupd. destruct (Nat.eqb_spec j i) as [->|Hj].
    + rewrite Ht. intros Hb. inversion Hb; subst b. exact (remove_nth_gone a fr c D Hc).
    + intros Hb Hi. exact (N j b Hb (remove_nth_In _ _ _ Hi)).
  - exact (remove_nth_NoDup fr c D).
  - intros b Hb. exact (L b (remove_nth_In _ _ _ Hb)).
  - intros j b. rewrite owns_tupd. destruct (Nat.eqb_spec j i) as [->|Hj]; [|apply O].
    rewrite Ht. intros Hb. inversion Hb; subst b. exact (L a Hin).
Qed.
Lemma sinv_get_new fr nx f i t' :
  sinv fr nx f -> owns (f i) = None -> owns t' = Some nx -> sinv fr (S nx) (tupd f i t').
Proof.
  intros [E N D L O] Hn Ht. constructor; auto.
  - intros j k b. rewrite !owns_tupd.
    destruct (Nat.eqb_spec j i) as [->|Hj], (Nat.eqb_spec k i) as [->|Hk]; rewrite ?Ht; intros H1 H2; eauto.
    + inversion H1; subst b. pose proof (O k nx H2). lia.
    + inversion H2; subst b. pose proof (O j nx H1). lia.
  - intros j b. rewrite owns_tupd. destruct (Nat.eqb_spec j i) as [->|Hj]; [|apply N].
    rewrite Ht. intros Hb Hi. inversion Hb; subst b. pose proof (L nx Hi). lia.
  - intros b Hb. pose proof (L b Hb). lia.
  - intros j b. rewrite owns_tupd. destruct (Nat.eqb_spec j i) as [->|Hj].
    + rewrite Ht. intros Hb. inversion Hb. lia.
    + intros Hb. pose proof (O j b Hb). lia.
Qed.
Lemma sinv_put fr nx f i t' a :
  sinv fr nx f -> owns (f i) = Some a -> owns t' = None -> sinv (a :: fr) nx (tupd f i t').
Proof.
  intros [E N D L O] Ho Ht. constructor.
  - intros j k b. rewrite !owns_tupd.
    destruct (Nat.eqb_spec j i) as [->|Hj], (Nat.eqb_spec k i) as [->|Hk]; rewrite ?Ht; intros H1 H2; eauto; discriminate.
  - intros j b. rewrite owns_tupd. destruct (Nat.eqb_spec j i) as [->|Hj]; [rewrite Ht; discriminate|].
    intros Hb [Hi|Hi]; [subst b; exact (Hj (E j i a Hb Ho))|exact (N j b Hb Hi)].
  - constructor; [exact (N i a Ho)|exact D].
  - intros b [Hb|Hb]; [subst b; exact (O i a Ho)|exact (L b Hb)].
  - intros j b. rewrite owns_tupd. destruct (Nat.eqb_spec j i) as [->|Hj]; [rewrite Ht; discriminate|apply O].
Qed.

(* ---- a write to an entry somebody else holds does not concern a thread ---- *)
Lemma tgood_hupd h t a v : tgood h t -> owns t <> Some a -> tgood (hupd h a v) t.
Proof.
  unfold tgood, owns. intros [Hd Hc] Hn. split; [exact Hd|].
  destruct (t_todo t) as [|j r]; [exact I|].
  destruct (t_pc t) as [|b|b k|b|b|b]; try exact Hc; unfold hupd;
    (destruct (Nat.eqb_spec b a) as [->|Hb]; [exfalso; apply Hn; reflexivity|exact Hc]).
Qed.
Lemma others_hupd fr nx f i t' h a v :
  sinv fr nx (tupd f i t') -> owns t' = Some a -> (forall j, tgood h (f j)) ->
  forall j, j <> i -> tgood (hupd h a v) (f j).
Proof.
  intros HS Ho HG j Hj. apply tgood_hupd; [apply HG|]. intros Hc. apply Hj.
  apply (s_excl _ _ _ HS j i a); rewrite owns_tupd.
  - rewrite (proj2 (Nat.eqb_neq j i) Hj). exact Hc.
  - rewrite Nat.eqb_refl. exact Ho.
Qed.
Lemma good_tupd h f i t' :
  tgood h t' -> (forall j, j <> i -> tgood h (f j)) -> forall j, tgood h (tupd f i t' j).
Proof. intros Ht Ho j. unfold tupd. destruct (Nat.eqb_spec j i) as [->|Hj]; [exact Ht|exact (Ho j Hj)]. Qed.

Lemma Forall_snoc {A} (P : A -> Prop) l x : Forall P l -> P x -> Forall P (l ++ [x]).
Proof. intros H1 H2. apply Forall_app. split; [exact H1|constructor; [exact H2|constructor]]. Qed.

(* ---- every step of every thread keeps the invariant ---- *)
Lemma pstep_inv i c s : pinv s -> pinv (pstep false i c s).
Proof.
  intros [HS HG]. unfold pstep.
  destruct (t_todo (p_thr s i)) as [|j r] eqn:Htodo; [split; assumption|].
  pose proof (HG i) as Hi. unfold tgood in Hi. rewrite Htodo in Hi. destruct Hi as [Hdone Hcur].
  destruct (t_pc (p_thr s i)) as [|a|a [|k]|a|a|a] eqn:Hpc.
  - (* Get *)
    assert (Hn : owns (p_thr s i) = None) by (unfold owns; rewrite Hpc; reflexivity).
    destruct (nth_error (p_free s) c) as [a|] eqn:Hc; cbn [p_heap p_free p_next p_thr].
    + assert (HS' : sinv (remove_nth c (p_free s)) (p_next s) (tupd (p_thr s) i (set_pc (p_thr s i) (PGot a)))).
      { eapply sinv_get_free; eauto. }
      split; [exact HS'|]. apply good_tupd.
      * unfold tgood, set_pc. cbn [t_done t_todo t_pc t_reads p_heap]. rewrite ?Htodo. split; assumption.
      * eapply others_hupd; eauto.
    + assert (HS' : sinv (p_free s) (S (p_next s)) (tupd (p_thr s) i (set_pc (p_thr s i) (PGot (p_next s))))).
      { eapply sinv_get_new; eauto. }
      split; [exact HS'|]. apply good_tupd.
      * unfold tgood, set_pc. cbn [t_done t_todo t_pc t_reads p_heap]. rewrite ?Htodo. split; assumption.
      * eapply others_hupd; eauto.
  - (* Fill *)
    cbn [p_heap p_free p_next p_thr].
    assert (HS' : sinv (p_free s) (p_next s) (tupd (p_thr s) i (set_pc (p_thr s i) (PCores a (j_cores j))))).
    { apply sinv_same; [exact HS|]. unfold owns, set_pc. cbn [t_pc]. rewrite Hpc. reflexivity. }
    split; [exact HS'|]. apply good_tupd.
    + unfold tgood, set_pc. cbn [t_done t_todo t_pc t_reads p_heap]. rewrite ?Htodo. split; [exact Hdone|].
      split; [unfold hupd; rewrite Nat.eqb_refl; reflexivity|rewrite Hcur; constructor].
    + eapply others_hupd; eauto.
  - (* the cores are written: on to the hook *)
    cbn [p_heap p_free p_next p_thr]. split.
    + apply sinv_same; [exact HS|]. unfold owns, set_pc. cbn [t_pc]. rewrite Hpc. reflexivity.
    + apply good_tupd; [|intros j0 _; apply HG].
      unfold tgood, set_pc. cbn [t_done t_todo t_pc t_reads p_heap]. rewrite ?Htodo. split; assumption.
  - (* a core is handed ce.Entry *)
    cbn [p_heap p_free p_next p_thr]. split.
    + apply sinv_same; [exact HS|]. unfold owns. cbn [t_pc]. rewrite Hpc. reflexivity.
    + apply good_tupd; [|intros j0 _; apply HG].
      unfold tgood. cbn [t_done t_todo t_pc t_reads p_heap]. rewrite ?Htodo. split; [exact Hdone|].
      destruct Hcur as [Hh Hr]. split; [exact Hh|]. apply Forall_snoc; [exact Hr|symmetry; exact Hh].
  - (* the hook looks at ce *)
    cbn [p_heap p_free p_next p_thr]. split.
    + apply sinv_same; [exact HS|]. unfold owns. cbn [t_pc]. rewrite Hpc. reflexivity.
    + apply good_tupd; [|intros j0 _; apply HG].
      unfold tgood. cbn [t_done t_todo t_pc t_reads t_saw p_heap]. rewrite ?Htodo. split; [exact Hdone|].
      destruct Hcur as [Hh Hr]. split; assumption.
  - (* Put *)
    cbn [p_heap p_free p_next p_thr]. split.
    + apply sinv_put; [exact HS|unfold owns; rewrite Hpc; reflexivity|reflexivity].
    + apply good_tupd; [|intros j0 _; apply HG].
      unfold tgood, finish_call. cbn [t_done t_todo t_pc t_reads p_heap]. destruct Hcur as [Hs Hr]. split.
      * apply Forall_snoc; [exact Hdone|]. unfold call_ok. cbn [d_saw d_ent d_reads]. split; assumption.
      * destruct r; [exact I|reflexivity].
  - destruct Hcur.
Qed.

Lemma prun_inv sc : forall s, pinv s -> pinv (prun false sc s).
Proof.
  induction sc as [|[i c] r IH]; intros s H; [exact H|]. unfold prun in *. cbn [fold_left fst snd].
  apply IH. apply pstep_inv. exact H.
Qed.
Lemma pinit_inv jobs : pinv (pinit jobs).
Proof.
  split; cbn [pinit p_free p_next p_thr p_heap].
  - constructor; try (intros; discriminate); try (intros ? []). constructor.
  - intros i. unfold tgood, idle. cbn [t_done t_todo t_pc t_reads p_heap]. split; [constructor|]. destruct (jobs i); [exact I|reflexivity].
Qed.

(* For every number of threads making any log calls, every schedule and every choice sync.Pool.Get makes: every
   core of every call was handed, and the hook of every call found in its CheckedEntry, the entry that call logged *)
Theorem hook_sees_logged_entry jobs sc i d :
  In d (t_done (p_thr (prun false sc (pinit jobs)) i)) ->
  d_saw d = d_ent d /\ Forall (eq (d_ent d)) (d_reads d).
Proof.
  intros Hin. destruct (prun_inv sc _ (pinit_inv jobs)) as [_ HG].
  destruct (HG i) as [Hd _]. rewrite Forall_forall in Hd. exact (Hd d Hin).
Qed.
(* ... also while the call is still under way - the hook has looked and is about to panic, to exit, or to return
   (a hook that panics or calls Goexit never gets to Put: the thread is not scheduled again) *)
Theorem hook_sees_logged_entry_now jobs sc i a j r :
  let t := p_thr (prun false sc (pinit jobs)) i in
  t_pc t = PPut a -> t_todo t = j :: r -> t_saw t = j_ent j /\ Forall (eq (j_ent j)) (t_reads t).
Proof.
  intros t Hpc Htodo. destruct (prun_inv sc _ (pinit_inv jobs)) as [_ HG].
  destruct (HG i) as [_ Hc]. fold t in Hc. rewrite Htodo, Hpc in Hc. exact Hc.
Qed.

(* the calls made and the calls still to make are the calls the thread was given, in order: no record is of
   anything else *)
Definition accounted (jobs : nat -> list job) (s : pool) : Prop :=
  forall i, map d_ent (t_done (p_thr s i)) ++ map j_ent (t_todo (p_thr s i)) = map j_ent (jobs i).
Lemma pstep_accounted early jobs i c s : accounted jobs s -> accounted jobs (pstep early i c s).
Proof.
  intros H. unfold pstep. destruct (t_todo (p_thr s i)) as [|j r] eqn:Htodo; [exact H|].
  pose proof (H i) as Hi. rewrite Htodo in Hi.
  assert (Hkeep : forall hp fr nx t', t_done t' = t_done (p_thr s i) -> t_todo t' = j :: r ->
                    accounted jobs {| p_heap := hp; p_free := fr; p_next := nx; p_thr := tupd (p_thr s) i t' |}).
  { intros hp fr nx t' Hd Ht k. cbn [p_thr]. unfold tupd. destruct (Nat.eqb_spec k i) as [->|Hk]; [|apply H].
    rewrite Hd, Ht. exact Hi. }
  assert (Hfin : forall hp fr nx saw,
                    accounted jobs {| p_heap := hp; p_free := fr; p_next := nx; p_thr := tupd (p_thr s) i (finish_call (p_thr s i) j r saw) |}).
  { intros hp fr nx saw k. cbn [p_thr]. unfold tupd. destruct (Nat.eqb_spec k i) as [->|Hk]; [|apply H].
    unfold finish_call. cbn [t_done t_todo]. rewrite map_app, <- app_assoc. cbn [map app d_ent]. exact Hi. }
  destruct (t_pc (p_thr s i)) as [|a|a [|k]|a|a|a]; try (apply Hfin);
    try (destruct (nth_error (p_free s) c)); try (destruct early); apply Hkeep; try reflexivity; exact Htodo.
Qed.
Theorem calls_accounted early jobs sc i :
  let t := p_thr (prun early sc (pinit jobs)) i in
  map d_ent (t_done t) ++ map j_ent (t_todo t) = map j_ent (jobs i).
Proof.
  cbv zeta. assert (H : forall s, accounted jobs s -> accounted jobs (prun early sc s)).
  { induction sc as [|[k c] r IH]; intros s Hs; [exact Hs|]. unfold prun in *. cbn [fold_left fst snd].
    apply IH. apply pstep_accounted. exact Hs. }
  apply H. intros k. reflexivity.
Qed.

(* ---- "Put, then hook" is refuted: one thread logs at Panic level, its hook logs through another logger before it
   looks at the entry (thread 1, one complete call in the gap before the hook); sync.Pool hands the nested call the
   entry that was put back last *)
Definition early_release_safe : Prop :=
  forall jobs sc i d, In d (t_done (p_thr (prun true sc (pinit jobs)) i)) -> d_saw d = d_ent d.
Definition panic_entry : entry := {| en_level := 4%Z; en_msg := [x62; x6f; x6f; x6d]; en_name := [x6d] |}.
Lemma early_release_refuted : ~ early_release_safe.
Proof.
  intros H.
  specialize (H (wire_jobs panic_entry 0 1 0) ([(0, 0); (0, 0); (0, 0)] ++ repeat (1, 0) 4 ++ [(0, 0)]) 0
                {| d_ent := panic_entry; d_reads := []; d_saw := aux_entry |}).
  cbn in H. specialize (H (or_introl eq_refl)). discriminate H.
Qed.

(* ---- the interleaving the wire model runs ---- *)
Lemma pstep_other early i c s j : j <> i -> p_thr (pstep early i c s) j = p_thr s j.
Proof.
  intros Hj. unfold pstep. destruct (t_todo (p_thr s i)) as [|x r]; [reflexivity|].
  destruct (t_pc (p_thr s i)) as [|a|a [|k]|a|a|a]; try (destruct (nth_error (p_free s) c)); try (destruct early);
    cbn [p_thr]; unfold tupd; rewrite (proj2 (Nat.eqb_neq j i) Hj); reflexivity.
Qed.
Lemma prun_other early j sc : Forall (fun ic => fst ic <> j) sc -> forall s, p_thr (prun early sc s) j = p_thr s j.
Proof.
  induction 1 as [|[i c] r Hx _ IH]; intros s; [reflexivity|]. unfold prun in *. cbn [fold_left fst snd].
  rewrite IH. apply pstep_other. cbn [fst] in Hx. congruence.
Qed.
Lemma gap_other nested conc : Forall (fun ic : nat * nat => fst ic <> 0) (gap nested conc).
Proof.
  unfold gap. apply Forall_app. split; apply Forall_forall; intros x Hx; apply repeat_spec in Hx; subst x; cbn [fst]; lia.
Qed.

Lemma main_reads_inv ns k : forall s, pinv s -> pinv (main_reads false ns k s).
Proof. induction k as [|k IH]; intros s H; [exact H|]. cbn [main_reads]. apply IH, prun_inv, pstep_inv, H. Qed.
Lemma main_call_inv ns k s : pinv s -> pinv (main_call false ns k s).
Proof.
  intros H. unfold main_call. cbv zeta.
  apply pstep_inv, prun_inv, pstep_inv, prun_inv, pstep_inv, main_reads_inv, prun_inv, pstep_inv, prun_inv, pstep_inv, H.
Qed.

Definition mk (p : pc) (j : job) (rd : list entry) (sw : entry) : thr :=
  {| t_pc := p; t_todo := [j]; t_reads := rd; t_saw := sw; t_done := [] |}.

Lemma main_reads_shape ns j a : Forall (fun ic : nat * nat => fst ic <> 0) ns ->
  forall k s rd, p_thr s 0 = mk (PCores a k) j rd blank ->
  exists rd', length rd' = length rd + k /\ p_thr (main_reads false ns k s) 0 = mk (PCores a 0) j rd' blank.
Proof.
  intros Hns. induction k as [|k IH]; intros s rd H.
  - exists rd. split; [lia|exact H].
  - cbn [main_reads].
    destruct (IH (prun false ns (pstep false 0 0 s)) (rd ++ [p_heap s a])) as [rd' [Hl Hr]].
    { rewrite (prun_other false 0 ns Hns). unfold pstep. rewrite H. cbn. reflexivity. }
    exists rd'. split; [rewrite Hl, app_length; cbn [length]; lia|exact Hr].
Qed.

(* the call of thread 0 runs to its end whatever happens in the gaps *)
Lemma main_call_done ns j s : Forall (fun ic : nat * nat => fst ic <> 0) ns ->
  p_thr s 0 = idle [j] ->
  exists rd sw, length rd = j_cores j /\
    t_done (p_thr (main_call false ns (j_cores j) s) 0) = [{| d_ent := j_ent j; d_reads := rd; d_saw := sw |}].
Proof.
  intros Hns H0. unfold main_call. cbv zeta.
  set (s1 := prun false ns (pstep false 0 0 s)).
  assert (H1 : exists a, p_thr s1 0 = mk (PGot a) j [] blank).
  { unfold s1. rewrite (prun_other false 0 ns Hns). unfold pstep. rewrite H0. cbn [idle t_todo t_pc].
    destruct (nth_error (p_free s) 0) as [a|]; eexists; cbn; reflexivity. }
  destruct H1 as [a H1].
  set (s2 := prun false ns (pstep false 0 0 s1)).
  assert (H2 : p_thr s2 0 = mk (PCores a (j_cores j)) j [] blank).
  { unfold s2. rewrite (prun_other false 0 ns Hns). unfold pstep. rewrite H1. cbn. reflexivity. }
  destruct (main_reads_shape ns j a Hns (j_cores j) s2 [] H2) as [rd [Hl H3]].
  set (s3 := main_reads false ns (j_cores j) s2) in *.
  set (s4 := prun false ns (pstep false 0 0 s3)).
  assert (H4 : p_thr s4 0 = mk (PHook a) j rd blank).
  { unfold s4. rewrite (prun_other false 0 ns Hns). unfold pstep. rewrite H3. cbn. reflexivity. }
  set (s5 := prun false ns (pstep false 0 0 s4)).
  assert (H5 : p_thr s5 0 = mk (PPut a) j rd (p_heap s4 a)).
  { unfold s5. rewrite (prun_other false 0 ns Hns). unfold pstep. rewrite H4. cbn. reflexivity. }
  exists rd, (p_heap s4 a). split; [cbn [length] in Hl; exact Hl|].
  unfold pstep. rewrite H5. cbn. reflexivity.
Qed.

Lemma Forall_eq_repeat {A} (x : A) l : Forall (eq x) l -> l = repeat x (length l).
Proof. induction 1 as [|y r Hy _ IH]; [reflexivity|]. subst y. cbn [length repeat]. rewrite <- IH. reflexivity. Qed.

(* ... and in it every core was handed, and the hook found, the entry logged: however many calls the hooks, sinks
   and marshalers make through another logger in every gap, however far another goroutine gets in them *)
Theorem wire_seen_logged e k nested conc : wire_seen false e k nested conc = (repeat e k, e).
Proof.
  unfold wire_seen, wire_run.
  set (j := {| j_ent := e; j_cores := k |}).
  destruct (main_call_done (gap nested conc) j (pinit (wire_jobs e k nested conc)) (gap_other nested conc) eq_refl)
    as [rd [sw [Hl Hd]]].
  change (j_cores j) with k in *.
  pose proof (main_call_inv (gap nested conc) k _ (pinit_inv (wire_jobs e k nested conc))) as [_ HG].
  destruct (HG 0) as [Hok _]. rewrite Hd in Hok |- *. inversion Hok as [|? ? [Hs Hr] _]; subst. subst j.
  cbn [d_saw d_ent d_reads j_ent] in *. subst sw. rewrite <- (Forall_eq_repeat e rd Hr). reflexivity.
Qed.

(* C06 — Panic and Fatal always terminate, after the entry is written and flushed.
   Model (on top of the core tree of C05/Cores.v) of
     logger.go      Logger.check: terminal hook attached whatever Core.Check answered,
                    terminalHookOverride (nil / WriteThenNoop replaced by the default)
     options.go     Development, WithPanicHook, WithFatalHook / OnFatal
     zapcore/entry.go  CheckedEntry.Write: cores in order, then the hook; CheckWriteAction.OnWrite
     zapcore/core.go   ioCore.Write: write, then Sync when ent.Level > ErrorLevel
     the front-end methods of Logger, SugaredLogger, zapgrpc.Logger, zapio.Writer and the
     std-log bridge, as a table (method -> family of C05/Cores.v -> guards).
   No proofs in this file.

   input  = (tree cells dev onpanic onfatal child (call ...) [(stack ...) [noise [(failing ...)]]])
             tree/cells as in C05/Model.v (all leaves are IO cores), plus (9 t id) = a user-defined wrapper number id around t that
             adds ITSELF to the CheckedEntry when t is enabled and forwards Core.Write to t (the composite Write methods -
             multiCore.Write, levelFilterCore.Write, lazyWithCore.Write, the sampler's promoted Write, hooked.Write - are then
             on the path: xcore / x_write below); failing = the leaves whose sink returns an error from every Write
             the tree may contain samplers that really drop: (8 t first thereafter) = NewSamplerWithOptions(t, 1h, first,
             thereafter, hook).  All calls of a case run on ONE logger within one sampler tick: a sampler counts the
             entries it is asked about per level and message bucket (sampler.go: counts.get(level, message) = fnv32a of
             the message mod 4096, shipped with every call) and drops the n-th one when n > first and (thereafter = 0 or
             (n - first) mod thereafter <> 0) (C05/Sampling.v: check_s, ctr_dec below)
     hook cfg = (0) nil | (1) WriteThenNoop | (2) WriteThenGoexit | (3) WriteThenPanic | (4) WriteThenFatal | (5 k) custom hook k
                | (6 k mode) custom hook k that first logs through an unrelated logger (noise below), only then looks at the
                  *CheckedEntry it was handed and does what the entry says: mode 0 return | 1 WriteThenPanic.OnWrite(ce, fields)
                  | 2 WriteThenGoexit.OnWrite | 3 switch ce.Level { Fatal: Goexit; Panic, DPanic: panic(ce.Message); default:
                  return } (one hook object installed for both levels) | 4 WriteThenFatal.OnWrite
     noise (element 8, may be absent) = (#name nested yields conc): the logger is Named(name); every custom terminal hook of
             kind 6, every zap.Hooks entry hook, every sink and every marshaler of the entry makes `nested` log calls through
             an unrelated logger (and `yields` runtime.Gosched() calls) before it looks at anything; conc <> 0: another
             goroutine logs on yet another logger all the while (2: under GOMAXPROCS(1)).  The model runs the calls through
             the CheckedEntry pool of C06/Pool.v with these calls in every gap; the theorems hold for ALL interleavings
     call  = (recv kind suffix level #msg (argshape via #text) (len ...) bucket)
             msg = the message the call's arguments amount to (what fmt / bytes.TrimSpace make of them: an oracle
             the harness ships; may be empty); the last element says how the harness built the arguments (replay only)
             len ... = the length of each Write the call hands to an IO core's sink, in order (what the encoder
             produced: an oracle the harness ships; the theorems hold for all lengths)
             bucket = the sampler counter the message falls into (hash/fnv New32a mod 4096: an oracle the harness ships)
     stack = what sits between the k-th IO leaf (order of leaf_ids) and its recording sinks - whose Write only stages
             the bytes and whose Sync commits them -, a tree of WriteSyncer combinators:
             (0) the recording sink | (1 size stopped inner) BufferedWriteSyncer{Size: size} (stopped: Stop has run)
             | (2 inner) zapcore.Lock | (3 inner) zapcore.AddSync of a writer that has a Sync method
             | (4 (inner ...)) zapcore.NewMultiWriteSyncer
     special input (table): the observation must be the method table
   observation = ((o ...) (flushed ...)):  o = ((ev ...) term pend ((k d) ...)), ev = (0 id) Write | (1 id) Sync | (2 h) hook
            | (3 h) hook set h ran because a wrapper above it forwarded Write to its hooked core (a failing sink records the
            attempted Write; ioCore.Write returns its error before the Sync),
     term = () | (0 #value) panic with that value | (1) exit status 1 | (2) Goexit | (3 k) custom hook k ran
            | (4 k term') hook k of kind 6 ran and then control was lost / returned as term' says;
     pend = for every leaf that has a stack, for every recording sink below it: the number of bytes the IO core has
            written so far that the sink has NOT committed at the moment control is lost / the call returns
            (in-process: in the terminal hook, in recover, in the deferred function; child processes: what is
            missing from the sink's file after the process is gone);
     (k d) = the decision sampler number k (pre-order position among the samplers of the tree) reported through its
            SamplerHook during the call, d = 1 dropped / 0 sampled (as in C05/Model.v).  The oracle takes the samplers'
            decisions from the observation (WHICH entries a sampler drops is C11's) and demands the delivery to every
            accepting core that is not beneath a sampler that reported a drop; the model predicts the decisions with
            sampler.go's counters;
     a fifth component of o: (seen ...) = (level #message #loggerName) of the entry every zap.Hooks entry hook was handed
            and, last, of the *CheckedEntry a custom terminal hook (kind 5 or 6) found when it looked;
     flushed (child-process cases only) = lines found in the file behind each leaf's buffered sink *)
From Coq Require Import List ZArith Bool Lia Arith.
From Coq.Strings Require Import Byte.
Import ListNotations.
From Zap Require Import Base.Wire C05.Cores C05.Sampling C05.Model C06.Pool.
Open Scope Z_scope.

(* ---------------- front-end methods ---------------- *)
Inductive recv := RLogger | RSugar | RGrpc | RZapio | RStdLog.
Inductive kind := KLog | KDebug | KInfo | KWarn | KError | KDPanic | KPanic | KFatal | KCheck | KPrint.
Inductive suffix := SNone | Sf | Sw | Sln.
Record method := { m_recv : recv; m_kind : kind; m_suffix : suffix }.

Definition level_kinds : list kind := [KDebug; KInfo; KWarn; KError; KDPanic; KPanic; KFatal].
(* every exported logging method (the harness checks this list against the method sets by reflection):
   Logger.{Log,Debug,..,Fatal,Check}; SugaredLogger.{Log,Debug,..,Fatal}{,f,w,ln};
   zapgrpc.Logger.{Info,Warning,Error,Fatal,Print}{,f,ln};
   NewStdLogAt/RedirectStdLogAt (level parameter) and NewStdLog/RedirectStdLog (info) *)
Definition methods : list method :=
  map (fun k => {| m_recv := RLogger; m_kind := k; m_suffix := SNone |}) (KLog :: level_kinds ++ [KCheck]) ++
  flat_map (fun s => map (fun k => {| m_recv := RSugar; m_kind := k; m_suffix := s |}) (KLog :: level_kinds)) [SNone; Sf; Sw; Sln] ++
  flat_map (fun s => map (fun k => {| m_recv := RGrpc; m_kind := k; m_suffix := s |}) [KInfo; KWarn; KError; KFatal; KPrint]) [SNone; Sf; Sln] ++
  [ {| m_recv := RStdLog; m_kind := KLog; m_suffix := SNone |};
    {| m_recv := RStdLog; m_kind := KInfo; m_suffix := SNone |} ].
(* zapio.Writer is not among the front ends the property enumerates; it is modelled (family FZapio)
   and satisfies the termination statement only when its level is enabled: see C06_zapio_partial *)
Definition zapio_method : method := {| m_recv := RZapio; m_kind := KLog; m_suffix := SNone |}.

Definition kind_level (k : kind) : option level :=
  match k with
  | KDebug => Some DebugL | KInfo => Some InfoL | KWarn => Some WarnL | KError => Some ErrorL
  | KDPanic => Some DPanicL | KPanic => Some PanicL | KFatal => Some FatalL
  | KLog | KCheck | KPrint => None
  end.
(* the levels a method can log at *)
Definition can_log (m : method) (l : level) : bool :=
  match m_kind m with
  | KLog | KCheck => match m_recv m with RStdLog => is_valid l | _ => true end   (* levelToFunc rejects other values *)
  | KPrint => (l =? InfoL) || (l =? DebugL)                                      (* zapgrpc.WithDebug *)
  | k => match kind_level k with Some x => l =? x | None => false end
  end.
Definition fam_of (m : method) : fam :=
  match m_recv m with
  | RLogger => match m_kind m with KCheck => FCheck | _ => FLogger end
  | RSugar => match m_suffix m with SNone => FSugar | Sf => FSugarf | Sw => FSugarw | Sln => FSugarln end
  | RGrpc =>
      match m_kind m, m_suffix m with
      | (KFatal | KPrint), Sln => FGrpcPrintln
      | (KFatal | KPrint), _ => FGrpcPrint
      | _, Sln => FGrpcLn
      | _, _ => FGrpcDirect
      end
  | RZapio => FZapio
  | RStdLog => FStdLog
  end.

(* ---------------- logger configuration ---------------- *)
Inductive hookcfg := HNil | HNoop | HGoexit | HPanic | HFatal | HCustom (k : nat) | HHook (k : nat) (mode : Z).
Inductive action := APanic | AExit | AGoexit | ACustom (k : nat) | AHook (k : nat) (mode : Z).
Record logger := { lcore : core; dev : bool; on_panic : hookcfg; on_fatal : hookcfg }.

(* terminalHookOverride(defaultHook, override) *)
Definition override (default : action) (h : hookcfg) : action :=
  match h with
  | HNil | HNoop => default
  | HGoexit => AGoexit | HPanic => APanic | HFatal => AExit | HCustom k => ACustom k | HHook k m => AHook k m
  end.
(* the switch on ent.Level in Logger.check *)
Definition after_hook (lg : logger) (l : level) : option action :=
  if l =? PanicL then Some (override APanic (on_panic lg))
  else if l =? FatalL then Some (override AExit (on_fatal lg))
  else if l =? DPanicL then (if dev lg then Some (override APanic (on_panic lg)) else None)
  else None.

(* ---------------- CheckedEntry.Write ---------------- *)
(* EFHook h: the hook set h of a hooked core ran because a core ABOVE it forwarded Core.Write to it (hooked.Write),
   not because the hooked core was on the CheckedEntry itself *)
Inductive ev := EWrite (id : nat) | ESync (id : nat) | EHook (h : nat) | EFHook (h : nat).
(* ioCore.Write syncs when ent.Level > ErrorLevel; observer cores (io id = false) have nothing to sync *)
Definition write_events (io : nat -> bool) (l : level) (ws : list writer) : list ev :=
  flat_map (fun x => match x with
                     | WLeaf i => EWrite i :: (if io i && (ErrorL <? l) then [ESync i] else [])
                     | WHook h => [EHook h]
                     end) ws.

(* the rest of Logger.check and ce.Write, given what Core.Check answered (e): a nil entry
   with no terminal hook returns early; otherwise cores are written in order, then the hook runs *)
Definition finish (lg : logger) (io : nat -> bool) (l : level) (e : ce) : list ev * option action :=
  match e, after_hook lg l with
  | None, None => ([], None)
  | _, a => (write_events io l (cores_of e), a)
  end.

(* one call through method family f *)
Definition log_call (w : world) (lg : logger) (io : nat -> bool) (f : fam) (l : level) : list ev * option action :=
  if reaches_check w (lcore lg) f l then finish lg io l (logger_check w (lcore lg) l) else ([], None).
(* the same with samplers that really drop (C05/Sampling.v): [dec k] says whether sampler number k's counter
   answers "drop" for this entry.  sampler.Check then returns the CheckedEntry it was handed - with every core
   that registered on it before (an earlier branch of a tee) - and Logger.check goes on as for any other answer *)
Definition log_call_s (dec : decisions) (w : world) (lg : logger) (io : nat -> bool) (f : fam) (l : level) : list ev * option action :=
  if reaches_check w (lcore lg) f l then finish lg io l (logger_check_s dec w (lcore lg) l) else ([], None).
(* The message.  No front end looks at its arguments or at the message they amount to before
   Logger.check: sugar.go formats them (getMessage / getMessageln), zapgrpc formats them (sprintln),
   the std-log bridge trims what the log package hands it (loggerWriter.Write: bytes.TrimSpace, then
   logFunc unconditionally - also when nothing is left of a blank line) and every one of them then
   calls Logger.check/Log with the result, whatever it is (empty included).  The entry carries it and
   CheckWriteAction.OnWrite (WriteThenPanic, the default panic action) panics with it.
   front_call is one call of method m at level l whose arguments amount to msg: the events, the
   terminal action and the value the panic carries. *)
Definition panic_value (a : option action) (msg : bytes) : option bytes :=
  match a with Some APanic => Some msg | _ => None end.
Definition front_call (w : world) (lg : logger) (io : nat -> bool) (m : method) (l : level) (msg : bytes)
  : list ev * option action * option bytes :=
  let r := log_call w lg io (fam_of m) l in (fst r, snd r, panic_value (snd r) msg).
Definition front_call_s (dec : decisions) (w : world) (lg : logger) (io : nat -> bool) (m : method) (l : level) (msg : bytes)
  : list ev * option action * option bytes :=
  let r := log_call_s dec w lg io (fam_of m) l in (fst r, snd r, panic_value (snd r) msg).
(* the same with the guards of the code before the zapgrpc fix *)
Definition log_call_orig (w : world) (lg : logger) (io : nat -> bool) (f : fam) (l : level) : list ev * option action :=
  if forallb (guard_pass w (lcore lg) l) (guards_of_orig f) then finish lg io l (logger_check w (lcore lg) l) else ([], None).

(* a buffered sink, abstractly: Write queues the line, Sync moves everything queued to the file *)
Fixpoint flushed_lines (id : nat) (evs : list ev) (pending done : nat) : nat :=
  match evs with
  | [] => done
  | EWrite i :: r => if Nat.eqb i id then flushed_lines id r (S pending) done else flushed_lines id r pending done
  | ESync i :: r => if Nat.eqb i id then flushed_lines id r 0 (done + pending) else flushed_lines id r pending done
  | EHook _ :: r => flushed_lines id r pending done
  | EFHook _ :: r => flushed_lines id r pending done
  end.

(* ---------------- WriteSyncer combinators between an IO core and its sinks ----------------
   zapcore/write_syncer.go (Lock, AddSync, NewMultiWriteSyncer) and zapcore/buffered_write_syncer.go, over
   recording sinks whose Write only stages the bytes and whose Sync commits them (a bufio.Writer over a file,
   a batching network sink, another process).  Bytes are counted, not stored (order and content are C12's).
   The state lives in the tree: a sink holds (staged, committed), a BufferedWriteSyncer what its bufio.Writer
   has buffered. *)
Inductive ws :=
| SkSink (staged committed : Z)
| SkBuf (size : Z) (stopped : bool) (buffered : Z) (inner : ws)
| SkLock (inner : ws)
| SkAddSync (inner : ws)
| SkMulti (l : list ws).

Definition zsum (l : list Z) : Z := fold_right Z.add 0 l.
(* initialize(): Size 0 means 256 kB; bufio.NewWriterSize replaces a size <= 0 by 4096 *)
Definition eff_size (sz : Z) : Z := if sz =? 0 then 262144 else if sz <? 0 then 4096 else sz.
(* BufferedWriteSyncer.Write(bs), len bs = n, with b bytes buffered; out = the Writes handed to the wrapped
   WriteSyncer so far, in order *)
Definition buf_step (cap : Z) (stopped : bool) (acc : Z * list Z) (n : Z) : Z * list Z :=
  let '(b, out) := acc in
  (* "manually flush the existing buffer if the current write doesn't fit and the buffer is not empty" *)
  let '(b1, out1) := if (cap - b <? n) && negb (b =? 0) then (0, out ++ [b]) else (b, out) in
  (* bufio.Writer.Write: what does not fit into the (now empty) buffer goes to the wrapped writer as it is,
     anything else is copied into the buffer *)
  let '(b2, out2) := if cap - b1 <? n then (b1, out1 ++ [n]) else (b1 + n, out1) in
  (* "if s.stopped { err = s.writer.Flush() }" (Flush writes nothing when nothing is buffered) *)
  if stopped && negb (b2 =? 0) then (0, out2 ++ [b2]) else (b2, out2).

(* the Writes ns, in order, and then - when sy - one Sync, on the stack s.
   BufferedWriteSyncer.Sync: writer.Flush(), then WS.Sync() - whatever was buffered;
   lockedWriteSyncer, multiWriteSyncer: Write and Sync go to every wrapped WriteSyncer;
   AddSync(w) of a w that has a Sync method is w itself *)
Fixpoint sk_run (ns : list Z) (sy : bool) (s : ws) {struct s} : ws :=
  match s with
  | SkSink st c => if sy then SkSink 0 (c + (st + zsum ns)) else SkSink (st + zsum ns) c
  | SkBuf sz stopped b i =>
      let r := fold_left (buf_step (eff_size sz) stopped) ns (b, []) in
      if sy then SkBuf sz stopped 0 (sk_run (if fst r =? 0 then snd r else snd r ++ [fst r]) true i)
      else SkBuf sz stopped (fst r) (sk_run (snd r) false i)
  | SkLock i => SkLock (sk_run ns sy i)
  | SkAddSync i => SkAddSync (sk_run ns sy i)
  | SkMulti l => SkMulti (map (sk_run ns sy) l)
  end.
Definition sk_write (n : Z) (s : ws) : ws := sk_run [n] false s.
Definition sk_sync (s : ws) : ws := sk_run [] true s.

(* per recording sink (left to right): the bytes written at the top of the stack that the sink has not
   committed = what sits in the buffers above it + what it has staged *)
Fixpoint sk_pending (acc : Z) (s : ws) {struct s} : list Z :=
  match s with
  | SkSink st _ => [acc + st]
  | SkBuf _ _ b i => sk_pending (acc + b) i
  | SkLock i => sk_pending acc i
  | SkAddSync i => sk_pending acc i
  | SkMulti l => flat_map (sk_pending acc) l
  end.
Fixpoint sk_committed (s : ws) : list Z :=
  match s with
  | SkSink _ c => [c]
  | SkBuf _ _ _ i => sk_committed i
  | SkLock i => sk_committed i
  | SkAddSync i => sk_committed i
  | SkMulti l => flat_map sk_committed l
  end.
(* per sink: everything that is somewhere on the way to it or committed by it *)
Fixpoint sk_held (acc : Z) (s : ws) {struct s} : list Z :=
  match s with
  | SkSink st c => [acc + st + c]
  | SkBuf _ _ b i => sk_held (acc + b) i
  | SkLock i => sk_held acc i
  | SkAddSync i => sk_held acc i
  | SkMulti l => flat_map (sk_held acc) l
  end.
Fixpoint sk_nsinks (s : ws) : nat :=
  match s with
  | SkSink _ _ => 1%nat
  | SkBuf _ _ _ i => sk_nsinks i
  | SkLock i => sk_nsinks i
  | SkAddSync i => sk_nsinks i
  | SkMulti l => fold_right (fun x n => (sk_nsinks x + n)%nat) 0%nat l
  end.

(* the stacks of the IO leaves, by leaf id; the events of a call applied to them: the k-th Write of the
   call has length (nth k lens) *)
Definition sinks := nat -> ws.
Definition sk_upd (st : sinks) (i : nat) (v : ws) : sinks := fun j => if Nat.eqb j i then v else st j.
Fixpoint run_evs (lens : list Z) (st : sinks) (evs : list ev) : sinks :=
  match evs with
  | [] => st
  | EWrite i :: r => run_evs (tl lens) (sk_upd st i (sk_write (hd 0 lens) (st i))) r
  | ESync i :: r => run_evs lens (sk_upd st i (sk_sync (st i))) r
  | EHook _ :: r => run_evs lens st r
  | EFHook _ :: r => run_evs lens st r
  end.

(* ---------------- composite cores written through their own Write method ----------------
   zap's own wrappers let the cores beneath them register individually in Check, so CheckedEntry.Write calls the
   leaves' Write directly and multiCore.Write, levelFilterCore.Write, lazyWithCore.Write and the sampler's promoted
   Write are off the path.  A user-defined wrapper of the usual shape (filter / audit / metrics core)

       type forwardingCore struct{ zapcore.Core }
       func (c forwardingCore) Check(ent, ce) *CheckedEntry { if c.Enabled(ent.Level) { return ce.AddCore(ent, c) }; return ce }
       func (c forwardingCore) Write(ent, fields) error     { return c.Core.Write(ent, fields) }
       func (c forwardingCore) With(fields) Core            { return forwardingCore{c.Core.With(fields)} }

   registers ITSELF and forwards Write to whatever it wraps: the composite Write methods are then what stands
   between the CheckedEntry and the IO cores.  [xcore] is a core as its Write method sees it:
     zapcore/core.go            ioCore.Write: encode, out.Write - on an error return it -, Sync above ErrorLevel; nopCore.Write
     zapcore/tee.go             multiCore.Write: for i := range mc { err = multierr.Append(err, mc[i].Write(ent, fields)) }
     zapcore/hook.go            hooked.Write: the hook functions only ("our downstream had a chance to register itself
                                directly with the CheckedMessage, we don't need to call it here") - every one of them,
                                errors appended
     zapcore/increase_level.go  levelFilterCore.Write: c.core.Write (no level check)
     zapcore/sampler.go         no Write method: the embedded Core's (no sampling decision)
     zapcore/lazy_with.go       lazyWithCore.Write: initOnce, d.core.Write
   and the forwarding wrapper.  Core.With keeps the shape (lazyWithCore.With returns the wrapped core's With). *)
Inductive xcore :=
| XLeaf (id : nat)
| XNop
| XTee (cs : list xcore)
| XHooked (c : xcore) (h : nat)
| XFilter (c : xcore)
| XSampled (c : xcore)
| XLazy (c : xcore)
| XFwd (c : xcore).

Section XcoreInd.
  Variable P : xcore -> Prop.
  Hypothesis HL : forall i, P (XLeaf i).
  Hypothesis HN : P XNop.
  Hypothesis HT : forall cs, Forall P cs -> P (XTee cs).
  Hypothesis HH : forall c h, P c -> P (XHooked c h).
  Hypothesis HF : forall c, P c -> P (XFilter c).
  Hypothesis HS : forall c, P c -> P (XSampled c).
  Hypothesis HZ : forall c, P c -> P (XLazy c).
  Hypothesis HW : forall c, P c -> P (XFwd c).
  Fixpoint xcore_ind' (c : xcore) : P c :=
    match c with
    | XLeaf i => HL i
    | XNop => HN
    | XTee cs => HT cs ((fix go (l : list xcore) : Forall P l :=
                           match l with [] => Forall_nil _ | x :: t => Forall_cons _ (xcore_ind' x) (go t) end) cs)
    | XHooked c h => HH c h (xcore_ind' c)
    | XFilter c => HF c (xcore_ind' c)
    | XSampled c => HS c (xcore_ind' c)
    | XLazy c => HZ c (xcore_ind' c)
    | XFwd c => HW c (xcore_ind' c)
    end.
End XcoreInd.

Definition x_new_tee (cs : list xcore) : xcore := match cs with [] => XNop | [c] => c | _ => XTee cs end.
Fixpoint x_with (c : xcore) : xcore :=
  match c with
  | XLeaf i => XLeaf i
  | XNop => XNop
  | XTee cs => XTee (map x_with cs)
  | XHooked c h => XHooked (x_with c) h
  | XFilter c => XFilter (x_with c)
  | XSampled c => XSampled (x_with c)
  | XLazy c => x_with c
  | XFwd c => XFwd (x_with c)
  end.

(* ioCore.Write on a sink whose Write fails ([fails id]) returns the error before it gets to the Sync; the
   result is (events, err != nil) *)
Definition leaf_write (fails : nat -> bool) (hi : bool) (i : nat) : list ev * bool :=
  if fails i then ([EWrite i], true) else (EWrite i :: (if hi then [ESync i] else []), false).
(* Core.Write of a composite; [hfails h]: a hook function of set h returns an error; [hi] = ent.Level > ErrorLevel *)
Fixpoint x_write (fails hfails : nat -> bool) (hi : bool) (c : xcore) {struct c} : list ev * bool :=
  match c with
  | XLeaf i => leaf_write fails hi i
  | XNop => ([], false)
  | XTee cs => (fix go (cs : list xcore) : list ev * bool :=
                  match cs with
                  | [] => ([], false)                                   (* var err error *)
                  | c :: r => let a := x_write fails hfails hi c in     (* err = multierr.Append(err, mc[i].Write(..)) *)
                              let b := go r in (fst a ++ fst b, snd a || snd b)
                  end) cs
  | XHooked _ h => ([EFHook h], hfails h)
  | XFilter c => x_write fails hfails hi c
  | XSampled c => x_write fails hfails hi c
  | XLazy c => x_write fails hfails hi c
  | XFwd c => x_write fails hfails hi c
  end.
(* "return on the first error" in multiCore.Write - refuted (Props: C06_tee_first_error_refuted) *)
Fixpoint x_write_ff (fails hfails : nat -> bool) (hi : bool) (c : xcore) {struct c} : list ev * bool :=
  match c with
  | XLeaf i => leaf_write fails hi i
  | XNop => ([], false)
  | XTee cs => (fix go (cs : list xcore) : list ev * bool :=
                  match cs with
                  | [] => ([], false)
                  | c :: r => let a := x_write_ff fails hfails hi c in
                              if snd a then (fst a, true) else let b := go r in (fst a ++ fst b, snd b)
                  end) cs
  | XHooked _ h => ([EFHook h], hfails h)
  | XFilter c => x_write_ff fails hfails hi c
  | XSampled c => x_write_ff fails hfails hi c
  | XLazy c => x_write_ff fails hfails hi c
  | XFwd c => x_write_ff fails hfails hi c
  end.

(* specification: the IO cores a composite's Write must reach - every leaf beneath it along edges that forward
   Write (all of a tee's, whatever the others return), none beneath a hooked core - and the hook sets it runs *)
Fixpoint x_reach (c : xcore) : list nat :=
  match c with
  | XLeaf i => [i]
  | XNop => []
  | XTee cs => (fix go (cs : list xcore) : list nat := match cs with [] => [] | c :: r => x_reach c ++ go r end) cs
  | XHooked _ _ => []
  | XFilter c => x_reach c
  | XSampled c => x_reach c
  | XLazy c => x_reach c
  | XFwd c => x_reach c
  end.
Fixpoint x_hooks (c : xcore) : list nat :=
  match c with
  | XLeaf _ => []
  | XNop => []
  | XTee cs => (fix go (cs : list xcore) : list nat := match cs with [] => [] | c :: r => x_hooks c ++ go r end) cs
  | XHooked _ h => [h]
  | XFilter c => x_hooks c
  | XSampled c => x_hooks c
  | XLazy c => x_hooks c
  | XFwd c => x_hooks c
  end.
(* every leaf of the tree, in pre-order (the order in which the harness hands out sink stacks and files) *)
Fixpoint x_leaves (c : xcore) : list nat :=
  match c with
  | XLeaf i => [i]
  | XNop => []
  | XTee cs => (fix go (cs : list xcore) : list nat := match cs with [] => [] | c :: r => x_leaves c ++ go r end) cs
  | XHooked c _ => x_leaves c
  | XFilter c => x_leaves c
  | XSampled c => x_leaves c
  | XLazy c => x_leaves c
  | XFwd c => x_leaves c
  end.

(* what is on the CheckedEntry: IO leaves, hooked cores and forwarding wrappers ([fw id] = the core wrapper number
   id wraps).  CheckedEntry.Write: for i := range ce.cores { err = multierr.Append(err, ce.cores[i].Write(ce.Entry, fields)) } *)
Record fenv := { fe_fw : nat -> option xcore; fe_fails : nat -> bool; fe_hfails : nat -> bool }.
Definition core_write (fx : fenv) (hi : bool) (x : writer) : list ev * bool :=
  match x with
  | WLeaf i => match fe_fw fx i with
               | Some c => x_write (fe_fails fx) (fe_hfails fx) hi c
               | None => leaf_write (fe_fails fx) hi i
               end
  | WHook h => ([EHook h], fe_hfails fx h)
  end.
Fixpoint ce_write (fx : fenv) (hi : bool) (ws : list writer) : list ev * bool :=
  match ws with
  | [] => ([], false)
  | x :: r => let a := core_write fx hi x in let b := ce_write fx hi r in (fst a ++ fst b, snd a || snd b)
  end.
(* one call on a logger whose tree contains forwarding wrappers and cores that fail: [lcore lg] is the tree as
   Core.Check sees it - a forwarding wrapper is a leaf that is enabled when the core it wraps is (fwd_enabler
   below) - and CheckedEntry.Write goes through the Write methods *)
Definition log_call_x (fx : fenv) (dec : decisions) (w : world) (lg : logger) (f : fam) (l : level) : list ev * option action :=
  (fst (ce_write fx (ErrorL <? l) (call_writers_s dec w (lcore lg) f l)), snd (log_call_s dec w lg (fun _ => true) f l)).
(* no wrappers, nothing fails *)
Definition fx_plain : fenv := {| fe_fw := fun _ => None; fe_fails := fun _ => false; fe_hfails := fun _ => false |}.

(* specification *)
Definition reach_of (fx : fenv) (i : nat) : list nat := match fe_fw fx i with Some c => x_reach c | None => [i] end.
Definition fhooks_of (fx : fenv) (i : nat) : list nat := match fe_fw fx i with Some c => x_hooks c | None => [] end.

(* sinks: a Write that fails leaves nothing in the sink; every Write of a healthy IO core above error level is
   immediately followed by the Sync of the same sink, a failed one is not, and there is no other Sync *)
Fixpoint flushed_lines_x (fails : nat -> bool) (id : nat) (evs : list ev) (pending done : nat) : nat :=
  match evs with
  | [] => done
  | EWrite i :: r => if Nat.eqb i id && negb (fails i) then flushed_lines_x fails id r (S pending) done
                     else flushed_lines_x fails id r pending done
  | ESync i :: r => if Nat.eqb i id then flushed_lines_x fails id r 0 (done + pending) else flushed_lines_x fails id r pending done
  | EHook _ :: r => flushed_lines_x fails id r pending done
  | EFHook _ :: r => flushed_lines_x fails id r pending done
  end.
Fixpoint run_evs_x (fails : nat -> bool) (lens : list Z) (st : sinks) (evs : list ev) : sinks :=
  match evs with
  | [] => st
  | EWrite i :: r => if fails i then run_evs_x fails lens st r
                     else run_evs_x fails (tl lens) (sk_upd st i (sk_write (hd 0 lens) (st i))) r
  | ESync i :: r => run_evs_x fails lens (sk_upd st i (sk_sync (st i))) r
  | EHook _ :: r => run_evs_x fails lens st r
  | EFHook _ :: r => run_evs_x fails lens st r
  end.

(* ---------------- the sampler's counters ---------------- *)
(* sampler.go: counters.get(lvl, key) = counts[lvl - _minLevel][fnv32a(key) % _countersPerLevel], 4096 counters per
   level: two messages share a counter exactly when they fall into the same bucket.  The bucket of a call's message
   is an input of the model (field 7 of the call): the harness computes it with hash/fnv (New32a - sampler.go's
   fnv32a is "adapted from hash/fnv"), the standard library as oracle, as it does for the message itself *)
(* the counters of all samplers of one logger within one tick (one goroutine): (sampler, level, bucket, n) *)
Definition ctrs := list (nat * Z * Z * Z).
Definition ctr_same (k : nat) (l b : Z) (x : nat * Z * Z * Z) : bool :=
  let '(k', l', b', _) := x in Nat.eqb k k' && (l =? l') && (b =? b').
Fixpoint ctr_get (c : ctrs) (k : nat) (l b : Z) : Z :=
  match c with
  | [] => 0
  | x :: r => if ctr_same k l b x then snd x else ctr_get r k l b
  end.
(* counter.IncCheckReset within the tick: n = the number of entries of this level and bucket the sampler has
   been asked about, this one included;  n > s.first && (s.thereafter == 0 || (n-s.first)%s.thereafter != 0) *)
Definition ctr_dec (c : ctrs) (ps : list (Z * Z)) (l b : Z) : decisions :=
  fun k => let '(fi, th) := nth k ps (1073741824, 0) in drop_at (ctr_get c k l b + 1) fi th.
Fixpoint ctr_inc (c : ctrs) (k : nat) (l b : Z) : ctrs :=
  match c with
  | [] => [(k, l, b, 1)]
  | x :: r => if ctr_same k l b x then (fst x, snd x + 1) :: r else x :: ctr_inc r k l b
  end.
Definition ctr_bump (c : ctrs) (ks : list nat) (l b : Z) : ctrs := fold_left (fun c k => ctr_inc c k l b) ks c.

(* ---------------- wire ---------------- *)
Definition dec_recv (z : Z) : recv := match z with 0 => RLogger | 1 => RSugar | 2 => RGrpc | 3 => RZapio | _ => RStdLog end.
Definition dec_kind (z : Z) : kind :=
  match z with 0 => KLog | 1 => KDebug | 2 => KInfo | 3 => KWarn | 4 => KError | 5 => KDPanic | 6 => KPanic | 7 => KFatal | 8 => KCheck | _ => KPrint end.
Definition dec_suffix (z : Z) : suffix := match z with 0 => SNone | 1 => Sf | 2 => Sw | _ => Sln end.
Definition enc_recv (r : recv) : Z := match r with RLogger => 0 | RSugar => 1 | RGrpc => 2 | RZapio => 3 | RStdLog => 4 end.
Definition enc_kind (k : kind) : Z :=
  match k with KLog => 0 | KDebug => 1 | KInfo => 2 | KWarn => 3 | KError => 4 | KDPanic => 5 | KPanic => 6 | KFatal => 7 | KCheck => 8 | KPrint => 9 end.
Definition enc_suffix (s : suffix) : Z := match s with SNone => 0 | Sf => 1 | Sw => 2 | Sln => 3 end.
Definition enc_method (m : method) : sx := SL [SZ (enc_recv (m_recv m)); SZ (enc_kind (m_kind m)); SZ (enc_suffix (m_suffix m))].

Definition dec_hook (s : sx) : hookcfg :=
  match sx_z (sx_nth s 0) with
  | 0 => HNil | 1 => HNoop | 2 => HGoexit | 3 => HPanic | 4 => HFatal
  | 6 => HHook (sx_n (sx_nth s 1)) (sx_z (sx_nth s 2))
  | _ => HCustom (sx_n (sx_nth s 1))
  end.
Definition enc_ev (e : ev) : sx :=
  match e with EWrite i => SL [SZ 0; of_nat i] | ESync i => SL [SZ 1; of_nat i] | EHook h => SL [SZ 2; of_nat h]
             | EFHook h => SL [SZ 3; of_nat h] end.
Definition dec_ev (s : sx) : ev :=
  match sx_z (sx_nth s 0) with 0 => EWrite (sx_n (sx_nth s 1)) | 1 => ESync (sx_n (sx_nth s 1)) | 2 => EHook (sx_n (sx_nth s 1))
                             | _ => EFHook (sx_n (sx_nth s 1)) end.
(* ---------------- the terminal action works on the *CheckedEntry it is handed ----------------
   CheckWriteAction.OnWrite(ce, _): WriteThenPanic does panic(ce.Message).  A custom CheckWriteHook may look at ce
   (level, message, logger name) and act on what it finds; the hooks of kind 6 do, after logging through another
   logger.  [saw] = what is in the entry at that moment (C06/Pool.v) *)
Definition delegate (mode : Z) (saw : entry) : sx :=
  match mode with
  | 1 => SL [SZ 0; SB (en_msg saw)]                        (* WriteThenPanic.OnWrite(ce, fields) *)
  | 2 => SL [SZ 2]                                         (* WriteThenGoexit.OnWrite *)
  | 3 => if en_level saw =? FatalL then SL [SZ 2]          (* switch ce.Level *)
         else if (en_level saw =? PanicL) || (en_level saw =? DPanicL) then SL [SZ 0; SB (en_msg saw)]
         else SL []
  | 4 => SL [SZ 1]                                         (* WriteThenFatal.OnWrite *)
  | _ => SL []                                             (* the hook returns; so does the call *)
  end.
Definition hook_term (a : option action) (saw : entry) : sx :=
  match a with
  | None => SL []
  | Some APanic => SL [SZ 0; SB (en_msg saw)]
  | Some AExit => SL [SZ 1] | Some AGoexit => SL [SZ 2] | Some (ACustom k) => SL [SZ 3; of_nat k]
  | Some (AHook k mode) => SL [SZ 4; of_nat k; delegate mode saw]
  end.
(* the custom hooks report what they found in the entry *)
Definition hook_looks (a : option action) : bool :=
  match a with Some (ACustom _) | Some (AHook _ _) => true | _ => false end.
Definition enc_entry (e : entry) : sx := SL [SZ (en_level e); SB (en_msg e); SB (en_name e)].
(* the cores on the CheckedEntry are handed ce.Entry one after the other, one read each; the entry hooks among them
   report what they were handed - and so do the hook sets beneath a forwarding wrapper, which are handed what the
   wrapper was *)
Fixpoint reads_x (fx : fenv) (ws : list writer) (reads : list entry) : list entry :=
  match ws with
  | [] => []
  | WLeaf i :: r => repeat (hd blank reads) (length (fhooks_of fx i)) ++ reads_x fx r (tl reads)
  | WHook _ :: r => hd blank reads :: reads_x fx r (tl reads)
  end.
Record noise := { nz_name : bytes; nz_nested : nat; nz_conc : nat }.
Definition dec_noise (i : sx) : noise :=
  let n := sx_nth i 8 in
  {| nz_name := sx_b (sx_nth n 0); nz_nested := sx_n (sx_nth n 1);
     nz_conc := if sx_z (sx_nth n 3) =? 0 then 0%nat else S (sx_n (sx_nth n 2)) |}.

Record call := { c_method : method; c_level : level; c_msg : bytes; c_lens : list Z; c_bucket : Z }.
Definition dec_call (s : sx) : call :=
  {| c_method := {| m_recv := dec_recv (sx_z (sx_nth s 0)); m_kind := dec_kind (sx_z (sx_nth s 1)); m_suffix := dec_suffix (sx_z (sx_nth s 2)) |};
     c_level := sx_z (sx_nth s 3); c_msg := sx_b (sx_nth s 4); c_lens := map sx_z (sx_l (sx_nth s 6));
     c_bucket := sx_z (sx_nth s 7) |}.

(* a stack as the harness built it: nothing buffered, nothing staged, nothing committed *)
Fixpoint dec_ws (s : sx) {struct s} : ws :=
  match s with
  | SL (SZ tag :: args) =>
      match tag, args with
      | 1, [sz; stopped; i] => SkBuf (sx_z sz) (sx_bool stopped) 0 (dec_ws i)
      | 2, [i] => SkLock (dec_ws i)
      | 3, [i] => SkAddSync (dec_ws i)
      | 4, [SL l] => SkMulti (map dec_ws l)
      | _, _ => SkSink 0 0
      end
  | _ => SkSink 0 0
  end.
Definition dec_stacks (i : sx) : list ws := map dec_ws (sx_l (sx_nth i 7)).

Definition all_io (id : nat) : bool := true.
Definition leaf_ids (c : core) : list nat := map snd (paths c).

Definition is_table (i : sx) : bool := match i with SB _ => true | _ => false end.

(* ---------------- trees with forwarding wrappers: (9 t id) ----------------
   the tree as the Write methods see it *)
Fixpoint dec_x (s : sx) {struct s} : xcore :=
  match s with
  | SL (SZ tag :: args) =>
      match tag, args with
      | 0, [id; _] => XLeaf (sx_n id)
      | 2, cs => x_new_tee (map dec_x cs)
      | 3, [c; h] => XHooked (dec_x c) (sx_n h)
      | 4, [c; _] => XFilter (dec_x c)      (* a rejected NewIncreaseLevelCore leaves the wrapped core: the same Write *)
      | 5, [c] => XSampled (dec_x c)
      | 8, [c; _; _] => XSampled (dec_x c)
      | 6, [c] => XLazy (dec_x c)
      | 7, [c] => x_with (dec_x c)
      | 9, [c; _] => XFwd (dec_x c)
      | _, _ => XNop
      end
  | _ => XNop
  end.
(* the tree without the wrappers: what Enabled sees (the wrapper embeds the Core: Enabled is promoted) *)
Fixpoint strip_fwd (s : sx) {struct s} : sx :=
  match s with
  | SL (SZ tag :: args) =>
      match tag, args with
      | 2, cs => SL (SZ 2 :: map strip_fwd cs)
      | 3, [c; h] => SL [SZ 3; strip_fwd c; h]
      | 4, [c; en] => SL [SZ 4; strip_fwd c; en]
      | 5, [c] => SL [SZ 5; strip_fwd c]
      | 6, [c] => SL [SZ 6; strip_fwd c]
      | 7, [c] => SL [SZ 7; strip_fwd c]
      | 8, [c; fi; th] => SL [SZ 8; strip_fwd c; fi; th]
      | 9, [c; _] => strip_fwd c
      | _, _ => s
      end
  | _ => s
  end.
(* a LevelEnablerFunc as the wire spells it: a truth table over the 256 values of zapcore.Level *)
Definition tbl_of (f : level -> bool) : bytes :=
  map (fun n => if f (Z.of_nat n - 128) then x01 else x00) (seq 0 256).
(* the tree as Core.Check sees it: an (outermost) wrapper is a core that adds itself when the core it wraps is
   enabled - a leaf whose enabler is [en_of w c], c = the wrapped core: the code's Enabled in the model, the path
   specification's accepts in the oracle.  What is beneath the wrapper is not asked (no Check, no sampler decision) *)
Fixpoint outer_sx (en_of : world -> core -> level -> bool) (ok : world -> core -> enabler -> bool) (w : world) (s : sx) {struct s} : sx :=
  match s with
  | SL (SZ tag :: args) =>
      match tag, args with
      | 2, cs => SL (SZ 2 :: map (outer_sx en_of ok w) cs)
      | 3, [c; h] => SL [SZ 3; outer_sx en_of ok w c; h]
      | 4, [c; en] => SL [SZ 4; outer_sx en_of ok w c; en]
      | 5, [c] => SL [SZ 5; outer_sx en_of ok w c]
      | 6, [c] => SL [SZ 6; outer_sx en_of ok w c]
      | 7, [c] => SL [SZ 7; outer_sx en_of ok w c]
      | 8, [c; fi; th] => SL [SZ 8; outer_sx en_of ok w c; fi; th]
      | 9, [c; id] => SL [SZ 0; id; SL [SZ 2; SB (tbl_of (en_of w (fst (build_with ok w (strip_fwd c)))))]]
      | _, _ => s
      end
  | _ => s
  end.
(* the (outermost) wrappers of a tree and what each of them wraps *)
Fixpoint fwds (s : sx) {struct s} : list (nat * xcore) :=
  match s with
  | SL (SZ tag :: args) =>
      match tag, args with
      | 2, cs => flat_map fwds cs
      | 3, [c; _] => fwds c
      | 4, [c; _] => fwds c
      | 5, [c] => fwds c
      | 6, [c] => fwds c
      | 7, [c] => map (fun p => (fst p, x_with (snd p))) (fwds c)
      | 8, [c; _; _] => fwds c
      | 9, [c; id] => [(sx_n id, dec_x c)]
      | _, _ => []
      end
  | _ => []
  end.
Definition fw_find (l : list (nat * xcore)) (i : nat) : option xcore :=
  match find (fun p => Nat.eqb (fst p) i) l with Some p => Some (snd p) | None => None end.
(* element 9 of the input: the leaves whose sink fails every Write; the harness's hook sets with an odd number
   return an error after they ran *)
Definition dec_fenv (i : sx) : fenv :=
  {| fe_fw := fw_find (fwds (sx_nth i 0));
     fe_fails := fun id => existsb (Nat.eqb id) (map sx_n (sx_l (sx_nth i 9)));
     fe_hfails := Nat.odd |}.
Definition all_leaves (i : sx) : list nat := x_leaves (dec_x (sx_nth i 0)).

Definition dec_logger (en_of : world -> core -> level -> bool) (ok : world -> core -> enabler -> bool) (w0 : world) (i : sx) : logger :=
  {| lcore := fst (build_with ok w0 (outer_sx en_of ok w0 (sx_nth i 0))); dev := sx_bool (sx_nth i 2);
     on_panic := dec_hook (sx_nth i 3); on_fatal := dec_hook (sx_nth i 4) |}.

(* the leaves that have a stack (the first ones, in pre-order), and the initial state *)
Definition sk_ids (leaves : list nat) (stks : list ws) : list nat := firstn (length stks) leaves.
Definition sk_init (ids : list nat) (stks : list ws) : sinks :=
  fun id => match find (fun p => Nat.eqb (fst p) id) (combine ids stks) with Some p => snd p | None => SkSink 0 0 end.
Definition enc_pend (ids : list nat) (st : sinks) : sx :=
  SL (map (fun id => SL (map SZ (sk_pending 0 (st id)))) ids).

(* one call, given the samplers' decisions for it: the events, the terminal action, what every sink below every
   leaf has not committed when the call ends (= when control is lost, if it is), and the decisions of the
   samplers the call reached; the state of the stacks goes on to the next call *)
Definition model_call (fx : fenv) (nz : noise) (dec : decisions) (w : world) (lg : logger) (ids : list nat) (st : sinks) (cl : call) : sx * sinks :=
  let f := fam_of (c_method cl) in
  let l := c_level cl in
  let ws := call_writers_s dec w (lcore lg) f l in
  let r := log_call_x fx dec w lg f l in
  let st' := run_evs_x (fe_fails fx) (c_lens cl) st (fst r) in
  (* the entry goes through the CheckedEntry pool, with the log calls of hooks, sinks, marshalers and of the other
     goroutine in every gap: what the cores are handed and what the terminal action finds in the entry *)
  let seen := wire_seen false {| en_level := l; en_msg := c_msg cl; en_name := nz_name nz |}
                        (length ws) (nz_nested nz) (nz_conc nz) in
  (SL [SL (map enc_ev (fst r)); hook_term (snd r) (snd seen); enc_pend ids st';
       SL (map (enc_report dec) (call_consulted dec w (lcore lg) f l));
       SL (map enc_entry (reads_x fx ws (fst seen) ++ (if hook_looks (snd r) then [snd seen] else [])))], st').
(* the calls of a case, one after the other on the same logger: the decisions of the call at hand come from the
   counters (ps = (first, thereafter) of every sampler); afterwards every sampler the call reached has counted
   the entry *)
Fixpoint model_calls (fx : fenv) (nz : noise) (ps : list (Z * Z)) (ctr : ctrs) (w : world) (lg : logger) (ids : list nat) (st : sinks)
    (cls : list call) : list sx :=
  match cls with
  | [] => []
  | cl :: r => let b := c_bucket cl in
               let dec := ctr_dec ctr ps (c_level cl) b in
               let o := model_call fx nz dec w lg ids st cl in
               fst o :: model_calls fx nz ps (ctr_bump ctr (call_consulted dec w (lcore lg) (fam_of (c_method cl)) (c_level cl)) (c_level cl) b)
                                    w lg ids (snd o) r
  end.

Definition model (i : sx) : sx :=
  if is_table i then SL (map enc_method methods) else
  let w0 := world_of (sx_nth i 1) in
  let lg := dec_logger enabled increase_ok w0 i in
  let fx := dec_fenv i in
  (* the samplers beneath a wrapper are never asked: they are not numbered *)
  let ps := sparams (outer_sx enabled increase_ok w0 (sx_nth i 0)) in
  let calls := map dec_call (sx_l (sx_nth i 6)) in
  let child := sx_bool (sx_nth i 5) in
  let stks := dec_stacks i in
  let ids := sk_ids (all_leaves i) stks in
  SL [SL (model_calls fx (dec_noise i) ps [] w0 lg ids (sk_init ids stks) calls);
      SL (match calls with
          | [cl] => if child then
                      map (fun id => of_nat (flushed_lines_x (fe_fails fx) id
                                               (fst (log_call_x fx (ctr_dec [] ps (c_level cl) (c_bucket cl)) w0 lg (fam_of (c_method cl)) (c_level cl))) 0 0))
                          (all_leaves i)
                    else []
          | _ => []
          end)].

(* ---------------- the oracle (written against C05's path specification) ---------------- *)
(* the terminal action a call at level l must end with *)
Definition hook_or (default : action) (h : hookcfg) : action :=
  match h with HGoexit => AGoexit | HPanic => APanic | HFatal => AExit | HCustom k => ACustom k | HHook k m => AHook k m | HNil | HNoop => default end.
Definition must_end (lg : logger) (l : level) : option action :=
  if existsb (Z.eqb l) [PanicL] then Some (hook_or APanic (on_panic lg))
  else if existsb (Z.eqb l) [FatalL] then Some (hook_or AExit (on_fatal lg))
  else if (l =? DPanicL) && dev lg then Some (hook_or APanic (on_panic lg))
  else None.

Definition writes_of (evs : list ev) : list nat := flat_map (fun e => match e with EWrite i => [i] | _ => [] end) evs.
Definition ev_hooks_of (evs : list ev) : list nat := flat_map (fun e => match e with EHook h => [h] | _ => [] end) evs.
Definition ev_fhooks_of (evs : list ev) : list nat := flat_map (fun e => match e with EFHook h => [h] | _ => [] end) evs.
(* every Write above error level is immediately followed by the Sync of the same sink; no other Sync *)
Fixpoint sync_ok (hi : bool) (evs : list ev) : bool :=
  match evs with
  | [] => true
  | EWrite i :: r =>
      if hi then match r with ESync j :: r' => Nat.eqb i j && sync_ok hi r' | _ => false end
      else sync_ok hi r
  | ESync _ :: _ => false
  | EHook _ :: r => sync_ok hi r
  | EFHook _ :: r => sync_ok hi r
  end.
(* the same when sinks may fail: the Write of a healthy IO core above error level is immediately followed by the
   Sync of its sink; a Write that failed is not (ioCore.Write returns the error); no other Sync *)
Fixpoint sync_ok_x (fails : nat -> bool) (hi : bool) (evs : list ev) : bool :=
  match evs with
  | [] => true
  | EWrite i :: r =>
      if hi && negb (fails i) then match r with ESync j :: r' => Nat.eqb i j && sync_ok_x fails hi r' | _ => false end
      else sync_ok_x fails hi r
  | ESync _ :: _ => false
  | EHook _ :: r => sync_ok_x fails hi r
  | EFHook _ :: r => sync_ok_x fails hi r
  end.
(* the terminal observation a call at level l whose arguments amount to msg must end with: a panic
   carries exactly the message (also an empty one) *)
Definition spec_term (lg : logger) (l : level) (msg : bytes) : sx :=
  match must_end lg l with
  | None => SL []
  | Some APanic => SL [SZ 0; SB msg]
  | Some AExit => SL [SZ 1]
  | Some AGoexit => SL [SZ 2]
  | Some (ACustom k) => SL [SZ 3; of_nat k]
  | Some (AHook k mode) =>
      (* the hook is handed the entry that was logged - whatever was logged in between - and acts on it *)
      SL [SZ 4; of_nat k;
          match mode with
          | 1 => SL [SZ 0; SB msg]
          | 2 => SL [SZ 2]
          | 3 => if l =? FatalL then SL [SZ 2] else SL [SZ 0; SB msg]
          | 4 => SL [SZ 1]
          | _ => SL []
          end]
  end.
(* every entry hook - on the CheckedEntry or beneath a forwarding wrapper - was handed, and a custom terminal hook finds in the *CheckedEntry, the entry of THIS call: its
   level, its message, the name of its logger - however many other log calls ran since it was checked *)
Definition spec_seen (lg : logger) (name : bytes) (cl : call) (evs : list ev) (o : sx) : bool :=
  sx_eqb o (SL (repeat (SL [SZ (c_level cl); SB (c_msg cl); SB name])
                       (length (ev_hooks_of evs) + length (ev_fhooks_of evs) +
                        match must_end lg (c_level cl) with Some (ACustom _) | Some (AHook _ _) => 1 | _ => 0 end))).

(* "so the final message is never left in a buffer": when a call above error level ends - when control
   is lost, if the call is terminal - every recording sink below every leaf the entry was delivered to,
   whatever WriteSyncer combinators sit in between, has committed everything the IO core has written *)
Definition is_zero (s : sx) : bool := match s with SZ 0 => true | _ => false end.
(* the IO cores the entry must have been handed to: the leaves on the CheckedEntry and, for every forwarding wrapper
   on it, every leaf the Write methods beneath the wrapper reach - whichever of them fail *)
Definition must_reach (fx : fenv) (dec : decisions) (w : world) (lg : logger) (l : level) : list nat :=
  flat_map (reach_of fx) (delivered_s dec w (lcore lg) 0 l).
Definition spec_pend (fx : fenv) (dec : decisions) (w : world) (lg : logger) (ids : list nat) (stks : list ws) (l : level) (o : sx) : bool :=
  Nat.eqb (length (sx_l o)) (length ids) &&
  forallb (fun x : nat * sx =>
             let '(id, p) := x in
             Nat.eqb (length (sx_l p)) (sk_nsinks (sk_init ids stks id)) &&
             (if (ErrorL <? l) && negb (fe_fails fx id) && existsb (Nat.eqb id) (must_reach fx dec w lg l)
              then forallb is_zero (sx_l p) else true))
          (combine ids (sx_l o)).

(* "handed to every accepting core ... even when the entry is sampled out": the samplers that reported a drop
   during the call excuse the leaves beneath themselves and no other (delivered_s: every root-to-leaf path all of
   whose level filters enable the level and none of whose samplers dropped) - a core next to, before or after a
   sampler that drops, a disabled filter, a declining wrapper or a core whose Write FAILS still gets the entry *)
Definition spec_call (fx : fenv) (name : bytes) (w : world) (lg : logger) (ids : list nat) (stks : list ws) (cl : call) (o : sx) : bool :=
  let evs := map dec_ev (sx_l (sx_nth o 0)) in
  let l := c_level cl in
  let dec := reported_drop (sx_l (sx_nth o 3)) in
  nat_list_eqb (writes_of evs) (must_reach fx dec w lg l) &&       (* handed to every accepting core, in order *)
  nat_list_eqb (ev_hooks_of evs) (hooks_due_s dec w (lcore lg) 0 l) &&
  nat_list_eqb (ev_fhooks_of evs) (flat_map (fhooks_of fx) (delivered_s dec w (lcore lg) 0 l)) &&
  sync_ok_x (fe_fails fx) (ErrorL <? l) evs &&                     (* healthy IO cores synced before control is lost *)
  sx_eqb (sx_nth o 1) (spec_term lg l (c_msg cl)) &&               (* and then the terminal action, or none *)
  spec_pend fx dec w lg ids stks l (sx_nth o 2) &&                 (* with nothing left in a buffer *)
  spec_seen lg name cl evs (sx_nth o 4).                           (* on the entry that was logged *)
Fixpoint spec_calls (fx : fenv) (name : bytes) (w : world) (lg : logger) (ids : list nat) (stks : list ws) (cls : list call) (os : list sx) : bool :=
  match cls, os with
  | [], [] => true
  | cl :: r, o :: os' => spec_call fx name w lg ids stks cl o && spec_calls fx name w lg ids stks r os'
  | _, _ => false
  end.
Definition count_writes (id : nat) (l : list nat) : nat := length (filter (Nat.eqb id) l).

Definition spec (i o : sx) : bool :=
  if is_table i then sx_eqb o (SL (map enc_method methods)) else
  let w0 := world_of (sx_nth i 1) in
  let lg := dec_logger accepts spec_increase_ok w0 i in
  let fx := dec_fenv i in
  let calls := map dec_call (sx_l (sx_nth i 6)) in
  let child := sx_bool (sx_nth i 5) in
  let stks := dec_stacks i in
  spec_calls fx (sx_b (sx_nth (sx_nth i 8) 0)) w0 lg (sk_ids (all_leaves i) stks) stks calls (sx_l (sx_nth o 0)) &&
  (* child process running one call: after the process is gone, the file behind every buffered sink that works
     holds one line per delivery of an entry above error level *)
  (match calls with
   | [cl] => if child then
               let dec := reported_drop (sx_l (sx_nth (sx_nth (sx_nth o 0) 0) 3)) in
               nat_list_eqb (map sx_n (sx_l (sx_nth o 1)))
                 (map (fun id => if (ErrorL <? c_level cl) && negb (fe_fails fx id)
                                 then count_writes id (must_reach fx dec w0 lg (c_level cl)) else 0%nat)
                      (all_leaves i))
             else true
   | _ => true
   end).

(* C06 — stub *)
From Zap Require Import Base.Wire C06.Model.

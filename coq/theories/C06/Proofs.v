(* C06 proofs. *)
From Coq Require Import List Bool ZArith Lia Arith.
From Coq.Strings Require Import Byte.
Import ListNotations.
From Zap Require Import Base.Wire C05.Cores C05.CoreProofs C05.Sampling C05.SamplingProofs C05.Model C05.Proofs C06.Pool C06.PoolProofs C06.Model.
Open Scope Z_scope.

(* the levels at which a logger must lose control *)
Definition terminal (lg : logger) (l : level) : Prop :=
  l = PanicL \/ l = FatalL \/ (l = DPanicL /\ dev lg = true).
(* the action: the configured hook, except that nil and WriteThenNoop mean the default *)
Definition expected_action (lg : logger) (l : level) : action :=
  if l =? FatalL then override AExit (on_fatal lg) else override APanic (on_panic lg).

Lemma after_hook_terminal lg l : terminal lg l -> after_hook lg l = Some (expected_action lg l).
Proof.
  unfold terminal, after_hook, expected_action, PanicL, FatalL, DPanicL.
  intros [->|[->|[-> Hd]]]; cbn; [reflexivity|reflexivity|rewrite Hd; reflexivity].
Qed.
Lemma after_hook_not_terminal lg l : ~ terminal lg l -> after_hook lg l = None.
Proof.
  unfold terminal, after_hook. intros H.
  destruct (l =? PanicL) eqn:E1; [apply Z.eqb_eq in E1; tauto|].
  destruct (l =? FatalL) eqn:E2; [apply Z.eqb_eq in E2; tauto|].
  destruct (l =? DPanicL) eqn:E3; [|reflexivity]. apply Z.eqb_eq in E3.
  destruct (dev lg) eqn:D; [tauto|reflexivity].
Qed.
Lemma after_hook_must_end lg l : after_hook lg l = must_end lg l.
Proof.
  unfold after_hook, must_end. cbn [existsb]. rewrite !orb_false_r.
  destruct (l =? PanicL); [destruct (on_panic lg); reflexivity|].
  destruct (l =? FatalL); [destruct (on_fatal lg); reflexivity|].
  destruct (l =? DPanicL), (dev lg); cbn [andb]; try reflexivity; destruct (on_panic lg); reflexivity.
Qed.

(* whatever Core.Check answered - nil because the level is disabled, the core is a no-op or the
   sampler dropped the entry, or any list of cores - the cores are written and then the hook runs *)
Theorem finish_terminal lg io l e :
  terminal lg l -> finish lg io l e = (write_events io l (cores_of e), Some (expected_action lg l)).
Proof. intros H. unfold finish. rewrite (after_hook_terminal lg l H). destruct e; reflexivity. Qed.
Theorem finish_not_terminal lg io l e :
  ~ terminal lg l -> finish lg io l e = (write_events io l (cores_of e), None).
Proof. intros H. unfold finish. rewrite (after_hook_not_terminal lg l H). destruct e; reflexivity. Qed.

(* ---------------- front ends ---------------- *)
Definition all_below (gs : list guard) : bool := forallb (fun g => match g with GBelowDPanic => true | GAlways => false end) gs.
Lemma methods_guards_ok :
  forallb (fun m => forallb (fun l => negb (can_log m l) || all_below (guards_of (fam_of m))) [DPanicL; PanicL; FatalL]) methods = true.
Proof. vm_compute. reflexivity. Qed.

Lemma terminal_level lg l : terminal lg l -> In l [DPanicL; PanicL; FatalL].
Proof. unfold terminal. cbn [In]. intros [->|[->|[-> _]]]; auto. Qed.

Lemma reaches_terminal w c m l lg :
  In m methods -> can_log m l = true -> terminal lg l -> reaches_check w c (fam_of m) l = true.
Proof.
  intros Hm Hc Ht. pose proof methods_guards_ok as H. rewrite forallb_forall in H. specialize (H m Hm).
  rewrite forallb_forall in H. specialize (H l (terminal_level lg l Ht)). rewrite Hc in H. cbn [negb orb] in H.
  unfold reaches_check. unfold all_below in H. rewrite forallb_forall in H. apply forallb_forall. intros g Hg.
  specialize (H g Hg). destruct g; [|discriminate H]. cbn [guard_pass].
  assert ((l <? DPanicL) = false) as ->; [|reflexivity].
  apply Z.ltb_ge. destruct (terminal_level lg l Ht) as [<-|[<-|[<-|[]]]]; unfold DPanicL, PanicL, FatalL; lia.
Qed.

Lemma log_call_eq w lg io f l :
  log_call w lg io f l =
  if reaches_check w (lcore lg) f l then finish lg io l (logger_check w (lcore lg) l) else ([], None).
Proof. reflexivity. Qed.

Theorem terminates_thm w lg io m l :
  In m methods -> can_log m l = true -> terminal lg l ->
  log_call w lg io (fam_of m) l = (write_events io l (appended w (lcore lg) l), Some (expected_action lg l)).
Proof.
  intros Hm Hc Ht. rewrite log_call_eq, (reaches_terminal w (lcore lg) m l lg Hm Hc Ht).
  rewrite (finish_terminal lg io l _ Ht), logger_check_cores. reflexivity.
Qed.

(* a call that is not terminal never runs a terminal action; what it writes is the same *)
Theorem not_terminal_thm w lg io f l :
  ~ terminal lg l -> log_call w lg io f l = (write_events io l (appended w (lcore lg) l), None).
Proof.
  intros Ht. rewrite log_call_eq. destruct (reaches_check w (lcore lg) f l) eqn:R.
  - rewrite (finish_not_terminal lg io l _ Ht), logger_check_cores. reflexivity.
  - destruct (accepts w (lcore lg) l) eqn:A.
    + rewrite (reaches_check_accepted w (lcore lg) f l A) in R. discriminate R.
    + rewrite (appended_not_accepted w (lcore lg) l A). reflexivity.
Qed.

Theorem dpanic_iff_dev w lg io m :
  In m methods -> can_log m DPanicL = true ->
  (snd (log_call w lg io (fam_of m) DPanicL) <> None <-> dev lg = true).
Proof.
  intros Hm Hc. destruct (dev lg) eqn:D.
  - assert (terminal lg DPanicL) as Ht by (right; right; auto).
    rewrite (terminates_thm w lg io m DPanicL Hm Hc Ht). cbn [snd]. split; [reflexivity|discriminate].
  - assert (~ terminal lg DPanicL) as Ht.
    { unfold terminal, DPanicL, PanicL, FatalL. intros [H|[H|[_ H]]]; [discriminate H|discriminate H|congruence]. }
    rewrite (not_terminal_thm w lg io _ DPanicL Ht). cbn [snd]. split; [congruence|discriminate].
Qed.

(* ---------------- the message ---------------- *)
(* what a call does never depends on the message its arguments amount to (any method, any level) *)
Theorem message_irrelevant w lg io m l msg :
  fst (front_call w lg io m l msg) = log_call w lg io (fam_of m) l.
Proof. unfold front_call. cbn [fst]. destruct (log_call w lg io (fam_of m) l); reflexivity. Qed.

(* a terminal call terminates whatever the message (empty, blank before trimming, anything); when
   the action is the panic, the panic carries exactly that message *)
Theorem any_message_thm w lg io m l msg :
  In m methods -> can_log m l = true -> terminal lg l ->
  front_call w lg io m l msg =
  (write_events io l (appended w (lcore lg) l), Some (expected_action lg l),
   panic_value (Some (expected_action lg l)) msg).
Proof.
  intros Hm Hc Ht. unfold front_call. rewrite (terminates_thm w lg io m l Hm Hc Ht). reflexivity.
Qed.
Theorem panic_carries_message w lg io m l msg :
  In m methods -> can_log m l = true -> terminal lg l -> expected_action lg l = APanic ->
  snd (front_call w lg io m l msg) = Some msg.
Proof.
  intros Hm Hc Ht Ha. rewrite (any_message_thm w lg io m l msg Hm Hc Ht), Ha. reflexivity.
Qed.

(* ---------------- what has happened before the terminal action ---------------- *)
Lemma writes_of_write_events io l ws : writes_of (write_events io l ws) = leaves_of ws.
Proof.
  induction ws as [|[i|h] r IH]; [reflexivity| |].
  - change (write_events io l (WLeaf i :: r)) with ((EWrite i :: (if io i && (ErrorL <? l) then [ESync i] else [])) ++ write_events io l r).
    unfold writes_of in *. rewrite flat_map_app, IH. destruct (io i && (ErrorL <? l)); reflexivity.
  - change (write_events io l (WHook h :: r)) with (EHook h :: write_events io l r). exact IH.
Qed.
Lemma hooks_of_write_events io l ws : ev_hooks_of (write_events io l ws) = hooks_of ws.
Proof.
  induction ws as [|[i|h] r IH]; [reflexivity| |].
  - change (write_events io l (WLeaf i :: r)) with ((EWrite i :: (if io i && (ErrorL <? l) then [ESync i] else [])) ++ write_events io l r).
    unfold ev_hooks_of in *. rewrite flat_map_app, IH. destruct (io i && (ErrorL <? l)); reflexivity.
  - change (write_events io l (WHook h :: r)) with (EHook h :: write_events io l r).
    change (ev_hooks_of (EHook h :: write_events io l r)) with (h :: ev_hooks_of (write_events io l r)). rewrite IH. reflexivity.
Qed.
Lemma sync_ok_write_events l ws : sync_ok (ErrorL <? l) (write_events all_io l ws) = true.
Proof.
  induction ws as [|[i|h] r IH]; [reflexivity| |].
  - change (write_events all_io l (WLeaf i :: r)) with ((EWrite i :: (if all_io i && (ErrorL <? l) then [ESync i] else [])) ++ write_events all_io l r).
    unfold all_io at 1. cbn [andb]. destruct (ErrorL <? l) eqn:E; cbn [app sync_ok].
    + rewrite Nat.eqb_refl. exact IH.
    + exact IH.
  - exact IH.
Qed.

(* the abstract buffered sink: with a Sync after every Write nothing stays queued *)
Lemma flushed_write_events id l ws : forall done,
  flushed_lines id (write_events all_io l ws) 0 done =
  (done + (if (ErrorL <? l)%Z then count_writes id (leaves_of ws) else 0))%nat.
Proof.
  induction ws as [|[i|h] r IH]; intros done.
  - cbn. destruct (ErrorL <? l); lia.
  - change (write_events all_io l (WLeaf i :: r)) with ((EWrite i :: (if all_io i && (ErrorL <? l) then [ESync i] else [])) ++ write_events all_io l r).
    change (leaves_of (WLeaf i :: r)) with (i :: leaves_of r).
    unfold all_io at 1. cbn [andb]. unfold count_writes. cbn [filter].
    rewrite (Nat.eqb_sym id i).
    destruct (ErrorL <? l) eqn:E; cbn [app flushed_lines]; destruct (Nat.eqb i id) eqn:I; cbn [length].
    + rewrite IH. unfold count_writes. lia.
    + rewrite IH. unfold count_writes. lia.
    + (* below the sync threshold a queued line is never flushed by later writes of the same call *)
      clear IH. generalize 1%nat. revert done. induction r as [|[j|h] r IHr]; intros done p; [cbn; lia| |].
      * change (write_events all_io l (WLeaf j :: r)) with ((EWrite j :: (if all_io j && (ErrorL <? l) then [ESync j] else [])) ++ write_events all_io l r).
        unfold all_io at 1. rewrite E. cbn [andb app flushed_lines]. destruct (Nat.eqb j id); apply IHr.
      * change (write_events all_io l (WHook h :: r)) with (EHook h :: write_events all_io l r). cbn [flushed_lines]. apply IHr.
    + rewrite IH. lia.
  - change (write_events all_io l (WHook h :: r)) with (EHook h :: write_events all_io l r). cbn [flushed_lines].
    change (leaves_of (WHook h :: r)) with (leaves_of r). apply IH.
Qed.

Theorem written_first_thm w lg m l :
  In m methods -> can_log m l = true -> terminal lg l ->
  let evs := fst (log_call w lg all_io (fam_of m) l) in
  writes_of evs = delivered w (lcore lg) l /\
  ev_hooks_of evs = hooks_due w (lcore lg) l /\
  sync_ok true evs = true /\
  (forall id, flushed_lines id evs 0 0 = count_writes id (delivered w (lcore lg) l)).
Proof.
  intros Hm Hc Ht. rewrite (terminates_thm w lg all_io m l Hm Hc Ht). cbn [fst].
  assert ((ErrorL <? l) = true) as Hhi.
  { apply Z.ltb_lt. destruct (terminal_level lg l Ht) as [<-|[<-|[<-|[]]]]; unfold ErrorL, DPanicL, PanicL, FatalL; lia. }
  split; [rewrite writes_of_write_events; apply appended_leaves|].
  split; [rewrite hooks_of_write_events; apply appended_hooks|].
  split; [pose proof (sync_ok_write_events l (appended w (lcore lg) l)) as Hs; rewrite Hhi in Hs; exact Hs|].
  intros id. rewrite flushed_write_events, Hhi, appended_leaves. reflexivity.
Qed.

(* ---------------- WriteSyncer combinators: Sync reaches every sink ---------------- *)
Section WsInd.
  Variable P : ws -> Prop.
  Hypothesis HSink : forall st c, P (SkSink st c).
  Hypothesis HBuf : forall sz stopped b i, P i -> P (SkBuf sz stopped b i).
  Hypothesis HLock : forall i, P i -> P (SkLock i).
  Hypothesis HAdd : forall i, P i -> P (SkAddSync i).
  Hypothesis HMulti : forall l, Forall P l -> P (SkMulti l).
  Fixpoint ws_ind' (s : ws) : P s :=
    match s with
    | SkSink st c => HSink st c
    | SkBuf sz stopped b i => HBuf sz stopped b i (ws_ind' i)
    | SkLock i => HLock i (ws_ind' i)
    | SkAddSync i => HAdd i (ws_ind' i)
    | SkMulti l => HMulti l ((fix go (l : list ws) : Forall P l :=
                                match l with [] => Forall_nil _ | x :: t => Forall_cons _ (ws_ind' x) (go t) end) l)
    end.
End WsInd.

Lemma Forall_flat_map {A B} (Q : B -> Prop) (f : A -> list B) l :
  Forall (fun x => Forall Q (f x)) l -> Forall Q (flat_map f l).
Proof. induction 1 as [|x r Hx _ IH]; cbn [flat_map]; [constructor|apply Forall_app; auto]. Qed.
Lemma Forall_flat_map_inv {A B} (Q : B -> Prop) (f : A -> list B) l :
  Forall Q (flat_map f l) -> Forall (fun x => Forall Q (f x)) l.
Proof.
  induction l as [|x r IH]; cbn [flat_map]; intros H; [constructor|].
  apply Forall_app in H. destruct H as [H1 H2]. constructor; auto.
Qed.
Lemma flat_map_map' {A B C} (f : A -> B) (g : B -> list C) l : flat_map g (map f l) = flat_map (fun x => g (f x)) l.
Proof. induction l as [|x r IH]; cbn [map flat_map]; [reflexivity|rewrite IH; reflexivity]. Qed.
Lemma map_flat_map' {A B C} (f : B -> C) (g : A -> list B) l : map f (flat_map g l) = flat_map (fun x => map f (g x)) l.
Proof. induction l as [|x r IH]; cbn [map flat_map]; [reflexivity|rewrite map_app, IH; reflexivity]. Qed.
Lemma flat_map_ext_Forall {A B} (f g : A -> list B) l : Forall (fun x => f x = g x) l -> flat_map f l = flat_map g l.
Proof. induction 1 as [|x r Hx _ IH]; cbn [flat_map]; [reflexivity|rewrite Hx, IH; reflexivity]. Qed.

(* Whatever the stack of combinators (any nesting of BufferedWriteSyncers of any Size, stopped or not, Lock,
   AddSync, multi-WriteSyncers), whatever it holds in its buffers and whatever is written first: after a
   Sync no sink below it has anything uncommitted *)
Theorem sync_reaches_every_sink s : forall ns acc, Forall (eq acc) (sk_pending acc (sk_run ns true s)).
Proof.
  induction s as [st c|sz stopped b i IH|i IH|i IH|l IH] using ws_ind'; intros ns acc; cbn [sk_run sk_pending].
  - constructor; [lia|constructor].
  - replace (acc + 0) with acc by lia. apply IH.
  - apply IH.
  - apply IH.
  - rewrite flat_map_map'. apply Forall_flat_map. induction IH as [|x r Hx _ IHr]; constructor; auto.
Qed.

(* the number of sinks below a stack never changes, and sk_pending lists one number per sink *)
Lemma nsinks_run s : forall ns sy, sk_nsinks (sk_run ns sy s) = sk_nsinks s.
Proof.
  induction s as [st c|sz stopped b i IH|i IH|i IH|l IH] using ws_ind'; intros ns sy; cbn [sk_run sk_nsinks].
  - destruct sy; reflexivity.
  - destruct sy; cbn [sk_nsinks]; apply IH.
  - apply IH.
  - apply IH.
  - induction IH as [|x r Hx _ IHr]; cbn [map fold_right]; [reflexivity|rewrite Hx, IHr; reflexivity].
Qed.
Lemma pending_length s : forall acc, length (sk_pending acc s) = sk_nsinks s.
Proof.
  induction s as [st c|sz stopped b i IH|i IH|i IH|l IH] using ws_ind'; intros acc; cbn [sk_pending sk_nsinks]; auto.
  induction IH as [|x r Hx _ IHr]; cbn [flat_map fold_right]; [reflexivity|rewrite app_length, Hx, IHr; reflexivity].
Qed.

(* no stack loses or duplicates a byte: per sink, what is on the way to it plus what it has committed grows
   by exactly what is written at the top, and a Sync leaves the total alone *)
Lemma zsum_app a b : zsum (a ++ b) = zsum a + zsum b.
Proof. unfold zsum. induction a as [|x r IH]; cbn [app fold_right]; lia. Qed.
Lemma zsum_one x : zsum [x] = x.
Proof. cbn. lia. Qed.
Lemma buf_step_conserves cap stopped b out n :
  fst (buf_step cap stopped (b, out) n) + zsum (snd (buf_step cap stopped (b, out) n)) = b + zsum out + n.
Proof.
  unfold buf_step.
  repeat (match goal with |- context [if ?c then _ else _] => destruct c end; cbn beta iota zeta);
    cbn [fst snd]; rewrite ?zsum_app, ?zsum_one; lia.
Qed.
Lemma buf_fold_conserves cap stopped ns : forall b out,
  fst (fold_left (buf_step cap stopped) ns (b, out)) + zsum (snd (fold_left (buf_step cap stopped) ns (b, out))) =
  b + zsum out + zsum ns.
Proof.
  induction ns as [|n r IH]; intros b out; cbn [fold_left fst snd].
  - unfold zsum at 3. cbn [fold_right]. lia.
  - pose proof (buf_step_conserves cap stopped b out n) as H.
    destruct (buf_step cap stopped (b, out) n) as [b1 out1]. cbn [fst snd] in H. rewrite IH.
    change (zsum (n :: r)) with (n + zsum r). lia.
Qed.
Lemma held_shift s : forall acc, sk_held acc s = map (Z.add acc) (sk_held 0 s).
Proof.
  induction s as [st c|sz stopped b i IH|i IH|i IH|l IH] using ws_ind'; intros acc; cbn [sk_held]; auto.
  - cbn [map]. f_equal. lia.
  - rewrite (IH (acc + b)), (IH (0 + b)), map_map. apply map_ext. intros x. lia.
  - rewrite map_flat_map'. apply flat_map_ext_Forall.
    induction IH as [|x r Hx _ IHr]; constructor; auto.
Qed.
Theorem stack_conserves s : forall ns sy acc,
  sk_held acc (sk_run ns sy s) = map (Z.add (zsum ns)) (sk_held acc s).
Proof.
  induction s as [st c|sz stopped b i IH|i IH|i IH|l IH] using ws_ind'; intros ns sy acc; cbn [sk_run].
  - destruct sy; cbn [sk_held map]; f_equal; lia.
  - pose proof (buf_fold_conserves (eff_size sz) stopped ns b []) as H.
    destruct (fold_left (buf_step (eff_size sz) stopped) ns (b, [])) as [b1 out]. cbn [fst snd] in H |- *.
    change (zsum []) with 0 in H. destruct sy; cbn [sk_held]; rewrite IH.
    + rewrite (held_shift i (acc + 0)), (held_shift i (acc + b)), !map_map. apply map_ext. intros x.
      destruct (b1 =? 0) eqn:E; [apply Z.eqb_eq in E|rewrite zsum_app, zsum_one]; lia.
    + rewrite (held_shift i (acc + b1)), (held_shift i (acc + b)), !map_map. apply map_ext. intros x. lia.
  - cbn [sk_held]. apply IH.
  - cbn [sk_held]. apply IH.
  - cbn [sk_held]. rewrite flat_map_map', map_flat_map'. apply flat_map_ext_Forall.
    induction IH as [|x r Hx _ IHr]; constructor; auto.
Qed.
(* so, once nothing is pending, every sink has committed everything that was ever written to the stack *)
Theorem nothing_pending_all_committed s : forall acc k,
  Forall (eq k) (sk_pending acc s) -> sk_held acc s = map (Z.add k) (sk_committed s).
Proof.
  induction s as [st c|sz stopped b i IH|i IH|i IH|l IH] using ws_ind'; intros acc k; cbn [sk_pending sk_held sk_committed]; auto.
  - intros H. inversion H as [|? ? Hk _]. subst. reflexivity.
  - intros H. apply Forall_flat_map_inv in H. rewrite map_flat_map'. apply flat_map_ext_Forall.
    induction IH as [|x r Hx _ IHr]; [constructor|]. inversion H; subst. constructor; auto.
Qed.

(* the events of a call above error level on the stacks of the leaves: every leaf the entry was written to
   ends with nothing pending, whatever its stack held before and however long the entries are *)
Definition settled (s : ws) : Prop := Forall (eq 0) (sk_pending 0 s).
Lemma run_write_events_settled l ws : (ErrorL <? l) = true -> forall lens st id,
  settled (st id) \/ In id (leaves_of ws) -> settled (run_evs lens st (write_events all_io l ws) id).
Proof.
  intros Hhi. induction ws as [|[i|h] r IH]; intros lens st id H.
  - cbn. destruct H as [H|[]]. exact H.
  - change (write_events all_io l (WLeaf i :: r)) with ((EWrite i :: (if all_io i && (ErrorL <? l) then [ESync i] else [])) ++ write_events all_io l r).
    unfold all_io at 1. rewrite Hhi. cbn [andb app run_evs]. apply IH.
    unfold sk_upd at 1. destruct (Nat.eqb id i) eqn:E.
    + left. apply sync_reaches_every_sink.
    + unfold sk_upd. rewrite E. destruct H as [H|H]; [left; exact H|right].
      change (leaves_of (WLeaf i :: r)) with (i :: leaves_of r) in H. destruct H as [H|H]; [|exact H].
      subst i. rewrite Nat.eqb_refl in E. discriminate E.
  - change (write_events all_io l (WHook h :: r)) with (EHook h :: write_events all_io l r). cbn [run_evs]. apply IH. exact H.
Qed.
Lemma run_evs_nsinks evs : forall lens st id, sk_nsinks (run_evs lens st evs id) = sk_nsinks (st id).
Proof.
  induction evs as [|[i|i|h|h] r IH]; intros lens st id; cbn [run_evs]; [reflexivity| | |apply IH|apply IH];
    rewrite IH; unfold sk_upd, sk_write, sk_sync; destruct (Nat.eqb id i) eqn:E; try reflexivity;
    apply Nat.eqb_eq in E; subst; apply nsinks_run.
Qed.

(* before control is lost: whatever WriteSyncer combinators sit between the IO cores and their sinks, whatever
   they held before the call and however long the encoded entry is, every sink below every core that accepted
   the entry has committed everything that was ever written to it *)
Theorem committed_first_thm w lg m l lens st :
  In m methods -> can_log m l = true -> terminal lg l ->
  let st' := run_evs lens st (fst (log_call w lg all_io (fam_of m) l)) in
  forall id, In id (delivered w (lcore lg) l) ->
    Forall (eq 0) (sk_pending 0 (st' id)) /\ map (Z.add 0) (sk_committed (st' id)) = sk_held 0 (st' id).
Proof.
  intros Hm Hc Ht st' id Hin. subst st'. rewrite (terminates_thm w lg all_io m l Hm Hc Ht). cbn [fst].
  assert ((ErrorL <? l) = true) as Hhi.
  { apply Z.ltb_lt. destruct (terminal_level lg l Ht) as [<-|[<-|[<-|[]]]]; unfold ErrorL, DPanicL, PanicL, FatalL; lia. }
  assert (settled (run_evs lens st (write_events all_io l (appended w (lcore lg) l)) id)) as Hs.
  { apply (run_write_events_settled l _ Hhi). right. rewrite appended_leaves. exact Hin. }
  split; [exact Hs|]. symmetry. apply nothing_pending_all_committed. exact Hs.
Qed.

(* ---------------- samplers that really drop ---------------- *)
(* Logger.check + CheckedEntry.Write after ANY answer of Core.Check: the cores on it, then whatever hook the level asks for *)
Lemma finish_eq lg io l e : finish lg io l e = (write_events io l (cores_of e), after_hook lg l).
Proof. unfold finish. destruct e, (after_hook lg l); reflexivity. Qed.
Lemma log_call_s_eq dec w lg io f l :
  log_call_s dec w lg io f l =
  (write_events io l (call_writers_s dec w (lcore lg) f l),
   if reaches_check w (lcore lg) f l then after_hook lg l else None).
Proof. unfold log_call_s, call_writers_s. destruct (reaches_check w (lcore lg) f l); [apply finish_eq|reflexivity]. Qed.

Lemma terminal_hi lg l : terminal lg l -> (ErrorL <? l) = true.
Proof.
  intros Ht. apply Z.ltb_lt. destruct (terminal_level lg l Ht) as [<-|[<-|[<-|[]]]]; unfold ErrorL, DPanicL, PanicL, FatalL; lia.
Qed.
Lemma terminal_valid lg l : terminal lg l -> is_valid l = true.
Proof. intros Ht. destruct (terminal_level lg l Ht) as [<-|[<-|[<-|[]]]]; reflexivity. Qed.
Lemma effective_valid dec l : is_valid l = true -> forall j, effective dec l j = dec j.
Proof. intros H j. unfold effective. rewrite H. reflexivity. Qed.

(* whatever the samplers decide, a terminal call of any front-end method writes what Core.Check registered and
   then runs the terminal action *)
Theorem terminates_s_thm dec w lg io m l :
  In m methods -> can_log m l = true -> terminal lg l ->
  log_call_s dec w lg io (fam_of m) l =
  (write_events io l (cores_of (check_s dec w (lcore lg) 0 l None)), Some (expected_action lg l)).
Proof.
  intros Hm Hc Ht. rewrite log_call_s_eq. unfold call_writers_s, logger_check_s.
  rewrite (reaches_terminal w (lcore lg) m l lg Hm Hc Ht), (after_hook_terminal lg l Ht).
  assert ((l <? DPanicL) = false) as ->; [|reflexivity].
  apply Z.ltb_ge. destruct (terminal_level lg l Ht) as [<-|[<-|[<-|[]]]]; unfold DPanicL, PanicL, FatalL; lia.
Qed.

(* with samplers that never drop this is the call of the theorems above *)
Theorem no_drop_plain_thm w lg io f l : log_call_s no_drop w lg io f l = log_call w lg io f l.
Proof.
  unfold log_call_s, log_call, logger_check_s, logger_check.
  destruct (sampler_no_drop_thm w (lcore lg) 0%nat l None) as [-> _]. reflexivity.
Qed.

(* before control is lost: the entry has been handed, in order, to every leaf all of whose level filters enable
   the level and none of whose samplers dropped it - whatever else is in the tree *)
Theorem written_first_s_thm dec w lg m l :
  In m methods -> can_log m l = true -> terminal lg l ->
  let evs := fst (log_call_s dec w lg all_io (fam_of m) l) in
  writes_of evs = delivered_s dec w (lcore lg) 0 l /\
  ev_hooks_of evs = hooks_due_s dec w (lcore lg) 0 l /\
  sync_ok true evs = true /\
  (forall id, flushed_lines id evs 0 0 = count_writes id (delivered_s dec w (lcore lg) 0 l)).
Proof.
  intros Hm Hc Ht. rewrite log_call_s_eq. cbn [fst].
  pose proof (terminal_hi lg l Ht) as Hhi.
  destruct (sampler_front_ends_thm dec w (lcore lg) (fam_of m) l) as [HL HH].
  rewrite (delivered_s_ext _ dec w (lcore lg) 0%nat l (effective_valid dec l (terminal_valid lg l Ht))) in HL.
  rewrite (hooks_due_s_ext _ dec w (lcore lg) 0%nat l (effective_valid dec l (terminal_valid lg l Ht))) in HH.
  split; [rewrite writes_of_write_events; exact HL|].
  split; [rewrite hooks_of_write_events; exact HH|].
  split; [pose proof (sync_ok_write_events l (call_writers_s dec w (lcore lg) (fam_of m) l)) as Hs; rewrite Hhi in Hs; exact Hs|].
  intros id. rewrite flushed_write_events, Hhi, HL. reflexivity.
Qed.

(* "handed to every accepting core ... even when the entry is sampled out": take any root-to-leaf path of the tree
   - [ens] the level filters on it (the leaf's own enabler included), [ss] the samplers on it.  If every filter on
   the path enables the level and no sampler ON THE PATH drops the entry, the leaf is written before control is
   lost - whatever the samplers elsewhere in the tree (before, between or after it in a tee, at any depth) decide *)
Theorem drop_spares_others_thm dec w lg m l ens ss id :
  In m methods -> can_log m l = true -> terminal lg l ->
  In (ens, ss, id) (paths_s (lcore lg) 0) ->
  forallb (fun en => on w en l) ens = true -> (forall s, In s ss -> dec s = false) ->
  In id (writes_of (fst (log_call_s dec w lg all_io (fam_of m) l))).
Proof.
  intros Hm Hc Ht Hp Hon Hss.
  destruct (written_first_s_thm dec w lg m l Hm Hc Ht) as [-> _].
  unfold delivered_s. apply (in_map (fun p : spath => snd p) _ (ens, ss, id)).
  apply filter_In. split; [exact Hp|]. unfold spath_on. rewrite Hon. cbn [andb].
  apply forallb_forall. intros s Hs. rewrite (Hss s Hs). reflexivity.
Qed.

(* ... and every sink below it, whatever the stack of WriteSyncer combinators, has committed everything *)
Theorem committed_first_s_thm dec w lg m l lens st :
  In m methods -> can_log m l = true -> terminal lg l ->
  let st' := run_evs lens st (fst (log_call_s dec w lg all_io (fam_of m) l)) in
  forall id, In id (delivered_s dec w (lcore lg) 0 l) ->
    Forall (eq 0) (sk_pending 0 (st' id)) /\ map (Z.add 0) (sk_committed (st' id)) = sk_held 0 (st' id).
Proof.
  intros Hm Hc Ht st' id Hin. subst st'.
  destruct (written_first_s_thm dec w lg m l Hm Hc Ht) as [Hw _]. revert Hw.
  rewrite log_call_s_eq. cbn [fst]. rewrite writes_of_write_events. intros Hw.
  assert (settled (run_evs lens st (write_events all_io l (call_writers_s dec w (lcore lg) (fam_of m) l)) id)) as Hs.
  { apply (run_write_events_settled l _ (terminal_hi lg l Ht)). right. rewrite Hw. exact Hin. }
  split; [exact Hs|]. symmetry. apply nothing_pending_all_committed. exact Hs.
Qed.

(* ---------------- zapio.Writer: only when its level is enabled ---------------- *)
Theorem zapio_partial w lg io l :
  enabled w (lcore lg) l = true -> terminal lg l ->
  log_call w lg io (fam_of zapio_method) l = (write_events io l (appended w (lcore lg) l), Some (expected_action lg l)).
Proof.
  intros He Ht. rewrite log_call_eq.
  assert (reaches_check w (lcore lg) (fam_of zapio_method) l = true) as ->.
  { apply reaches_check_accepted. rewrite <- enabled_accepts. exact He. }
  rewrite (finish_terminal lg io l _ Ht), logger_check_cores. reflexivity.
Qed.
Definition zapio_full : Prop :=
  forall w lg io l, terminal lg l -> snd (log_call w lg io (fam_of zapio_method) l) = Some (expected_action lg l).

(* ---------------- the code before the zapgrpc fix ---------------- *)
Definition terminates_orig_full : Prop :=
  forall w lg io m l, In m methods -> can_log m l = true -> terminal lg l ->
    snd (log_call_orig w lg io (fam_of m) l) = Some (expected_action lg l).
Definition fatalln : method := {| m_recv := RGrpc; m_kind := KFatal; m_suffix := Sln |}.
Definition quiet_logger : logger :=        (* a logger whose only core is enabled from InvalidLevel upwards *)
  {| lcore := Leaf 0 (ELvl InvalidL); dev := false; on_panic := HNil; on_fatal := HNil |}.
Lemma terminates_orig_refuted : ~ terminates_orig_full.
Proof.
  intros H. specialize (H w0 quiet_logger all_io fatalln FatalL).
  assert (In fatalln methods) as Hin by (vm_compute; tauto).
  specialize (H Hin eq_refl (or_intror (or_introl eq_refl))). vm_compute in H. discriminate H.
Qed.

Lemma zapio_full_refuted : ~ zapio_full.
Proof. intros H. specialize (H w0 quiet_logger all_io FatalL (or_intror (or_introl eq_refl))). vm_compute in H. discriminate H. Qed.

(* ---------------- wire ---------------- *)
Lemma dec_enc_ev e : dec_ev (enc_ev e) = e.
Proof. destruct e; unfold dec_ev, enc_ev, sx_nth; cbn [sx_l nth sx_z]; rewrite sx_n_of_nat; reflexivity. Qed.
Lemma dec_enc_evs l : map dec_ev (map enc_ev l) = l.
Proof. induction l as [|x r IH]; [reflexivity|]. cbn [map]. rewrite dec_enc_ev, IH. reflexivity. Qed.

Fixpoint sx_size (s : sx) : nat := match s with SL l => S (fold_right (fun x n => (sx_size x + n)%nat) 0%nat l) | _ => 1%nat end.
Lemma bytes_eqb_refl b : bytes_eqb b b = true.
Proof. apply bytes_eqb_eq. reflexivity. Qed.
Lemma sx_eqb_refl s : sx_eqb s s = true.
Proof.
  induction s as [z|b|l IH] using sx_ind'; cbn [sx_eqb]; [apply Z.eqb_refl|apply bytes_eqb_refl|].
  induction IH as [|x r Hx _ IHr]; [reflexivity|]. rewrite Hx, IHr. reflexivity.
Qed.

(* a well-formed case only asks a method to log at a level it can log at *)
Definition wf_call (cl : call) : bool :=
  existsb (fun m => sx_eqb (enc_method m) (enc_method (c_method cl))) methods && can_log (c_method cl) (c_level cl).
Definition wf (i : sx) : bool := is_table i || forallb wf_call (map dec_call (sx_l (sx_nth i 6))).

Lemma enc_method_inj m1 m2 : sx_eqb (enc_method m1) (enc_method m2) = true -> m1 = m2.
Proof.
  destruct m1 as [r1 k1 s1], m2 as [r2 k2 s2]. unfold enc_method. cbn [m_recv m_kind m_suffix sx_eqb].
  rewrite !andb_true_iff, !Z.eqb_eq. intros [Hr [Hk [Hs _]]].
  f_equal; [destruct r1, r2; cbn in Hr; congruence|destruct k1, k2; cbn in Hk; congruence|destruct s1, s2; cbn in Hs; congruence].
Qed.
Lemma wf_call_In cl : wf_call cl = true -> In (c_method cl) methods /\ can_log (c_method cl) (c_level cl) = true.
Proof.
  unfold wf_call. rewrite andb_true_iff, existsb_exists. intros [[m [Hin He]] Hc].
  apply enc_method_inj in He. subst m. auto.
Qed.

Definition terminal_b (lg : logger) (l : level) : bool :=
  (l =? PanicL) || (l =? FatalL) || ((l =? DPanicL) && dev lg).
Lemma terminal_b_spec lg l : terminal_b lg l = true <-> terminal lg l.
Proof.
  unfold terminal_b, terminal. rewrite !orb_true_iff, andb_true_iff, !Z.eqb_eq. tauto.
Qed.

Lemma log_call_wf w lg cl :
  wf_call cl = true ->
  log_call w lg all_io (fam_of (c_method cl)) (c_level cl) =
  (write_events all_io (c_level cl) (appended w (lcore lg) (c_level cl)), must_end lg (c_level cl)).
Proof.
  intros Hwf. destruct (wf_call_In cl Hwf) as [Hin Hc]. rewrite <- after_hook_must_end.
  destruct (terminal_b lg (c_level cl)) eqn:T.
  - apply terminal_b_spec in T. rewrite (terminates_thm w lg all_io _ _ Hin Hc T), (after_hook_terminal lg _ T). reflexivity.
  - assert (~ terminal lg (c_level cl)) as Hn by (rewrite <- terminal_b_spec, T; discriminate).
    rewrite (not_terminal_thm w lg all_io _ _ Hn), (after_hook_not_terminal lg _ Hn). reflexivity.
Qed.

(* a call that must end is at one of the three terminal levels *)
Lemma must_end_level lg l a : must_end lg l = Some a -> (l =? FatalL) = false -> (l =? PanicL) || (l =? DPanicL) = true.
Proof.
  unfold must_end. cbn [existsb]. rewrite !orb_false_r. intros H HF. rewrite HF in H.
  destruct (l =? PanicL); [reflexivity|]. destruct (l =? DPanicL); [reflexivity|]. cbn in H. discriminate H.
Qed.
(* the terminal action, acting on an entry that is the one logged, does what the property says: the default panic
   carries the message, a hook that delegates or dispatches on what it finds in the entry ends the call as the
   level logged demands *)
Lemma hook_term_spec_term lg l msg name :
  hook_term (must_end lg l) {| en_level := l; en_msg := msg; en_name := name |} = spec_term lg l msg.
Proof.
  unfold spec_term, hook_term. destruct (must_end lg l) as [[| | |k|k mode]|] eqn:E; try reflexivity.
  f_equal. f_equal. f_equal.
  destruct mode as [|p|p]; [reflexivity| |reflexivity].
  do 3 (try destruct p as [p|p|]); try reflexivity.
  unfold delegate. cbn [en_level en_msg]. destruct (l =? FatalL) eqn:F; [reflexivity|].
  rewrite (must_end_level lg l _ E F). reflexivity.
Qed.

(* ---------------- composite cores written through their own Write method ---------------- *)
Lemma writes_of_app a b : writes_of (a ++ b) = writes_of a ++ writes_of b.
Proof. unfold writes_of. apply flat_map_app. Qed.
Lemma ev_hooks_of_app a b : ev_hooks_of (a ++ b) = ev_hooks_of a ++ ev_hooks_of b.
Proof. unfold ev_hooks_of. apply flat_map_app. Qed.
Lemma ev_fhooks_of_app a b : ev_fhooks_of (a ++ b) = ev_fhooks_of a ++ ev_fhooks_of b.
Proof. unfold ev_fhooks_of. apply flat_map_app. Qed.

Lemma leaf_write_proj fails hi i :
  writes_of (fst (leaf_write fails hi i)) = [i] /\ ev_hooks_of (fst (leaf_write fails hi i)) = [] /\
  ev_fhooks_of (fst (leaf_write fails hi i)) = [] /\ snd (leaf_write fails hi i) = fails i.
Proof. unfold leaf_write. destruct (fails i), hi; repeat split; reflexivity. Qed.

Lemma bool_shuffle a b c d : (a || b) || (c || d) = (a || c) || (b || d).
Proof. destruct a, b, c, d; reflexivity. Qed.

(* multiCore.Write hands the entry to EVERY core of the tee, whatever the others return; the filter, the sampler, the
   lazy core and the forwarding wrapper pass it on; the error is reported exactly when some core failed *)
Theorem composite_write_thm fails hfails hi c :
  writes_of (fst (x_write fails hfails hi c)) = x_reach c /\
  ev_fhooks_of (fst (x_write fails hfails hi c)) = x_hooks c /\
  ev_hooks_of (fst (x_write fails hfails hi c)) = [] /\
  snd (x_write fails hfails hi c) = existsb fails (x_reach c) || existsb hfails (x_hooks c).
Proof.
  induction c as [i| |cs IH|c h IH|c IH|c IH|c IH|c IH] using xcore_ind'; try exact IH.
  - cbn [x_write x_reach x_hooks existsb]. destruct (leaf_write_proj fails hi i) as [H1 [H2 [H3 H4]]].
    rewrite H1, H2, H3, H4, !orb_false_r. repeat split; reflexivity.
  - repeat split; reflexivity.
  - cbn [x_write x_reach x_hooks]. induction IH as [|c r Hc _ IHr]; [repeat split; reflexivity|].
    destruct Hc as [H1 [H2 [H3 H4]]]. destruct IHr as [R1 [R2 [R3 R4]]]. cbn [fst snd].
    rewrite writes_of_app, ev_fhooks_of_app, ev_hooks_of_app, H1, H2, H3, H4, R1, R2, R3, R4, !existsb_app.
    repeat split; try reflexivity. apply bool_shuffle.
  - cbn [x_write x_reach x_hooks existsb fst snd]. rewrite orb_false_r. repeat split; reflexivity.
Qed.

(* the shape of the events of a call: the Write of a healthy IO core above error level with the Sync of its sink
   right behind it, a failed Write without, hooks *)
Inductive okl (fails : nat -> bool) (hi : bool) : list ev -> Prop :=
| okl_nil : okl fails hi []
| okl_ws i r : hi = true -> fails i = false -> okl fails hi r -> okl fails hi (EWrite i :: ESync i :: r)
| okl_w i r : hi && negb (fails i) = false -> okl fails hi r -> okl fails hi (EWrite i :: r)
| okl_h h r : okl fails hi r -> okl fails hi (EHook h :: r)
| okl_fh h r : okl fails hi r -> okl fails hi (EFHook h :: r).

Lemma okl_app fails hi a b : okl fails hi a -> okl fails hi b -> okl fails hi (a ++ b).
Proof. induction 1; intros Hb; cbn [app]; [exact Hb|constructor; auto..]. Qed.
Lemma okl_sync_ok fails hi evs : okl fails hi evs -> sync_ok_x fails hi evs = true.
Proof.
  induction 1 as [|i r Hh Hf _ IH|i r Hn _ IH|h r _ IH|h r _ IH]; cbn [sync_ok_x]; try exact IH; [reflexivity| |].
  - rewrite Hh in *. rewrite Hf. cbn [negb andb]. rewrite Nat.eqb_refl. exact IH.
  - rewrite Hn. exact IH.
Qed.
Lemma leaf_write_okl fails hi i : okl fails hi (fst (leaf_write fails hi i)).
Proof.
  unfold leaf_write. destruct (fails i) eqn:F; cbn [fst].
  - apply okl_w; [rewrite F; apply andb_false_r|constructor].
  - destruct hi; [apply okl_ws; [reflexivity|exact F|constructor]|apply okl_w; [reflexivity|constructor]].
Qed.
Lemma x_write_okl fails hfails hi c : okl fails hi (fst (x_write fails hfails hi c)).
Proof.
  induction c as [i| |cs IH|c h IH|c IH|c IH|c IH|c IH] using xcore_ind'; try exact IH.
  - apply leaf_write_okl.
  - constructor.
  - cbn [x_write]. induction IH as [|c r Hc _ IHr]; [constructor|]. cbn [fst]. apply okl_app; [exact Hc|exact IHr].
  - cbn [x_write fst]. repeat constructor.
Qed.
Lemma core_write_okl fx hi x : okl (fe_fails fx) hi (fst (core_write fx hi x)).
Proof.
  destruct x as [i|h]; cbn [core_write].
  - destruct (fe_fw fx i); [apply x_write_okl|apply leaf_write_okl].
  - cbn [fst]. repeat constructor.
Qed.
Lemma ce_write_okl fx hi ws : okl (fe_fails fx) hi (fst (ce_write fx hi ws)).
Proof. induction ws as [|x r IH]; [constructor|]. cbn [ce_write fst]. apply okl_app; [apply core_write_okl|exact IH]. Qed.

(* what CheckedEntry.Write hands to whom: every leaf on it, every leaf the Write methods beneath a wrapper on it
   reach, the hook sets on it and beneath the wrappers *)
Lemma ce_write_proj fx hi ws :
  writes_of (fst (ce_write fx hi ws)) = flat_map (reach_of fx) (leaves_of ws) /\
  ev_hooks_of (fst (ce_write fx hi ws)) = hooks_of ws /\
  ev_fhooks_of (fst (ce_write fx hi ws)) = flat_map (fhooks_of fx) (leaves_of ws).
Proof.
  induction ws as [|[i|h] r [I1 [I2 I3]]]; [repeat split; reflexivity| |]; cbn [ce_write fst].
  - rewrite writes_of_app, ev_hooks_of_app, ev_fhooks_of_app, I1, I2, I3.
    change (leaves_of (WLeaf i :: r)) with (i :: leaves_of r). change (hooks_of (WLeaf i :: r)) with (hooks_of r).
    cbn [flat_map core_write].
    assert (Hr : writes_of (fst (match fe_fw fx i with Some c => x_write (fe_fails fx) (fe_hfails fx) hi c | None => leaf_write (fe_fails fx) hi i end)) = reach_of fx i /\
                 ev_hooks_of (fst (match fe_fw fx i with Some c => x_write (fe_fails fx) (fe_hfails fx) hi c | None => leaf_write (fe_fails fx) hi i end)) = [] /\
                 ev_fhooks_of (fst (match fe_fw fx i with Some c => x_write (fe_fails fx) (fe_hfails fx) hi c | None => leaf_write (fe_fails fx) hi i end)) = fhooks_of fx i).
    { unfold reach_of, fhooks_of. destruct (fe_fw fx i) as [c|].
      - destruct (composite_write_thm (fe_fails fx) (fe_hfails fx) hi c) as [H1 [H2 [H3 _]]]. auto.
      - destruct (leaf_write_proj (fe_fails fx) hi i) as [H1 [H2 [H3 _]]]. auto. }
    destruct Hr as [H1 [H2 H3]]. rewrite H1, H2, H3. repeat split; reflexivity.
  - rewrite writes_of_app, ev_hooks_of_app, ev_fhooks_of_app, I1, I2, I3. repeat split; reflexivity.
Qed.

(* a healthy core that was written above error level was synced at once *)
Lemma okl_in_split fails evs id :
  okl fails true evs -> fails id = false -> In id (writes_of evs) ->
  exists a b, evs = a ++ EWrite id :: ESync id :: b.
Proof.
  intros Hok Hf. induction Hok as [|i r _ Hfi _ IH|i r Hn _ IH|h r _ IH|h r _ IH]; intros Hin.
  - destruct Hin.
  - change (writes_of (EWrite i :: ESync i :: r)) with (i :: writes_of r) in Hin. destruct Hin as [->|Hin].
    + exists [], r. reflexivity.
    + destruct (IH Hin) as [a [b ->]]. exists (EWrite i :: ESync i :: a), b. reflexivity.
  - change (writes_of (EWrite i :: r)) with (i :: writes_of r) in Hin. destruct Hin as [->|Hin].
    + rewrite Hf in Hn. discriminate Hn.
    + destruct (IH Hin) as [a [b ->]]. exists (EWrite i :: a), b. reflexivity.
  - destruct (IH Hin) as [a [b ->]]. exists (EHook h :: a), b. reflexivity.
  - destruct (IH Hin) as [a [b ->]]. exists (EFHook h :: a), b. reflexivity.
Qed.

(* ... and every sink below it, whatever the stack, ends with nothing pending - whichever other cores failed *)
Lemma okl_settled fails evs : okl fails true evs -> forall lens st id,
  fails id = false -> settled (st id) \/ In id (writes_of evs) -> settled (run_evs_x fails lens st evs id).
Proof.
  induction 1 as [|i r _ Hfi _ IH|i r Hn _ IH|h r _ IH|h r _ IH]; intros lens st id Hf H.
  - cbn. destruct H as [H|[]]. exact H.
  - cbn [run_evs_x]. rewrite Hfi. apply IH; [exact Hf|].
    change (writes_of (EWrite i :: ESync i :: r)) with (i :: writes_of r) in H.
    unfold sk_upd at 1. destruct (Nat.eqb id i) eqn:E.
    + left. apply sync_reaches_every_sink.
    + unfold sk_upd. rewrite E. destruct H as [H|[H|H]]; [left; exact H| |right; exact H].
      subst i. rewrite Nat.eqb_refl in E. discriminate E.
  - cbn [andb] in Hn. apply negb_false_iff in Hn. cbn [run_evs_x]. rewrite Hn. apply IH; [exact Hf|].
    change (writes_of (EWrite i :: r)) with (i :: writes_of r) in H.
    destruct H as [H|[H|H]]; [left; exact H| |right; exact H]. subst i. rewrite Hf in Hn. discriminate Hn.
  - cbn [run_evs_x]. apply IH; assumption.
  - cbn [run_evs_x]. apply IH; assumption.
Qed.
Lemma run_evs_x_nsinks fails evs : forall lens st id, sk_nsinks (run_evs_x fails lens st evs id) = sk_nsinks (st id).
Proof.
  induction evs as [|[i|i|h|h] r IH]; intros lens st id; cbn [run_evs_x]; [reflexivity| | |apply IH|apply IH].
  - destruct (fails i); [apply IH|]. rewrite IH. unfold sk_upd, sk_write. destruct (Nat.eqb id i) eqn:E; [|reflexivity].
    apply Nat.eqb_eq in E. subst. apply nsinks_run.
  - rewrite IH. unfold sk_upd, sk_sync. destruct (Nat.eqb id i) eqn:E; [|reflexivity].
    apply Nat.eqb_eq in E. subst. apply nsinks_run.
Qed.

(* the abstract buffered sink (a file behind a BufferedWriteSyncer): a healthy one holds every line, a failing one none *)
Lemma okl_flushed_hi fails evs : okl fails true evs -> forall id done,
  flushed_lines_x fails id evs 0 done = (done + (if fails id then 0 else count_writes id (writes_of evs)))%nat.
Proof.
  induction 1 as [|i r _ Hfi _ IH|i r Hn _ IH|h r _ IH|h r _ IH]; intros id done.
  - cbn. destruct (fails id); lia.
  - change (writes_of (EWrite i :: ESync i :: r)) with (i :: writes_of r). unfold count_writes. cbn [filter flushed_lines_x].
    rewrite Hfi, (Nat.eqb_sym id i). cbn [negb]. rewrite andb_true_r. destruct (Nat.eqb i id) eqn:E.
    + rewrite IH. apply Nat.eqb_eq in E. subst i. rewrite Hfi. unfold count_writes. cbn [length]. lia.
    + rewrite IH. reflexivity.
  - cbn [andb] in Hn. apply negb_false_iff in Hn.
    change (writes_of (EWrite i :: r)) with (i :: writes_of r). unfold count_writes. cbn [filter flushed_lines_x].
    rewrite Hn. cbn [negb]. rewrite andb_false_r, IH, (Nat.eqb_sym id i). destruct (Nat.eqb i id) eqn:E; [|reflexivity].
    apply Nat.eqb_eq in E. subst i. rewrite Hn. reflexivity.
  - cbn [flushed_lines_x]. apply IH.
  - cbn [flushed_lines_x]. apply IH.
Qed.
Lemma okl_flushed_lo fails evs : okl fails false evs -> forall id p done, flushed_lines_x fails id evs p done = done.
Proof.
  induction 1 as [|i r Hh _ _ _|i r _ _ IH|h r _ IH|h r _ IH]; intros id p done; [reflexivity|discriminate Hh| | |];
    cbn [flushed_lines_x]; try apply IH. destruct (Nat.eqb i id && negb (fails i)); apply IH.
Qed.

(* what the entry hooks report: the reads of ce.Entry at the hooked cores on the entry and beneath the wrappers *)
Lemma map_repeat' {A B} (f : A -> B) x n : map f (repeat x n) = repeat (f x) n.
Proof. induction n as [|n IH]; [reflexivity|]. cbn [repeat map]. rewrite IH. reflexivity. Qed.
Lemma reads_x_repeat fx e ws :
  reads_x fx ws (repeat e (length ws)) = repeat e (length (hooks_of ws) + length (flat_map (fhooks_of fx) (leaves_of ws))).
Proof.
  induction ws as [|[i|h] r IH]; [reflexivity| |]; cbn [length repeat reads_x hd tl]; rewrite IH.
  - change (leaves_of (WLeaf i :: r)) with (i :: leaves_of r). change (hooks_of (WLeaf i :: r)) with (hooks_of r).
    cbn [flat_map]. rewrite app_length, <- repeat_app. f_equal. lia.
  - change (leaves_of (WHook h :: r)) with (leaves_of r). change (hooks_of (WHook h :: r)) with (h :: hooks_of r). reflexivity.
Qed.
Lemma spec_seen_model lg name cl evs n :
  let ent := {| en_level := c_level cl; en_msg := c_msg cl; en_name := name |} in
  n = (length (ev_hooks_of evs) + length (ev_fhooks_of evs))%nat ->
  spec_seen lg name cl evs
    (SL (map enc_entry (repeat ent n ++ (if hook_looks (must_end lg (c_level cl)) then [ent] else [])))) = true.
Proof.
  intros ent ->. unfold spec_seen. rewrite map_app, map_repeat'.
  change (enc_entry ent) with (SL [SZ (c_level cl); SB (c_msg cl); SB name]).
  set (x := SL [SZ (c_level cl); SB (c_msg cl); SB name]). set (k := (length (ev_hooks_of evs) + length (ev_fhooks_of evs))%nat).
  assert (H1 : repeat x k ++ [x] = repeat x (k + 1)) by (rewrite repeat_app; reflexivity).
  assert (H0 : repeat x k ++ [] = repeat x (k + 0)) by (rewrite app_nil_r, Nat.add_0_r; reflexivity).
  destruct (must_end lg (c_level cl)) as [[| | |j|j m]|]; cbn [hook_looks map]; change (enc_entry ent) with x; rewrite ?H1, ?H0; apply sx_eqb_refl.
Qed.

Lemma forallb_combine_map {A B} (g : A * B -> bool) (f : A -> B) l :
  forallb g (combine l (map f l)) = forallb (fun a => g (a, f a)) l.
Proof. induction l as [|x r IH]; cbn [map combine forallb]; [reflexivity|rewrite IH; reflexivity]. Qed.
Lemma forallb_is_zero zs : Forall (eq 0) zs -> forallb is_zero (map SZ zs) = true.
Proof. induction 1 as [|x r Hx _ IH]; [reflexivity|]. subst x. cbn [map forallb is_zero]. exact IH. Qed.

(* the stacks keep their shape from call to call *)
Definition st_inv (st0 st : sinks) : Prop := forall id, sk_nsinks (st id) = sk_nsinks (st0 id).

Lemma spec_pend_model fx dec w lg ids stks l st :
  st_inv (sk_init ids stks) st ->
  ((ErrorL <? l) = true -> forall id, fe_fails fx id = false -> In id (must_reach fx dec w lg l) -> settled (st id)) ->
  spec_pend fx dec w lg ids stks l (enc_pend ids st) = true.
Proof.
  intros Hinv Hs. unfold spec_pend, enc_pend. cbn [sx_l]. rewrite map_length, Nat.eqb_refl. cbn [andb].
  rewrite forallb_combine_map. apply forallb_forall. intros id _. cbn [sx_l].
  rewrite map_length, pending_length, (Hinv id), Nat.eqb_refl. cbn [andb].
  destruct ((ErrorL <? l) && negb (fe_fails fx id) && existsb (Nat.eqb id) (must_reach fx dec w lg l)) eqn:E; [|reflexivity].
  apply andb_true_iff in E. destruct E as [E He]. apply andb_true_iff in E. destruct E as [Hhi Hf].
  apply negb_true_iff in Hf. apply existsb_exists in He. destruct He as [x [Hin Hx]].
  apply Nat.eqb_eq in Hx. subst x. apply forallb_is_zero. exact (Hs Hhi id Hf Hin).
Qed.

(* a call of a well-formed case, whatever the samplers decide *)
Lemma log_call_s_wf dec w lg cl :
  wf_call cl = true ->
  log_call_s dec w lg all_io (fam_of (c_method cl)) (c_level cl) =
  (write_events all_io (c_level cl) (call_writers_s dec w (lcore lg) (fam_of (c_method cl)) (c_level cl)), must_end lg (c_level cl)).
Proof.
  intros Hwf. destruct (wf_call_In cl Hwf) as [Hin Hc]. rewrite log_call_s_eq, <- after_hook_must_end. f_equal.
  destruct (terminal_b lg (c_level cl)) eqn:T.
  - apply terminal_b_spec in T. rewrite (reaches_terminal w (lcore lg) _ _ lg Hin Hc T). reflexivity.
  - assert (~ terminal lg (c_level cl)) as Hn by (rewrite <- terminal_b_spec, T; discriminate).
    rewrite (after_hook_not_terminal lg _ Hn). destruct (reaches_check w (lcore lg) (fam_of (c_method cl)) (c_level cl)); reflexivity.
Qed.
Lemma log_call_x_wf fx dec w lg cl :
  wf_call cl = true ->
  log_call_x fx dec w lg (fam_of (c_method cl)) (c_level cl) =
  (fst (ce_write fx (ErrorL <? c_level cl) (call_writers_s dec w (lcore lg) (fam_of (c_method cl)) (c_level cl))), must_end lg (c_level cl)).
Proof. intros Hwf. unfold log_call_x. change (fun _ : nat => true) with all_io. rewrite (log_call_s_wf dec w lg cl Hwf). reflexivity. Qed.

(* the decisions the oracle reads back from the model's report are the ones that mattered: the call asked only the
   samplers it reports, and those only at a sampled level *)
Lemma reported_front_ends dec w c f l :
  let dec' := reported_drop (map (enc_report dec) (call_consulted dec w c f l)) in
  leaves_of (call_writers_s dec w c f l) = delivered_s dec' w c 0 l /\
  hooks_of (call_writers_s dec w c f l) = hooks_due_s dec' w c 0 l.
Proof.
  intros dec'.
  assert (Hag : forall j, In j (call_consulted dec w c f l) -> dec j = dec' j).
  { intros j Hj. unfold dec'. rewrite reported_drop_enc. apply existsb_eqb_In in Hj. rewrite Hj. reflexivity. }
  assert (Heff : forall j, effective dec' l j = dec' j).
  { intros j. unfold effective. destruct (dec' j) eqn:D; [|apply andb_false_r].
    unfold dec' in D. rewrite reported_drop_enc in D. apply andb_true_iff in D. destruct D as [D _].
    apply existsb_eqb_In in D. rewrite (call_consulted_valid dec w c f l j D). reflexivity. }
  assert (Hws : call_writers_s dec w c f l = call_writers_s dec' w c f l) by (apply call_writers_s_agree; exact Hag).
  destruct (sampler_front_ends_thm dec' w c f l) as [HL HH].
  rewrite (delivered_s_ext _ _ w c 0%nat l Heff) in HL. rewrite (hooks_due_s_ext _ _ w c 0%nat l Heff) in HH.
  rewrite <- Hws in HL, HH. split; [exact HL|exact HH].
Qed.

Lemma spec_model_call fx nz dec w lg ids stks st cl :
  wf_call cl = true -> st_inv (sk_init ids stks) st ->
  spec_call fx (nz_name nz) w lg ids stks cl (fst (model_call fx nz dec w lg ids st cl)) = true /\
  st_inv (sk_init ids stks) (snd (model_call fx nz dec w lg ids st cl)).
Proof.
  intros Hwf Hinv. unfold spec_call, model_call. cbv zeta. rewrite (log_call_x_wf fx dec w lg cl Hwf). cbn [fst snd].
  rewrite wire_seen_logged. cbn [fst snd].
  set (ws := call_writers_s dec w (lcore lg) (fam_of (c_method cl)) (c_level cl)).
  destruct (reported_front_ends dec w (lcore lg) (fam_of (c_method cl)) (c_level cl)) as [HL HH]. cbv zeta in HL, HH. fold ws in HL, HH.
  destruct (ce_write_proj fx (ErrorL <? c_level cl) ws) as [P1 [P2 P3]].
  pose proof (ce_write_okl fx (ErrorL <? c_level cl) ws) as Hok.
  split.
  - unfold sx_nth. cbn [sx_l nth]. rewrite dec_enc_evs. unfold must_reach.
    rewrite P1, P2, P3, HL, HH, !nat_list_eqb_refl.
    rewrite (okl_sync_ok _ _ _ Hok), hook_term_spec_term, sx_eqb_refl. cbn [andb].
    rewrite reads_x_repeat, spec_seen_model, andb_true_r; [|rewrite P2, P3, HL; reflexivity].
    apply spec_pend_model.
    + intros id. rewrite run_evs_x_nsinks. apply Hinv.
    + intros Hhi id Hf Hin. rewrite Hhi in *. apply (okl_settled _ _ Hok); [exact Hf|]. right.
      rewrite P1, HL. exact Hin.
  - intros id. rewrite run_evs_x_nsinks. apply Hinv.
Qed.

Lemma spec_model_calls fx nz ps w lg ids stks cls : forall ctr st,
  forallb wf_call cls = true -> st_inv (sk_init ids stks) st ->
  spec_calls fx (nz_name nz) w lg ids stks cls (model_calls fx nz ps ctr w lg ids st cls) = true.
Proof.
  induction cls as [|cl r IH]; intros ctr st Hwf Hinv; [reflexivity|]. cbn [forallb] in Hwf. apply andb_true_iff in Hwf.
  destruct Hwf as [H1 H2]. cbn [model_calls]. cbv zeta.
  destruct (spec_model_call fx nz (ctr_dec ctr ps (c_level cl) (c_bucket cl)) w lg ids stks st cl H1 Hinv) as [Ha Hb].
  cbn [spec_calls]. rewrite Ha. cbn [andb]. apply (IH _ _ H2 Hb).
Qed.

(* the tree as Core.Check sees it does not depend on whether the wrappers ask the code's Enabled or the
   specification's accepts, nor on which validation NewIncreaseLevelCore runs *)
Lemma outer_sx_ext p1 p2 ok1 ok2 w :
  (forall w c l, p1 w c l = p2 w c l) -> (forall w c en, ok1 w c en = ok2 w c en) ->
  forall s, outer_sx p1 ok1 w s = outer_sx p2 ok2 w s.
Proof.
  intros Hp Hok s. induction s as [z|b|l IH] using sx_ind'; [reflexivity|reflexivity|].
  destruct l as [|t args]; [reflexivity|]. destruct t as [tag|?|?]; [|reflexivity|reflexivity].
  apply Forall_inv_tail in IH.
  assert (Hmap : map (outer_sx p1 ok1 w) args = map (outer_sx p2 ok2 w) args).
  { induction IH as [|x r Hx _ IHr]; [reflexivity|]. cbn [map]. rewrite Hx, IHr. reflexivity. }
  assert (H1 : forall c, args = [c] -> outer_sx p1 ok1 w c = outer_sx p2 ok2 w c).
  { intros c ->. apply (Forall_inv IH). }
  assert (H2 : forall c x, args = [c; x] -> outer_sx p1 ok1 w c = outer_sx p2 ok2 w c).
  { intros c x ->. apply (Forall_inv IH). }
  assert (H3 : forall c x y, args = [c; x; y] -> outer_sx p1 ok1 w c = outer_sx p2 ok2 w c).
  { intros c x y ->. apply (Forall_inv IH). }
  destruct tag as [|p|p]; [reflexivity| |reflexivity].
  do 4 (try (destruct p as [p|p|])); cbn [outer_sx]; try reflexivity.
  all: try (rewrite Hmap; reflexivity).
  all: destruct args as [|c [|x [|y [|z zs]]]]; try reflexivity.
  all: try (rewrite (H1 c eq_refl); reflexivity).
  all: try (rewrite (H2 c x eq_refl); reflexivity).
  all: try (rewrite (H3 c x y eq_refl); reflexivity).
  (* 9: the wrapper *)
  rewrite (build_with_ext ok1 ok2 w Hok). assert (Ht : forall k, tbl_of (p1 w k) = tbl_of (p2 w k)).
  { intros k. unfold tbl_of. apply map_ext. intros n. rewrite Hp. reflexivity. }
  rewrite Ht. reflexivity.
Qed.
Lemma dec_logger_ext w i : dec_logger enabled increase_ok w i = dec_logger accepts spec_increase_ok w i.
Proof.
  unfold dec_logger.
  rewrite (outer_sx_ext enabled accepts increase_ok spec_increase_ok w (fun w c l => enabled_accepts w l c) spec_increase_ok_eq).
  rewrite (build_with_ext increase_ok spec_increase_ok w spec_increase_ok_eq). reflexivity.
Qed.

Theorem spec_model i : wf i = true -> spec i (model i) = true.
Proof.
  unfold wf, spec, model. destruct (is_table i); [intros _; apply sx_eqb_refl|]. cbn [orb]. intros Hwf.
  rewrite <- dec_logger_ext.
  set (w := world_of (sx_nth i 1)). set (lg := dec_logger enabled increase_ok w i).
  set (ps := sparams (outer_sx enabled increase_ok w (sx_nth i 0))). set (fx := dec_fenv i).
  set (calls := map dec_call (sx_l (sx_nth i 6))) in *.
  set (stks := dec_stacks i). set (ids := sk_ids (all_leaves i) stks).
  change (sx_b (sx_nth (sx_nth i 8) 0)) with (nz_name (dec_noise i)).
  unfold sx_nth at 1. cbn [sx_l nth].
  rewrite (spec_model_calls fx (dec_noise i) ps w lg ids stks calls [] (sk_init ids stks) Hwf (fun id => eq_refl)). cbn [andb].
  destruct calls as [|cl [|cl' r]]; try reflexivity.
  destruct (sx_bool (sx_nth i 5)); [|reflexivity].
  cbn [model_calls]. cbv zeta. unfold model_call. cbv zeta. cbn [fst snd].
  unfold sx_nth. cbn [sx_l nth]. rewrite map_sx_n_of_nat.
  cbn [forallb] in Hwf. rewrite andb_true_r in Hwf.
  set (dec := ctr_dec [] ps (c_level cl) (c_bucket cl)).
  rewrite (log_call_x_wf fx dec w lg cl Hwf). cbn [fst].
  set (ws := call_writers_s dec w (lcore lg) (fam_of (c_method cl)) (c_level cl)).
  destruct (reported_front_ends dec w (lcore lg) (fam_of (c_method cl)) (c_level cl)) as [HL _]. cbv zeta in HL. fold ws in HL.
  unfold must_reach. rewrite <- HL.
  destruct (ce_write_proj fx (ErrorL <? c_level cl) ws) as [P1 _].
  pose proof (ce_write_okl fx (ErrorL <? c_level cl) ws) as Hok.
  assert (Heq : forall ids', map (fun id => flushed_lines_x (fe_fails fx) id (fst (ce_write fx (ErrorL <? c_level cl) ws)) 0 0) ids' =
                            map (fun id => if (ErrorL <? c_level cl) && negb (fe_fails fx id)
                                           then count_writes id (flat_map (reach_of fx) (leaves_of ws)) else 0%nat) ids').
  { intros ids'. apply map_ext. intros id. rewrite <- P1. destruct (ErrorL <? c_level cl).
    - rewrite (okl_flushed_hi _ _ Hok). cbn [andb]. destruct (fe_fails fx id); reflexivity.
    - rewrite (okl_flushed_lo _ _ Hok). reflexivity. }
  rewrite Heq. apply nat_list_eqb_refl.
Qed.

(* ---------------- forwarding wrappers and failing cores: what has happened before the terminal action ---------------- *)
(* a healthy IO core anywhere beneath a composite that is written through its Write method: written, and synced at
   once - whichever cores before, between or after it in whichever tee fail *)
Theorem healthy_core_synced fails hfails c id :
  In id (x_reach c) -> fails id = false ->
  exists a b, fst (x_write fails hfails true c) = a ++ EWrite id :: ESync id :: b.
Proof.
  intros Hin Hf. apply (okl_in_split fails _ id (x_write_okl fails hfails true c) Hf).
  destruct (composite_write_thm fails hfails true c) as [-> _]. exact Hin.
Qed.

(* whatever the wrappers wrap, whichever cores fail, whatever the samplers decide: every front-end method at a
   terminal level writes what is on the CheckedEntry - through the Write methods - and then runs the terminal action *)
Theorem terminates_x_thm fx dec w lg m l :
  In m methods -> can_log m l = true -> terminal lg l ->
  log_call_x fx dec w lg (fam_of m) l =
  (fst (ce_write fx true (cores_of (check_s dec w (lcore lg) 0 l None))), Some (expected_action lg l)).
Proof.
  intros Hm Hc Ht. unfold log_call_x. change (fun _ : nat => true) with all_io.
  rewrite (terminates_s_thm dec w lg all_io m l Hm Hc Ht), (terminal_hi lg l Ht). cbn [snd].
  unfold call_writers_s, logger_check_s. rewrite (reaches_terminal w (lcore lg) m l lg Hm Hc Ht).
  assert ((l <? DPanicL) = false) as ->; [|reflexivity].
  apply Z.ltb_ge. destruct (terminal_level lg l Ht) as [<-|[<-|[<-|[]]]]; unfold DPanicL, PanicL, FatalL; lia.
Qed.

Theorem written_first_x_thm fx dec w lg m l :
  In m methods -> can_log m l = true -> terminal lg l ->
  let evs := fst (log_call_x fx dec w lg (fam_of m) l) in
  writes_of evs = must_reach fx dec w lg l /\
  ev_hooks_of evs = hooks_due_s dec w (lcore lg) 0 l /\
  ev_fhooks_of evs = flat_map (fhooks_of fx) (delivered_s dec w (lcore lg) 0 l) /\
  sync_ok_x (fe_fails fx) true evs = true /\
  (forall id, In id (must_reach fx dec w lg l) -> fe_fails fx id = false ->
     (exists a b, evs = a ++ EWrite id :: ESync id :: b) /\
     flushed_lines_x (fe_fails fx) id evs 0 0 = count_writes id (must_reach fx dec w lg l)).
Proof.
  intros Hm Hc Ht. unfold log_call_x. cbn [fst]. rewrite (terminal_hi lg l Ht).
  set (ws := call_writers_s dec w (lcore lg) (fam_of m) l).
  destruct (sampler_front_ends_thm dec w (lcore lg) (fam_of m) l) as [HL HH]. fold ws in HL, HH.
  rewrite (delivered_s_ext _ dec w (lcore lg) 0%nat l (effective_valid dec l (terminal_valid lg l Ht))) in HL.
  rewrite (hooks_due_s_ext _ dec w (lcore lg) 0%nat l (effective_valid dec l (terminal_valid lg l Ht))) in HH.
  destruct (ce_write_proj fx true ws) as [P1 [P2 P3]]. pose proof (ce_write_okl fx true ws) as Hok.
  unfold must_reach. rewrite <- HL, <- HH.
  split; [exact P1|]. split; [exact P2|]. split; [exact P3|]. split; [apply okl_sync_ok; exact Hok|].
  intros id Hin Hf. split.
  - apply (okl_in_split _ _ id Hok Hf). rewrite P1. exact Hin.
  - rewrite (okl_flushed_hi _ _ Hok), Hf, P1. reflexivity.
Qed.

(* ... and every sink below every healthy IO core the entry had to reach, whatever the stack of WriteSyncer
   combinators, has committed everything ever written to it *)
Theorem committed_first_x_thm fx dec w lg m l lens st :
  In m methods -> can_log m l = true -> terminal lg l ->
  let st' := run_evs_x (fe_fails fx) lens st (fst (log_call_x fx dec w lg (fam_of m) l)) in
  forall id, In id (must_reach fx dec w lg l) -> fe_fails fx id = false ->
    Forall (eq 0) (sk_pending 0 (st' id)) /\ map (Z.add 0) (sk_committed (st' id)) = sk_held 0 (st' id).
Proof.
  intros Hm Hc Ht st' id Hin Hf. subst st'.
  destruct (written_first_x_thm fx dec w lg m l Hm Hc Ht) as [Hw _]. revert Hw.
  unfold log_call_x. cbn [fst]. rewrite (terminal_hi lg l Ht). intros Hw.
  assert (settled (run_evs_x (fe_fails fx) lens st (fst (ce_write fx true (call_writers_s dec w (lcore lg) (fam_of m) l))) id)) as Hs.
  { apply (okl_settled _ _ (ce_write_okl fx true _)); [exact Hf|]. right. rewrite Hw. exact Hin. }
  split; [exact Hs|]. symmetry. apply nothing_pending_all_committed. exact Hs.
Qed.

(* no wrapper, nothing fails: the call of the theorems above *)
Lemma ce_write_plain l ws : fst (ce_write fx_plain (ErrorL <? l) ws) = write_events all_io l ws.
Proof.
  induction ws as [|[i|h] r IH]; [reflexivity| |]; cbn [ce_write fst core_write fx_plain fe_fw fe_fails]; rewrite IH.
  - change (write_events all_io l (WLeaf i :: r)) with ((EWrite i :: (if all_io i && (ErrorL <? l) then [ESync i] else [])) ++ write_events all_io l r).
    reflexivity.
  - reflexivity.
Qed.
Theorem forwarding_conservative dec w lg f l : log_call_x fx_plain dec w lg f l = log_call_s dec w lg all_io f l.
Proof.
  unfold log_call_x. change (fun _ : nat => true) with all_io. rewrite ce_write_plain, log_call_s_eq. reflexivity.
Qed.

(* multiCore.Write that returns on the first error loses the healthy core behind the failing one *)
Definition tee_first_error_full : Prop :=
  forall fails hfails hi c, writes_of (fst (x_write_ff fails hfails hi c)) = x_reach c.
Theorem tee_first_error_refuted : ~ tee_first_error_full.
Proof.
  intros H. specialize (H (fun i => Nat.eqb i 0) (fun _ => false) true (XFwd (XTee [XLeaf 0; XLeaf 1]))).
  vm_compute in H. discriminate H.
Qed.

(* the wrapper as Core.Check sees it: it adds itself exactly when the core it wraps is enabled *)
Theorem fwd_enabler_spec (f : level -> bool) w l :
  -128 <= l <= 127 -> on w (dec_en (SL [SZ 2; SB (tbl_of f)])) l = f l.
Proof.
  intros Hl. unfold dec_en, sx_nth. cbn [sx_l nth sx_z sx_b on]. unfold tbl_fn, tbl_of. rewrite map_map.
  set (g := fun n : nat => negb (Byte.eqb (if f (Z.of_nat n - 128) then x01 else x00) x00)).
  assert (Hn : (Z.to_nat (l + 128) < 256)%nat) by lia.
  rewrite (nth_indep _ false (g 0%nat)) by (rewrite map_length, seq_length; exact Hn).
  rewrite map_nth, seq_nth by exact Hn. unfold g. cbn [Nat.add].
  replace (Z.of_nat (Z.to_nat (l + 128)) - 128) with l by lia. destruct (f l); reflexivity.
Qed.

(* ---------------- the terminal action and the CheckedEntry pool ---------------- *)
(* Take any number of threads making any log calls in any interleaving (C06/Pool.v) and in it any call that logged
   (l, msg, name) through front-end method m at a terminal level: what the terminal action does with the entry it
   finds - the default panic with ce.Message, a custom hook that logs first, then reads the entry and delegates to
   WriteThenPanic / WriteThenGoexit / dispatches on ce.Level - is what the property demands of a call at level l
   with message msg *)
Theorem action_on_logged_entry dec w lg io m l msg name jobs sc i d :
  In m methods -> can_log m l = true -> terminal lg l ->
  In d (t_done (p_thr (prun false sc (pinit jobs)) i)) ->
  d_ent d = {| en_level := l; en_msg := msg; en_name := name |} ->
  d_saw d = {| en_level := l; en_msg := msg; en_name := name |} /\
  hook_term (snd (log_call_s dec w lg io (fam_of m) l)) (d_saw d) = spec_term lg l msg.
Proof.
  intros Hm Hc Ht Hin He. destruct (hook_sees_logged_entry jobs sc i d Hin) as [Hs _]. rewrite Hs, He.
  split; [reflexivity|]. rewrite (terminates_s_thm dec w lg io m l Hm Hc Ht). cbn [snd].
  rewrite <- (after_hook_terminal lg l Ht), after_hook_must_end. apply hook_term_spec_term.
Qed.
(* a hook that logs first and then delegates is a custom hook: it is the action at its level *)
Lemma expected_action_hook lg :
  (forall k m, on_fatal lg = HHook k m -> expected_action lg FatalL = AHook k m) /\
  (forall k m, on_panic lg = HHook k m -> expected_action lg PanicL = AHook k m /\ expected_action lg DPanicL = AHook k m).
Proof.
  unfold expected_action. cbn. split; [intros k m ->; reflexivity|intros k m ->; split; reflexivity].
Qed.

(* nil and no-op hooks are overridden by the defaults; any other hook is the action *)
Lemma expected_action_defaults lg :
  ((on_fatal lg = HNil \/ on_fatal lg = HNoop) -> expected_action lg FatalL = AExit) /\
  ((on_panic lg = HNil \/ on_panic lg = HNoop) -> expected_action lg PanicL = APanic /\ expected_action lg DPanicL = APanic) /\
  (forall k, on_fatal lg = HCustom k -> expected_action lg FatalL = ACustom k) /\
  (forall k, on_panic lg = HCustom k -> expected_action lg PanicL = ACustom k /\ expected_action lg DPanicL = ACustom k).
Proof.
  unfold expected_action. cbn.
  split; [intros [->| ->]; reflexivity|]. split; [intros [->| ->]; split; reflexivity|].
  split; [intros k ->; reflexivity|intros k ->; split; reflexivity].
Qed.

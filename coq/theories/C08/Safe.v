(* C08 — the program logic used by the proofs: [safe ow a Q] says that program [a],
   run by an operation that currently owns the buffers [ow], under EVERY adversary
   (each Get may return any clean object, and any buffer the operation does not
   already own), never faults, only puts clean objects and only buffers it owns,
   and ends in a result satisfying Q. *)
From Coq Require Import List ZArith Bool Arith Lia.
From Coq.Strings Require Import Byte.
Import ListNotations.
From Zap Require Import Base.Wire Enc.Bytes Enc.Fields Enc.JsonEnc C08.Model.

(* what must hold of an object sitting in a pool: exactly the fields that the
   acquire code does NOT assign hold what New() put there (cf. Hygiene.v) *)
Definition clean (p : pid) : pty p -> Prop :=
  match p with
  | PJson => fun j => j_rbuf j = None /\ j_renc j = None
  | PBuf => fun _ => True
  | PSlice => fun s => s_elems s = []
  | PCE => fun _ => True
  | PErrCore => fun _ => True
  | PErrZap => fun _ => True
  | PStack => fun st => 1 <= length (k_storage st)      (* capacity field: only its length >= 1 matters *)
  end.

Definition buf_id (p : pid) : pty p -> option id :=
  match p with PBuf => fun b => Some (b_id b) | _ => fun _ => None end.
Definition fresh (p : pid) (o : pty p) (ow : list id) : Prop :=
  match buf_id p o with Some i => ~ In i ow | None => True end.
Definition owns (p : pid) (o : pty p) (ow : list id) : Prop :=
  match buf_id p o with Some i => In i ow | None => True end.
Definition own_add (p : pid) (o : pty p) (ow : list id) : list id :=
  match buf_id p o with Some i => i :: ow | None => ow end.
Definition own_del (p : pid) (o : pty p) (ow : list id) : list id :=
  match buf_id p o with Some i => remove Nat.eq_dec i ow | None => ow end.

Fixpoint safe {A : Type} (a : act A) (ow : list id) (Q : list id -> A -> Prop) {struct a} : Prop :=
  match a with
  | Ret r => Q ow r
  | Get p k => forall o, clean p o -> fresh p o ow -> safe (k o) (own_add p o ow) Q
  | Put p o k => clean p o /\ owns p o ow /\ safe k (own_del p o ow) Q
  | Fail _ => False
  end.

Lemma safe_bind {A B} (m : act A) : forall ow (f : A -> act B) (Q1 : list id -> A -> Prop) Q2,
  safe m ow Q1 -> (forall ow' a, Q1 ow' a -> safe (f a) ow' Q2) -> safe (bind m f) ow Q2.
Proof.
  induction m as [a|p k IH|p o k IH|e]; intros ow f Q1 Q2 Hm Hf; cbn [bind safe] in *.
  - apply Hf. exact Hm.
  - intros o Hc Hfr. eapply IH; [apply Hm; assumption | exact Hf].
  - destruct Hm as [Hc [Ho Hk]]. split; [exact Hc|split; [exact Ho|]]. eapply IH; [exact Hk | exact Hf].
  - exact Hm.
Qed.

Lemma safe_weaken {A} (a : act A) : forall ow (Q1 Q2 : list id -> A -> Prop),
  safe a ow Q1 -> (forall ow' r, Q1 ow' r -> Q2 ow' r) -> safe a ow Q2.
Proof.
  induction a as [r|p k IH|p o k IH|e]; intros ow Q1 Q2 H HQ; cbn [safe] in *.
  - apply HQ. exact H.
  - intros o Hc Hf. eapply IH; [apply H; assumption | exact HQ].
  - destruct H as [Hc [Ho Hk]]. split; [exact Hc|split; [exact Ho|]]. eapply IH; [exact Hk | exact HQ].
  - exact H.
Qed.

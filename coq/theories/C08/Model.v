(* C08 — pooled objects of zap and the code that acquires, uses and releases them.

   Modelled (following the Go text, file by file):
     internal/pool/pool.go            Get = New() or any object put earlier (adversary); Put
     buffer/pool.go buffer/buffer.go  Pool.Get (Reset; pool = p), Buffer.Free -> pool.put
     zapcore/json_encoder.go          clone, Clone, resetReflectBuf, encodeReflected, AddReflected,
                                      OpenNamespace, AppendObject, closeOpenNamespaces, EncodeEntry,
                                      putJSONEncoder
     zapcore/console_encoder.go       getSliceEncoder, putSliceEncoder, EncodeEntry, writeContext
     zapcore/error.go  error.go       errArray.MarshalLogArray with the two errArrayElem pools
     zapcore/entry.go                 getCheckedEntry, reset, AddCore, After, Write (cores, error output,
                                      the CheckWriteHook - which does its own logging before it looks
                                      at the entry it is handed -, then putCheckedEntry), EntryCaller.FullPath
     zapcore/core.go  zapcore/tee.go  ioCore.Write (sink write, then Free), ioCore.With; ioCore.Check /
                                      multiCore.Check driven without a Logger (Check(ent, nil) + Write)
     internal/stacktrace/stack.go     Capture (First / Full with storage growth), Free, Take
     logger.go                        Logger.check (stack capture, caller, stack text)

   A program that uses pools is a tree of pool interactions ([act]): between two
   interactions a goroutine only touches objects it owns.  Pooled structs travel by
   value (with whatever residual field values their last user left); buffers
   additionally have an identity, because pooled encoders hold POINTERS to buffers
   (buf, reflectBuf, reflectEnc) and a stale pointer is how a freed buffer could be
   observed: every access to a buffer that the running operation does not own is a
   fault ([UseAfterFree]).

   No proofs in this file. *)
From Coq Require Import List ZArith Bool Arith Lia.
From Coq.Strings Require Import Byte.
Import ListNotations.
From Zap Require Import Base.Wire Enc.Bytes Enc.Decimal Enc.Fields Enc.JsonEnc.

(* ------------------------------------------------------------------ *)
(* objects                                                            *)
(* ------------------------------------------------------------------ *)
Definition id := nat.

(* *EncoderConfig, as far as this property needs it: keys, line ending, console separator.
   Level/name encoders are the built-in string encoders; the time key is empty. *)
Record ecfg := {
  c_msg : bytes; c_lvl : bytes; c_name : bytes; c_caller : bytes; c_stack : bytes;
  c_le : bytes; c_sep : bytes
}.

(* buffer.Buffer { bs []byte; pool Pool } *)
Record bufobj := { b_id : id; b_bs : bytes; b_pool : bool (* pool field set *) }.

(* zapcore.jsonEncoder *)
Record jenc := {
  j_cfg : option ecfg;        (* *EncoderConfig *)
  j_buf : option id;          (* buf *buffer.Buffer *)
  j_spaced : bool;
  j_ns : nat;                 (* openNamespaces *)
  j_rbuf : option id;         (* reflectBuf *)
  j_renc : option id          (* reflectEnc: a json.Encoder writing to that buffer *)
}.

(* zapcore.sliceArrayEncoder { elems []interface{} }: the visible elements, as fmt.Fprint prints them *)
Record slicenc := { s_elems : list bytes }.

(* zapcore.errArrayElem { err error } and zap.errArrayElem { error }: Error() text of the wrapped error *)
Record errelem := { ee_err : option bytes }.

(* stacktrace.Stack { pcs; frames; storage } *)
Definition pc := nat.
Record stack := { k_pcs : list pc; k_frames : option (list pc); k_storage : list pc }.

(* a long-lived encoder held by a core (never pooled): its observable state *)
Record enc := { e_cfg : ecfg; e_spaced : bool; e_ns : nat; e_buf : bytes }.
(* an ioCore: encoder, JSON or console, and whether its sink fails *)
Record core := { co_enc : enc; co_console : bool; co_fail : bool }.

Record entry := {
  en_lvl : bytes; en_name : bytes; en_msg : bytes; en_stack : bytes;
  en_caller : option (bytes * Z)      (* Caller.Defined: File, Line *)
}.

(* ------------------------------------------------------------------ *)
(* fields, as far as pooling is concerned                             *)
(* ------------------------------------------------------------------ *)
(* PRaw covers every scalar Add* (the text is what strconv/time produced);
   PObj is an ObjectMarshaler script: calls, then nil or an error. *)
Inductive pf :=
| PStr (k v : bytes)
| PRaw (k raw : bytes)
| PNs (k : bytes)                                  (* zap.Namespace *)
| PRefl (k : bytes) (r : rv)                       (* zap.Reflect *)
| PErr (k basic : bytes) (causes : list bytes)     (* zap.Error of an errorGroup: zapcore pool *)
| PErrs (k : bytes) (es : list bytes)              (* zap.Errors: zap pool *)
| PObj (k : bytes) (calls : list pf) (ret_err : option bytes).

(* a zapcore.CheckWriteHook (zap.WithFatalHook / WithPanicHook, CheckedEntry.After / Should): user code
   that is handed the *CheckedEntry after every core has written.  Before it looks at that entry it may
   log on its own - each element of hk_nested is one Core.Check(ent, nil).Write(fs) over cores of its
   own (a tee), which is what a Logger call without caller, stack and hook amounts to *)
Definition ncall := (list core * entry * list pf)%type.
Record hookd := { hk_id : nat; hk_nested : list ncall }.

(* zapcore.CheckedEntry *)
Record centry := {
  ce_ent : entry;
  ce_errout : bool;                   (* ErrorOutput != nil *)
  ce_dirty : bool;
  ce_after : option hookd;            (* CheckWriteHook *)
  ce_cores : list core
}.

(* ------------------------------------------------------------------ *)
(* pools and programs                                                 *)
(* ------------------------------------------------------------------ *)
Inductive pid := PJson | PBuf | PSlice | PCE | PErrCore | PErrZap | PStack.
Definition pty (p : pid) : Type :=
  match p with
  | PJson => jenc | PBuf => bufobj | PSlice => slicenc | PCE => centry
  | PErrCore => errelem | PErrZap => errelem | PStack => stack
  end.

Inductive fault :=
| UseAfterFree (i : id)     (* access to a buffer the operation does not own *)
| DoubleFree (i : id)       (* Free of a buffer the operation does not own *)
| NilDeref                  (* nil pointer dereference: the call panics *)
| Diverge.                  (* Capture's growth loop does not terminate *)

Inductive act (A : Type) : Type :=
| Ret (a : A)
| Get (p : pid) (k : pty p -> act A)
| Put (p : pid) (o : pty p) (k : act A)
| Fail (f : fault).
Arguments Ret {A} a.
Arguments Get {A} p k.
Arguments Put {A} p o k.
Arguments Fail {A} f.

Fixpoint bind {A B} (m : act A) (f : A -> act B) : act B :=
  match m with
  | Ret a => f a
  | Get p k => Get p (fun o => bind (k o) f)
  | Put p o k => Put p o (bind k f)
  | Fail e => Fail e
  end.

(* what New() allocates; a new buffer gets an identity from the allocator *)
Definition zero_entry : entry := {| en_lvl := []; en_name := []; en_msg := []; en_stack := []; en_caller := None |}.
Definition new_jenc : jenc :=
  {| j_cfg := None; j_buf := None; j_spaced := false; j_ns := 0; j_rbuf := None; j_renc := None |}.
Definition new_buf (i : id) : bufobj := {| b_id := i; b_bs := []; b_pool := false |}.
Definition new_slice : slicenc := {| s_elems := [] |}.
Definition nil_core : core :=
  {| co_enc := {| e_cfg := {| c_msg := []; c_lvl := []; c_name := []; c_caller := []; c_stack := []; c_le := []; c_sep := [] |};
                  e_spaced := false; e_ns := 0; e_buf := [] |}; co_console := false; co_fail := false |}.
Definition new_ce : centry :=   (* cores: make([]Core, 4): four nil cores *)
  {| ce_ent := zero_entry; ce_errout := false; ce_dirty := false; ce_after := None; ce_cores := repeat nil_core 4 |}.
Definition new_errelem : errelem := {| ee_err := None |}.
Definition new_stack : stack := {| k_pcs := []; k_frames := None; k_storage := repeat 0 64 |}.

(* ------------------------------------------------------------------ *)
(* the state of a running operation: the buffers it owns              *)
(* ------------------------------------------------------------------ *)
Definition store := list bufobj.
Definition M (A : Type) : Type := store -> act (A * store).
Definition ret {A} (a : A) : M A := fun s => Ret (a, s).
Definition mbind {A B} (m : M A) (f : A -> M B) : M B :=
  fun s => bind (m s) (fun r => f (fst r) (snd r)).
Definition mfail {A} (f : fault) : M A := fun _ => Fail f.
Notation "x <- m ;; k" := (mbind m (fun x => k)) (at level 61, m at next level, right associativity).
Notation "m ;;; k" := (mbind m (fun _ => k)) (at level 61, right associativity).

Fixpoint find_buf (i : id) (s : store) : option bufobj :=
  match s with
  | [] => None
  | b :: r => if Nat.eqb (b_id b) i then Some b else find_buf i r
  end.
Fixpoint set_buf (i : id) (bs : bytes) (s : store) : store :=
  match s with
  | [] => []
  | b :: r => if Nat.eqb (b_id b) i then {| b_id := i; b_bs := bs; b_pool := b_pool b |} :: r
              else b :: set_buf i bs r
  end.
Fixpoint del_buf (i : id) (s : store) : store :=
  match s with
  | [] => []
  | b :: r => if Nat.eqb (b_id b) i then r else b :: del_buf i r
  end.

(* pointer dereference of a *buffer.Buffer field *)
Definition deref (p : option id) : M id :=
  match p with Some i => ret i | None => mfail NilDeref end.
Definition buf_read (i : id) : M bytes :=
  fun s => match find_buf i s with Some b => Ret (b_bs b, s) | None => Fail (UseAfterFree i) end.
Definition buf_upd (i : id) (f : bytes -> bytes) : M unit :=
  fun s => match find_buf i s with
           | Some b => Ret (tt, set_buf i (f (b_bs b)) s)
           | None => Fail (UseAfterFree i)
           end.
(* buffer.Pool.Get: buf := p.p.Get(); buf.Reset(); buf.pool = p *)
Definition buf_get : M id :=
  fun s => Get PBuf (fun b => Ret (b_id b, {| b_id := b_id b; b_bs := []; b_pool := true |} :: s)).
(* Buffer.Free: b.pool.put(b) *)
Definition buf_free (i : id) : M unit :=
  fun s => match find_buf i s with
           | None => Fail (DoubleFree i)
           | Some b => if b_pool b then Put PBuf b (Ret (tt, del_buf i s)) else Fail NilDeref
           end.
Definition getp (p : pid) : M (pty p) := fun s => Get p (fun o => Ret (o, s)).
Definition putp (p : pid) (o : pty p) : M unit := fun s => Put p o (Ret (tt, s)).

(* ------------------------------------------------------------------ *)
(* zapcore/json_encoder.go                                            *)
(* ------------------------------------------------------------------ *)
Definition set_ns (j : jenc) (n : nat) : jenc :=
  {| j_cfg := j_cfg j; j_buf := j_buf j; j_spaced := j_spaced j; j_ns := n; j_rbuf := j_rbuf j; j_renc := j_renc j |}.
Definition set_refl (j : jenc) (b e : option id) : jenc :=
  {| j_cfg := j_cfg j; j_buf := j_buf j; j_spaced := j_spaced j; j_ns := j_ns j; j_rbuf := b; j_renc := e |}.

(* the assignments of clone():  clone.EncoderConfig = enc.EncoderConfig; clone.spaced = enc.spaced;
   clone.openNamespaces = enc.openNamespaces; clone.buf = bufferpool.Get() *)
Definition clone_assign (e : enc) (b : id) (j : jenc) : jenc :=
  {| j_cfg := Some (e_cfg e); j_buf := Some b; j_spaced := e_spaced e; j_ns := e_ns e;
     j_rbuf := j_rbuf j; j_renc := j_renc j |}.
(* the assignments of putJSONEncoder *)
Definition put_clear (j : jenc) : jenc :=
  {| j_cfg := None; j_buf := None; j_spaced := false; j_ns := 0; j_rbuf := None; j_renc := None |}.

Definition clone (e : enc) : M jenc :=
  j <- getp PJson ;;
  (* the three scalar assignments happen before bufferpool.Get(); they do not interact *)
  b <- buf_get ;;
  ret (clone_assign e b j).

(* Clone: clone.buf.Write(enc.buf.Bytes()) *)
Definition Clone (e : enc) : M jenc :=
  j <- clone e ;;
  b <- deref (j_buf j) ;;
  buf_upd b (fun bs => bs ++ e_buf e) ;;;
  ret j.

Definition putJSONEncoder (j : jenc) : M unit :=
  (match j_rbuf j with Some r => buf_free r | None => ret tt end) ;;;
  putp PJson (put_clear j).

(* enc.buf.<append> *)
Definition jbuf (j : jenc) (f : bytes -> bytes) : M unit :=
  b <- deref (j_buf j) ;; buf_upd b f.

Definition add_string (j : jenc) (k v : bytes) : M unit :=
  jbuf j (fun b => ap_string (j_spaced j) v (add_key (j_spaced j) k b)).

(* closeOpenNamespaces *)
Definition close_ns (j : jenc) : M jenc :=
  jbuf j (fun b => b ++ repeat RBRACE (j_ns j)) ;;; ret (set_ns j 0).

(* TrimNewline *)
Definition trim_nl (b : bytes) : bytes :=
  match rev b with
  | x :: r => if Byte.eqb x NL then rev r else b
  | [] => b
  end.

(* resetReflectBuf + encodeReflected: Some bytes, or the encoder's error *)
Definition encode_reflected (j : jenc) (r : rv) : M (jenc * sum bytes bytes) :=
  match r with
  | RNil => ret (j, inl s_null)
  | _ =>
      j1 <- (match j_rbuf j with
             | None => b <- buf_get ;; ret (set_refl j (Some b) (Some b))   (* NewReflectedEncoder(enc.reflectBuf) *)
             | Some b => buf_upd b (fun _ => []) ;;; ret j                  (* enc.reflectBuf.Reset() *)
             end) ;;
      match r with
      | RErr msg => ret (j1, inr msg)          (* json.Encoder writes nothing when it fails *)
      | ROk txt =>
          w <- deref (j_renc j1) ;;
          buf_upd w (fun bs => bs ++ txt ++ [NL]) ;;;
          rb <- deref (j_rbuf j1) ;;
          buf_upd rb trim_nl ;;;
          out <- buf_read rb ;;
          ret (j1, inl out)
      | RNil => ret (j1, inl s_null)
      end
  end.

(* AppendObject's bracket around a marshaler: old := ns; ns = 0; sep; '{'; ...; '}'; closeOpenNamespaces; ns = old *)
Definition obj_open (j : jenc) : M jenc :=
  jbuf j (fun b => add_sep (j_spaced j) b ++ [LBRACE]) ;;; ret (set_ns j 0).
Definition obj_close (old : nat) (j : jenc) : M jenc :=
  jbuf j (fun b => b ++ [RBRACE]) ;;;
  j1 <- close_ns j ;;
  ret (set_ns j1 old).

(* zapcore errArray.MarshalLogArray: per non-nil error  el := newErrArrayElem(err); arr.AppendObject(el); el.Free() *)
Fixpoint err_array_core (j : jenc) (es : list bytes) : M jenc :=
  match es with
  | [] => ret j
  | e :: r =>
      el <- getp PErrCore ;;
      let el1 : errelem := {| ee_err := Some e |} in                  (* e.err = err *)
      j1 <- obj_open j ;;
      (* el.MarshalLogObject: encodeError("error", el.err, enc) *)
      j2 <- (match ee_err el1 with
             | Some m => add_string j1 s_error m ;;; ret j1
             | None => mfail NilDeref
             end) ;;
      j3 <- obj_close (j_ns j) j2 ;;
      putp PErrCore {| ee_err := None |} ;;;                           (* e.err = nil; Put *)
      err_array_core j3 r
  end.
(* zap errArray.MarshalLogArray: elem := Get(); elem.error = errs[i]; AppendObject(elem); elem.error = nil; Put *)
Fixpoint err_array_zap (j : jenc) (es : list bytes) : M jenc :=
  match es with
  | [] => ret j
  | e :: r =>
      el <- getp PErrZap ;;
      let el1 : errelem := {| ee_err := Some e |} in
      j1 <- obj_open j ;;
      (* Error(e.error).AddTo(enc): a nil error is zap.Skip() *)
      j2 <- (match ee_err el1 with
             | Some m => add_string j1 s_error m ;;; ret j1
             | None => ret j1
             end) ;;
      j3 <- obj_close (j_ns j) j2 ;;
      putp PErrZap {| ee_err := None |} ;;;
      err_array_zap j3 r
  end.

(* AppendArray's bracket *)
Definition arr_open (j : jenc) : M unit := jbuf j (fun b => add_sep (j_spaced j) b ++ [LBRACK]).
Definition arr_close (j : jenc) : M unit := jbuf j (fun b => b ++ [RBRACK]).
Definition add_key_only (j : jenc) (k : bytes) : M unit := jbuf j (fun b => add_key (j_spaced j) k b).

(* Field.AddTo on a jsonEncoder; a marshaler/reflection error becomes the field key+"Error" *)
Fixpoint add_field (f : pf) (j : jenc) {struct f} : M jenc :=
  match f with
  | PStr k v => add_string j k v ;;; ret j
  | PRaw k raw => jbuf j (fun b => ap_raw (j_spaced j) raw (add_key (j_spaced j) k b)) ;;; ret j
  | PNs k => jbuf j (fun b => add_key (j_spaced j) k b ++ [LBRACE]) ;;; ret (set_ns j (S (j_ns j)))
  | PRefl k r =>
      (* AddReflected: encode first; then addKey; then buf.Write(valueBytes) *)
      res <- encode_reflected j r ;;
      let j1 := fst res in
      match snd res with
      | inl txt => jbuf j1 (fun b => add_key (j_spaced j1) k b ++ txt) ;;; ret j1
      | inr msg => add_string j1 (k ++ s_Error) msg ;;; ret j1
      end
  | PErr k basic causes =>
      (* encodeError: AddString(key, basic); AddArray(key+"Causes", errArray(causes)) *)
      add_string j k basic ;;;
      add_key_only j (k ++ s_Causes) ;;;
      arr_open j ;;;
      j1 <- err_array_core j causes ;;
      arr_close j1 ;;;
      ret j1
  | PErrs k es =>
      add_key_only j k ;;;
      arr_open j ;;;
      j1 <- err_array_zap j es ;;
      arr_close j1 ;;;
      ret j1
  | PObj k calls ret_err =>
      add_key_only j k ;;;
      j1 <- obj_open j ;;
      j2 <- (fix go (l : list pf) (j : jenc) {struct l} : M jenc :=
               match l with
               | [] => ret j
               | g :: r => j' <- add_field g j ;; go r j'
               end) calls j1 ;;
      j3 <- obj_close (j_ns j) j2 ;;
      match ret_err with
      | Some msg => add_string j3 (k ++ s_Error) msg ;;; ret j3
      | None => ret j3
      end
  end.

Fixpoint add_fields (fs : list pf) (j : jenc) : M jenc :=
  match fs with
  | [] => ret j
  | f :: r => j' <- add_field f j ;; add_fields r j'
  end.

(* EntryCaller.FullPath: a pooled buffer, freed before returning *)
Definition full_path (file : bytes) (line : Z) : M bytes :=
  b <- buf_get ;;
  buf_upd b (fun bs => bs ++ file ++ [COLON] ++ print_Z line) ;;;
  s <- buf_read b ;;
  buf_free b ;;;
  ret s.

Definition cfg_of (j : jenc) : M ecfg :=
  match j_cfg j with Some c => ret c | None => mfail NilDeref end.

(* jsonEncoder.EncodeEntry: returns the buffer handed to the caller *)
Definition json_encode_entry (e : enc) (ent : entry) (fs : list pf) : M id :=
  final <- clone e ;;
  jbuf final (fun b => b ++ [LBRACE]) ;;;
  c <- cfg_of final ;;
  (if negb (is_nil (c_lvl c)) then add_string final (c_lvl c) (en_lvl ent) else ret tt) ;;;
  (if negb (is_nil (en_name ent)) && negb (is_nil (c_name c)) then add_string final (c_name c) (en_name ent) else ret tt) ;;;
  (match en_caller ent with
   | Some (file, line) =>
       if negb (is_nil (c_caller c)) then
         p <- full_path file line ;; add_string final (c_caller c) p    (* FullCallerEncoder: caller.String() *)
       else ret tt
   | None => ret tt
   end) ;;;
  (if negb (is_nil (c_msg c)) then add_string final (c_msg (e_cfg e)) (en_msg ent) else ret tt) ;;;   (* addKey(enc.MessageKey) *)
  (if negb (is_nil (e_buf e)) then jbuf final (fun b => add_sep (j_spaced final) b ++ e_buf e) else ret tt) ;;;
  final1 <- add_fields fs final ;;
  final2 <- close_ns final1 ;;
  (if negb (is_nil (en_stack ent)) && negb (is_nil (c_stack c)) then add_string final2 (c_stack c) (en_stack ent) else ret tt) ;;;
  jbuf final2 (fun b => b ++ [RBRACE] ++ c_le c) ;;;
  r <- deref (j_buf final2) ;;          (* ret := final.buf *)
  putJSONEncoder final2 ;;;
  ret r.

(* ------------------------------------------------------------------ *)
(* zapcore/console_encoder.go                                         *)
(* ------------------------------------------------------------------ *)
Fixpoint join_cols (sep : bytes) (first : bool) (cols : list bytes) : bytes :=
  match cols with
  | [] => []
  | x :: r => (if first then [] else sep) ++ x ++ join_cols sep false r
  end.

(* writeContext: the deferred function frees context.buf, then putJSONEncoder(context) *)
Definition write_context (e : enc) (line : id) (fs : list pf) : M unit :=
  context <- Clone e ;;
  c1 <- add_fields fs context ;;
  c2 <- close_ns c1 ;;
  cb <- deref (j_buf c2) ;;
  txt <- buf_read cb ;;
  (if is_nil txt then ret tt
   else buf_upd line (fun b => (if is_nil b then b else b ++ c_sep (e_cfg e)) ++ [LBRACE] ++ txt ++ [RBRACE])) ;;;
  buf_free cb ;;;
  putJSONEncoder c2.

Definition console_encode_entry (e : enc) (ent : entry) (fs : list pf) : M id :=
  let c := e_cfg e in
  line <- buf_get ;;
  arr <- getp PSlice ;;
  (* EncodeLevel, EncodeName, EncodeCaller append to arr.elems *)
  let el1 := if negb (is_nil (c_lvl c)) then s_elems arr ++ [en_lvl ent] else s_elems arr in
  let el2 := if negb (is_nil (en_name ent)) && negb (is_nil (c_name c)) then el1 ++ [en_name ent] else el1 in
  el3 <- (match en_caller ent with
          | Some (file, line_no) =>
              if negb (is_nil (c_caller c)) then p <- full_path file line_no ;; ret (el2 ++ [p]) else ret el2
          | None => ret el2
          end) ;;
  buf_upd line (fun b => b ++ join_cols (c_sep c) true el3) ;;;
  putp PSlice {| s_elems := [] |} ;;;                                  (* e.elems = e.elems[:0]; Put *)
  (if negb (is_nil (c_msg c))
   then buf_upd line (fun b => (if is_nil b then b else b ++ c_sep c) ++ en_msg ent) else ret tt) ;;;
  write_context e line fs ;;;
  (if negb (is_nil (en_stack ent)) && negb (is_nil (c_stack c))
   then buf_upd line (fun b => b ++ [NL] ++ en_stack ent) else ret tt) ;;;
  buf_upd line (fun b => b ++ c_le c) ;;;
  ret line.

(* ------------------------------------------------------------------ *)
(* zapcore/core.go                                                    *)
(* ------------------------------------------------------------------ *)
(* ioCore.Write: encode, out.Write(buf.Bytes()), buf.Free(); Some bytes = what reached the sink *)
Definition core_write (co : core) (ent : entry) (fs : list pf) : M bytes :=
  b <- (if co_console co then console_encode_entry (co_enc co) ent fs
        else json_encode_entry (co_enc co) ent fs) ;;
  out <- buf_read b ;;
  buf_free b ;;;
  ret out.

(* ioCore.With: clone.enc = c.enc.Clone(); addFields(clone.enc, fields).  The new encoder (and
   its buffers) live as long as the derived logger: nothing is returned to a pool. *)
Definition core_with (e : enc) (fs : list pf) : M enc :=
  j <- Clone e ;;
  j1 <- add_fields fs j ;;
  b <- deref (j_buf j1) ;;
  bs <- buf_read b ;;
  c <- cfg_of j1 ;;
  ret {| e_cfg := c; e_spaced := j_spaced j1; e_ns := j_ns j1; e_buf := bs |}.

(* ------------------------------------------------------------------ *)
(* internal/stacktrace/stack.go                                       *)
(* ------------------------------------------------------------------ *)
(* runtime.Callers(skip, buf) on a goroutine whose (already skipped) call stack is cs:
   fills min(len cs, len buf) entries *)
Definition callers (cs buf : list pc) : nat * list pc :=
  let n := Nat.min (length cs) (length buf) in (n, firstn n cs ++ skipn n buf).

(* for numFrames == len(pcs) { pcs = make([]uintptr, len(pcs)*2); numFrames = Callers(pcs) } *)
Fixpoint grow (fuel : nat) (cs pcs : list pc) (n : nat) : option (list pc * nat) :=
  if Nat.eqb n (length pcs) then
    match fuel with
    | O => None
    | S f => let pcs' := repeat 0 (length pcs * 2) in
             let '(n', filled) := callers cs pcs' in grow f cs filled n'
    end
  else Some (pcs, n).

Definition capture_into (cs : list pc) (full : bool) (st : stack) : option stack :=
  if full then
    let '(n, filled) := callers cs (k_storage st) in           (* stack.pcs = stack.storage *)
    match grow (S (length cs)) cs filled n with
    | None => None
    | Some (pcs, n') =>                                          (* storage = pcs; pcs = pcs[:numFrames] *)
        Some {| k_pcs := firstn n' pcs; k_frames := Some (firstn n' pcs); k_storage := pcs |}
    end
  else
    let '(n, filled) := callers cs (firstn 1 (k_storage st)) in  (* stack.pcs = stack.storage[:1] *)
    Some {| k_pcs := firstn n filled; k_frames := Some (firstn n filled);
            k_storage := filled ++ skipn 1 (k_storage st) |}.

Definition capture (cs : list pc) (full : bool) : M stack :=
  st <- getp PStack ;;
  match capture_into cs full st with
  | Some st' => ret st'
  | None => mfail Diverge
  end.
(* Free: st.frames = nil; st.pcs = nil; Put *)
Definition stack_free (st : stack) : M unit :=
  putp PStack {| k_pcs := []; k_frames := None; k_storage := k_storage st |}.

(* Formatter.FormatFrame: function \n \t file : line  -- symbolisation is an oracle; a frame prints as its pc *)
Definition fmt_frame (nonempty : bool) (p : pc) : bytes :=
  (if nonempty then [NL] else []) ++ print_Z (Z.of_nat p) ++ [NL; TAB] ++ print_Z (Z.of_nat p).
(* FormatStack: for frame, more := Next(); more; ... -- the last frame is dropped *)
Fixpoint fmt_stack (nonempty : bool) (fr : list pc) : bytes :=
  match fr with
  | [] => []
  | [_] => []
  | p :: r => fmt_frame nonempty p ++ fmt_stack true r
  end.

(* stacktrace.Take (zap.Stack / StackSkip) *)
Definition take_stack (cs : list pc) : M bytes :=
  st <- capture cs true ;;
  b <- buf_get ;;
  (match k_frames st with
   | Some fr => buf_upd b (fun bs => bs ++ fmt_stack false fr)
   | None => mfail NilDeref
   end) ;;;
  s <- buf_read b ;;
  buf_free b ;;;           (* deferred: buffer.Free(), then stack.Free() *)
  stack_free st ;;;
  ret s.

(* ------------------------------------------------------------------ *)
(* zapcore/entry.go and logger.go                                     *)
(* ------------------------------------------------------------------ *)
(* reset() *)
Definition ce_reset (ce : centry) : centry :=
  {| ce_ent := zero_entry; ce_errout := false; ce_dirty := false; ce_after := None; ce_cores := [] |}.
Definition get_checked_entry : M centry := ce <- getp PCE ;; ret (ce_reset ce).

(* what one logging call makes observable *)
Inductive event :=
| SinkWrite (co : nat) (b : bytes)     (* the n-th core of the entry wrote these bytes *)
| ErrOut                               (* internal error written to ErrorOutput *)
| HookWrite (call co : nat) (b : bytes)  (* the hook's own logging: the co-th core of its call-th log call wrote these bytes *)
| Hook (h : nat) (seen : entry)        (* CheckWriteHook h fired, and this is the entry it found in the CheckedEntry it was handed *)
| Reuse.                               (* "Unsafe CheckedEntry re-use" *)

Fixpoint write_cores (n : nat) (cores : list core) (ent : entry) (fs : list pf) : M (list event * bool) :=
  match cores with
  | [] => ret ([], false)
  | co :: r =>
      out <- core_write co ent fs ;;
      rest <- write_cores (S n) r ent fs ;;
      ret ((if co_fail co then [] else [SinkWrite n out]) ++ fst rest, co_fail co || snd rest)
  end.

(* CheckedEntry.Write.  [run] is the logging the hook does before it looks at the entry:
     for i := range ce.cores { err = multierr.Append(err, ce.cores[i].Write(ce.Entry, fields)) }
     if err != nil && ce.ErrorOutput != nil { ... }
     hook := ce.after; if hook != nil { hook.OnWrite(ce, fields) }
     putCheckedEntry(ce)
   The entry goes back to the pool when its last user, the hook, is done with it: while the hook runs
   (and logs) the pool cannot hand this object to anybody. *)
Definition ce_write_with (run : list ncall -> M (list event)) (ce : centry) (fs : list pf) : M (list event) :=
  if ce_dirty ce then ret (if ce_errout ce then [Reuse] else [])
  else
    r <- write_cores 0 (ce_cores ce) (ce_ent ce) fs ;;
    hev <- (match ce_after ce with
            | Some h => n <- run (hk_nested h) ;; ret (n ++ [Hook (hk_id h) (ce_ent ce)])
            | None => ret []
            end) ;;
    let evs := fst r ++ (if snd r && ce_errout ce then [ErrOut] else []) ++ hev in
    putp PCE {| ce_ent := ce_ent ce; ce_errout := ce_errout ce; ce_dirty := true;
                ce_after := ce_after ce; ce_cores := ce_cores ce |} ;;;
    ret evs.

(* Core.Check(ent, nil) + [After(ent, hook)] + CheckedEntry.Write with NO zap.Logger around it
   (ioCore.Check / multiCore.Check: ce.AddCore(ent, c) for each enabled core; this is how exp/zapslog's
   Handler and every direct zapcore user drive a core).  Nothing on this path assigns ErrorOutput, and
   the hook only if After is called: whatever reset() leaves in the recycled entry is what Write sees. *)
Definition check_call_with (run : list ncall -> M (list event))
    (cores : list core) (hook : option hookd) (ent : entry) (fs : list pf) : M (list event) :=
  match cores, hook with
  | [], None => ret []                                         (* ce == nil: Write is a no-op *)
  | _, _ =>
      ce0 <- get_checked_entry ;;                                (* first AddCore / After: getCheckedEntry(); ce.Entry = ent *)
      ce_write_with run {| ce_ent := ent; ce_errout := ce_errout ce0; ce_dirty := ce_dirty ce0;
                           ce_after := (match hook with Some h => Some h | None => ce_after ce0 end);
                           ce_cores := ce_cores ce0 ++ cores |} fs
  end.

(* the hook's own log calls: entries of their own (taken from the same pool while the outer entry is
   still in use), no hook of their own *)
Definition relabel (call : nat) (ev : event) : event :=
  match ev with SinkWrite co b => HookWrite call co b | _ => ev end.
Fixpoint run_nested (call : nat) (l : list ncall) : M (list event) :=
  match l with
  | [] => ret []
  | (cores, ent, fs) :: r =>
      evs <- check_call_with (fun _ => ret []) cores None ent fs ;;
      rest <- run_nested (S call) r ;;
      ret (map (relabel call) evs ++ rest)
  end.

Definition ce_write : centry -> list pf -> M (list event) := ce_write_with (run_nested 0).
Definition check_call : list core -> option hookd -> entry -> list pf -> M (list event) := check_call_with (run_nested 0).

Definition set_ent (ce : centry) (e : entry) : centry :=
  {| ce_ent := e; ce_errout := ce_errout ce; ce_dirty := ce_dirty ce; ce_after := ce_after ce; ce_cores := ce_cores ce |}.

(* a logger: enabled cores (multiCore.Check adds each), terminal hook of the level, caller/stack options *)
Record logger := {
  l_cores : list core; l_hook : option hookd; l_errout : bool;
  l_caller : bool; l_stack : bool
}.

(* Logger.check + CheckedEntry.Write.  cs = the goroutine's call stack at the call. *)
Definition log_call (lg : logger) (ent : entry) (cs : list pc) (fs : list pf) : M (list event) :=
  match l_cores lg, l_hook lg with
  | [], None => ret []                                         (* ce == nil: nothing happens *)
  | _, _ =>
      ce0 <- get_checked_entry ;;                                (* first AddCore / After: getCheckedEntry(); ce.Entry = ent *)
      let ce1 := {| ce_ent := ent; ce_errout := ce_errout ce0; ce_dirty := ce_dirty ce0;
                    ce_after := l_hook lg; ce_cores := ce_cores ce0 ++ l_cores lg |} in
      match l_cores lg with
      | [] => ce_write ce1 fs                                    (* !willWrite: terminal behaviour only *)
      | _ =>
          let ce2 := {| ce_ent := ce_ent ce1; ce_errout := l_errout lg; ce_dirty := ce_dirty ce1;
                        ce_after := ce_after ce1; ce_cores := ce_cores ce1 |} in
          if negb (l_caller lg) && negb (l_stack lg) then ce_write ce2 fs
          else
            st <- capture cs (l_stack lg) ;;
            match k_frames st with
            | None => mfail NilDeref
            | Some fr =>
                match fr with
                | [] => stack_free st ;;; ce_write ce2 fs          (* stack.Count() == 0 *)
                | frame :: more =>
                    let e1 := ce_ent ce2 in
                    let e2 := if l_caller lg
                              then {| en_lvl := en_lvl e1; en_name := en_name e1; en_msg := en_msg e1; en_stack := en_stack e1;
                                      en_caller := Some (print_Z (Z.of_nat frame), Z.of_nat frame) |}
                              else e1 in
                    e3 <- (if l_stack lg then
                             b <- buf_get ;;
                             buf_upd b (fun bs => bs ++ fmt_frame false frame ++
                                                  (if is_nil more then [] else fmt_stack true more)) ;;;
                             s <- buf_read b ;;
                             buf_free b ;;;
                             ret {| en_lvl := en_lvl e2; en_name := en_name e2; en_msg := en_msg e2; en_stack := s;
                                    en_caller := en_caller e2 |}
                           else ret e2) ;;
                    stack_free st ;;;                              (* deferred stack.Free() *)
                    ce_write (set_ent ce2 e3) fs
                end
            end
      end
  end.

(* ================================================================== *)
(* specification: what each operation produces, as a function of its  *)
(* inputs alone (no pools, no buffers, no identities)                 *)
(* ================================================================== *)
Definition pstate := (bytes * nat)%type.     (* bytes written so far, open namespaces *)

Definition p_add_string (sp : bool) (k v : bytes) (b : bytes) : bytes := ap_string sp v (add_key sp k b).
Definition p_close (s : pstate) : pstate := (fst s ++ repeat RBRACE (snd s), 0).
Definition p_obj_open (sp : bool) (s : pstate) : pstate := (add_sep sp (fst s) ++ [LBRACE], 0).
Definition p_obj_close (old : nat) (s : pstate) : pstate := (fst (p_close (fst s ++ [RBRACE], snd s)), old).

Fixpoint p_err_array (sp : bool) (some_only : bool) (es : list bytes) (s : pstate) : pstate :=
  match es with
  | [] => s
  | e :: r =>
      let s1 := p_obj_open sp s in
      let s2 := (p_add_string sp s_error e (fst s1), snd s1) in
      p_err_array sp some_only r (p_obj_close (snd s) s2)
  end.

Fixpoint p_field (sp : bool) (f : pf) (s : pstate) {struct f} : pstate :=
  match f with
  | PStr k v => (p_add_string sp k v (fst s), snd s)
  | PRaw k raw => (ap_raw sp raw (add_key sp k (fst s)), snd s)
  | PNs k => (add_key sp k (fst s) ++ [LBRACE], S (snd s))
  | PRefl k r =>
      match r with
      | RNil => (add_key sp k (fst s) ++ s_null, snd s)
      | ROk txt => (add_key sp k (fst s) ++ txt, snd s)
      | RErr msg => (p_add_string sp (k ++ s_Error) msg (fst s), snd s)
      end
  | PErr k basic causes =>
      let b1 := p_add_string sp k basic (fst s) in
      let b2 := add_sep sp (add_key sp (k ++ s_Causes) b1) ++ [LBRACK] in
      let s3 := p_err_array sp true causes (b2, snd s) in
      (fst s3 ++ [RBRACK], snd s3)
  | PErrs k es =>
      let b2 := add_sep sp (add_key sp k (fst s)) ++ [LBRACK] in
      let s3 := p_err_array sp true es (b2, snd s) in
      (fst s3 ++ [RBRACK], snd s3)
  | PObj k calls ret_err =>
      let s1 := p_obj_open sp (add_key sp k (fst s), snd s) in
      let s2 := (fix go (l : list pf) (s : pstate) {struct l} : pstate :=
                   match l with [] => s | g :: r => go r (p_field sp g s) end) calls s1 in
      let s3 := p_obj_close (snd s) s2 in
      match ret_err with
      | Some msg => (p_add_string sp (k ++ s_Error) msg (fst s3), snd s3)
      | None => s3
      end
  end.
Fixpoint p_fields (sp : bool) (fs : list pf) (s : pstate) : pstate :=
  match fs with [] => s | f :: r => p_fields sp r (p_field sp f s) end.

Definition p_path (file : bytes) (line : Z) : bytes := file ++ [COLON] ++ print_Z line.

Definition p_json_line (e : enc) (ent : entry) (fs : list pf) : bytes :=
  let c := e_cfg e in
  let sp := e_spaced e in
  let b0 := [LBRACE] in
  let b1 := if negb (is_nil (c_lvl c)) then p_add_string sp (c_lvl c) (en_lvl ent) b0 else b0 in
  let b2 := if negb (is_nil (en_name ent)) && negb (is_nil (c_name c)) then p_add_string sp (c_name c) (en_name ent) b1 else b1 in
  let b3 := match en_caller ent with
            | Some (file, line) =>
                if negb (is_nil (c_caller c)) then p_add_string sp (c_caller c) (p_path file line) b2 else b2
            | None => b2
            end in
  let b4 := if negb (is_nil (c_msg c)) then p_add_string sp (c_msg c) (en_msg ent) b3 else b3 in
  let b5 := if negb (is_nil (e_buf e)) then add_sep sp b4 ++ e_buf e else b4 in
  let s6 := p_close (p_fields sp fs (b5, e_ns e)) in
  let b7 := if negb (is_nil (en_stack ent)) && negb (is_nil (c_stack c)) then p_add_string sp (c_stack c) (en_stack ent) (fst s6) else fst s6 in
  b7 ++ [RBRACE] ++ c_le c.

Definition p_sep (sep b : bytes) : bytes := if is_nil b then b else b ++ sep.

Definition p_console_line (e : enc) (ent : entry) (fs : list pf) : bytes :=
  let c := e_cfg e in
  let el1 := if negb (is_nil (c_lvl c)) then [en_lvl ent] else [] in
  let el2 := if negb (is_nil (en_name ent)) && negb (is_nil (c_name c)) then el1 ++ [en_name ent] else el1 in
  let el3 := match en_caller ent with
             | Some (file, line) => if negb (is_nil (c_caller c)) then el2 ++ [p_path file line] else el2
             | None => el2
             end in
  let l1 := join_cols (c_sep c) true el3 in
  let l2 := if negb (is_nil (c_msg c)) then p_sep (c_sep c) l1 ++ en_msg ent else l1 in
  let ctx := fst (p_close (p_fields (e_spaced e) fs (e_buf e, e_ns e))) in
  let l3 := if is_nil ctx then l2 else p_sep (c_sep c) l2 ++ [LBRACE] ++ ctx ++ [RBRACE] in
  let l4 := if negb (is_nil (en_stack ent)) && negb (is_nil (c_stack c)) then l3 ++ [NL] ++ en_stack ent else l3 in
  l4 ++ c_le c.

Definition p_core_line (co : core) (ent : entry) (fs : list pf) : bytes :=
  if co_console co then p_console_line (co_enc co) ent fs else p_json_line (co_enc co) ent fs.

Definition p_with (e : enc) (fs : list pf) : enc :=
  let s := p_fields (e_spaced e) fs (e_buf e, e_ns e) in
  {| e_cfg := e_cfg e; e_spaced := e_spaced e; e_ns := snd s; e_buf := fst s |}.

Definition p_take (cs : list pc) : bytes := fmt_stack false cs.

Fixpoint p_write_cores (n : nat) (cores : list core) (ent : entry) (fs : list pf) : list event * bool :=
  match cores with
  | [] => ([], false)
  | co :: r =>
      let rest := p_write_cores (S n) r ent fs in
      ((if co_fail co then [] else [SinkWrite n (p_core_line co ent fs)]) ++ fst rest, co_fail co || snd rest)
  end.

(* the entry a logging call writes: the caller and the stack text come from the goroutine's own
   call stack; every enabled core of THIS logger writes it once; the level's hook fires once *)
Definition p_log_entry (lg : logger) (ent : entry) (cs : list pc) : entry :=
  match l_cores lg with
  | [] => ent
  | _ =>
      if negb (l_caller lg) && negb (l_stack lg) then ent
      else
        let fr := if l_stack lg then cs else firstn 1 cs in
        match fr with
        | [] => ent
        | frame :: more =>
            {| en_lvl := en_lvl ent; en_name := en_name ent; en_msg := en_msg ent;
               en_stack := if l_stack lg
                           then fmt_frame false frame ++ (if is_nil more then [] else fmt_stack true more)
                           else en_stack ent;
               en_caller := if l_caller lg then Some (print_Z (Z.of_nat frame), Z.of_nat frame) else en_caller ent |}
        end
  end.
(* what a terminal hook makes observable: the lines of its own log calls (each core of each call
   writes that call's entry once), then the entry it finds in the CheckedEntry it was handed - which is
   the entry that was logged, whatever the hook logged meanwhile *)
Fixpoint p_nested (call : nat) (l : list ncall) : list event :=
  match l with
  | [] => []
  | (cores, ent, fs) :: r =>
      map (relabel call) (fst (p_write_cores 0 cores ent fs)) ++ p_nested (S call) r
  end.
Definition p_hook (hook : option hookd) (logged : entry) : list event :=
  match hook with
  | Some h => p_nested 0 (hk_nested h) ++ [Hook (hk_id h) logged]
  | None => []
  end.

Definition p_log (lg : logger) (ent : entry) (cs : list pc) (fs : list pf) : list event :=
  match l_cores lg, l_hook lg with
  | [], None => []
  | _, _ =>
      let r := p_write_cores 0 (l_cores lg) (p_log_entry lg ent cs) fs in
      fst r ++ (if snd r && (match l_cores lg with [] => false | _ => l_errout lg end) then [ErrOut] else []) ++
      p_hook (l_hook lg) (p_log_entry lg ent cs)
  end.

(* a bare Check + Write: every core handed in writes the entry once, the hook handed in (if any)
   fires once, on this entry; no error output (none was configured), no other hook, no other core *)
Definition p_check (cores : list core) (hook : option hookd) (ent : entry) (fs : list pf) : list event :=
  fst (p_write_cores 0 cores ent fs) ++ p_hook hook ent.

(* ================================================================== *)
(* operations of a history                                            *)
(* ================================================================== *)
Inductive op :=
| OWrite (co : core) (ent : entry) (fs : list pf)               (* Core.Write *)
| OWith (e : enc) (fs : list pf)                                (* Core.With / Logger.With *)
| OLog (lg : logger) (ent : entry) (cs : list pc) (fs : list pf)  (* Logger.Info ... : check + Write *)
| OTake (cs : list pc)                                          (* zap.Stack *)
| OCheck (cores : list core) (hook : option hookd) (ent : entry) (fs : list pf).  (* Core.Check(ent, nil) [.After] .Write, no Logger *)

Inductive out := OutBytes (b : bytes) | OutEnc (e : enc) | OutEvents (l : list event).

Definition run_m {A} (m : M A) (f : A -> out) : act out := bind (m []) (fun r => Ret (f (fst r))).

Definition op_prog (o : op) : act out :=
  match o with
  | OWrite co ent fs => run_m (core_write co ent fs) OutBytes
  | OWith e fs => run_m (core_with e fs) OutEnc
  | OLog lg ent cs fs => run_m (log_call lg ent cs fs) OutEvents
  | OTake cs => run_m (take_stack cs) OutBytes
  | OCheck cores hook ent fs => run_m (check_call cores hook ent fs) OutEvents
  end.

(* the specification of an operation: a function of the operation alone *)
Definition op_spec (o : op) : out :=
  match o with
  | OWrite co ent fs => OutBytes (p_core_line co ent fs)
  | OWith e fs => OutEnc (p_with e fs)
  | OLog lg ent cs fs => OutEvents (p_log lg ent cs fs)
  | OTake cs => OutBytes (p_take cs)
  | OCheck cores hook ent fs => OutEvents (p_check cores hook ent fs)
  end.

(* ================================================================== *)
(* the pools, with an adversary choosing what Get returns             *)
(* ================================================================== *)
Record pools := {
  pl_json : list jenc; pl_buf : list bufobj; pl_slice : list slicenc; pl_ce : list centry;
  pl_errc : list errelem; pl_errz : list errelem; pl_stack : list stack
}.
Definition no_pools : pools :=
  {| pl_json := []; pl_buf := []; pl_slice := []; pl_ce := []; pl_errc := []; pl_errz := []; pl_stack := [] |}.
Definition pool_get (P : pools) (p : pid) : list (pty p) :=
  match p with
  | PJson => pl_json P | PBuf => pl_buf P | PSlice => pl_slice P | PCE => pl_ce P
  | PErrCore => pl_errc P | PErrZap => pl_errz P | PStack => pl_stack P
  end.
Definition pool_set (P : pools) (p : pid) : list (pty p) -> pools :=
  match p with
  | PJson => fun l => {| pl_json := l; pl_buf := pl_buf P; pl_slice := pl_slice P; pl_ce := pl_ce P; pl_errc := pl_errc P; pl_errz := pl_errz P; pl_stack := pl_stack P |}
  | PBuf => fun l => {| pl_json := pl_json P; pl_buf := l; pl_slice := pl_slice P; pl_ce := pl_ce P; pl_errc := pl_errc P; pl_errz := pl_errz P; pl_stack := pl_stack P |}
  | PSlice => fun l => {| pl_json := pl_json P; pl_buf := pl_buf P; pl_slice := l; pl_ce := pl_ce P; pl_errc := pl_errc P; pl_errz := pl_errz P; pl_stack := pl_stack P |}
  | PCE => fun l => {| pl_json := pl_json P; pl_buf := pl_buf P; pl_slice := pl_slice P; pl_ce := l; pl_errc := pl_errc P; pl_errz := pl_errz P; pl_stack := pl_stack P |}
  | PErrCore => fun l => {| pl_json := pl_json P; pl_buf := pl_buf P; pl_slice := pl_slice P; pl_ce := pl_ce P; pl_errc := l; pl_errz := pl_errz P; pl_stack := pl_stack P |}
  | PErrZap => fun l => {| pl_json := pl_json P; pl_buf := pl_buf P; pl_slice := pl_slice P; pl_ce := pl_ce P; pl_errc := pl_errc P; pl_errz := l; pl_stack := pl_stack P |}
  | PStack => fun l => {| pl_json := pl_json P; pl_buf := pl_buf P; pl_slice := pl_slice P; pl_ce := pl_ce P; pl_errc := pl_errc P; pl_errz := pl_errz P; pl_stack := l |}
  end.

(* the shared state: pools + the allocator's next buffer identity *)
Record shared := { sh_pools : pools; sh_next : id }.
Definition sh_init : shared := {| sh_pools := no_pools; sh_next := 0 |}.

Definition alloc (p : pid) (i : id) : pty p :=
  match p with
  | PJson => new_jenc | PBuf => new_buf i | PSlice => new_slice | PCE => new_ce
  | PErrCore => new_errelem | PErrZap => new_errelem | PStack => new_stack
  end.

Fixpoint remove_nth {A} (n : nat) (l : list A) : list A :=
  match n, l with
  | _, [] => []
  | O, _ :: r => r
  | S m, x :: r => x :: remove_nth m r
  end.

(* sync.Pool.Get under adversary choice c: 0 = New(); n+1 = the n-th pooled object, if there is one *)
Definition sh_get (sh : shared) (p : pid) (c : nat) : pty p * shared :=
  match c with
  | S n =>
      match nth_error (pool_get (sh_pools sh) p) n with
      | Some o => (o, {| sh_pools := pool_set (sh_pools sh) p (remove_nth n (pool_get (sh_pools sh) p)); sh_next := sh_next sh |})
      | None => (alloc p (sh_next sh), {| sh_pools := sh_pools sh; sh_next := S (sh_next sh) |})
      end
  | O => (alloc p (sh_next sh), {| sh_pools := sh_pools sh; sh_next := S (sh_next sh) |})
  end.
Definition sh_put (sh : shared) (p : pid) (o : pty p) : shared :=
  {| sh_pools := pool_set (sh_pools sh) p (o :: pool_get (sh_pools sh) p); sh_next := sh_next sh |}.
(* a garbage collection empties every pool (twice, in reality: victim caches) *)
Definition sh_gc (sh : shared) : shared := {| sh_pools := no_pools; sh_next := sh_next sh |}.

(* run a program to completion, the adversary's choices consumed one per Get *)
Fixpoint exec {A} (a : act A) (adv : list nat) (sh : shared) : shared * list nat * sum A fault :=
  match a with
  | Ret r => (sh, adv, inl r)
  | Fail f => (sh, adv, inr f)
  | Put p o k => exec k adv (sh_put sh p o)
  | Get p k =>
      let c := match adv with [] => 0 | c :: _ => c end in
      let '(o, sh') := sh_get sh p c in
      exec (k o) (tl adv) sh'
  end.

(* histories: operations and garbage collections, one goroutine *)
Inductive hitem := HOp (o : op) | HGC.
Fixpoint run_hist (h : list hitem) (adv : list nat) (sh : shared) : shared * list nat * list (sum out fault) :=
  match h with
  | [] => (sh, adv, [])
  | HGC :: r => run_hist r adv (sh_gc sh)
  | HOp o :: r =>
      let '(sh1, adv1, res) := exec (op_prog o) adv sh in
      let '(sh2, adv2, rest) := run_hist r adv1 sh1 in
      (sh2, adv2, res :: rest)
  end.
(* the observation of an operation performed after history h *)
Definition observe (h : list hitem) (adv : list nat) (o : op) : sum out fault :=
  let '(sh, adv1, _) := run_hist h adv sh_init in
  snd (exec (op_prog o) adv1 sh).

(* ================================================================== *)
(* goroutines and schedules                                           *)
(* ================================================================== *)
Record thread := {
  t_cur : option (op * act out);      (* the running operation and what is left of it *)
  t_todo : list op;
  t_done : list (op * out);
  t_fault : option fault
}.
Record machine := { m_sh : shared; m_threads : list thread }.

(* one scheduler decision: goroutine t performs its next pool interaction (the adversary
   choosing c if it is a Get), or the garbage collector runs *)
Inductive sched := SRun (t : nat) (c : nat) | SGC.

Definition thread_step (sh : shared) (c : nat) (th : thread) : shared * thread :=
  match t_fault th with
  | Some _ => (sh, th)
  | None =>
      match t_cur th with
      | None =>
          match t_todo th with
          | [] => (sh, th)
          | o :: r => (sh, {| t_cur := Some (o, op_prog o); t_todo := r; t_done := t_done th; t_fault := None |})
          end
      | Some (o, Ret r) => (sh, {| t_cur := None; t_todo := t_todo th; t_done := t_done th ++ [(o, r)]; t_fault := None |})
      | Some (o, Fail f) => (sh, {| t_cur := t_cur th; t_todo := t_todo th; t_done := t_done th; t_fault := Some f |})
      | Some (o, Put p x k) => (sh_put sh p x, {| t_cur := Some (o, k); t_todo := t_todo th; t_done := t_done th; t_fault := None |})
      | Some (o, Get p k) =>
          let '(x, sh') := sh_get sh p c in
          (sh', {| t_cur := Some (o, k x); t_todo := t_todo th; t_done := t_done th; t_fault := None |})
      end
  end.

Fixpoint upd_nth {A} (n : nat) (x : A) (l : list A) : list A :=
  match n, l with
  | _, [] => []
  | O, _ :: r => x :: r
  | S m, y :: r => y :: upd_nth m x r
  end.

Definition mstep (m : machine) (s : sched) : machine :=
  match s with
  | SGC => {| m_sh := sh_gc (m_sh m); m_threads := m_threads m |}
  | SRun t c =>
      match nth_error (m_threads m) t with
      | None => m
      | Some th =>
          let '(sh', th') := thread_step (m_sh m) c th in
          {| m_sh := sh'; m_threads := upd_nth t th' (m_threads m) |}
      end
  end.
Definition mrun (m : machine) (sc : list sched) : machine := fold_left mstep sc m.
Definition minit (progs : list (list op)) : machine :=
  {| m_sh := sh_init;
     m_threads := map (fun p => {| t_cur := None; t_todo := p; t_done := []; t_fault := None |}) progs |}.

(* ================================================================== *)
(* wire                                                               *)
(* ================================================================== *)
(* A case:  (kind probe fresh hist adv aprobe act)
     kind   0 = the probe is a JSON ioCore.Write of a generated encoder case (the case text is kept
                for the replay; rendering such lines is C01's subject), 1 = a console / Logger probe
     probe  the encoder case, resp. a label
     fresh  bytes the probe produced in a fresh state (right after two GCs; also in a fresh process)
     hist   the (last <= 40 operations of the) history that preceded the observed probe, abstracted
            to the pooled operations of this model: (k a b c d e f)   k: 0 JSON write, 1 console
            write, 2 With, 3 Logger call, 4 zap.Stack, 5 GC, 6 Core.Check + Write without a Logger (f odd:
            one of the two cores has a failing sink, f/2 odd: After(hook)); a plain fields, b reflected ok,
            c reflected failing, d namespaces, e error-group size, f flags/depth; an optional eighth
            element h > 0 (kinds 3 and 6): the entry is a terminal one whose CheckWriteHook makes h-1 log
            calls of its own (through a tee of a JSON and a console core) before it looks at its entry;
            a ninth and tenth element (size in KiB, variant) mark an OVERSIZE operation of the history
            test (entries of 70 KiB .. 4 MiB, harness/c08_huge.go) - kept for the replay, not read here:
            buffers of this model are byte lists without a capacity, so no operation of the model can
            depend on how large a recycled object once was; that the real pools agree is what the
            oversize histories test, and what the regenerated facts say path by path (KDep, Hygiene.v);
            a tenth and eleventh element (member * 100 + kind of entry, label) mark an entry through a
            member of a long-lived LOGGER FAMILY with partial encoder callbacks (harness/c08_family.go:
            the logger, its With / Named children, cores, encoder clones - all sharing one EncoderConfig
            through a copied pointer) - kept for the replay, not read here: configurations of this model
            are values; state reached through a shared pointer is the subject of Hygiene.v (sharedfact,
            shared_sound) and of the facts regenerated from the source (Gen.PoolFacts.shared_facts);
            an item (3 a b 0 0 0 f 0 0 m label) with f = 2 / 4 / 6 - caller and / or stack capture on a
            call stack of depth f / 8 = 0 - is an EDGE PRELUDE (harness/c08_burst.go): a logger whose
            AddCallerSkip lies beyond the stack made m / 2 log calls, each through the
            `stack.Count() == 0` return of Logger.check (log_call: `[] => stack_free st ;;; ce_write`),
            followed by one runtime.GC() if m is odd; count and label are kept for the replay.  The model
            frees the Stack exactly once on that path (as on every other one - the regenerated ownership
            fact Logger.check/stack says the same about the source), and stacks travel by value: a Stack
            that sits in the pool twice is not a state of this model.  What it would do to two goroutines
            inside Logger.check at the same time is what the CONCURRENT BURST probe of the history test
            observes (several goroutines, each with a logger, sinks and call site of its own, every line
            compared with the line the same call produces alone)
     adv   the adversary's choices for the model run
     aprobe the observed probe, abstracted the same way
     act    (name n): what the probe's sinks did on OTHER loggers while they were inside Write
            (harness/c08.go, active sinks; n = 0: nothing).  Kept for the replay; for the model that
            activity is already part of hist (its operations are appended there), and the fresh
            bytes are always those of the probe with passive sinks
   observation: (line)
   The model's observation is the fresh-state line, carried as an oracle, provided the pooled model
   run (history, then probe, against the probe in the initial state) shows no fault and no
   difference. *)
Definition kx : bytes := [x6b].
Definition vx : bytes := [x76].
Definition wire_cfg : ecfg :=
  {| c_msg := [x6d]; c_lvl := [x6c]; c_name := [x6e]; c_caller := [x63]; c_stack := [x73]; c_le := [NL]; c_sep := [TAB] |}.
Definition wire_enc (sp : bool) : enc := {| e_cfg := wire_cfg; e_spaced := sp; e_ns := 0; e_buf := [] |}.
Definition wire_ent : entry := {| en_lvl := [x69]; en_name := [x6e]; en_msg := [x6d]; en_stack := []; en_caller := None |}.

Definition mk_fields (a b c d e f : nat) : list pf :=
  repeat (PStr kx vx) a ++ repeat (PRefl kx (ROk vx)) b ++ repeat (PRefl kx (RErr vx)) c ++
  (match e with 0 => [] | _ => [PErr kx vx (repeat vx e); PErrs kx (repeat vx e)] end) ++
  (if Nat.odd f then [PObj kx [PNs kx; PRefl kx (ROk vx); PStr kx vx] (Some vx)] else []) ++
  repeat (PNs kx) d.

Definition wire_ent2 : entry := {| en_lvl := [x77]; en_name := [x61]; en_msg := [x68; x6b]; en_stack := []; en_caller := None |}.
Definition wire_hook (h : nat) (dflt : option hookd) : option hookd :=
  match h with
  | 0 => dflt
  | S k => Some {| hk_id := 2;
                   hk_nested := repeat ([{| co_enc := wire_enc false; co_console := false; co_fail := false |};
                                         {| co_enc := wire_enc true; co_console := true; co_fail := false |}],
                                        wire_ent2, [PStr kx vx; PRefl kx (ROk vx)]) k |}
  end.

Definition dec_hitem (s : sx) : hitem :=
  let n i := sx_n (sx_nth s i) in
  let fs := mk_fields (n 1) (n 2) (n 3) (n 4) (n 5) (n 6) in
  match n 0 with
  | 0 => HOp (OWrite {| co_enc := wire_enc false; co_console := false; co_fail := false |} wire_ent fs)
  | 1 => HOp (OWrite {| co_enc := wire_enc true; co_console := true; co_fail := false |} wire_ent fs)
  | 2 => HOp (OWith (wire_enc (Nat.odd (n 6))) fs)
  | 3 => HOp (OLog {| l_cores := [{| co_enc := wire_enc false; co_console := false; co_fail := false |};
                                  {| co_enc := wire_enc true; co_console := true; co_fail := Nat.odd (n 6) |}];
                      l_hook := wire_hook (n 7) None; l_errout := true; l_caller := Nat.odd (n 6 / 2); l_stack := Nat.odd (n 6 / 4) |}
                   wire_ent (seq 1 (n 6 / 8)) fs)
  | 4 => HOp (OTake (seq 1 (n 6)))
  | 6 => HOp (OCheck [{| co_enc := wire_enc false; co_console := false; co_fail := false |};
                      {| co_enc := wire_enc true; co_console := true; co_fail := Nat.odd (n 6) |}]
                     (wire_hook (n 7) (if Nat.odd (n 6 / 2) then Some {| hk_id := 1; hk_nested := [] |} else None)) wire_ent fs)
  | _ => HGC
  end.

Definition out_bytes (o : out) : bytes :=
  match o with
  | OutBytes b => b
  | OutEnc e => e_buf e
  | OutEvents l =>
      concat (map (fun ev => match ev with
                             | SinkWrite _ b => b | ErrOut => [x45] | Reuse => [x52]
                             | HookWrite _ _ b => x68 :: b
                             | Hook _ e =>      (* what the hook saw: level, name, message, stack, caller *)
                                 [x48] ++ en_lvl e ++ [x00] ++ en_name e ++ [x00] ++ en_msg e ++ [x00] ++ en_stack e ++ [x00] ++
                                 (match en_caller e with Some (f, l) => f ++ [COLON] ++ print_Z l | None => [] end)
                             end) l)
  end.

(* run the pooled model: the probe after the history and in the initial state give the same
   bytes and nothing faults *)
Definition machine_ok (hist : list hitem) (adv : list nat) (probe : hitem) : bool :=
  match probe with
  | HGC => true
  | HOp o =>
      match observe hist adv o, observe [] [] o with
      | inl a, inl b => bytes_eqb (out_bytes a) (out_bytes b)
      | _, _ => false
      end
  end.

Definition w_fresh (i : sx) : bytes := sx_b (sx_nth i 2).
Definition model (i : sx) : sx :=
  if machine_ok (map dec_hitem (sx_l (sx_nth i 3))) (map sx_n (sx_l (sx_nth i 4))) (dec_hitem (sx_nth i 5))
  then SL [SB (w_fresh i)]
  else SL [SZ (-1)].
(* the property's oracle: the probe's bytes after the history are its fresh-state bytes *)
Definition spec (i o : sx) : bool := sx_eqb o (SL [SB (w_fresh i)]).

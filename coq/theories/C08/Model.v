(* C08 — stub: model not yet built (the property is listed under not_applicable until it is). *)
From Coq Require Import List ZArith Bool.
Import ListNotations.
From Zap Require Import Base.Wire.
Definition model (i : sx) : sx := SL [].
Definition spec (i o : sx) : bool := false.

(* C08 — the tie between the facts regenerated from zap's source (Gen/PoolFacts.v) and the
   model: (1) the generated facts are hygienic (decided by computation); (2) for every pooled
   struct, the model's acquire code, release code and New() are, field by field, what the
   generated facts say (so a reset dropped from zap's source changes the facts and breaks
   these lemmas); (3) the pool invariant [clean] used by the proofs is exactly "every field
   that acquire does not assign holds what New() put there", i.e. the conclusion of
   Hygiene.pooled_clean; (4) the regenerated shared-state facts list no assignment through the
   *EncoderConfig a logger family shares, nor to the receiver of the methods that run on a
   logger's long-lived encoder (end of this file). *)
From Coq Require Import List ZArith NArith Bool Arith Lia String.
From Coq.Strings Require Import Byte.
Import ListNotations.
From Zap Require Import Base.Wire Enc.Bytes Enc.Fields C08.Hygiene Gen.PoolFacts C08.Model C08.Safe C08.Proofs.
Local Open Scope string_scope.

(* capacity fields: residual content irrelevant by a model-level argument (Proofs.capture_into_ok:
   Capture's result does not depend on storage beyond len >= 1) *)
Definition capacity (name : string) : list string :=
  if String.eqb name "Stack" then ["storage"] else [].

Definition all_hygienic : bool := forallb (fun s => hygienic (capacity (ps_name s)) s) pool_facts.

Lemma all_hygienic_true : all_hygienic = true.
Proof. vm_compute. reflexivity. Qed.

Definition empty_struct : pstruct :=
  {| ps_name := ""; ps_fields := []; ps_new := []; ps_acquire := []; ps_release := [] |}.
Definition facts_of (name : string) : pstruct :=
  match find (fun s => String.eqb (ps_name s) name) pool_facts with Some s => s | None => empty_struct end.

Definition pname (p : pid) : string :=
  match p with
  | PJson => "jsonEncoder" | PBuf => "Buffer" | PSlice => "sliceArrayEncoder" | PCE => "CheckedEntry"
  | PErrCore => "zapcore.errArrayElem" | PErrZap => "zap.errArrayElem" | PStack => "Stack"
  end.
Definition facts (p : pid) : pstruct := facts_of (pname p).

(* every pool of the model has generated facts, and there are no others *)
Lemma facts_cover : map ps_name pool_facts = map pname [PJson; PSlice; PCE; PErrCore; PErrZap; PBuf; PStack].
Proof. vm_compute. reflexivity. Qed.

(* ---------------- visible content of the model's objects, field by field ---------------- *)
Definition g_opt (o : option nat) : gval := match o with None => [] | Some i => [S i] end.
Definition g_bool (b : bool) : gval := if b then [1] else [].
Definition g_nat (n : nat) : gval := match n with 0 => [] | _ => [n] end.
Definition g_bytes (b : bytes) : gval := List.map (fun x => N.to_nat (Byte.to_N x)) b.
Definition g_some {A} (o : option A) : gval := match o with None => [] | Some _ => [1] end.
Definition entry_is_zero (e : entry) : bool :=
  is_nil (en_lvl e) && is_nil (en_name e) && is_nil (en_msg e) && is_nil (en_stack e) &&
  match en_caller e with None => true | Some _ => false end.

Definition gproj (p : pid) : pty p -> gobj :=
  match p with
  | PJson => fun j f =>
      if String.eqb f "EncoderConfig" then g_some (j_cfg j)
      else if String.eqb f "buf" then g_opt (j_buf j)
      else if String.eqb f "spaced" then g_bool (j_spaced j)
      else if String.eqb f "openNamespaces" then g_nat (j_ns j)
      else if String.eqb f "reflectBuf" then g_opt (j_rbuf j)
      else if String.eqb f "reflectEnc" then g_opt (j_renc j)
      else []
  | PBuf => fun b f =>
      if String.eqb f "bs" then g_bytes (b_bs b)
      else if String.eqb f "pool" then g_bool (b_pool b)
      else []
  | PSlice => fun s f => if String.eqb f "elems" then List.map (fun _ => 0) (s_elems s) else []
  | PCE => fun c f =>
      if String.eqb f "Entry" then g_bool (negb (entry_is_zero (ce_ent c)))
      else if String.eqb f "ErrorOutput" then g_bool (ce_errout c)
      else if String.eqb f "dirty" then g_bool (ce_dirty c)
      else if String.eqb f "after" then g_some (ce_after c)
      else if String.eqb f "cores" then List.map (fun _ => 0) (ce_cores c)
      else []
  | PErrCore => fun e f => if String.eqb f "err" then g_some (ee_err e) else []
  | PErrZap => fun e f => if String.eqb f "error" then g_some (ee_err e) else []
  | PStack => fun s f =>
      if String.eqb f "pcs" then k_pcs s
      else if String.eqb f "frames" then (match k_frames s with None => [] | Some l => 1 :: l end)
      else if String.eqb f "storage" then k_storage s
      else []
  end.

(* the model's acquire / release code per pool (the parameters are the caller's inputs) *)
Inductive acq_input :=
| AJson (e : enc) (b : id) | ABuf | ASlice | ACE | AErr (msg : bytes) | AStack (cs : list pc) (full : bool).

Definition m_acquire (p : pid) (a : acq_input) : pty p -> pty p :=
  match p with
  | PJson => fun j => match a with AJson e b => clone_assign e b j | _ => j end
  | PBuf => fun b => {| b_id := b_id b; b_bs := []; b_pool := true |}          (* Pool.Get *)
  | PSlice => fun s => s                                                        (* getSliceEncoder *)
  | PCE => fun c => ce_reset c                                                  (* getCheckedEntry *)
  | PErrCore => fun e => match a with AErr m => {| ee_err := Some m |} | _ => e end
  | PErrZap => fun e => match a with AErr m => {| ee_err := Some m |} | _ => e end
  | PStack => fun s => match a with
                       | AStack cs full => match capture_into cs full s with Some s' => s' | None => s end
                       | _ => s end
  end.
Definition m_release (p : pid) : pty p -> pty p :=
  match p with
  | PJson => put_clear
  | PBuf => fun b => b
  | PSlice => fun _ => {| s_elems := [] |}
  | PCE => fun c => c
  | PErrCore => fun _ => {| ee_err := None |}
  | PErrZap => fun _ => {| ee_err := None |}
  | PStack => fun s => {| k_pcs := []; k_frames := None; k_storage := k_storage s |}
  end.
Definition input_ok (p : pid) (a : acq_input) : Prop :=
  match p, a with
  | PJson, AJson _ _ | PBuf, ABuf | PSlice, ASlice | PCE, ACE | PErrCore, AErr _ | PErrZap, AErr _ | PStack, AStack _ _ => True
  | _, _ => False
  end.

Ltac field_cases H :=
  repeat (destruct H as [<-|H]; [|]); try contradiction.

(* New() allocates what the facts say *)
Lemma new_refines p i f : In f (ps_fields (facts p)) -> gproj p (alloc p i) f = g_new (facts p) f.
Proof. destruct p; intros H; vm_compute in H; field_cases H; reflexivity. Qed.

(* release: the listed fields are cleared, the others keep the user's value *)
Lemma release_refines p o f : In f (ps_fields (facts p)) ->
  gproj p (m_release p o) f = g_release (facts p) (gproj p o) f.
Proof. destruct p; intros H; vm_compute in H; field_cases H; reflexivity. Qed.

(* acquire: a listed field gets a value that does not depend on the recycled object (it is what
   the same acquire would store in a New() object); an unlisted non-capacity field is untouched *)
Lemma acquire_refines p a o f : input_ok p a -> clean p o ->
  In f (ps_fields (facts p)) -> ~ In f (capacity (pname p)) ->
  gproj p (m_acquire p a o) f = g_acquire (facts p) (gproj p (m_acquire p a (alloc p 0))) (gproj p o) f.
Proof.
  destruct p; intros Hin Hcl H Hcap; destruct a; try contradiction; vm_compute in H; field_cases H;
    try reflexivity.
  - (* Stack.pcs *)
    destruct (capture_into_ok cs full o Hcl) as [s1 [E1 [P1 _]]].
    destruct (capture_into_ok cs full (alloc PStack 0) (clean_alloc PStack 0)) as [s2 [E2 [P2 _]]].
    unfold facts, g_acquire. cbn [pname]. vm_compute (acq_kind _ _).
    cbn [gproj m_acquire]. rewrite E1, E2. change (String.eqb "pcs" "pcs") with true. cbv iota.
    rewrite P1, P2. reflexivity.
  - (* Stack.frames *)
    destruct (capture_into_ok cs full o Hcl) as [s1 [E1 [_ [F1 _]]]].
    destruct (capture_into_ok cs full (alloc PStack 0) (clean_alloc PStack 0)) as [s2 [E2 [_ [F2 _]]]].
    unfold facts, g_acquire. cbn [pname]. vm_compute (acq_kind _ _).
    cbn [gproj m_acquire]. rewrite E1, E2.
    change (String.eqb "frames" "pcs") with false. change (String.eqb "frames" "frames") with true. cbv iota.
    rewrite F1, F2. reflexivity.
  - (* Stack.storage: capacity *)
    exfalso. apply Hcap. vm_compute. left. reflexivity.
Qed.

(* the pool invariant of the proofs is the conclusion of Hygiene.pooled_clean: every field not
   assigned on acquire (and not a capacity field) holds what New() stores; for the capacity field
   only its length matters *)
Definition clean_by_facts (p : pid) (o : pty p) : Prop :=
  forall f, In f (ps_fields (facts p)) -> ~ In f (capacity (pname p)) ->
            clean_field (facts p) (gproj p o) f.

Definition cap_ok (p : pid) : pty p -> Prop :=
  match p return pty p -> Prop with
  | PStack => fun s => 1 <= List.length (k_storage s)
  | _ => fun _ => True
  end.

Lemma clean_iff_facts p o : clean p o <-> (clean_by_facts p o /\ cap_ok p o).
Proof.
  unfold clean_by_facts, clean_field. destruct p; cbn [clean cap_ok]; split.
  - (* PJson -> *) intros [H1 H2]. destruct o; cbn in H1, H2; subst.
    split; [|exact I]. intros f H _. vm_compute in H. field_cases H; vm_compute; intros; try discriminate; reflexivity.
  - intros [H _]. destruct o as [c b sp n rb re]. cbn. split.
    + specialize (H "reflectBuf"). vm_compute in H. destruct rb as [i|]; [|reflexivity].
      exfalso. assert (X : [S i] = @nil nat) by (apply H; auto 10; intros []). discriminate X.
    + specialize (H "reflectEnc"). vm_compute in H. destruct re as [i|]; [|reflexivity].
      exfalso. assert (X : [S i] = @nil nat) by (apply H; auto 10; intros []). discriminate X.
  - (* PBuf *) intros _. split; [|exact I]. intros f H _. vm_compute in H. field_cases H; vm_compute; intros; discriminate.
  - intros _. exact I.
  - (* PSlice *) intros H1. split; [|exact I]. intros f H _. vm_compute in H. field_cases H. intros _.
    cbn [gproj]. change (String.eqb "elems" "elems") with true. cbv iota. rewrite H1. reflexivity.
  - intros [H _]. destruct o as [el]. cbn. specialize (H "elems"). vm_compute in H.
    destruct el as [|x el]; [reflexivity|]. exfalso.
    assert (X : 0 :: (fix map (l : list bytes) : list nat := match l with [] => [] | _ :: t => 0 :: map t end) el = @nil nat)
      by (apply H; auto; intros []).
    discriminate X.
  - (* PCE *) intros _. split; [|exact I]. intros f H _. vm_compute in H. field_cases H; vm_compute; intros; discriminate.
  - intros _. exact I.
  - (* PErrCore *) intros _. split; [|exact I]. intros f H _. vm_compute in H. field_cases H; vm_compute; intros; discriminate.
  - intros _. exact I.
  - (* PErrZap *) intros _. split; [|exact I]. intros f H _. vm_compute in H. field_cases H; vm_compute; intros; discriminate.
  - intros _. exact I.
  - (* PStack *) intros H1. split; [|exact H1]. intros f H Hc. vm_compute in H. field_cases H.
    + vm_compute. intros; discriminate.
    + vm_compute. intros; discriminate.
    + exfalso. apply Hc. vm_compute. left. reflexivity.
  - intros [_ H]. exact H.
Qed.

(* the cycle of the generic semantics (Hygiene.pooled), instantiated: an object that went through
   the model's acquire, any user, and the model's release is again clean -- derived from the
   GENERATED facts through hygiene_sound's invariant, not from the shape of the model's code *)
Theorem release_restores_clean p (o : pty p) :
  cap_ok p (m_release p o) -> clean p (m_release p o).
Proof.
  intros Hcap. apply clean_iff_facts. split; [|exact Hcap].
  intros f Hf Hc Hacq. rewrite release_refines by exact Hf.
  assert (Hh : hygienic (capacity (pname p)) (facts p) = true) by (destruct p; vm_compute; reflexivity).
  unfold hygienic in Hh. rewrite forallb_forall in Hh. specialize (Hh f Hf).
  unfold field_ok in Hh. rewrite Hacq in Hh. unfold g_release.
  destruct (lookup f (ps_release (facts p))) as [[| | |]|] eqn:Hrel.
  - apply orb_true_iff in Hh. destruct Hh as [Hn|Hm]; [symmetry; apply g_new_empty; exact Hn|apply mem_In in Hm; contradiction].
  - apply orb_true_iff in Hh. destruct Hh as [Hn|Hm]; [symmetry; apply g_new_empty; exact Hn|apply mem_In in Hm; contradiction].
  - apply mem_In in Hh. contradiction.
  - apply mem_In in Hh. contradiction.
  - apply mem_In in Hh. contradiction.
Qed.

Lemma hygiene_all : forall s, In s pool_facts -> hygienic (capacity (ps_name s)) s = true.
Proof.
  intros s Hs. pose proof all_hygienic_true as H. unfold all_hygienic in H.
  rewrite forallb_forall in H. apply H. exact Hs.
Qed.

(* the statement of the property's "hygiene" obligation, spelled out *)
Lemma hygiene_fields : forall s, In s pool_facts -> forall f, In f (ps_fields s) ->
  (exists k, lookup f (ps_acquire s) = Some k /\ k <> KDep) \/
  ((lookup f (ps_release s) = Some KZero \/ lookup f (ps_release s) = Some KTrunc) /\ new_visible_empty s f = true) \/
  In f (capacity (ps_name s)).
Proof.
  intros s Hs f Hf. pose proof (hygiene_all s Hs) as H. unfold hygienic in H. rewrite forallb_forall in H.
  specialize (H f Hf). unfold field_ok in H.
  destruct (acq_kind s f) as [k|] eqn:Hk; [left; exists k; apply acq_kind_some; exact Hk|].
  destruct (lookup f (ps_release s)) as [[| | |]|].
  - apply orb_true_iff in H. destruct H as [H|H]; [right; left; auto|right; right; apply mem_In; exact H].
  - apply orb_true_iff in H. destruct H as [H|H]; [right; left; auto|right; right; apply mem_In; exact H].
  - right; right; apply mem_In; exact H.
  - right; right; apply mem_In; exact H.
  - right; right; apply mem_In; exact H.
Qed.

(* every path through every Get (and every path to every Put) leaves each field in ONE state: no
   assignment of the regenerated facts depends on the state the recycled object was left in.  In
   particular every path through buffer.Pool.Get ends with the buffer truncated, every path through
   getCheckedEntry with the entry reset. *)
Definition no_path_dependence (s : pstruct) : bool :=
  forallb (fun fk => match snd fk with KDep => false | _ => true end) (ps_acquire s ++ ps_release s).
Lemma facts_path_independent : forallb no_path_dependence pool_facts = true.
Proof. vm_compute. reflexivity. Qed.

Lemma path_independent_fields : forall s, In s pool_facts -> forall f,
  lookup f (ps_acquire s) <> Some KDep /\ lookup f (ps_release s) <> Some KDep.
Proof.
  intros s Hs f. pose proof facts_path_independent as H. rewrite forallb_forall in H.
  specialize (H s Hs). unfold no_path_dependence in H. rewrite forallb_forall in H.
  assert (G : forall l, (forall fk, In fk l -> match snd fk with KDep => false | _ => true end = true) ->
                        lookup f l <> Some KDep).
  { clear. induction l as [|[g k] l IH]; intros Hl; cbn [lookup]; [discriminate|].
    destruct (String.eqb f g).
    - intros E. injection E as ->. specialize (Hl (g, KDep) (or_introl eq_refl)). discriminate Hl.
    - apply IH. intros fk Hin. apply Hl. right. exact Hin. }
  split; apply G; intros fk Hin; apply H; apply in_or_app; [left|right]; exact Hin.
Qed.

(* what the buffer pool's Get does on every path, spelled out (the "reset on Get" mechanism) *)
Lemma buffer_get_resets : lookup "bs" (ps_acquire (facts PBuf)) = Some KTrunc.
Proof. vm_compute. reflexivity. Qed.
Lemma checked_entry_get_resets :
  map (fun f => lookup f (ps_acquire (facts PCE))) ["Entry"; "ErrorOutput"; "dirty"; "after"; "cores"] =
  [Some KZero; Some KZero; Some KZero; Some KZero; Some KTrunc].
Proof. vm_compute. reflexivity. Qed.

Lemma model_matches_facts p :
  (forall i f, In f (ps_fields (facts p)) -> gproj p (alloc p i) f = g_new (facts p) f) /\
  (forall a o f, input_ok p a -> clean p o -> In f (ps_fields (facts p)) -> ~ In f (capacity (pname p)) ->
     gproj p (m_acquire p a o) f = g_acquire (facts p) (gproj p (m_acquire p a (alloc p 0))) (gproj p o) f) /\
  (forall o f, In f (ps_fields (facts p)) -> gproj p (m_release p o) f = g_release (facts p) (gproj p o) f).
Proof.
  split; [intros; apply new_refines; assumption|].
  split; [intros; apply acquire_refines; assumption|intros; apply release_refines; assumption].
Qed.

(* ---------------- ownership discipline facts ---------------- *)
Lemma own_facts_ok : forallb (fun f => disc_ok (of_events f)) own_facts = true.
Proof. vm_compute. reflexivity. Qed.

(* the order of buffer events in the model's code (read off Model.v: core_write, json_encode_entry,
   console_encode_entry, write_context, putJSONEncoder, full_path (both callers), log_call,
   take_stack) is the order regenerated from the source; likewise for the other pooled objects, in
   the function that holds them from Get to Put (ce_write_with: cores, error output, the hook - handed
   the entry itself -, then putp PCE; json_encode_entry / write_context: putJSONEncoder last;
   console_encode_entry: putp PSlice after the columns are printed; err_array_core / err_array_zap:
   putp after AppendObject; log_call / take_stack: stack_free after the frames are formatted) *)
Definition model_own_events : list (string * list bev) :=
  [("ioCore.Write", [BUse; BFree]);
   ("jsonEncoder.EncodeEntry", [BUse; BOwnerPut; BRet]);
   ("consoleEncoder.EncodeEntry", [BUse; BRet]);
   ("consoleEncoder.writeContext", [BUse; BFree; BOwnerPut]);
   ("putJSONEncoder", [BFree]);
   ("EntryCaller.FullPath", [BUse; BFree]);
   ("EntryCaller.TrimmedPath", [BUse; BFree]);
   ("Logger.check", [BUse; BFree]);
   ("stacktrace.Take", [BUse; BFree]);
   ("CheckedEntry.Write/ce", [BUse; BFree]);
   ("jsonEncoder.EncodeEntry/final", [BUse; BFree]);
   ("consoleEncoder.writeContext/context", [BUse; BFree]);
   ("consoleEncoder.EncodeEntry/arr", [BUse; BFree]);
   ("zapcore.errArray.MarshalLogArray/el", [BUse; BFree]);
   ("zap.errArray.MarshalLogArray/elem", [BUse; BFree]);
   ("Logger.check/stack", [BUse; BFree]);
   ("stacktrace.Take/stack", [BUse; BFree])].
Lemma own_facts_match_model : List.map (fun f => (of_fn f, of_events f)) own_facts = model_own_events.
Proof. vm_compute. reflexivity. Qed.

Lemma own_discipline : forall f, In f own_facts ->
  (forall pre post, of_events f = (pre ++ BFree :: post)%list ->
     ~ In BUse post /\ ~ In BFree post /\ ~ In BRet post) /\
  (In BFree (of_events f) \/ In BRet (of_events f)).
Proof.
  intros f Hf. apply disc_ok_sound.
  pose proof own_facts_ok as H. rewrite forallb_forall in H. apply H. exact Hf.
Qed.

(* ---------------- holders of pooled objects ---------------- *)
(* every function of zapcore that calls getSliceEncoder / putSliceEncoder (regenerated census) is one of the
   functions whose event order is checked above, takes and returns one collector, and stores no reference
   to the collector's elems anywhere (decided by computation on the regenerated facts) *)
Lemma pool_holders_ok : forallb (holder_ok (List.map of_fn own_facts)) pool_holders = true.
Proof. vm_compute. reflexivity. Qed.

Lemma pool_holders_known : forall h, In h pool_holders ->
  (exists f, In f own_facts /\ of_fn f = (ph_fn h ++ "/" ++ ph_var h)%string /\ disc_ok (of_events f) = true) /\
  ph_gets h = 1 /\ ph_puts h = 1 /\ ph_escapes h = [].
Proof.
  intros h Hh. pose proof pool_holders_ok as H. rewrite forallb_forall in H.
  destruct (holder_ok_sound _ _ (H h Hh)) as [A [B [C D]]].
  split; [|repeat split; assumption].
  apply in_map_iff in A. destruct A as [f [Hf Hin]]. exists f. split; [exact Hin|]. split; [exact Hf|].
  pose proof own_facts_ok as O. rewrite forallb_forall in O. apply O. exact Hin.
Qed.

(* ---------------- family-wide state facts ---------------- *)
(* no method of the encoders (nor putJSONEncoder / addFields) assigns through the *EncoderConfig its
   whole logger family shares, and the methods that run on a logger's long-lived encoder do not
   assign to, mutate or hand on their receiver (decided by computation on the regenerated facts) *)
Lemma shared_facts_readonly : shared_readonly shared_facts = true.
Proof. vm_compute. reflexivity. Qed.

Lemma shared_no_writes : forall f, In f shared_facts -> sf_cfg_writes f = [] /\ sf_recv_writes f = [].
Proof.
  intros f Hf. pose proof shared_facts_readonly as H. unfold shared_readonly in H.
  rewrite forallb_forall in H. specialize (H f Hf). unfold sf_writes in H.
  destruct (sf_cfg_writes f); [|discriminate H]. destruct (sf_recv_writes f); [|discriminate H].
  split; reflexivity.
Qed.

(* the methods that run on the long-lived encoder are the ones the translator was told to treat so,
   and the fallback paths (a callback that appends nothing) are among the listed functions *)
Lemma shared_entry_points :
  map sf_fn (filter sf_entry shared_facts) =
  ["consoleEncoder.Clone"; "consoleEncoder.EncodeEntry"; "consoleEncoder.addSeparatorIfNecessary";
   "consoleEncoder.writeContext"; "jsonEncoder.Clone"; "jsonEncoder.EncodeEntry"; "jsonEncoder.clone"].
Proof. vm_compute. reflexivity. Qed.
Lemma shared_fallback_paths_listed :
  forallb (fun n => existsb (String.eqb n) (map sf_fn shared_facts))
          ["jsonEncoder.EncodeEntry"; "jsonEncoder.AppendTime"; "jsonEncoder.AppendDuration"; "jsonEncoder.AddReflected";
           "jsonEncoder.AppendReflected"; "putJSONEncoder"; "addFields"] = true.
Proof. vm_compute. reflexivity. Qed.

(* hence, for ANY semantics of the encoders' methods that assigns to family-wide state only where the
   regenerated facts say the source does: after any history of calls by any members of a logger family
   the output of a call is what it is on the state the constructor left *)
Lemma family_history_independent (V I O : Type) (h1 h2 : list (path V I O * I)) :
  Forall (fun pi => conforms shared_facts (fst pi)) h1 ->
  Forall (fun pi => conforms shared_facts (fst pi)) h2 ->
  forall s p i, fobserve h1 s p i = fobserve h2 s p i.
Proof. apply shared_history_independent. exact shared_facts_readonly. Qed.

Lemma family_state_preserved (V I O : Type) (h : list (path V I O * I)) :
  Forall (fun pi => conforms shared_facts (fst pi)) h -> forall s, frun h s = s.
Proof. apply shared_sound. exact shared_facts_readonly. Qed.

(* C08 — pool hygiene over per-struct facts.

   The translator gen/c08_poolfacts.go reads, for every pooled struct of zap, its
   field list, what New() puts in each field, which fields are (definitely)
   assigned between Pool.Get and the point where the object is handed on
   ("acquire"), and in which state each field definitely is at the Pool.Put
   ("release").  This file defines the fact types, the decidable hygiene check,
   a generic field-level semantics of "an object goes round the pool any number of
   times through arbitrary users", and the two generic theorems:

     hygiene_sound     hygienic facts  ->  an object taken from the pool is, after
                       the acquire assignments, field-for-field what a New() object
                       would be after the same assignments (except capacity fields)
     unhygienic_leaks  a field that is neither assigned on acquire nor cleared on
                       release (nor equal-by-construction)  ->  two pool histories
                       are distinguishable through that field
     path_dependent_acquire_leaks
                       ... and so is a field that acquire assigns on every path, but
                       differently on paths selected by the recycled object's own state
                       (KDep: "if the buffer grew too big, re-allocate, else reset")

   Values are abstracted to their VISIBLE content (a list of tokens: the zero
   value, a nil pointer and an empty/truncated slice are all []).  Go cannot read
   a slice beyond its length without re-slicing up to cap; zap never does
   (trusted: stated in props/C08.json). *)
From Coq Require Import List Bool String Arith Lia.
Import ListNotations.
Open Scope string_scope.

(* state of a field after a straight-line region of code *)
Inductive kind := KZero    (* assigned its zero value: nil, false, 0, T{} *)
                | KTrunc   (* x.f = x.f[:0] *)
                | KVal     (* assigned something else *)
                | KDep.    (* assigned on every path, but to DIFFERENT things on paths that are selected
                              by a condition on the recycled object itself (if cap(x.f) > max { x.f =
                              make(T, n) } else { x.f = x.f[:0] }): what the next user finds depends on
                              how the object was used before *)
(* what New() stores in a field *)
Inductive nkind := NZero            (* not mentioned in the literal *)
                 | NEmpty           (* make(T, 0, c) *)
                 | NMake (n : nat). (* make(T, n), n > 0 : visible non-zero content *)

Record pstruct := {
  ps_name : string;
  ps_fields : list string;
  ps_new : list (string * nkind);
  ps_acquire : list (string * kind);
  ps_release : list (string * kind)
}.

Fixpoint lookup {A} (f : string) (l : list (string * A)) : option A :=
  match l with
  | [] => None
  | (g, a) :: r => if String.eqb f g then Some a else lookup f r
  end.

Definition new_kind (s : pstruct) (f : string) : nkind :=
  match lookup f (ps_new s) with Some k => k | None => NZero end.
Definition new_visible_empty (s : pstruct) (f : string) : bool :=
  match new_kind s f with NMake (S _) => false | _ => true end.

Definition mem (f : string) (l : list string) : bool := existsb (String.eqb f) l.

(* what the acquire code guarantees about a field.  A path-dependent assignment guarantees nothing:
   it is abstracted to its worst case, the field keeps what the previous user left there (so every
   path through a Get has to end in the same state for the field to count as assigned) *)
Definition acq_kind (s : pstruct) (f : string) : option kind :=
  match lookup f (ps_acquire s) with
  | Some KDep => None
  | k => k
  end.

Lemma acq_kind_not_dep s f : acq_kind s f <> Some KDep.
Proof. unfold acq_kind. destruct (lookup f (ps_acquire s)) as [[| | |]|]; discriminate. Qed.

Lemma acq_kind_some s f k : acq_kind s f = Some k -> lookup f (ps_acquire s) = Some k /\ k <> KDep.
Proof.
  unfold acq_kind. destruct (lookup f (ps_acquire s)) as [[| | |]|]; intros H; try discriminate;
    injection H as <-; split; try reflexivity; discriminate.
Qed.

Lemma acq_kind_none s f : acq_kind s f = None <->
  (lookup f (ps_acquire s) = None \/ lookup f (ps_acquire s) = Some KDep).
Proof.
  unfold acq_kind. destruct (lookup f (ps_acquire s)) as [[| | |]|]; split; intros H; auto;
    try discriminate; destruct H as [H|H]; discriminate.
Qed.

(* a field is safe if it is assigned on acquire - the same way on every path through the Get -,
   or is definitely cleared at the Put AND New() also leaves it visibly empty, or it is a declared
   capacity field (its residual content is proved irrelevant separately, in the model) *)
Definition field_ok (capacity : list string) (s : pstruct) (f : string) : bool :=
  match acq_kind s f with
  | Some _ => true
  | None =>
      match lookup f (ps_release s) with
      | Some KZero | Some KTrunc => new_visible_empty s f || mem f capacity
      | _ => mem f capacity
      end
  end.
Definition hygienic (capacity : list string) (s : pstruct) : bool :=
  forallb (field_ok capacity s) (ps_fields s).

(* ---------------- generic semantics ---------------- *)
Definition gval := list nat.
Definition gobj := string -> gval.

Definition g_new (s : pstruct) : gobj :=
  fun f => match new_kind s f with NMake n => repeat 0 n | _ => [] end.
(* the acquire assignments, with the assigned values coming from the caller's inputs *)
Definition g_acquire (s : pstruct) (inp : gobj) (o : gobj) : gobj :=
  fun f => match acq_kind s f with
           | Some KVal => inp f
           | Some _ => []
           | None => o f
           end.
(* the state at the Put: cleared fields are empty, every other field holds whatever
   the user left there *)
Definition g_release (s : pstruct) (o : gobj) : gobj :=
  fun f => match lookup f (ps_release s) with
           | Some KZero | Some KTrunc => []
           | _ => o f
           end.

(* objects that can sit in the pool: New(), or any object that went through
   acquire, an ARBITRARY user (any function on objects) and release *)
Inductive pooled (s : pstruct) : gobj -> Prop :=
| pooled_new : pooled s (g_new s)
| pooled_cycle : forall o inp (user : gobj -> gobj),
    pooled s o -> pooled s (g_release s (user (g_acquire s inp o))).

Definition clean_field (s : pstruct) (o : gobj) (f : string) : Prop :=
  acq_kind s f = None -> o f = g_new s f.

Lemma mem_In f l : mem f l = true <-> In f l.
Proof.
  unfold mem. rewrite existsb_exists. split.
  - intros [x [Hin Heq]]. apply String.eqb_eq in Heq. subst. exact Hin.
  - intros Hin. exists f. split; [exact Hin | apply String.eqb_refl].
Qed.

Lemma g_new_empty s f : new_visible_empty s f = true -> g_new s f = [].
Proof.
  unfold new_visible_empty, g_new. destruct (new_kind s f) as [| |n]; try reflexivity.
  destruct n; [reflexivity|discriminate].
Qed.

(* every non-capacity field of a pooled object that is not assigned on acquire holds
   what New() put there *)
Lemma pooled_clean cap s :
  hygienic cap s = true ->
  forall o, pooled s o ->
  forall f, In f (ps_fields s) -> ~ In f cap -> clean_field s o f.
Proof.
  intros Hh o Hp. induction Hp as [|o inp user Hp IH]; intros f Hf Hcap Hacq.
  - reflexivity.
  - unfold hygienic in Hh. rewrite forallb_forall in Hh. specialize (Hh f Hf).
    unfold field_ok in Hh. rewrite Hacq in Hh.
    unfold g_release.
    destruct (lookup f (ps_release s)) as [[| | |]|] eqn:Hrel.
    + apply orb_true_iff in Hh. destruct Hh as [Hn|Hm].
      * symmetry. apply g_new_empty. exact Hn.
      * apply mem_In in Hm. contradiction.
    + apply orb_true_iff in Hh. destruct Hh as [Hn|Hm].
      * symmetry. apply g_new_empty. exact Hn.
      * apply mem_In in Hm. contradiction.
    + apply mem_In in Hh. contradiction.
    + apply mem_In in Hh. contradiction.
    + apply mem_In in Hh. contradiction.
Qed.

Theorem hygiene_sound cap s :
  hygienic cap s = true ->
  forall o, pooled s o ->
  forall inp f, In f (ps_fields s) -> ~ In f cap ->
  g_acquire s inp o f = g_acquire s inp (g_new s) f.
Proof.
  intros Hh o Hp inp f Hf Hcap. unfold g_acquire.
  destruct (acq_kind s f) as [[| | |]|] eqn:Hacq; try reflexivity.
  apply (pooled_clean cap s Hh o Hp f Hf Hcap). exact Hacq.
Qed.

(* the model can express the failure: a field that is neither assigned on acquire
   nor cleared on release carries a value from one user to the next *)
Theorem unhygienic_leaks s f :
  acq_kind s f = None ->
  lookup f (ps_release s) = None ->
  exists o, pooled s o /\ forall inp, g_acquire s inp o f <> g_acquire s inp (g_new s) f.
Proof.
  intros Hacq Hrel.
  set (mark := fun (o : gobj) (g : string) => if String.eqb g f then 1 :: g_new s f else o g).
  exists (g_release s (mark (g_acquire s (fun _ => []) (g_new s)))). split.
  - apply pooled_cycle. apply pooled_new.
  - intros inp. unfold g_acquire at 1 3. rewrite Hacq.
    unfold g_release. rewrite Hrel. unfold mark. rewrite String.eqb_refl.
    intros Heq. apply (f_equal (@List.length nat)) in Heq. cbn in Heq. lia.
Qed.

(* a field cleared on release but visibly non-empty in New() (e.g. make(T, 4)) also
   distinguishes a recycled object from a new one *)
(* in particular a Get one of whose paths skips the reset (a size guard: "too big, re-allocate
   instead of truncating") on a struct that is not cleared before its Put - buffer.Pool.Get *)
Corollary path_dependent_acquire_leaks s f :
  lookup f (ps_acquire s) = Some KDep ->
  lookup f (ps_release s) = None ->
  field_ok [] s f = false /\
  exists o, pooled s o /\ forall inp, g_acquire s inp o f <> g_acquire s inp (g_new s) f.
Proof.
  intros Hacq Hrel.
  assert (Hk : acq_kind s f = None) by (apply acq_kind_none; right; exact Hacq).
  split.
  - unfold field_ok. rewrite Hk, Hrel. reflexivity.
  - apply unhygienic_leaks; assumption.
Qed.

Theorem cleared_but_new_nonempty_leaks s f n :
  acq_kind s f = None ->
  (lookup f (ps_release s) = Some KZero \/ lookup f (ps_release s) = Some KTrunc) ->
  new_kind s f = NMake (S n) ->
  exists o, pooled s o /\ forall inp, g_acquire s inp o f <> g_acquire s inp (g_new s) f.
Proof.
  intros Hacq Hrel Hnew.
  exists (g_release s (g_acquire s (fun _ => []) (g_new s))). split.
  - apply (pooled_cycle s (g_new s) (fun _ => []) (fun o => o)). apply pooled_new.
  - intros inp. unfold g_acquire. rewrite Hacq. unfold g_release, g_new. rewrite Hnew.
    destruct Hrel as [-> | ->]; cbn; discriminate.
Qed.

(* ---------------- ownership discipline of buffers, per function ---------------- *)
(* what a function does, in source order, with a pooled buffer it holds (regenerated from the
   source by gen/c08_poolfacts.go): uses (method calls, passing it on, slices obtained by
   Bytes()), Free, returning it to the caller, and putting the encoder that points to it.
   The same events describe the other pooled objects (CheckedEntry, pooled encoders, slice encoder,
   error wrappers, stacks) in the function that holds them from Get to Put: BUse = a field access or
   handing the object to a core / marshaler / hook, BFree = its Put (putCheckedEntry(ce), x.Free() ...) *)
Inductive bev := BUse | BFree | BRet | BOwnerPut.
Record ownfact := { of_fn : string; of_buf : string; of_events : list bev }.

(* Live -> (Use)* -> Free            : freed once, never touched afterwards
   Live -> (Use)* -> OwnerPut -> Ret : handed to the caller; the pooled owner no longer points to it
   a Free after the owner was put would go through a nil pointer *)
Inductive bstate := SLive | SDetached | SFreed | SReturned.
Definition bstep (s : bstate) (e : bev) : option bstate :=
  match s, e with
  | SLive, BUse => Some SLive
  | SLive, BFree => Some SFreed
  | SLive, BRet => Some SReturned
  | SLive, BOwnerPut => Some SDetached
  | SDetached, BRet => Some SReturned
  | SDetached, _ => None
  | SFreed, BOwnerPut => Some SFreed
  | SFreed, _ => None
  | SReturned, _ => None
  end.
Fixpoint brun (s : bstate) (l : list bev) : option bstate :=
  match l with
  | [] => Some s
  | e :: r => match bstep s e with Some s' => brun s' r | None => None end
  end.
Definition disc_ok (l : list bev) : bool :=
  match brun SLive l with Some SFreed | Some SReturned => true | _ => false end.

Lemma brun_freed_tail : forall post, (exists s, brun SFreed post = Some s) ->
  ~ In BUse post /\ ~ In BFree post /\ ~ In BRet post.
Proof.
  induction post as [|e post IH]; intros [s Hs]; [repeat split; intros []|].
  cbn [brun] in Hs. destruct e; cbn [bstep] in Hs; try discriminate.
  destruct (IH (ex_intro _ s Hs)) as [A [B C]].
  repeat split; intros [H|H]; try discriminate; auto.
Qed.

Lemma brun_app s a b : brun s (a ++ b)%list = match brun s a with Some s' => brun s' b | None => None end.
Proof.
  revert s. induction a as [|e a IH]; intros s; cbn [app brun]; [reflexivity|].
  destruct (bstep s e); [apply IH|reflexivity].
Qed.

(* the discipline the checker enforces: once freed, a buffer is never used, freed or returned
   again, and a buffer that is not freed is returned to the caller *)
Theorem disc_ok_sound l : disc_ok l = true ->
  (forall pre post, l = (pre ++ BFree :: post)%list -> ~ In BUse post /\ ~ In BFree post /\ ~ In BRet post) /\
  (In BFree l \/ In BRet l).
Proof.
  unfold disc_ok. intros H. split.
  - intros pre post ->. rewrite brun_app in H.
    destruct (brun SLive pre) as [s|] eqn:Hpre; [|discriminate].
    cbn [brun] in H. destruct s; cbn [bstep] in H; try discriminate.
    apply brun_freed_tail. destruct (brun SFreed post) as [s'|]; [eexists; reflexivity|discriminate].
  - assert (G : forall l s, brun s l = Some SFreed \/ brun s l = Some SReturned ->
              s = SFreed \/ s = SReturned \/ In BFree l \/ In BRet l).
    { clear. induction l as [|e l IH]; intros s Hs; cbn [brun] in Hs.
      - destruct Hs as [Hs|Hs]; injection Hs as ->; auto.
      - destruct (bstep s e) as [s'|] eqn:E; [|destruct Hs; discriminate].
        destruct (IH s' Hs) as [->|[->|[Hi|Hi]]].
        + destruct s, e; cbn in E; try discriminate; auto; right; right; left; left; reflexivity.
        + destruct s, e; cbn in E; try discriminate; right; right; right; left; reflexivity.
        + right; right; left; right; exact Hi.
        + right; right; right; right; exact Hi. }
    destruct (brun SLive l) as [[| | |]|] eqn:E; try discriminate.
    + destruct (G l SLive (or_introl E)) as [X|[X|X]]; try discriminate; exact X.
    + destruct (G l SLive (or_intror E)) as [X|[X|X]]; try discriminate; exact X.
Qed.

(* ---------------- who holds a pooled object ---------------- *)
(* The ownership facts above describe the functions that are KNOWN to hold a pooled object.  This census
   (regenerated from the source by gen/c08_poolfacts.go) lists EVERY function of the package that calls the
   Get or the Put wrapper of a pool (getSliceEncoder / putSliceEncoder), with the variable the object is
   bound to, the number of Get and Put calls, and every place where storage of the object ESCAPES: an
   occurrence of x.elems that is not indexed (x.elems[i]), ranged over or measured (len / cap) - e.g.
   append(s.elems, x.elems), which stores a reference to the collector's backing array in something that
   outlives the Put.  A holder is accepted if it has an ownership fact (its Put follows its last use), takes
   and returns exactly one object and lets no storage escape. *)
Record pholder := { ph_pool : string; ph_fn : string; ph_var : string; ph_gets : nat; ph_puts : nat; ph_escapes : list string }.

Definition holder_ok (owned : list string) (h : pholder) : bool :=
  existsb (String.eqb (ph_fn h ++ "/" ++ ph_var h)) owned &&
  Nat.eqb (ph_gets h) 1 && Nat.eqb (ph_puts h) 1 &&
  match ph_escapes h with [] => true | _ :: _ => false end.

Lemma holder_ok_sound owned h : holder_ok owned h = true ->
  In (ph_fn h ++ "/" ++ ph_var h) owned /\ ph_gets h = 1 /\ ph_puts h = 1 /\ ph_escapes h = [].
Proof.
  unfold holder_ok. rewrite !andb_true_iff. intros [[[A B] C] D].
  repeat split.
  - apply existsb_exists in A. destruct A as [x [Hin Heq]]. apply String.eqb_eq in Heq. subst x. exact Hin.
  - apply Nat.eqb_eq. exact B.
  - apply Nat.eqb_eq. exact C.
  - destruct (ph_escapes h); [reflexivity|discriminate].
Qed.

(* conversely: a new holder without an ownership fact, a second Get, a missing Put or an escaping slice is rejected *)
Lemma holder_escape_rejected owned h e r : ph_escapes h = e :: r -> holder_ok owned h = false.
Proof. intros E. unfold holder_ok. rewrite E. rewrite andb_false_r. reflexivity. Qed.

Lemma holder_unknown_rejected owned h : ~ In (ph_fn h ++ "/" ++ ph_var h) owned -> holder_ok owned h = false.
Proof.
  intros N. unfold holder_ok.
  destruct (existsb (String.eqb (ph_fn h ++ "/" ++ ph_var h)) owned) eqn:E; [|reflexivity].
  exfalso. apply N. apply existsb_exists in E. destruct E as [x [Hin Heq]]. apply String.eqb_eq in Heq. subst x. exact Hin.
Qed.


(* ---------------- state shared by a whole family of encoders ---------------- *)
(* Not everything an encoder holds is pooled.  clone() copies the POINTER to the EncoderConfig: the
   logger's long-lived encoder, the per-call clone EncodeEntry works on, and every encoder derived
   through With / Named / Clone look at one configuration (EncodeLevel, EncodeTime, EncodeDuration,
   EncodeCaller, EncodeName, NewReflectedEncoder, LineEnding, ConsoleSeparator, the keys); and
   EncodeEntry / Clone / writeContext run ON the long-lived encoder itself, whose fields every call
   of the logger sees.  The translator lists, per method of the encoders, the assignments it makes to
   such family-wide state (gen/c08_poolfacts.go: an assignment whose target is reached through the
   configuration pointer; in the methods that run on a long-lived encoder also an assignment to, or
   a mutating call on, the receiver). *)
Record sharedfact := {
  sf_fn : string;               (* "jsonEncoder.EncodeEntry" *)
  sf_entry : bool;              (* runs on a long-lived encoder of the family: the receiver is shared too *)
  sf_cfg_writes : list string;  (* assignments through the *EncoderConfig all relatives point to *)
  sf_recv_writes : list string  (* sf_entry only: assignments to / mutating calls on the receiver *)
}.
Definition sf_writes (f : sharedfact) : list string := (sf_cfg_writes f ++ sf_recv_writes f)%list.
(* the check: no per-call code writes family-wide state *)
Definition shared_readonly (l : list sharedfact) : bool :=
  forallb (fun f => match sf_writes f with [] => true | _ => false end) l.

(* Generic semantics.  The family-wide state is a store of named locations; a per-call PATH (one
   method of one member of the family, on one kind of input) produces its output from the store and
   its input, and leaves a list of assignments in the store.  A history is any sequence of calls by
   any members. *)
Section Family.
  Variables V I O : Type.
  Definition fstore := string -> V.
  Definition sset (f : string) (v : V) (s : fstore) : fstore := fun g => if String.eqb g f then v else s g.
  Record path := { p_name : string; p_out : fstore -> I -> O; p_writes : fstore -> I -> list (string * V) }.
  Definition apply_writes (ws : list (string * V)) (s : fstore) : fstore :=
    fold_left (fun s fv => sset (fst fv) (snd fv) s) ws s.
  Definition pstep (p : path) (i : I) (s : fstore) : fstore := apply_writes (p_writes p s i) s.
  Fixpoint frun (h : list (path * I)) (s : fstore) : fstore :=
    match h with [] => s | (p, i) :: t => frun t (pstep p i s) end.
  (* the output of call (p, i) after the history h, started in store s *)
  Definition fobserve (h : list (path * I)) (s : fstore) (p : path) (i : I) : O := p_out p (frun h s) i.

  (* the path is (an execution of) a listed function and assigns only what the facts list for it *)
  Definition conforms (facts : list sharedfact) (p : path) : Prop :=
    exists f, In f facts /\ sf_fn f = p_name p /\
              forall s i fv, In fv (p_writes p s i) -> In (fst fv) (sf_writes f).

  Lemma readonly_no_writes facts p : shared_readonly facts = true -> conforms facts p ->
    forall s i, p_writes p s i = [].
  Proof.
    intros Hro [f [Hin [_ Hw]]] s i.
    destruct (p_writes p s i) as [|fv l] eqn:W; [reflexivity|]. exfalso.
    assert (X : In (fst fv) (sf_writes f)) by (apply (Hw s i); rewrite W; left; reflexivity).
    unfold shared_readonly in Hro. rewrite forallb_forall in Hro. specialize (Hro f Hin).
    destruct (sf_writes f); [exact X|discriminate Hro].
  Qed.

  (* soundness of the check: whatever the members of the family did, the family-wide state is what
     the constructor left *)
  Theorem shared_sound facts : shared_readonly facts = true ->
    forall h, Forall (fun pi => conforms facts (fst pi)) h -> forall s, frun h s = s.
  Proof.
    intros Hro h. induction h as [|[p i] h IH]; intros Hh s; [reflexivity|].
    inversion Hh as [|x l Hp Hl]; subst. cbn [frun]. unfold pstep.
    rewrite (readonly_no_writes facts p Hro Hp). cbn [apply_writes fold_left]. apply IH. exact Hl.
  Qed.

  (* ... hence the output of a call is the same after any two histories of the family *)
  Theorem shared_history_independent facts : shared_readonly facts = true ->
    forall h1 h2, Forall (fun pi => conforms facts (fst pi)) h1 -> Forall (fun pi => conforms facts (fst pi)) h2 ->
    forall s p i, fobserve h1 s p i = fobserve h2 s p i.
  Proof.
    intros Hro h1 h2 H1 H2 s p i. unfold fobserve.
    rewrite (shared_sound facts Hro h1 H1 s), (shared_sound facts Hro h2 H2 s). reflexivity.
  Qed.
End Family.
Arguments p_name {V I O}.
Arguments p_out {V I O}.
Arguments p_writes {V I O}.
Arguments frun {V I O}.
Arguments fobserve {V I O}.
Arguments conforms {V I O}.

Theorem shared_sound_both (V I O : Type) facts : shared_readonly facts = true ->
  forall (h1 h2 : list (path V I O * I)),
  Forall (fun pi => conforms facts (fst pi)) h1 -> Forall (fun pi => conforms facts (fst pi)) h2 ->
  forall s, frun h1 s = s /\ forall p i, fobserve h1 s p i = fobserve h2 s p i.
Proof.
  intros Hro h1 h2 H1 H2 s. split; [apply (shared_sound V I O facts Hro h1 H1)|].
  intros p i. apply (shared_history_independent V I O facts Hro h1 h2 H1 H2).
Qed.

(* ... and the check is not vacuous: a path that assigns ONE location of the family-wide state a value
   it does not hold yet (EncodeEntry's fallback storing LowercaseLevelEncoder in EncodeLevel), and whose
   output reads that location, gives different outputs for the identical call before and after itself *)
Theorem shared_write_leaks {V I : Type} (f : string) (v : V) (s : fstore V) (i : I) : s f <> v ->
  let w := {| p_name := "w"; p_out := fun st _ => st f; p_writes := fun _ _ => [(f, v)] |} in
  conforms [{| sf_fn := "w"; sf_entry := true; sf_cfg_writes := [f]; sf_recv_writes := [] |}] w /\
  shared_readonly [{| sf_fn := "w"; sf_entry := true; sf_cfg_writes := [f]; sf_recv_writes := [] |}] = false /\
  fobserve [(w, i)] s w i <> fobserve [] s w i.
Proof.
  intros Hne w. split; [|split].
  - eexists. split; [left; reflexivity|]. split; [reflexivity|].
    intros s' i' fv [<-|[]]. left. reflexivity.
  - reflexivity.
  - unfold fobserve. cbn. unfold sset. rewrite String.eqb_refl. intros E. apply Hne. symmetry. exact E.
Qed.
